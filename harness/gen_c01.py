"""T-data for C01: source-shape facts of the context iterators that axis_nodes_impl mirrors (harness/shape.py)."""
import shape


def generate():
    return shape.generate('C01')
