"""T-data for C16: source-shape facts of the statements that the hand model mirrors (harness/shape.py)."""
import shape


def generate():
    return shape.generate('C16')


if __name__ == '__main__':
    print(generate())
