"""T-data for C05: source-shape facts of the statements that the hand model mirrors (harness/shape.py)."""
import shape


def generate():
    return shape.generate('C05')


if __name__ == '__main__':
    print(generate())
