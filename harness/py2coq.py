"""Fail-closed translator of a small pure subset of Python (ints and bools) to Gallina over Z.

Python int -> Z, // -> Z.div, % -> Z.modulo (both floor / sign of divisor, like Python's),
bool -> bool.  Statements: Assign to a simple name (SSA let-chain), If/elif/else, Return,
AugAssign.  Expressions: names, int/bool constants, + - * // %, unary -, comparisons (chained),
and/or/not, conditional expressions, abs/min/max/int, tuple indexing of module-level constant
tuples (emitted as nth on a Z list), calls to other translated functions, isinstance (through a
caller-supplied oracle).

Anything else raises Untranslatable: the obligation that depends on the fragment is then broken.
"""
import ast
import inspect
import textwrap


class Untranslatable(Exception):
    pass


BINOPS = {ast.Add: '+', ast.Sub: '-', ast.Mult: '*'}
CMPOPS = {ast.Lt: '<?', ast.LtE: '<=?', ast.Gt: '>?', ast.GtE: '>=?', ast.Eq: '=?'}


class Translator:
    def __init__(self, bool_names=(), isinstance_oracle=None, calls=None, consts=None, renames=None, lens=None,
                 membership=None):
        self.lens = lens or {}              # "len(<expr text>)" -> coq Z term
        self.membership = membership or {}  # "<unparsed 'x' in y>" -> coq bool term
        self.bool_names = set(bool_names)
        self.isinstance_oracle = isinstance_oracle or (lambda var, cls: None)
        self.calls = calls or {}        # python function name -> coq function name
        self.consts = consts or {}      # python name -> coq term (Z list for tuples)
        self.renames = renames or {}

    # ---- expressions of type Z
    def z(self, e):
        if isinstance(e, ast.Constant) and isinstance(e.value, int) and not isinstance(e.value, bool):
            return str(e.value) if e.value >= 0 else f'({e.value})'
        if isinstance(e, ast.Attribute) and ast.unparse(e) in self.renames:
            return self.renames[ast.unparse(e)]
        if isinstance(e, ast.Name):
            if e.id in self.bool_names:
                raise Untranslatable(f'bool name {e.id} used as int')
            return self.renames.get(e.id, e.id)
        if isinstance(e, ast.BinOp):
            if type(e.op) in BINOPS:
                return f'({self.z(e.left)} {BINOPS[type(e.op)]} {self.z(e.right)})'
            if isinstance(e.op, ast.FloorDiv):
                return f'({self.z(e.left)} / {self.z(e.right)})'
            if isinstance(e.op, ast.Mod):
                return f'({self.z(e.left)} mod {self.z(e.right)})'
            raise Untranslatable(ast.dump(e.op))
        if isinstance(e, ast.UnaryOp) and isinstance(e.op, ast.USub):
            return f'(- {self.z(e.operand)})'
        if isinstance(e, ast.UnaryOp) and isinstance(e.op, ast.UAdd):
            return self.z(e.operand)
        if isinstance(e, ast.IfExp):
            return f'(if {self.b(e.test)} then {self.z(e.body)} else {self.z(e.orelse)})'
        if isinstance(e, ast.Call) and isinstance(e.func, ast.Name):
            f = e.func.id
            args = e.args
            if e.keywords:
                raise Untranslatable('keyword arguments')
            if f == 'len' and len(args) == 1 and ast.unparse(args[0]) in self.lens:
                return self.lens[ast.unparse(args[0])]
            if f == 'int' and len(args) == 1:
                try:
                    return self.z(args[0])
                except Untranslatable:
                    return f'(if {self.b(args[0])} then 1 else 0)'
            if f == 'abs' and len(args) == 1:
                return f'(Z.abs {self.z(args[0])})'
            if f == 'int' and len(args) == 1:
                return self.z(args[0])
            if f in ('min', 'max') and len(args) == 2:
                return f'(Z.{f} {self.z(args[0])} {self.z(args[1])})'
            if f in self.calls:
                return '(' + self.calls[f] + ' ' + ' '.join(self.arg(a) for a in args) + ')'
            if f == 'sum' and len(args) == 1 and isinstance(args[0], ast.GeneratorExp):
                return self.sum_gen(args[0])
            raise Untranslatable(f'call {f}')
        if isinstance(e, ast.Subscript) and isinstance(e.value, ast.Name) and e.value.id in self.consts:
            return f'(nth (Z.to_nat {self.z(e.slice)}) {self.consts[e.value.id]} 0)'
        raise Untranslatable(ast.dump(e)[:200])

    def sum_gen(self, g):
        # sum(T[m] for m in range(a, b))  ->  sum_range (fun m => T[m]) a b
        if len(g.generators) != 1 or g.generators[0].ifs:
            raise Untranslatable('generator shape')
        gen = g.generators[0]
        if not (isinstance(gen.target, ast.Name) and isinstance(gen.iter, ast.Call)
                and isinstance(gen.iter.func, ast.Name) and gen.iter.func.id == 'range'
                and len(gen.iter.args) == 2):
            raise Untranslatable('generator shape')
        v = gen.target.id
        return (f'(sum_range (fun {v} => {self.z(g.elt)}) {self.z(gen.iter.args[0])} '
                f'{self.z(gen.iter.args[1])})')

    def arg(self, a):
        try:
            return self.z(a)
        except Untranslatable:
            return self.b(a)

    # ---- expressions of type bool
    def b(self, e):
        if isinstance(e, ast.Constant) and isinstance(e.value, bool):
            return 'true' if e.value else 'false'
        if isinstance(e, ast.Name) and e.id in self.bool_names:
            return self.renames.get(e.id, e.id)
        if isinstance(e, ast.BoolOp):
            op = '&&' if isinstance(e.op, ast.And) else '||'
            return '(' + f' {op} '.join(self.b(v) for v in e.values) + ')'
        if isinstance(e, ast.UnaryOp) and isinstance(e.op, ast.Not):
            try:
                return f'(negb {self.b(e.operand)})'
            except Untranslatable:
                return f'({self.z(e.operand)} =? 0)'          # "not n" on an int
        if isinstance(e, ast.Compare) and ast.unparse(e) in self.membership:
            return self.membership[ast.unparse(e)]
        if isinstance(e, ast.Attribute) or isinstance(e, ast.Name) and e.id in self.renames and e.id in self.bool_names:
            pass
        if isinstance(e, ast.Compare):
            parts = []
            left = e.left
            for op, right in zip(e.ops, e.comparators):
                if isinstance(op, ast.In) and isinstance(right, ast.Tuple):
                    parts.append('(' + ' || '.join(f'({self.z(left)} =? {self.z(x)})' for x in right.elts) + ')')
                elif isinstance(op, ast.NotEq):
                    parts.append(f'(negb ({self.z(left)} =? {self.z(right)}))')
                elif type(op) in CMPOPS:
                    parts.append(f'({self.z(left)} {CMPOPS[type(op)]} {self.z(right)})')
                else:
                    raise Untranslatable(ast.dump(op))
                left = right
            return parts[0] if len(parts) == 1 else '(' + ' && '.join(parts) + ')'
        if isinstance(e, ast.Call) and isinstance(e.func, ast.Name) and e.func.id == 'isinstance':
            var = e.args[0].id if isinstance(e.args[0], ast.Name) else None
            cls = ast.unparse(e.args[1])
            r = self.isinstance_oracle(var, cls)
            if r is None:
                raise Untranslatable(f'isinstance({var}, {cls})')
            return r
        if isinstance(e, ast.Call) and isinstance(e.func, ast.Name) and e.func.id in self.calls:
            return '(' + self.calls[e.func.id] + ' ' + ' '.join(self.arg(a) for a in e.args) + ')'
        if isinstance(e, ast.IfExp):
            return f'(if {self.b(e.test)} then {self.b(e.body)} else {self.b(e.orelse)})'
        raise Untranslatable(ast.dump(e)[:200])

    # ---- statement blocks ending in return (on every path)
    def block(self, stmts, ret='z'):
        if not stmts:
            raise Untranslatable('block falls off the end')
        s, rest = stmts[0], stmts[1:]
        if isinstance(s, ast.Expr) and isinstance(s.value, ast.Constant) and isinstance(s.value.value, str):
            return self.block(rest, ret)      # docstring
        if isinstance(s, ast.Return):
            return self.z(s.value) if ret == 'z' else self.b(s.value)
        if (isinstance(s, ast.Assign) and len(s.targets) == 1 and isinstance(s.targets[0], ast.Name)
                and isinstance(s.value, ast.IfExp) and isinstance(s.value.body, ast.Name)
                and isinstance(s.value.orelse, ast.Name) and s.value.body.id in self.consts
                and s.value.orelse.id in self.consts):
            n = s.targets[0].id           # table = T1 if cond else T2
            v = f'(if {self.b(s.value.test)} then {self.consts[s.value.body.id]} else {self.consts[s.value.orelse.id]})'
            self.consts[n] = n
            return f'(let {n} := {v} in\n {self.block(rest, ret)})'
        if isinstance(s, ast.Match):
            return self.match_stmt(s, rest, ret)
        if isinstance(s, ast.Assign) and len(s.targets) == 1 and isinstance(s.targets[0], ast.Name):
            n = s.targets[0].id
            try:
                v = self.z(s.value)
                self.bool_names.discard(n)
            except Untranslatable:
                v = self.b(s.value)
                self.bool_names.add(n)
            return f'(let {n} := {v} in\n {self.block(rest, ret)})'
        if isinstance(s, ast.AugAssign) and isinstance(s.target, ast.Name) and type(s.op) in BINOPS:
            n = s.target.id
            return f'(let {n} := ({n} {BINOPS[type(s.op)]} {self.z(s.value)}) in\n {self.block(rest, ret)})'
        if isinstance(s, ast.If):
            saved = set(self.bool_names)
            then = self.block(s.body + ([] if self.returns(s.body) else rest), ret)
            self.bool_names = set(saved)
            other = self.block((s.orelse if s.orelse else []) + ([] if (s.orelse and self.returns(s.orelse)) else rest), ret)
            self.bool_names = saved
            return f'(if {self.b(s.test)} then {then}\n else {other})'
        raise Untranslatable(ast.dump(s)[:200])

    def match_stmt(self, s, rest, ret):
        subj = self.z(s.subject)

        def pat(p):
            if isinstance(p, ast.MatchValue):
                return f'({subj} =? {self.z(p.value)})'
            if isinstance(p, ast.MatchOr):
                return '(' + ' || '.join(pat(q) for q in p.patterns) + ')'
            if isinstance(p, ast.MatchAs) and p.pattern is None:
                # wildcard "_" or capture "name" (only the subject's own name is accepted as capture)
                if p.name is None or (isinstance(s.subject, ast.Name) and p.name == s.subject.id):
                    return 'true'
            raise Untranslatable('match pattern ' + ast.dump(p)[:100])
        out = None
        for case in reversed(s.cases):
            cond = pat(case.pattern)
            if case.guard is not None:
                cond = f'({cond} && {self.b(case.guard)})' if cond != 'true' else self.b(case.guard)
            saved_b, saved_c = set(self.bool_names), dict(self.consts)
            body = self.block(case.body + ([] if self.returns(case.body) else rest), ret)
            self.bool_names, self.consts = saved_b, saved_c
            if out is None:
                if cond != 'true':
                    raise Untranslatable('match without a final catch-all case')
                out = body
            else:
                out = f'(if {cond} then {body}\n else {out})'
        return out

    def returns(self, stmts):
        """every path of the block ends in return"""
        if not stmts:
            return False
        last = stmts[-1]
        if isinstance(last, ast.Return):
            return True
        if isinstance(last, ast.If):
            return self.returns(last.body) and bool(last.orelse) and self.returns(last.orelse)
        if isinstance(last, ast.Match):
            return all(self.returns(c.body) for c in last.cases)
        return False


def function_ast(module_source, name):
    tree = ast.parse(module_source)
    for node in ast.walk(tree):
        if isinstance(node, (ast.FunctionDef,)) and node.name == name:
            return node
    raise Untranslatable(f'function {name} not found')


def find_if(fn, pred):
    """first ast.If (in source order) in fn whose test satisfies pred(unparsed test)"""
    for node in ast.walk(fn):
        if isinstance(node, ast.If) and pred(ast.unparse(node.test)):
            return node
    raise Untranslatable(f'anchor if-statement not found in {fn.name}')


def translate_function(src, name, coq_name=None, ret='z', bool_params=(), **kw):
    fn = function_ast(src, name)
    params = [a.arg for a in fn.args.args]
    t = Translator(bool_names=bool_params, **kw)
    body = t.block(fn.body, ret)
    sig = ' '.join(f'({p} : {"bool" if p in bool_params else "Z"})' for p in params)
    return f'Definition {coq_name or name} {sig} : {"Z" if ret == "z" else "bool"} :=\n {body}.\n'
