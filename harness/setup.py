import glob
import importlib
import os
import sys
sys.path.insert(0, os.path.dirname(os.path.abspath(__file__)))
import core

core.setup_impl_path()
for g in sorted(glob.glob(os.path.join(os.path.dirname(os.path.abspath(__file__)), 'gen_c*.py'))):
    name = os.path.basename(g)[:-3]
    print('generate', name, flush=True)
    importlib.import_module(name).generate()
targets = core.all_v_files()
try:
    core.coq_make(targets, timeout=3000)
    print('coq build ok:', len(targets), 'files')
except core.CoqError as e:
    print('coq build FAILED:', e)
    sys.exit(1)
