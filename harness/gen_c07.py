"""T-data for C07: source-shape facts of the type ladders that C07/Model.v mirrors (harness/shape.py)."""
import shape


def generate():
    return shape.generate('C07')
