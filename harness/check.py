"""Entry point:  bin/check Cnn [--tier quick|thorough] [--replay file]"""
import argparse
import importlib
import json
import os
import sys
import traceback

sys.path.insert(0, os.path.dirname(os.path.abspath(__file__)))
import core  # noqa: E402


def main():
    ap = argparse.ArgumentParser()
    ap.add_argument('pid')
    ap.add_argument('--tier', default=os.environ.get('VERIF_TIER', 'quick'), choices=['quick', 'thorough'])
    ap.add_argument('--replay')
    a = ap.parse_args()
    seed = int(os.environ.get('VERIF_SEED', '0') or 0)
    core.setup_impl_path()
    mod = importlib.import_module('props.' + a.pid.lower())
    if a.replay:
        rec = json.load(open(a.replay))
        return mod.replay(rec)
    chk = core.Check(a.pid, a.tier, seed)
    try:
        mod.run(chk)
    except Exception as e:  # a crash of the machinery must not pass silently
        traceback.print_exc()
        chk.obligations.append({'name': 'harness-completed', 'ok': False, 'detail': repr(e)[:500]})
    return mod.finish(chk) if hasattr(mod, 'finish') else chk.finish()


if __name__ == '__main__':
    sys.exit(main())
