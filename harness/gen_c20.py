"""T-data for C20: source-shape facts of the statements that the hand model mirrors (harness/shape.py)."""
import shape


def generate():
    return shape.generate('C20')


if __name__ == '__main__':
    print(generate())
