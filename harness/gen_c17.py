"""T-data for C17: source-shape facts of the statements that the XML / JSON serialization checks rely on (harness/shape.py)."""
import shape


def generate():
    return shape.generate('C17')


if __name__ == '__main__':
    print(generate())
