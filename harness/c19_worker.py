"""Worker for C19: one process-global-state scenario per invocation (argv[1] = JSON task); prints one JSON line.
Must be run in a FRESH process under a timeout: a held lock makes every later collation call hang."""
import json
import sys


def main():
    task = json.loads(sys.argv[1])
    import locale
    import os
    import decimal
    import elementpath
    from elementpath import select, XPath2Parser, ElementPathError
    from elementpath.xpath31 import XPath31Parser
    from elementpath.collations import _locale_collate_lock
    kind = task['kind']
    if kind == 'probe':
        out = {}
        for name in task['locales']:
            try:
                old = locale.setlocale(locale.LC_COLLATE, None)
                locale.setlocale(locale.LC_COLLATE, name if isinstance(name, str) else tuple(name))
                locale.setlocale(locale.LC_COLLATE, old)
                out[json.dumps(name)] = True
            except (locale.Error, TypeError, ValueError):
                out[json.dumps(name)] = False
        print(json.dumps(out))
        return
    if kind == 'sequence':
        res = []
        env0 = dict(os.environ)
        ctx0 = decimal.getcontext().copy()
        init = locale.setlocale(locale.LC_COLLATE, None)
        for expr in task['exprs']:
            try:
                v = select(None, expr, item=1, parser=XPath31Parser)
                o = ['ok', repr(v)[:60]]
            except ElementPathError as e:
                o = ['err', str(e.code)]
            except Exception as e:
                o = ['exc', type(e).__name__]
            res.append({'outcome': o, 'locked': _locale_collate_lock.locked(),
                        'lc_collate': locale.setlocale(locale.LC_COLLATE, None)})
            sys.stdout.write('')
        c1 = decimal.getcontext()
        print(json.dumps({'init': init, 'steps': res, 'env_same': dict(os.environ) == env0,
                          'decimal_same': (c1.prec, c1.rounding, c1.Emax, c1.Emin, tuple(sorted(map(str, c1.traps.items()))))
                          == (ctx0.prec, ctx0.rounding, ctx0.Emax, ctx0.Emin, tuple(sorted(map(str, ctx0.traps.items()))))}))
        return
    if kind == 'threads':
        import threading
        import xml.etree.ElementTree as ET
        from elementpath import Selector
        root = ET.XML('<r><a>b</a><a>a</a><a>C</a><a>10</a><a>9</a></r>')
        exprs = task['exprs']
        seq = []
        for e in exprs:
            try:
                seq.append(repr(Selector(e, parser=XPath31Parser).select(root))[:200])
            except ElementPathError as ex:
                seq.append('err ' + str(ex.code))
        results = [None] * (len(exprs) * task['repeat'])

        def work(k):
            e = exprs[k % len(exprs)]
            try:
                results[k] = repr(Selector(e, parser=XPath31Parser).select(root))[:200]
            except ElementPathError as ex:
                results[k] = 'err ' + str(ex.code)
            except Exception as ex:
                results[k] = 'exc ' + type(ex).__name__
        ths = [threading.Thread(target=work, args=(k,)) for k in range(len(results))]
        for t in ths:
            t.start()
        for t in ths:
            t.join(60)
        alive = sum(t.is_alive() for t in ths)
        print(json.dumps({'sequential': seq, 'threaded': results, 'alive': alive, 'locked': _locale_collate_lock.locked(),
                          'lc_collate': locale.setlocale(locale.LC_COLLATE, None)}))
        if alive:
            os._exit(3)
        return


if __name__ == '__main__':
    main()
