"""C08 — sequence expressions and sequence/aggregate functions equal the F&O list model.

proof:  coq/theories/C08/{Model,Proofs,Properties}.v : the generator loops (enumerate counters, inserted flag, comparison
        chains) refined to the F&O list definitions; every = not some not; multi-variable for = nested (dependent) for.
tie:    correspondence through select(None, expr, variables=..., item=1) under the 2.0 and 3.1 parsers on integer
        sequences (functions) and on expression templates for for / some / every / ! / predicates.
PARTIAL: aggregates on doubles (summation order, rounding) and collation-dependent functions are not modelled.
"""
import math

import core

IMPORTS = 'From EP Require Import C08.Model C08.Run.'
Z = core.zlit
FN = {1: 'insert-before($S, $a, $I)', 2: 'remove($S, $a)', 3: 'index-of($S, $a)', 4: 'reverse($S)', 5: 'subsequence($S, $x)',
      6: 'subsequence($S, $x, $y)', 7: 'zero-or-one($S)', 8: 'one-or-more($S)', 9: 'exactly-one($S)', 10: 'distinct-values($S)',
      11: 'sum($S)', 12: 'min($S)', 13: 'max($S)', 14: 'count($S)', 15: 'head($S)', 16: 'tail($S)', 17: 'avg($S)', 18: 'empty($S)', 19: 'exists($S)'}
TPL = {1: 'for $x in $S, $y in (1 to $x) return $x * 10 + $y',
       2: 'for $x in $S, $y in $T return $x * 100 + $y',
       3: 'some $x in $S, $y in (1 to $x) satisfies $y = $n',
       4: 'every $x in $S, $y in $T satisfies $x < $y + $n',
       5: '$S ! (. + $n, .)',
       6: '$S[$n]',
       7: '$S[. > $n]',
       8: '$S[position() < last() and position() > 1]',
       9: 'for $x in $S, $y in $T[. < $x], $z in ($y to $x) return $x * 100 + $y * 10 + $z',
       10: '(every $x in $S satisfies $x < $n, some $x in $S satisfies not($x < $n))',
       11: '($S, $T, $n)',
       12: '$n to $n + count($S)'}
ERR = {'FORG0003': 3, 'FORG0004': 4, 'FORG0005': 5}


def ext_of(x):
    if x != x:
        return (1, 0)
    if x == math.inf:
        return (2, 0)
    if x == -math.inf:
        return (3, 0)
    from fractions import Fraction
    return (0, math.floor(Fraction(x) + Fraction(1, 2)))      # exact: fn:round = floor(x + 1/2) on the exact value


def run(chk):
    from decimal import Decimal
    from fractions import Fraction
    from elementpath import select, XPath2Parser, ElementPathError
    from elementpath.xpath31 import XPath31Parser
    rng = chk.rng
    quick = chk.tier == 'quick'
    chk.trusted += ['XPathContext.iter_product is modelled as the dependent Cartesian product it computes, not as its index-stack loop '
                    '(validated by the dependent-range templates)',
                    'rounding of subsequence arguments (helpers.round_number) is C06.round_md = floor(x + 1/2), applied by the harness',
                    'PARTIAL: aggregates on doubles, collations, atomization of nodes are not modelled']
    for f in ('elementpath/xpath2/_xpath2_functions.py', 'elementpath/xpath2/_xpath2_operators.py', 'elementpath/xpath_context.py',
              'elementpath/xpath1/_xpath1_functions.py', 'elementpath/xpath30/_xpath30_operators.py', 'elementpath/sequences.py'):
        chk.record_source(f)
    chk.forbidden_scan(['C08'])
    proved = chk.prove(['theories/C08/Model.v', 'theories/C08/Proofs.v', 'theories/C08/IterProduct.v', 'theories/C08/Run.v'], 'theories/C08/Properties.v')
    proved = chk.prove(['theories/C15/Keys.v', 'theories/C15/KeysProofs.v', 'theories/C08/Typed.v', 'theories/C08/TypedProofs.v',
                        'theories/C08/TypedRun.v'], 'theories/C08/TypedProperties.v') and proved
    model_ok = True
    if not proved:
        try:
            core.coq_make(['theories/C08/Model.v', 'theories/C08/Run.v', 'theories/C08/Typed.v', 'theories/C08/TypedRun.v'])
        except core.CoqError as e:
            chk.notes.append('model does not build: ' + str(e))
            model_ok = False

    def rseq(maxlen=5, lo=-2, hi=6):
        return [rng.randint(lo, hi) for _ in range(rng.randint(0, maxlen))]
    positions = [math.nan, math.inf, -math.inf] + [k / 2 for k in range(-5, 13)] + [0.49999999999999994, 2.5000000000000004]
    cases = []
    seqs = [[], [7], [1, 2], [1, 2, 3], [3, 1, 3, 2, 1]]
    for S in seqs:
        for a in range(-2, 7):
            for I in ([], [9], [8, 9]):
                cases.append(('fn', 1, S, a, I, None, None))
            cases.append(('fn', 2, S, a, [], None, None))
            cases.append(('fn', 3, S, a, [], None, None))
        for f in (4, 7, 8, 9, 10, 11, 12, 13, 14, 15, 16, 17, 18, 19):
            cases.append(('fn', f, S, 0, [], None, None))
        for x in positions:
            cases.append(('fn', 5, S, 0, [], x, None))
            for y in positions if S == [1, 2, 3] or not quick else positions[::4]:
                cases.append(('fn', 6, S, 0, [], x, y))
    for _ in range(300 if quick else 20000):
        f = rng.choice(list(FN))
        cases.append(('fn', f, rseq(7), rng.randint(-3, 9), rseq(3), rng.choice(positions), rng.choice(positions)))
    for t in TPL:
        for _ in range(40 if quick else 2000):
            cases.append(('tpl', t, rseq(4, 0, 5), rseq(4, 0, 6), rng.randint(-1, 6)))
        cases.append(('tpl', t, [1, 2, 3], [1, 2], 3))
        cases.append(('tpl', t, [], [1], 1))

    terms = []
    for c in cases:
        if c[0] == 'fn':
            _, f, S, a, I, x, y = c
            ex, ey = ext_of(x) if x is not None else (0, 0), ext_of(y) if y is not None else (0, 0)
            if f in (5, 6):
                terms.append(f'run_fn {f} {core.zlist(S)} {ex[0]} {Z(ex[1])} {ey[0]} {Z(ey[1])} {core.zlist(I)}')
            else:
                terms.append(f'run_fn {f} {core.zlist(S)} {Z(a)} 0 0 0 {core.zlist(I)}')
        else:
            _, t, S, T, n = c
            terms.append(f'run_tpl {t} {core.zlist(S)} {core.zlist(T)} {Z(n)}')
    model = core.run_coq_cases('C08', IMPORTS, terms, chunk=500, tag='seq') if model_ok else [None] * len(cases)

    for i, c in enumerate(cases):
        for P in (XPath2Parser, XPath31Parser):
            if c[0] == 'fn' and c[1] in (15, 16) and P is XPath2Parser:
                continue                      # head / tail are XPath 3.0 functions
            if c[0] == 'tpl' and c[1] == 5 and P is XPath2Parser:
                continue                      # simple map is XPath 3.0
            chk.evaluations += 1
            if c[0] == 'fn':
                _, f, S, a, I, x, y = c
                expr, var = FN[f], {'S': S, 'a': a, 'I': I, 'x': x if x is not None else 0.0, 'y': y if y is not None else 0.0}
                chk.count(FN[f].split('(')[0])
            else:
                _, t, S, T, n = c
                expr, var = TPL[t], {'S': S, 'T': T, 'n': n}
                chk.count('template %d' % t)
            desc = {'expr': expr, 'vars': {k: repr(v) for k, v in var.items() if '$' + k in expr}, 'parser': P.__name__}
            try:
                r = select(None, expr, variables=var, item=1, parser=P)
                if c[0] == 'fn' and c[1] in (7, 8, 9):
                    got = [0] + (r if isinstance(r, list) else [r])
                elif c[0] == 'fn' and c[1] == 17:
                    if r == [] or r is None:
                        got = []
                    else:
                        fr = Fraction(r)
                        got = ['avg', fr]
                elif isinstance(r, list):
                    got = [int(v) if isinstance(v, bool) else v for v in r]
                elif isinstance(r, bool):
                    got = [int(r)]
                else:
                    got = [r]
            except ElementPathError as e:
                code = (e.code or '').split(':')[-1]
                got = [1, ERR.get(code, code)]
            except Exception as e:
                chk.violation('foreign-exception', desc, repr(e))
                continue
            if model[i] is None:
                continue
            mo = list(model[i])
            if got[:1] == ['avg']:
                # xs:decimal division has implementation-defined precision: decimal.Decimal's 28 digits (modelled external)
                ok = len(mo) == 2 and Fraction(Decimal(mo[0]) / Decimal(mo[1])) == got[1]
            else:
                ok = got == mo
            if not ok:
                chk.corr_fail.append((desc, repr(got), mo))
                chk.violation('impl-vs-spec', desc, {'impl': repr(got), 'spec(model)': mo})
        if model[i]:
            chk.nontrivial.add(repr(c))
        if i % 499 == 0:
            chk.sample({'case': repr(c)[:200], 'model': model[i]})
    # ---- fn:string-join against the F&O definition (Model.string_join) and the fold the code runs (py_join)
    ALPHA = ['', 'a', 'b', 'ab', ' ', ',', '-', 'x y', '\u00e9', '\U0001d11e', "'", '"', 'a,b', '\n']
    jcases = [([], ','), (['a'], ','), (['a', 'b'], ''), (['', ''], '-'), (['', 'a', ''], ', '), (['a', 'b', 'c'], '\U0001d11e')]
    for _ in range(150 if quick else 6000):
        jcases.append(([rng.choice(ALPHA) for _ in range(rng.randint(0, 5))], rng.choice(ALPHA)))

    def cps(t):
        return '[' + '; '.join(str(ord(c)) for c in t) + ']'
    jmodel = core.run_coq_cases('C08', IMPORTS, [f"run_join [{'; '.join(cps(t) for t in l)}] {cps(sep)}" for l, sep in jcases],
                                chunk=500, tag='join', preamble='Open Scope Z_scope.') if model_ok else []
    for (l, sep), mo in zip(jcases, jmodel):
        for P in (XPath2Parser, XPath31Parser):
            chk.evaluations += 1
            chk.count('string-join')
            desc = {'expr': 'string-join($S, $sep)', 'S': l, 'sep': sep, 'parser': P.__name__}
            try:
                got = select(None, 'string-join($S, $sep)', variables={'S': l, 'sep': sep}, item=1, parser=P)
                alt = select(None, "string-join(for $x in $S return concat($x, ''), $sep)", variables={'S': l, 'sep': sep}, item=1, parser=P)
                one = select(None, 'string-join($S)', variables={'S': l}, item=1, parser=P) if P is XPath31Parser else None
            except Exception as e:
                chk.violation('foreign-exception' if not isinstance(e, ElementPathError) else 'impl-vs-spec', desc, repr(e)[:200])
                continue
            mi, ms = [''.join(chr(c) for c in x) for x in mo]
            if got != mi:
                chk.corr_fail.append((desc, got, mi))
            if got != ms or alt != ms:
                chk.violation('impl-vs-spec', desc, {'impl': got, 'through a for expression': alt, 'spec': ms, 'model': mi})
            if one is not None and one != ''.join(l):
                chk.violation('impl-vs-spec', desc, {'string-join($S)': one, 'spec': ''.join(l)})
        chk.nontrivial.add(repr(('join', l, sep)))
    # ---- the standard equivalence subsequence(S, a, b) = S[round(a) le position() and position() lt round(a) + round(b)]
    #      as two expressions of the implementation
    for _ in range(150 if quick else 5000):
        S = rseq(7)
        x, y = rng.choice(positions), rng.choice(positions)
        for P in (XPath2Parser, XPath31Parser):
            chk.evaluations += 1
            chk.count('equivalence:subsequence = positional filter')
            var = {'S': S, 'x': x, 'y': y}
            desc = {'S': S, 'x': repr(x), 'y': repr(y), 'parser': P.__name__}
            try:
                a = select(None, 'subsequence($S, $x, $y)', variables=var, item=1, parser=P)
                b = select(None, '$S[round($x) le position() and position() lt round($x) + round($y)]', variables=var, item=1, parser=P)
                a2 = select(None, 'subsequence($S, $x)', variables=var, item=1, parser=P)
                b2 = select(None, '$S[round($x) le position()]', variables=var, item=1, parser=P)
            except Exception as e:
                chk.violation('foreign-exception' if not isinstance(e, ElementPathError) else 'impl-vs-spec', desc, repr(e)[:200])
                continue
            if a != b or a2 != b2:
                chk.violation('impl-vs-spec', desc, {'subsequence/3': a, 'filter/3': b, 'subsequence/2': a2, 'filter/2': b2})
        chk.nontrivial.add(repr(('subseq-equiv', S, repr(x), repr(y))))
    # ---- typed atomic values: distinct-values / index-of / min / max / sum / avg against C08/Typed.v
    from props import c08_typed
    c08_typed.run(chk, model_ok)
    chk.rule = ('function grid: sequences <= 5 x position arguments -2..6 / doubles {NaN, +-INF, halves -2.5..6, neighbours of .5} '
                'x insertion sequences; seeded random cases for 17 functions; 12 expression templates (dependent for / some / every, '
                'simple map, positional and boolean predicates, comma, range) x random sequences; 2.0 and 3.1 parsers; '
                'typed values: every pair of 55 typed atomic values through distinct-values and index-of, seeded sequences (mostly of one '
                'comparable group, some mixed) through distinct-values / index-of / min / max / sum / avg; '
                'non-trivial = non-empty model result, distinct by case')
    chk.obligations.append({'name': 'correspondence:impl==model(list model)', 'ok': not chk.corr_fail,
                            'detail': f'{len(chk.corr_fail)} disagreements' + (': ' + repr(chk.corr_fail[0])[:500] if chk.corr_fail else '')})


def replay(rec):
    print(rec)
    return 0
