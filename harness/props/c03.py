"""C03 — only ElementPathError escapes; parser instances stay reusable; no hang.

proof:  coq/theories/C03/{Model,Proofs,Properties}.v (+ Common/Pratt.v totality) over Gen/C03Shape.v (T-data: the
        try/finally structure of Parser.parse and every writer of parse_arguments, re-read from the AST each run)
tie:    T-data + correspondence by HISTORIES: sequences of parses on one instance vs a fresh instance per parse
        (outcome and instance state compared); foreign-exception / hang exploration streams in sub-processes.
PARTIAL: that no foreign exception escapes from the ~250 unmodelled function implementations is exploration.
"""
import json
import os
import subprocess
import sys

import core
import gen_c03

SEEDS = [
    "1 + 2 * 3", "/ r / a [ 1 ]", "// a", "count ( // a ) > 1", "string ( / r / @a )", "concat ( 'a' , 'b' , $s )", "- 1 + 2", "$v + 1",
    "a | b", ". / a [ . = 1 ]", "sum ( ( 1 , 2 ) )", "for $x in ( 1 , 2 ) return $x + 1", "if ( 1 ) then 2 else 3",
    "some $x in ( 1 , 2 ) satisfies $x = 2", "1 to 3", "( 1 , 2 ) [ 2 ]", "xs:int ( '1' ) + 1", "1 instance of xs:integer",
    "'a' cast as xs:string", "1 castable as xs:int", "substring ( 'abc' , 2 , 1 )", "/ r / b / text ( )", "// comment ( )",
    "/ r / b / @c", "ancestor::* / a", "following-sibling::a", "let $x := 1 return $x", "( 1 , 2 ) ! ( . + 1 )", "'a' || 'b'",
    "function ( $a ) { $a + 1 } ( 2 )", "map { 'a' : 1 } ? a", "[ 1 , 2 ] ? 1", "( 1 , 2 ) => count ( )", "array:size ( [ 1 ] )",
    "map:keys ( map { 1 : 2 } )", "fold-left ( ( 1 , 2 ) , 0 , function ( $a , $b ) { $a + $b } )", "1 eq 1", "1 = ( 1 , 2 )",
    "not ( 1 )", "true ( ) and false ( )", "1 idiv 2", "5 mod 2", "round ( 2.5 )", "string-length ( 'abc' )", "empty ( ( ) )",
    "exists ( // a )", "distinct-values ( ( 1 , 1 ) )", "name ( / r )", "position ( ) = last ( )", "// a [ position ( ) = 2 ]",
    "element ( a )", "node ( )", "/ r / * [ 2 ]", "xs:date ( '2000-01-01' ) + xs:dayTimeDuration ( 'P1D' )",
    "tokenize ( 'a b' , ' ' )", "matches ( 'a' , 'a' )", "$q [ 2 ]", "1 (: c :) + 2", "( 1 , 2 ) => sum ( ) => string ( )",
    "compare ( 'a' , 'b' )", "substring-before ( 'ab' , 'b' )", "number ( '1' ) div 0", "xs:dateTime ( '2000-01-01T00:00:00' ) - xs:dateTime ( '1999-01-01T00:00:00' )",
    "for-each ( ( 1 , 2 ) , function ( $x ) { $x * 2 } )", "sort ( ( 2 , 1 ) )", "serialize ( 1 )", "parse-json ( '[1]' )", "path ( / r / a [ 1 ] )",
]
SYMS = ["+", "-", "*", "div", "and", "or", "lt", "=", "(", ")", "[", "]", ",", "/", "//", "|", "1", "'x'", "$v", "a", "@a", "::",
        "return", "for", "in", "to", "if", "then", "else", ":", "{", "}", "?", "=>", "!", "||", "()", "union", "idiv", "cast", "as",
        "instance", "of", "xs:int", "text", "node", "*", "..", ".", "empty-sequence", "(:", ":)", "fn:", "Q{", "#", "1.5e", "..5",
        "\"", "$", "item", "function", "map", "array", "treat", "castable", "some", "every", "satisfies", "let", ":=", "<<", "is"]
BAD_SOURCES = ["(: note", "1 => fn:", "1 +", ")", "1 => a:b(", "(: a (: b :)", "1 (: (: :) :) + ", "for $x in", "[", "1 ]", "$", "'abc",
               "1 => concat( ] )", "map {", "xs:int(", "a:b:c", "//", "1 2", "@", "..5..", "1 => (", "function(", "", "   "]


def mutants(rng, toks, n):
    out = []
    for _ in range(n):
        t = list(toks)
        for _ in range(rng.choice([1, 1, 1, 2])):
            k = rng.randrange(len(t)) if t else 0
            op = rng.choice(['del', 'dup', 'swap', 'rep', 'ins'])
            if not t:
                t.append(rng.choice(SYMS))
            elif op == 'del':
                del t[k]
            elif op == 'dup':
                t.insert(k, t[k])
            elif op == 'swap' and k + 1 < len(t):
                t[k], t[k + 1] = t[k + 1], t[k]
            elif op == 'rep':
                t[k] = rng.choice(SYMS)
            else:
                t.insert(k, rng.choice(SYMS))
        out.append(' '.join(t))
    return out


def run_worker(tasks, timeout):
    env = dict(os.environ, PYTHONPATH=core.REPO, PYTHONHASHSEED='0')
    worker = os.path.join(os.path.dirname(os.path.dirname(os.path.abspath(__file__))), 'c03_worker.py')
    try:
        p = subprocess.run([sys.executable, worker], input='\n'.join(json.dumps(t) for t in tasks), capture_output=True,
                           text=True, env=env, timeout=timeout)
    except subprocess.TimeoutExpired as e:
        done = (e.stdout or b'').decode() if isinstance(e.stdout, bytes) else (e.stdout or '')
        return [json.loads(l) for l in done.splitlines() if l.startswith('{')], True, ''
    return [json.loads(l) for l in p.stdout.splitlines() if l.startswith('{')], False, p.stderr[-800:]


def run_parallel(tasks, timeout, nproc=12):
    """-> {id: result}, list of task ids that hung or crashed the worker"""
    from concurrent.futures import ThreadPoolExecutor
    chunks = [tasks[i::nproc] for i in range(nproc)]
    results, hung = {}, []

    def job(chunk):
        pending = list(chunk)
        local = {}
        bad = []
        while pending:
            res, timed_out, err = run_worker(pending, timeout)
            for r in res:
                local[r['id']] = r['res']
            done = {r['id'] for r in res}
            rest = [t for t in pending if t['id'] not in done]
            if not rest:
                break
            # the first unanswered task hung (timeout) or killed the worker: record it, continue after it
            bad.append((rest[0]['id'], 'hang' if timed_out else 'worker-died: ' + err[-300:]))
            pending = rest[1:]
        return local, bad
    with ThreadPoolExecutor(max_workers=nproc) as ex:
        for local, bad in ex.map(job, chunks):
            results.update(local)
            hung.extend(bad)
    return results, hung


def foreign(chk, case, res):
    """a foreign exception: a listed known finding (same exception type raised from the same function) or a violation"""
    for f in chk.findings:
        m = f.get('match')
        if f['status'] == 'known' and m and m['type'] == res[1] and m['site'] == res[2]:
            chk.known(f['id'], case | {'exception': res[1]})
            return
    chk.violation('foreign-exception', case, res)
    chk.distribution.setdefault('foreign exception sites', {})
    key = f'{res[1]} @ {res[2]}'
    d = chk.distribution['foreign exception sites']
    d[key] = d.get(key, 0) + 1
    chk.distribution.setdefault('foreign exception examples', {}).setdefault(key, case.get('expr') or case.get('source'))


def run(chk):
    rng = chk.rng
    quick = chk.tier == 'quick'
    chk.trusted += ['harness/gen_c03.py: AST shape facts of tdop.Parser.parse and of every writer of parse_arguments',
                    'the state-machine abstraction of C03/Model.v (cursor fields read by a later parse) is tied to the code by the '
                    'AST facts and by the history correspondence only',
                    'PARTIAL: absence of foreign exceptions / hangs outside the parser core is exploration (mutation streams)']
    st = gen_c03.generate()
    for k, v in st.items():
        chk.obligations.append({'name': 'shape:' + k, 'ok': v == 'ok', 'detail': v})
    for f in ('elementpath/tdop.py', 'elementpath/xpath1/xpath1_parser.py', 'elementpath/xpath2/xpath2_parser.py',
              'elementpath/xpath31/_xpath31_operators.py', 'elementpath/exceptions.py'):
        chk.record_source(f)
    chk.forbidden_scan(['C03'])
    chk.prove(['theories/Common/Pratt.v', 'theories/Gen/C03Shape.v', 'theories/C03/Model.v', 'theories/C03/Proofs.v'],
              'theories/C03/Properties.v')

    versions = ['10', '20', '30', '31']
    tasks = []
    tid = 0
    # ---- histories: interleaved failing and succeeding parses on ONE instance vs a fresh instance each time
    nh = 40 if quick else 1500
    for v in versions:
        for _ in range(nh):
            srcs = []
            for _ in range(rng.randint(2, 7)):
                r = rng.random()
                if r < 0.35:
                    srcs.append(rng.choice(BAD_SOURCES))
                elif r < 0.7:
                    srcs.append(rng.choice(SEEDS))
                else:
                    srcs.append(mutants(rng, rng.choice(SEEDS).split(' '), 1)[0])
            tasks.append({'id': tid, 'kind': 'history', 'version': v, 'sources': srcs}); tid += 1
        # every bad source followed by every one of a few good ones
        for b in BAD_SOURCES:
            tasks.append({'id': tid, 'kind': 'history', 'version': v,
                          'sources': [b, 'count((1,2))', b, "xs:int('1')", '1 (: c :) + 2', "concat('a','b')"]}); tid += 1
    # ---- evaluation streams
    nm = 6 if quick else 120
    for v in versions:
        for s in SEEDS:
            for e in [s] + mutants(rng, s.split(' '), nm):
                tasks.append({'id': tid, 'kind': 'eval', 'version': v, 'expr': e}); tid += 1
        for _ in range(100 if quick else 5000):
            e = ''.join(rng.choice(['a', '1', ' ', '(', ')', '/', '[', ']', '$', "'", '"', ':', '@', '*', '-', '.', '{', '}', 'é', '\U0001F600', '\t', '=', '<', ',', '?', '!', '|', '#'])
                        for _ in range(rng.randint(1, 12)))
            tasks.append({'id': tid, 'kind': 'eval', 'version': v, 'expr': e}); tid += 1
    # typed operand cross product: every operator applied to values of (in)compatible atomic types must either
    # return a value or raise a coded error
    VALS = ["1", "1.5", "1e0", "'a'", "()", "(1,2)", "xs:QName('b')", "xs:date('2000-01-01')", "xs:time('10:00:00')",
            "xs:dateTime('2000-01-01T00:00:00')", "xs:hexBinary('0A')", "xs:base64Binary('YQ==')", "xs:anyURI('u')",
            "xs:duration('P1D')", "xs:dayTimeDuration('PT1H')", "xs:yearMonthDuration('P1M')", "true()", "xs:untypedAtomic('1')",
            "xs:untypedAtomic('x')", "xs:float('1')", "xs:gYear('2000')", "xs:gMonthDay('--01-01')", "/r", "/r/@a", "/r/a",
            "xs:double('NaN')", "xs:double('INF')", "xs:NOTATION('a')" if False else "xs:language('en')", "xs:integer('9007199254740993')"]
    OPS2 = ["eq", "ne", "lt", "le", "gt", "ge", "=", "!=", "<", "<=", ">", ">=", "+", "-", "*", "div", "idiv", "mod", "to", "is", "<<",
            "union", "intersect", "except", "and", "or", ","]
    OPS3 = OPS2 + ["||", "!"]
    pairs = [(a, o, b) for a in VALS for o in OPS3 for b in VALS]
    for v in versions[1:]:
        sel = pairs      # the full cross product is cheap enough for the quick tier
        for a, o, b in sel:
            if v == '20' and o in ('||', '!'):
                continue
            tasks.append({'id': tid, 'kind': 'eval', 'version': v, 'expr': f'{a} {o} {b}'}); tid += 1
    FUNS1 = ["string", "number", "boolean", "not", "count", "sum", "avg", "min", "max", "abs", "floor", "round", "string-length",
             "normalize-space", "upper-case", "data", "name", "local-name", "exists", "empty", "reverse", "distinct-values",
             "xs:integer", "xs:string", "xs:date", "xs:double", "xs:boolean", "xs:QName", "xs:hexBinary", "xs:duration",
             "year-from-date", "hours-from-time", "seconds-from-duration", "timezone-from-dateTime", "string-to-codepoints",
             "codepoints-to-string", "encode-for-uri", "one-or-more", "exactly-one", "zero-or-one", "root", "base-uri", "nilled",
             "node-name", "document-uri", "lang", "id", "idref", "doc-available", "collection", "tokenize", "iri-to-uri"]
    for v in versions[1:]:
        for fn in FUNS1:
            for a in VALS:
                tasks.append({'id': tid, 'kind': 'eval', 'version': v, 'expr': f'{fn}({a})'}); tid += 1
    # every registered function of arity 1 and 2 (XPath 3.1) on typed values, incl. arrays, maps and function items
    from elementpath.xpath31 import XPath31Parser as _P31
    NS = {'http://www.w3.org/2005/xpath-functions': '', 'http://www.w3.org/2005/xpath-functions/math': 'math:',
          'http://www.w3.org/2005/xpath-functions/map': 'map:', 'http://www.w3.org/2005/xpath-functions/array': 'array:',
          'http://www.w3.org/2001/XMLSchema': 'xs:'}
    SKIP = {'exp10', 'doc', 'collection', 'uri-collection', 'unparsed-text', 'unparsed-text-lines', 'json-doc', 'trace', 'error', 'environment-variable',
            'available-environment-variables', 'random-number-generator', 'load-xquery-module', 'transform', 'unparsed-text-available', 'doc-available'}
    VALS31 = VALS + ["[1, 2]", "map{'a': 1}", "abs#1", "function($x) { $x }", "[]", "map{}", "''", "-1", "0", "xs:untypedAtomic('')"]
    SMALL = ["1", "'a'", "()", "(1,2)", "xs:untypedAtomic('x')", "/r", "[1, 2]", "map{'a': 1}", "abs#1", "xs:date('2000-01-01')", "1.5", "xs:double('NaN')", "true()", "-1"]
    seen = set()
    for (qname, arity), sig in sorted(_P31().function_signatures.items(), key=lambda kv: (kv[0][0].namespace or '', kv[0][0].local_name, kv[0][1])):
        pre = NS.get(qname.namespace)
        if pre is None or qname.local_name in SKIP or (qname.local_name, arity) in seen:
            continue
        seen.add((qname.local_name, arity))
        fname = pre + qname.local_name
        if arity == 1:
            for a in VALS31:
                tasks.append({'id': tid, 'kind': 'eval', 'version': '31', 'expr': f'{fname}({a})'}); tid += 1
        elif arity == 2:
            for a in SMALL:
                for b in SMALL:
                    if quick and rng.random() < 0.5:
                        continue
                    tasks.append({'id': tid, 'kind': 'eval', 'version': '31', 'expr': f'{fname}({a}, {b})'}); tid += 1
        elif arity == 3 and not quick:
            for _ in range(40):
                tasks.append({'id': tid, 'kind': 'eval', 'version': '31', 'expr': f'{fname}({rng.choice(SMALL)}, {rng.choice(SMALL)}, {rng.choice(SMALL)})'}); tid += 1
    by_id = {t['id']: t for t in tasks}
    results, hung = run_parallel(tasks, timeout=180 if quick else 900)

    for i, why in hung:
        chk.violation('hang-or-crash', by_id[i], why)
    for i, res in results.items():
        t = by_id[i]
        chk.evaluations += 1
        if t['kind'] == 'history':
            chk.count('history')
            for k, step in enumerate(res):
                if step['shared'] != step['fresh'] or step['state_diff']:
                    chk.violation('instance-not-reusable', {'version': t['version'], 'sources': t['sources'][:k + 1]},
                                  {'on_shared_instance': step['shared'], 'on_fresh_instance': step['fresh'], 'state_diff': step['state_diff']})
                    break
                if step['shared'][0] == 'exc':
                    foreign(chk, {'version': t['version'], 'source': step['source']}, step['shared'])
            if any(s['fresh'][0] == 'err' for s in res) and any(s['fresh'][0] == 'ok' for s in res):
                chk.nontrivial.add(repr((t['version'], t['sources'])))
        else:
            chk.count('eval:' + res[0])
            if res[0] == 'exc':
                foreign(chk, {'version': t['version'], 'expr': t['expr']}, res)
            elif res[0] == 'err':
                chk.count('code:' + str(res[1]))
            if res[0] != 'ok' or len(t['expr']) > 8:
                chk.nontrivial.add(repr((t['version'], t['expr'])))
        if i % 997 == 0:
            chk.sample({'task': {k: v for k, v in t.items() if k != 'id'}, 'result': res})
    # ---- schema-bound parsers: parse() evaluates the expression against the schema (static evaluation); with arguments that
    # select nothing from the schema root, or sample values of the declared types, only ElementPathError may come out
    try:
        import xmlschema
        sys.path.insert(0, os.path.join(os.path.dirname(os.path.abspath(__file__))))
        import c20 as _c20
        from elementpath import ElementPathError as _EPE
        from elementpath.xpath31 import XPath31Parser as _P31
        _schema = xmlschema.XMLSchema10(_c20.TYPED_XSD)
        _ns = {'math': 'http://www.w3.org/2005/xpath-functions/math', 'map': 'http://www.w3.org/2005/xpath-functions/map', 'array': 'http://www.w3.org/2005/xpath-functions/array'}
        _pre = {'http://www.w3.org/2005/xpath-functions': '', _ns['math']: 'math:', _ns['map']: 'map:', _ns['array']: 'array:'}
        _ps = _P31(schema=_schema.xpath_proxy, namespaces=dict(_ns))
        ARGS_S = ['i', 't', 'd', 'b', 'l', 'u', 'p', 'e', 'n', '@a', '/r/i', '/r/t', '/r/d', '/r/l', '/r/u', '/r/e', '/r/@a', '.', '/r', 'x', '/r/x', "'a'", '1', '()']
        seen_s = set()
        calls_s = []
        for (qname, arity), sig in sorted(_ps.function_signatures.items(), key=lambda kv: (kv[0][0].namespace or '', kv[0][0].local_name, kv[0][1])):
            pre = _pre.get(qname.namespace)
            if pre is None or arity not in (1, 2) or (qname, arity) in seen_s:
                continue
            seen_s.add((qname, arity))
            f = pre + qname.local_name
            calls_s += [f'{f}({a})' for a in ARGS_S] if arity == 1 else [f'{f}({a}, {b})' for a in ARGS_S[:14] for b in ('1', "'a'", 'i', 't', '/r/i', '()')]
        calls_s += [f'{a} {op} {b}' for op in ('+', '-', '*', 'div', 'idiv', 'mod', 'eq', 'lt', '=', '<', 'to', '||', 'and', 'or', '|', 'intersect', 'except', 'is', '<<', '!', ',')
                    for a in ARGS_S[:21:2] for b in ARGS_S[:21:3]]
        if quick:
            calls_s = chk.rng.sample(calls_s, 2500)
        for c in calls_s:
            chk.evaluations += 1
            chk.count('schema-static-evaluation')
            try:
                _ps.parse(c)
            except _EPE:
                pass
            except RecursionError as ex:
                chk.violation('foreign-exception', {'parser': 'XPath31Parser(schema=typed scenario)', 'source': c}, 'RecursionError')
            except Exception as ex:
                chk.violation('foreign-exception', {'parser': 'XPath31Parser(schema=typed scenario)', 'source': c}, {'exception': type(ex).__name__, 'message': str(ex)[:200]})
            chk.nontrivial.add('schema-static:' + c)
    except ImportError as ex:
        chk.notes.append('schema-bound parser section skipped: ' + str(ex))
    chk.rule = ('histories: 2-7 sources per parser instance drawn from failing sources (unterminated comments, dangling =>, ...), '
                'valid seeds and 1-2 token mutants, each step compared with a fresh instance (outcome + instance state); '
                'evaluation streams: seeds, token mutants and random short strings parsed and evaluated on a small document in '
                'sub-processes with a watchdog; non-trivial = a history mixing failing and succeeding parses, or an expression '
                'that fails / is longer than 8 characters; distinct by (version, input)')
    missing = len(tasks) - len(results) - len(hung)
    chk.obligations.append({'name': 'all-tasks-answered', 'ok': missing == 0, 'detail': f'{missing} unanswered'})


def replay(rec):
    print(rec)
    return 0
