"""C02 — node trees are faithful, strictly document-ordered images of the input XML.

proof:  coq/theories/C02/{Model,Proofs,Properties}.v over Gen/C02Positions.v (T-expr: the position increments of
        both builders and the start positions of the lazy namespace/attribute nodes, re-translated each run)
tie:    T-expr + correspondence of (kind, position, parent position) of every node of root.iter() with the model,
        for xml.etree (with a namespaces argument) and lxml (in-scope nsmap, document-level siblings) trees;
        string values, is / << / >> / union / intersect / except / root / innermost / outermost judged on positions.
"""
import core
import gen_c02
import trees

IMPORTS = 'From EP Require Import Gen.C02Positions C02.Model C02.Run.'
KIND = {'DocumentNode': 0, 'ElementNode': 1, 'NamespaceNode': 2, 'AttributeNode': 3, 'TextNode': 4, 'CommentNode': 5,
        'ProcessingInstructionNode': 6}


def kind_of(n):
    from elementpath import xpath_nodes as X
    for cls, k in ((X.DocumentNode, 0), (X.ElementNode, 1), (X.NamespaceNode, 2), (X.AttributeNode, 3), (X.TextNode, 4),
                   (X.CommentNode, 5), (X.ProcessingInstructionNode, 6)):
        if isinstance(n, cls):
            return k
    return -1


def b(x):
    return 'true' if x else 'false'


def xlit(t, nns_of):
    """Coq literal of the builder's view of t; nns_of(t) -> (len(nsmap), 'xml' in nsmap)"""
    if t.kind == 'c':
        return f'XComment {b(t.tail is not None)}'
    if t.kind == 'p':
        return f'XPI {b(t.tail is not None)}'
    n, x = nns_of(t)
    return (f'XElem {n} {b(x)} {len(t.attrs)} {b(t.text is not None)} '
            f'[{"; ".join(xlit(c, nns_of) for c in t.children)}] {b(t.tail is not None)}')


def impl_nodes(root_node):
    out = []
    for n in root_node.iter():
        out.append([kind_of(n), n.position, n.parent.position if n.parent is not None else 0])
    return out


def string_value_spec(t):
    if t.kind != 'e':
        return t.text or ''
    return (t.text or '') + ''.join((string_value_spec(c) if c.kind == 'e' else '') + (c.tail or '') for c in t.children)


def full_string_value(t):
    """concatenation of all descendant text in document order (tails of comments / PIs included)"""
    if t.kind != 'e':
        return ''
    return (t.text or '') + ''.join(full_string_value(c) + (c.tail or '') for c in t.children)


def run(chk):
    import xml.etree.ElementTree as ET
    import lxml.etree as LE
    from elementpath import get_node_tree, XPathContext, XPath2Parser
    rng = chk.rng
    quick = chk.tier == 'quick'
    chk.trusted += ['harness/py2coq.py + gen_c02.py (T-expr: increments and lazy start positions)',
                    'the deque-driven loops of the two builders are modelled by structural recursion over the same visiting '
                    'order (C02/Model.v); this identification is validated by the correspondence only',
                    'xml.etree / lxml object model (text, tail, attrib, nsmap, itersiblings) as seen by the builders']
    st = gen_c02.generate()
    for k, v in st.items():
        chk.obligations.append({'name': 'translate:' + k, 'ok': v == 'ok', 'detail': v})
    for f in ('elementpath/tree_builders.py', 'elementpath/xpath_nodes.py', 'elementpath/xpath2/_xpath2_operators.py'):
        chk.record_source(f)
    chk.forbidden_scan(['C02'])
    proved = all(v == 'ok' for v in st.values()) and chk.prove(
        ['theories/Gen/C02Positions.v', 'theories/C02/Model.v', 'theories/C02/Proofs.v', 'theories/C02/Run.v'],
        'theories/C02/Properties.v')
    model_ok = True
    if not proved:
        try:
            core.coq_make(['theories/Gen/C02Positions.v', 'theories/C02/Model.v', 'theories/C02/Run.v'])
        except core.CoqError as e:
            chk.notes.append('model does not build: ' + str(e))
            model_ok = False

    cases = []    # (lib, mode, abstract tree, extra)
    shapes = [trees.from_shape(s) for n in (1, 2, 3, 4) for s in trees.all_shapes(n, names=('a',))]
    for t in shapes:
        for na in (0, 2):
            for tx in (False, True):
                tt = trees.from_shape(('e', 'a', []))
                # decorate a copy
                def deco(x):
                    y = trees.T('e', x.name, attrs=[('k%d' % i, '1') for i in range(na)], text='t' if tx else None,
                                children=[deco(c) for c in x.children], tail='w' if tx else None)
                    return y
                d = deco(t)
                d.tail = None
                for gns in ({}, {'p': 'urn:p'}, {'xml': 'http://www.w3.org/XML/1998/namespace', 'q': 'urn:q'}):
                    cases.append(('et', 'elem', d, gns))
                    cases.append(('et', 'doc', d, gns))
                cases.append(('lxml', 'elem', d, ([], [])))
    for _ in range(150 if quick else 10000):
        t = trees.random_tree(rng, maxnodes=rng.choice([3, 8, 20]), ns=False)
        t.tail = None
        gns = rng.choice([{}, {'p': 'urn:p'}, {'p': 'urn:p', 'q': 'urn:q', '': 'urn:d'},
                          {'xml': 'http://www.w3.org/XML/1998/namespace'}, {'xml': 'http://www.w3.org/XML/1998/namespace', 'p': 'urn:p'}])
        cases.append(('et', rng.choice(['elem', 'doc', 'frag', 'nofrag']), t, gns))
        t2 = trees.random_tree(rng, maxnodes=rng.choice([3, 8, 20]), ns=True)
        t2.tail = None
        if rng.random() < 0.2:
            t2.nsdecl.append(('xml', 'http://www.w3.org/XML/1998/namespace'))
        pre = [trees.T(rng.choice('cp'), target='pp', text='x') for _ in range(rng.choice([0, 0, 1, 2]))]
        post = [trees.T(rng.choice('cp'), target='qq', text='y') for _ in range(rng.choice([0, 0, 1]))]
        cases.append(('lxml', rng.choice(['elem', 'tree', 'frag', 'nofrag']), t2, (pre, post)))

    # ---- model terms
    def lxml_nns(scope):
        def f(t):
            return None
        return f
    terms, meta = [], []
    for lib, mode, t, extra in cases:
        if lib == 'et':
            gn, gx = len(extra), 'xml' in extra
            lit = xlit(t, lambda _t: (gn, gx))
            doc = mode == 'doc'      # fragment=False on an Element: dummy document at root.position - 1 (handled below)
            terms.append(f'run_et_doc {gn} {b(gx)} ({lit})' if doc else f'run_et_elem {gn} {b(gx)} ({lit})')
        else:
            pre, post = extra
            scopes = {}

            def walk(x, inscope):
                if x.kind == 'e':
                    cur = dict(inscope)
                    for p, u in x.nsdecl:
                        cur[p] = u
                    scopes[id(x)] = (len(cur), 'xml' in cur)
                    for c in x.children:
                        walk(c, cur)
            walk(t, {})
            lit = xlit(t, lambda x: scopes[id(x)])
            has_sib = bool(pre or post)
            doc = mode in ('tree', 'nofrag') or (mode == 'elem' and has_sib)
            if mode == 'frag':
                doc = False
            plit = '[' + '; '.join(xlit(x, None) for x in pre) + ']'
            qlit = '[' + '; '.join(xlit(x, None) for x in post) + ']'
            terms.append(f'run_lxml_doc {plit} ({lit}) {qlit}' if doc else f'run_lxml_elem ({lit})')
    model = core.run_coq_cases('C02', IMPORTS, terms, chunk=200, tag='build') if model_ok else [None] * len(terms)

    parser = XPath2Parser()
    for i, (lib, mode, t, extra) in enumerate(cases):
        chk.evaluations += 1
        chk.count(f'{lib}:{mode}')
        desc = {'lib': lib, 'mode': mode, 'tree': repr(t)[:600], 'extra': repr(extra)[:200]}
        try:
            if lib == 'et':
                elem = trees.to_et(t)
                root = ET.ElementTree(elem) if mode == 'doc' else elem
                frag = {'frag': True, 'nofrag': False}.get(mode)
                node = get_node_tree(root, namespaces=dict(extra), fragment=frag)
            else:
                pre, post = extra
                elem = trees.to_lxml(t, pre, post)
                root = elem.getroottree() if mode == 'tree' else elem
                frag = {'frag': True, 'nofrag': False}.get(mode)
                node = get_node_tree(root, fragment=frag)
            got = impl_nodes(node)
        except Exception as e:
            chk.violation('impl-raised', desc, repr(e))
            continue
        # specification, checked on the implementation directly: strictly increasing, parents first
        pos = [g[1] for g in got]
        if any(a >= c for a, c in zip(pos, pos[1:])) or any(g[2] >= g[1] for g in got if g != [0, 0, 0]):
            chk.violation('impl-vs-spec', desc, {'positions_in_iter_order': pos, 'nodes': got[:40]})
        if model[i] is not None:
            mo = [list(x) for x in model[i]]
            if lib == 'et' and mode == 'nofrag':
                mo = [[0, 0, 0]] + mo        # get_document_node(): dummy document at position root.position - 1 = 0
            if got != mo:
                chk.corr_fail.append((desc, got[:60], mo[:60]))
        # one node per element / attribute / in-scope namespace / comment / PI / non-None text or tail chunk
        # string value of the root element = concatenated descendant text
        from elementpath.xpath_nodes import ElementNode, DocumentNode
        rn = node if isinstance(node, ElementNode) else next(c for c in node.children if isinstance(c, ElementNode))
        from elementpath.xpath_nodes import TextNode
        # spec: concatenation of the descendant text nodes in document (position) order - computed from the node tree
        # itself and, independently, from the abstract tree
        by_nodes = ''.join(x.value for x in rn.iter() if isinstance(x, TextNode))
        spec_sv = full_string_value(t)
        if by_nodes != spec_sv:
            chk.violation('impl-vs-spec', desc, {'text nodes in position order': by_nodes, 'spec': spec_sv})
        if rn.string_value != spec_sv:
            def tricky(x):
                return any((c.kind != 'e' and c.tail is not None) or
                           (c.kind == 'e' and c.tail is not None and (c.children or False)) or tricky(c) for c in x.children)
            if tricky(t):
                chk.known('C02-string-value-tail-order', desc | {'string_value': rn.string_value, 'spec': spec_sv})
            else:
                chk.violation('impl-vs-spec', desc, {'string_value': rn.string_value, 'spec': spec_sv})
        # the string value of a document node: its descendant text nodes only (top level comments / PIs do not count)
        if isinstance(node, DocumentNode) and node.string_value != rn.string_value:
            chk.violation('impl-vs-spec', desc, {'document string_value': node.string_value, 'root element string_value': rn.string_value})
        # parent/children consistency
        for n in node.iter():
            for c in (getattr(n, 'children', None) or []):
                if c.parent is not n:
                    chk.violation('impl-vs-spec', desc, {'child_parent_mismatch': [repr(n), repr(c)]})
                    break
        # order operators judged on positions
        nodes = [n for n in node.iter()]
        if len(nodes) >= 2 and i % 3 == 0:
            for _ in range(6):
                a, c = rng.choice(nodes), rng.choice(nodes)
                some = rng.sample(nodes, min(len(nodes), rng.randint(1, 5)))
                other = rng.sample(nodes, min(len(nodes), rng.randint(0, 4)))
                ctx = XPathContext(node, variables={'a': a, 'b': c, 'S': some, 'O': other})
                try:
                    res = {
                        'is': parser.parse('$a is $b').evaluate(ctx), 'lt': parser.parse('$a << $b').evaluate(ctx),
                        'gt': parser.parse('$a >> $b').evaluate(ctx),
                        'union': [n.position for n in parser.parse('$S union $O').select(ctx)],
                        'intersect': [n.position for n in parser.parse('$S intersect $O').select(ctx)],
                        'except': [n.position for n in parser.parse('$S except $O').select(ctx)],
                        'bar': [n.position for n in parser.parse('$S | $O').select(ctx)],
                    }
                except Exception as e:
                    chk.violation('impl-raised', desc | {'op': 'order operators'}, repr(e))
                    break
                sp, op = {n.position for n in some}, {n.position for n in other}
                want = {'is': a is c, 'lt': a.position < c.position, 'gt': a.position > c.position,
                        'union': sorted(sp | op), 'intersect': sorted(sp & op), 'except': sorted(sp - op), 'bar': sorted(sp | op)}
                chk.evaluations += 1
                if res != want:
                    chk.violation('impl-vs-spec', desc | {'a': a.position, 'b': c.position, 'S': sorted(sp), 'O': sorted(op)},
                                  {'impl': res, 'spec': want})
                    break
        if len(got) > 3:
            chk.nontrivial.add(repr((lib, mode, repr(t), repr(extra))))
        if i % 211 == 0:
            chk.sample({'lib': lib, 'mode': mode, 'tree': repr(t)[:300], 'model': model[i][:8] if model[i] else None})
    chk.rule = ('exhaustive element-only shapes <= 4 nodes x attribute counts x text/tail x namespaces mappings (xml.etree, as '
                'Element and as ElementTree; lxml), plus seeded random trees with comments, PIs, attributes, per-element namespace '
                'declarations (lxml in-scope nsmap), document-level siblings, fragment in {None, True, False}; non-trivial = more '
                'than 3 nodes, distinct by (library, mode, tree)')
    chk.obligations.append({'name': 'correspondence:impl==model(kind,position,parent position of every node)', 'ok': not chk.corr_fail,
                            'detail': f'{len(chk.corr_fail)} disagreements' + (': ' + repr(chk.corr_fail[0])[:600] if chk.corr_fail else '')})
    if chk.corr_fail and not any(not v['no_failing_input'] for v in chk.violations):
        d, got, mo = chk.corr_fail[0]
        chk.violation('correspondence-broken', d, {'impl': got, 'model': mo}, no_input=True)


def replay(rec):
    print(rec)
    return 0
