"""C11 — dates, times and durations on the proleptic Gregorian timeline.

proof:  coq/theories/C11/{Model,Proofs,Properties}.v over Gen/C11Helpers.v (T-fun: helpers.adjust_day,
        days_from_common_era, months2days and the MONTH_DAYS tables re-translated from /repo each run)
tie:    T-fun + correspondence of the todelta/fromdelta/duration model with the DateTime/Date/Duration API
        (XSD 1.0 and 1.1 classes), comparison / timezone adjustment judged against instants.
"""
import datetime
import calendar

import core
import gen_c11

IMPORTS = 'From EP Require Import Common.PyCalendar Gen.C11Helpers C11.Model C11.Run.'
US = 86400 * 10 ** 6
Z = core.zlit


def astro(y):
    return y if y > 0 else y + 1


def isleap(a):
    return a % 4 == 0 and (a % 100 != 0 or a % 400 == 0)


def mlen(a, m):
    return 29 if m == 2 and isleap(a) else [31, 28, 31, 30, 31, 30, 31, 31, 30, 31, 30, 31][m - 1]


def valid(y, m, d):
    return y != 0 and 1 <= m <= 12 and 1 <= d <= mlen(astro(y), m)


def tod_of(h, mi, s, us):
    return ((h * 60 + mi) * 60 + s) * 10 ** 6 + us


def split_tod(tod):
    us = tod % 10 ** 6
    s = tod // 10 ** 6
    return s // 3600, s // 60 % 60, s % 60, us


def run(chk):
    from elementpath.datatypes import DateTime, DateTime10, Date, Date10, DayTimeDuration, YearMonthDuration, Timezone
    from elementpath import select, XPath2Parser, ElementPathError
    rng = chk.rng
    quick = chk.tier == 'quick'
    chk.trusted += ['harness/py2coq.py + gen_c11.py (T-fun translator incl. match statements and tuple tables)',
                    'Common/PyCalendar.v: Gallina copies of calendar.isleap / calendar.leapdays (modelled external)',
                    'modelled not verified: datetime.datetime ordinal arithmetic for years 1..9999 (the model uses the same '
                    'formula as for the other years; agreement is checked by correspondence), timedelta normalisation, '
                    'Timezone offsets; comparison and adjust-*-to-timezone are judged against instants computed by the harness']
    st = gen_c11.generate()
    for k, v in st.items():
        chk.obligations.append({'name': 'translate:' + k, 'ok': v == 'ok', 'detail': v})
    for f in ('elementpath/datatypes/datetime.py', 'elementpath/helpers.py', 'elementpath/xpath_tokens/base.py'):
        chk.record_source(f)
    chk.forbidden_scan(['C11', 'Common'])
    proved = all(v == 'ok' for v in st.values()) and chk.prove(
        ['theories/Common/PyCalendar.v', 'theories/Gen/C11Helpers.v', 'theories/C11/Model.v', 'theories/C11/Proofs.v',
         'theories/C11/Run.v'], 'theories/C11/Properties.v')
    model_ok = True
    if not proved:
        try:
            core.coq_make(['theories/Gen/C11Helpers.v', 'theories/C11/Model.v', 'theories/C11/Run.v'])
        except core.CoqError as e:
            chk.notes.append('model does not build: ' + str(e))
            model_ok = False

    years = [1, 2, 3, 4, 5, 99, 100, 101, 399, 400, 401, 1582, 1900, 2000, 2024, 9998, 9999, 10000, 10001, 12000, 99999,
             400000, 2 ** 21, -1, -2, -3, -4, -5, -6, -99, -100, -101, -102, -400, -401, -402, -821, -9999, -10000, -2 ** 21]
    mds = [(1, 1), (1, 2), (1, 31), (2, 28), (2, 29), (3, 1), (4, 30), (6, 15), (12, 30), (12, 31)]
    tods = [0, 1, tod_of(12, 30, 15, 0), tod_of(23, 59, 59, 999999), tod_of(0, 0, 0, 500000)]
    dates = []
    for y in years:
        for m, d in mds:
            if valid(y, m, d):
                dates.append((y, m, d))
    for _ in range(60 if quick else 3000):
        y = rng.choice([rng.randint(-20000, 20000), rng.randint(-500, 500), rng.randint(9990, 10010)]) or 1
        m = rng.randint(1, 12)
        d = rng.randint(1, mlen(astro(y), m))
        dates.append((y, m, d))
    cases = []
    for (y, m, d) in dates:
        cases.append(('todelta', (y, m, d, rng.choice(tods))))
        n = None
        cases.append(('roundtrip', (y, m, d, rng.choice(tods))))
        for dur in (0, 1, -1, US, -US, 366 * US, -366 * US + 1, rng.randint(-10 ** 7, 10 ** 7) * US + rng.randint(0, US)):
            cases.append(('add', (y, m, d, rng.choice(tods), dur)))
        for k in (1, -1, 12, -12, 13, -25, rng.randint(-3000, 3000)):
            cases.append(('addmonths', (y, m, d, k)))
    # constructor validity: day 29..31 of every month of boundary years
    for y in years:
        for m in range(1, 13):
            for d in (28, 29, 30, 31):
                cases.append(('ctor', (y, m, d)))
    for _ in range(150 if quick else 5000):
        n = rng.choice([rng.randint(-4 * 10 ** 6, 4 * 10 ** 6), rng.randint(-1500, 1500), 3652059 + rng.randint(-800, 800)])
        cases.append(('fromdelta', (n, rng.choice(tods))))
    for n in (-367, -366, -365, -1, 0, 1, 365, 366, 146096, 146097, 146098, 36524, 36525, 1460, 1461, 3652058, 3652059, 3652060,
              -146097 - 366, -146097 - 367, -146097 - 365, -731, -732, -1096, -1097):
        for t in (0, 1):
            cases.append(('fromdelta', (n, t)))
    for y in (1, 4, 100, 400, 2000, 2023, -1 + 1, -3, -4):     # astronomical years for months2days
        for m in range(1, 13):
            for k in (-25, -13, -12, -1, 0, 1, 2, 11, 12, 13, 27):
                cases.append(('months2days', (y, m, k)))

    model = {}
    if model_ok:
        groups = {}
        for i, (k, a) in enumerate(cases):
            groups.setdefault(k, []).append(i)
        for k, idxs in groups.items():
            ts = []
            for i in idxs:
                a = cases[i][1]
                if k in ('todelta', 'roundtrip'):
                    ts.append(f'run_todelta {Z(a[0])} {a[1]} {a[2]}')
                elif k == 'fromdelta':
                    ts.append(f'run_fromdelta {Z(a[0])}')
                elif k == 'add':
                    ts.append(f'run_add {Z(a[0])} {a[1]} {a[2]} {a[3]} {Z(a[4])}')
                elif k == 'addmonths':
                    ts.append(f'run_addmonths {Z(a[0])} {a[1]} {a[2]} {Z(a[3])}')
                elif k == 'months2days':
                    ts.append(f'run_months2days {Z(a[0])} {a[1]} {Z(a[2])}')
                elif k == 'ctor':
                    ts.append(f'([1], [1])')
            vals = core.run_coq_cases('C11', IMPORTS, ts, chunk=500, tag=k)
            model.update(zip(idxs, vals))

    def mk(cls, y, m, d, tod):
        h, mi, s, us = split_tod(tod)
        return cls(y, m, d, h, mi, s, us)

    def fields(x):
        return [x._year, x.month, x.day, tod_of(x.hour, x.minute, x.second, x.microsecond)]

    from elementpath.helpers import months2days as impl_m2d
    for i, (k, a) in enumerate(cases):
        for cls in (DateTime, DateTime10):
            chk.evaluations += 1
            chk.count(k)
            desc = {'kind': k, 'args': list(a), 'class': cls.__name__}
            mo, sp = model.get(i, (None, None))
            try:
                if k == 'ctor':
                    y, m, d = a
                    try:
                        cls(y, m, d)
                        ok = True
                    except ValueError:
                        ok = False
                    if ok != valid(y, m, d):
                        chk.violation('impl-vs-spec', desc, {'constructor_accepts': ok, 'valid_date': valid(y, m, d)})
                    chk.nontrivial.add(repr((k, a)))
                    continue
                if k == 'months2days':
                    if cls is DateTime10:
                        continue
                    got = [impl_m2d(*a)]
                elif k == 'todelta':
                    td = mk(cls, *a).todelta()
                    got = [td.days]
                    if td.seconds * 10 ** 6 + td.microseconds != a[3]:
                        chk.violation('impl-vs-spec', desc, {'time part of todelta': [td.seconds, td.microseconds]})
                elif k == 'roundtrip':
                    x = mk(cls, *a)
                    r = cls.fromdelta(x.todelta())
                    got = None
                    if fields(r) != list(a):
                        chk.violation('impl-vs-spec', desc, {'fromdelta(todelta(x))': fields(r), 'x': list(a)})
                    chk.nontrivial.add(repr((k, a)))
                    continue
                elif k == 'fromdelta':
                    n, t = a
                    r = cls.fromdelta(datetime.timedelta(days=n, microseconds=t))
                    got = fields(r)[:3]
                    if fields(r)[3] != t:
                        chk.violation('impl-vs-spec', desc, {'time of day': fields(r)[3]})
                elif k == 'add':
                    y, m, d, tod, dur = a
                    x = mk(cls, y, m, d, tod)
                    delta = datetime.timedelta(microseconds=dur)
                    r = x + DayTimeDuration.fromtimedelta(delta)
                    got = fields(r)
                    back = r - DayTimeDuration.fromtimedelta(delta)
                    if fields(back) != [y, m, d, tod]:
                        chk.violation('impl-vs-spec', desc, {'(d + dur) - dur': fields(back), 'd': [y, m, d, tod]})
                    diff = r - x
                    if diff.get_timedelta() != delta:
                        chk.violation('impl-vs-spec', desc, {'(d + dur) - d': str(diff.get_timedelta()), 'dur': str(delta)})
                    if not ((dur > 0) == (r > x) and (dur < 0) == (r < x) and (dur == 0) == (r == x)):
                        chk.violation('impl-vs-spec', desc, {'order of d and d + dur': [r < x, r == x, r > x]})
                elif k == 'addmonths':
                    y, m, d, kk = a
                    x = mk(cls, y, m, d, 0)
                    try:
                        r = x + YearMonthDuration(months=kk)
                        got = fields(r)[:3]
                    except (ValueError, OverflowError) as e:
                        got = ['err', type(e).__name__]
                if mo is None:
                    continue
                if got != list(mo):
                    chk.corr_fail.append((desc, got, list(mo)))
                if got != list(sp):
                    chk.violation('impl-vs-spec', desc, {'impl': got, 'spec': list(sp), 'model': list(mo)})
                chk.nontrivial.add(repr((k, a)))
            except Exception as e:
                chk.violation('impl-raised', desc, repr(e))
        if i % 499 == 0:
            chk.sample({'kind': k, 'args': list(a), 'model,spec': model.get(i)})

    # ---- comparisons and timezone adjustment judged against instants (harness-side specification) ----
    tzs = [None, 0, 60, -300, 840, -840, 330]

    def instant(y, m, d, tod, tz, implicit=0):
        days = (astro(y) - 1) * 365 + (astro(y) - 1) // 4 - (astro(y) - 1) // 100 + (astro(y) - 1) // 400
        days += sum(mlen(astro(y), mm) for mm in range(1, m)) + d - 1
        return days * US + tod - (tz if tz is not None else implicit) * 60 * 10 ** 6

    def mkz(y, m, d, tod, tz):
        h, mi, s, us = split_tod(tod)
        return DateTime(y, m, d, h, mi, s, us, tzinfo=None if tz is None else Timezone(datetime.timedelta(minutes=tz)))

    ncmp = 400 if quick else 20000
    for _ in range(ncmp):
        chk.evaluations += 1
        chk.count('compare')
        y = rng.choice([1, 2000, 2001, 9999, 1999])
        m, d = rng.choice([(12, 31), (1, 1), (6, 15), (2, 28)])
        a = (y, m, d, rng.choice([0, tod_of(23, 0, 0, 0), tod_of(1, 0, 0, 0), tod_of(12, 0, 0, 0)]), rng.choice(tzs))
        y2 = y + rng.choice([0, 0, 1, -1]) or 1
        m2, d2 = rng.choice([(12, 31), (1, 1), (6, 15), (m, d)])
        b = (min(max(y2, 1), 9999), m2, d2, rng.choice([0, tod_of(23, 0, 0, 0), tod_of(1, 0, 0, 0), a[3]]), rng.choice(tzs))
        try:
            x1, x2 = mkz(*a), mkz(*b)
        except (ValueError, OverflowError):
            continue
        i1, i2 = instant(*a), instant(*b)
        got = [x1 < x2, x1 == x2, x1 > x2, x1 <= x2, x1 >= x2]
        want = [i1 < i2, i1 == i2, i1 > i2, i1 <= i2, i1 >= i2]
        chk.nontrivial.add(repr(('cmp', a, b)))
        if got != want:
            chk.violation('impl-vs-spec', {'kind': 'compare', 'a': list(a), 'b': list(b)}, {'impl [lt,eq,gt,le,ge]': got, 'instants': want})
    # adjust-*-to-timezone preserves the instant (dateTime) / the starting instant's local date (date)
    for _ in range(150 if quick else 5000):
        chk.evaluations += 1
        chk.count('adjust')
        y, m, d = rng.choice([(2002, 3, 7), (2000, 1, 1), (1999, 12, 31), (2024, 2, 29)])
        tod = rng.choice([0, tod_of(10, 0, 0, 0), tod_of(23, 30, 0, 0)])
        tz1 = rng.choice(tzs)
        tz2 = rng.choice([t for t in tzs if t is not None])
        implicit = rng.choice([0, -300, 330])
        fmt = lambda t: 'Z' if t == 0 else '%s%02d:%02d' % ('+' if t > 0 else '-', abs(t) // 60, abs(t) % 60)
        h, mi, s, _ = split_tod(tod)
        lex = '%04d-%02d-%02dT%02d:%02d:%02d' % (y, m, d, h, mi, s) + ('' if tz1 is None else fmt(tz1))
        dur = 'PT%dM' % tz2 if tz2 >= 0 else '-PT%dM' % -tz2
        try:
            r = select(None, f"adjust-dateTime-to-timezone(xs:dateTime('{lex}'), xs:dayTimeDuration('{dur}'))",
                       item=1, parser=XPath2Parser, timezone=fmt(implicit) if implicit else 'Z')
        except ElementPathError as e:
            chk.violation('impl-vs-spec', {'kind': 'adjust-dateTime', 'value': lex, 'tz': dur}, repr(e))
            continue
        # F&O: a value without timezone simply gets the new timezone (same local fields)
        want_i = instant(y, m, d, tod, tz1 if tz1 is not None else tz2)
        got_i = instant(r._year, r.month, r.day, tod_of(r.hour, r.minute, r.second, r.microsecond),
                        int(r.tzinfo.offset.total_seconds() // 60) if r.tzinfo is not None else None)
        roff = int(r.tzinfo.offset.total_seconds() // 60) if r.tzinfo is not None else None
        chk.nontrivial.add(repr(('adj', lex, dur, implicit)))
        if got_i != want_i or roff != tz2:
            chk.violation('impl-vs-spec', {'kind': 'adjust-dateTime-to-timezone', 'value': lex, 'tz': dur, 'implicit': implicit},
                          {'impl': str(r), 'instant_preserved': got_i == want_i, 'offset': roff})
        # xs:date: the date of the starting instant in the new timezone
        dlex = '%04d-%02d-%02d' % (y, m, d) + ('' if tz1 is None else fmt(tz1))
        try:
            r = select(None, f"adjust-date-to-timezone(xs:date('{dlex}'), xs:dayTimeDuration('{dur}'))",
                       item=1, parser=XPath2Parser, timezone=fmt(implicit) if implicit else 'Z')
        except ElementPathError as e:
            chk.violation('impl-vs-spec', {'kind': 'adjust-date', 'value': dlex, 'tz': dur}, repr(e))
            continue
        start = instant(y, m, d, 0, tz1 if tz1 is not None else tz2) + tz2 * 60 * 10 ** 6   # local time in the target zone
        local_day = start // US
        got_day = instant(r._year, r.month, r.day, 0, 0) // US
        roff = int(r.tzinfo.offset.total_seconds() // 60) if r.tzinfo is not None else None
        if got_day != local_day or roff != tz2:
            chk.violation('impl-vs-spec', {'kind': 'adjust-date-to-timezone', 'value': dlex, 'tz': dur, 'implicit': implicit},
                          {'impl': str(r), 'spec_day_number': local_day, 'impl_day_number': got_day})
    chk.rule = ('boundary years (+-1..5, 100/400 cycles, 9999/10000, BCE, 2^21) x boundary days x times of day, plus seeded random '
                'dates; operations todelta / fromdelta / +-dayTimeDuration / +yearMonthDuration / constructor validity / '
                'months2days for both XSD classes; comparisons and adjust-*-to-timezone across year boundaries and timezones '
                '-14:00..+14:00; non-trivial = every case with a valid date, distinct by (operation, arguments)')
    chk.obligations.append({'name': 'correspondence:impl==model(todelta,fromdelta,durations)', 'ok': not chk.corr_fail,
                            'detail': f'{len(chk.corr_fail)} disagreements' + (': ' + repr(chk.corr_fail[0])[:400] if chk.corr_fail else '')})
    if chk.corr_fail and not any(not v['no_failing_input'] for v in chk.violations):
        d, got, mo = chk.corr_fail[0]
        chk.violation('correspondence-broken', d, {'impl': got, 'model': mo, 'all': [repr(x)[:300] for x in chk.corr_fail[:30]]}, no_input=True)


def replay(rec):
    print(rec)
    return 0
