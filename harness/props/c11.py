"""C11 — dates, times and durations on the proleptic Gregorian timeline.

proof:  coq/theories/C11/{Model,Proofs,Properties}.v over Gen/C11Helpers.v (T-fun: helpers.adjust_day,
        days_from_common_era, months2days and the MONTH_DAYS tables re-translated from /repo each run)
tie:    T-fun + correspondence of the todelta/fromdelta/duration model with the DateTime/Date/Duration API
        (XSD 1.0 and 1.1 classes), comparison / timezone adjustment judged against instants.
"""
import datetime
import calendar

import core
import gen_c11

IMPORTS = 'From EP Require Import Common.PyCalendar Gen.C11Helpers C11.Model C11.Run.'
US = 86400 * 10 ** 6
Z = core.zlit


def astro(y):
    return y if y > 0 else y + 1


def isleap(a):
    return a % 4 == 0 and (a % 100 != 0 or a % 400 == 0)


def mlen(a, m):
    return 29 if m == 2 and isleap(a) else [31, 28, 31, 30, 31, 30, 31, 31, 30, 31, 30, 31][m - 1]


def valid(y, m, d):
    return y != 0 and 1 <= m <= 12 and 1 <= d <= mlen(astro(y), m)


def tod_of(h, mi, s, us):
    return ((h * 60 + mi) * 60 + s) * 10 ** 6 + us


def split_tod(tod):
    us = tod % 10 ** 6
    s = tod // 10 ** 6
    return s // 3600, s // 60 % 60, s % 60, us


def zoned_section(chk, rng, quick):
    from elementpath import ElementPathError, XPathContext
    from elementpath.xpath2 import XPath2Parser
    from elementpath.xpath31 import XPath31Parser
    from elementpath.datatypes import Timezone
    import shape
    shape.generate('C11')
    proved = chk.prove(['theories/Gen/C11Shape.v', 'theories/C11/Zoned.v', 'theories/C11/ZonedProofs.v'], 'theories/C11/ZonedProperties.v')
    TZS = [None, None, 0, 60, -300, 840, -840, 330, -210]
    CTX = [None, 0, -300, 330, 840, -840]
    TODS = [0, tod_of(1, 0, 0, 0), tod_of(12, 0, 0, 0), tod_of(23, 0, 0, 0), tod_of(23, 59, 59, 999999), tod_of(10, 30, 15, 500000), tod_of(13, 59, 0, 0)]
    YEARS = [-2, -1, 1, 2, 1999, 2000, 2024, 9998, 9999, 10000, 10001, -10000, 12345]
    MDS = [(12, 31), (1, 1), (1, 2), (12, 30), (2, 28), (3, 1), (6, 15)]

    def fmt_tz(t):
        return '' if t is None else 'Z' if t == 0 else '%s%02d:%02d' % ('+' if t > 0 else '-', abs(t) // 60, abs(t) % 60)

    def fmt_year(y):
        return ('-%04d' % -y) if y < 0 else '%04d' % y

    def fmt_tod(tod):
        h, mi, sec, us = split_tod(tod)
        return '%02d:%02d:%02d' % (h, mi, sec) + (('.%06d' % us).rstrip('0') if us else '')

    def lex(kind, v):
        y, m, d, tod, t = v
        if kind == 'dateTime':
            return "xs:dateTime('%s-%02d-%02dT%s%s')" % (fmt_year(y), m, d, fmt_tod(tod), fmt_tz(t))
        if kind == 'date':
            return "xs:date('%s-%02d-%02d%s')" % (fmt_year(y), m, d, fmt_tz(t))
        return "xs:time('%s%s')" % (fmt_tod(tod), fmt_tz(t))

    def norm(kind, v):      # the value as the model sees it
        y, m, d, tod, t = v
        if kind == 'date':
            return (y, m, d, 0, t)
        if kind == 'time':
            return (1972, 12, 31, tod, t)
        return v

    def coq_zv(v):
        y, m, d, tod, t = v
        return f'({Z(y)}, {m}, {d}, {tod}, {"None" if t is None else "Some " + Z(t)})'

    def coq_opt(t):
        return 'None' if t is None else f'(Some {Z(t)})'

    def rand_value():
        y = rng.choice(YEARS)
        m, d = rng.choice(MDS)
        if not valid(y, m, d):
            m, d = 3, 1
        return (y, m, d, rng.choice(TODS), rng.choice(TZS))

    def near(v):
        y, m, d, tod, t = v
        r = rng.random()
        if r < 0.3:
            return (y, m, d, rng.choice(TODS + [tod]), rng.choice(TZS))
        if r < 0.6:     # the neighbouring day / year
            if (m, d) == (12, 31):
                y2 = y + 1 if y != -1 else 1
                return (y2, 1, 1, rng.choice(TODS), rng.choice(TZS))
            if (m, d) == (1, 1):
                y2 = y - 1 if y != 1 else -1
                return (y2, 12, 31, rng.choice(TODS), rng.choice(TZS))
            return (y, m, d + 1 if d < 28 else d - 1, rng.choice(TODS), rng.choice(TZS))
        return rand_value()

    def evaluate(P, expr, ctx):
        tz = None if ctx is None else Timezone(datetime.timedelta(minutes=ctx))
        tok = P().parse(expr)
        return tok.evaluate(XPathContext(root=None, item=1, timezone=tz)) if False else \
            list(tok.select(XPathContext(root=_zroot(), timezone=tz)))

    npairs = 220 if quick else 6000
    pairs = []
    for _ in range(npairs):
        kind = rng.choice(['dateTime', 'dateTime', 'date', 'time'])
        a = rand_value()
        b = near(a)
        pairs.append((kind, a, b, rng.choice(CTX)))
    # fixed corpus: the repaired cases first
    pairs[:0] = [('dateTime', (2000, 1, 1, tod_of(12, 0, 0, 0), None), (2000, 1, 1, tod_of(17, 0, 0, 0), 0), -300),
                 ('time', (2000, 1, 1, tod_of(12, 0, 0, 0), None), (2000, 1, 1, tod_of(17, 0, 0, 0), 0), -300),
                 ('date', (2000, 1, 1, 0, None), (2000, 1, 1, 0, -300), -300),
                 ('dateTime', (-1, 12, 31, tod_of(23, 0, 0, 0), -300), (1, 1, 1, tod_of(3, 0, 0, 0), 0), None),
                 ('dateTime', (10000, 1, 1, 0, 840), (9999, 12, 31, tod_of(10, 0, 0, 0), 0), None),
                 ('date', (10001, 1, 1, 0, 840), (10000, 12, 31, 0, -600), 0)]
    ts = [f'run_zcmp {coq_opt(c)} {coq_zv(norm(k, a))} {coq_zv(norm(k, b))}' for k, a, b, c in pairs]
    model = core.run_coq_cases('C11', IMPORTS, ts, chunk=500, tag='zcmp')
    OPS = [('eq', lambda c: c == 0), ('ne', lambda c: c != 0), ('lt', lambda c: c < 0), ('le', lambda c: c <= 0),
           ('gt', lambda c: c > 0), ('ge', lambda c: c >= 0), ('=', lambda c: c == 0), ('<', lambda c: c < 0), ('>=', lambda c: c >= 0)]
    for (kind, a, b, ctx), mo in zip(pairs, model):
        if mo is None:
            continue
        c_impl, c_spec, s_impl, s_spec = mo
        la, lb = lex(kind, a), lex(kind, b)
        desc0 = {'kind': kind, 'a': la, 'b': lb, 'implicit timezone (minutes)': ctx}
        for P in (XPath2Parser, XPath31Parser):
            for op, pred in OPS:
                chk.evaluations += 1
                chk.count('zoned:compare')
                expr = f'{la} {op} {lb}'
                try:
                    got = evaluate(P, expr, ctx)
                except ElementPathError as ex:
                    got = ['error ' + str(ex.code)]
                except Exception as ex:
                    got = ['exception ' + repr(ex)[:120]]
                desc = desc0 | {'expr': expr, 'parser': P.__name__}
                if got != [pred(c_impl)]:
                    chk.corr_fail.append((desc, got, pred(c_impl)))
                if got != [pred(c_spec)]:
                    chk.violation('impl-vs-spec', desc, {'impl': repr(got), 'order of the instants': pred(c_spec)})
            chk.evaluations += 1
            chk.count('zoned:subtract')
            expr = f'({la} - {lb}) div xs:dayTimeDuration("PT0.000001S")'
            try:
                got = evaluate(P, expr, ctx)
                got = [int(x) for x in got]
            except ElementPathError as ex:
                got = ['error ' + str(ex.code)]
            except Exception as ex:
                got = ['exception ' + repr(ex)[:120]]
            desc = desc0 | {'expr': expr, 'parser': P.__name__}
            if got != [s_impl]:
                chk.corr_fail.append((desc, got, s_impl))
            if got != [s_spec]:
                chk.violation('impl-vs-spec', desc, {'impl (microseconds)': repr(got), 'elapsed time between the instants': s_spec})
            # the sequence functions use the same comparison
            for fn, want in ((f'deep-equal({la}, {lb})', [c_spec == 0]), (f'index-of({la}, {lb})', [1] if c_spec == 0 else []),
                             (f'count(distinct-values(({la}, {lb})))', [1 if c_spec == 0 else 2]),
                             (f'max(({la}, {lb})) eq {la if c_spec >= 0 else lb}', [True]), (f'min(({la}, {lb})) eq {la if c_spec <= 0 else lb}', [True]),
                             (f'string(max(({la}, {lb}))) eq string({la if c_spec >= 0 else lb})', [True]),
                             (f'string(min(({la}, {lb}))) eq string({la if c_spec <= 0 else lb})', [True])):
                chk.evaluations += 1
                chk.count('zoned:sequence-functions')
                try:
                    got = evaluate(P, fn, ctx)
                except ElementPathError as ex:
                    got = ['error ' + str(ex.code)]
                except Exception as ex:
                    got = ['exception ' + repr(ex)[:120]]
                if got != want:
                    chk.violation('impl-vs-spec', desc0 | {'expr': fn, 'parser': P.__name__}, {'impl': repr(got), 'by the instants': want})
        chk.nontrivial.add(repr(('zoned', kind, a, b, ctx)))
    # ---- adjust-*-to-timezone ----
    adj = []
    for _ in range(150 if quick else 4000):
        kind = rng.choice(['dateTime', 'date', 'time'])
        v = rand_value()
        form = rng.choice(['tz', 'tz', 'tz', 'empty', 'implicit'])
        ctx = rng.choice(CTX)
        target = rng.choice([0, 60, -300, 840, -840, 330, -600]) if form == 'tz' else None if form == 'empty' else ctx
        adj.append((kind, v, form, ctx, target))
    KN = {'dateTime': 0, 'date': 1, 'time': 2}
    ts = [f'run_zadjust {KN[k]} {coq_zv(norm(k, v))} {coq_opt(t)}' for k, v, f, c, t in adj]
    model = core.run_coq_cases('C11', IMPORTS, ts, chunk=500, tag='zadjust')
    for (kind, v, form, ctx, target), mo in zip(adj, model):
        if mo is None:
            continue
        lv = lex(kind, v)
        if form == 'tz':
            dur = 'PT%dM' % target if target >= 0 else '-PT%dM' % -target
            expr = f"adjust-{kind}-to-timezone({lv}, xs:dayTimeDuration('{dur}'))"
        elif form == 'empty':
            expr = f'adjust-{kind}-to-timezone({lv}, ())'
        else:
            expr = f'adjust-{kind}-to-timezone({lv})'
        chk.evaluations += 1
        chk.count('zoned:adjust-' + form)
        desc = {'expr': expr, 'implicit timezone (minutes)': ctx}
        try:
            r = evaluate(XPath2Parser, expr, ctx)[0]
            off = None if r.tzinfo is None else int(r.tzinfo.offset.total_seconds() // 60)
            if kind == 'time':
                got = [0, 0, 0, tod_of(r.hour, r.minute, r.second, r.microsecond), 9999 if off is None else off]
            else:
                got = [r._year, r.month, r.day, tod_of(r.hour, r.minute, r.second, r.microsecond), 9999 if off is None else off]
        except ElementPathError as ex:
            got = ['error ' + str(ex.code)]
        except Exception as ex:
            got = ['exception ' + repr(ex)[:120]]
        want = list(mo)
        if form == 'implicit' and ctx is None:
            # no implicit timezone in the context: F&O uses implicit-timezone() (PT0S here); the code removes the timezone
            faithful = list(core.run_coq_cases('C11', IMPORTS, [f'run_zadjust {KN[kind]} {coq_zv(norm(kind, v))} None'], tag='zadjust1')[0])
            if got == faithful and v[4] is not None and v[4] != 0:
                chk.known('C11-adjust-without-context-timezone', desc | {'impl': repr(got)})   # the instant is moved
            elif got != faithful:
                chk.corr_fail.append((desc, got, faithful))
                chk.violation('impl-vs-model', desc, {'impl': repr(got), 'model': faithful})
            continue
        if got != want:
            chk.corr_fail.append((desc, got, want))
            chk.violation('impl-vs-spec', desc, {'impl [year, month, day, time of day, timezone]': repr(got), 'spec (C11_adjust_preserves_instant)': want})
        chk.nontrivial.add(repr(('zadjust', kind, v, form, ctx, target)))


_ZROOT = []


def components_section(chk, rng, quick):
    """Component extraction (the last clause of the property): *-from-duration against the regenerated functions and the
    F&O definition (Components.v), *-from-dateTime / -date / -time and timezone-from-* against the fields the lexical
    form was written from (through the timeline offset in the model), for both XSD year numberings."""
    from decimal import Decimal
    from elementpath import ElementPathError, XPathContext
    from elementpath.xpath2 import XPath2Parser
    from elementpath.xpath31 import XPath31Parser
    proved = chk.prove(['theories/Gen/C11Components.v', 'theories/C11/Components.v', 'theories/C11/ComponentsProofs.v'],
                       'theories/C11/ComponentsProperties.v')
    P10 = lambda: XPath31Parser()
    P11 = lambda: XPath31Parser(xsd_version='1.1')

    def ev(P, expr):
        return list(P().parse(expr).select(XPathContext(root=_zroot())))

    def us_of(v):     # a seconds value (int or Decimal) in microseconds, exact
        q = Decimal(v) * 1000000
        if q != q.to_integral_value():
            raise ValueError(f'more than six fraction digits: {v!r}')
        return int(q)

    # ---- durations: non-normalised lexical forms
    def rand_piece(hi):
        return rng.choice([None, 0, 1, rng.randint(0, hi), rng.randint(0, hi * 40)])

    dcases = []
    fixed = [('duration', False, (1, 2, 3, 4, 5, 6, 700000)), ('duration', True, (1, 2, 3, 4, 5, 6, 700000)),
             ('yearMonthDuration', True, (None, 14, None, None, None, None, 0)), ('dayTimeDuration', True, (None, None, None, 36, None, None, 0)),
             ('dayTimeDuration', False, (None, None, None, None, 90, None, 0)), ('dayTimeDuration', True, (None, None, None, None, None, 3661, 500000)),
             ('dayTimeDuration', True, (None, None, None, None, None, 0, 500000)), ('duration', False, (None, None, 0, None, None, None, 0)),
             ('dayTimeDuration', False, (None, None, 1, None, None, 0, 1)), ('duration', True, (99999, 11, 400, 23, 59, 59, 999999)),
             ('dayTimeDuration', False, (None, None, None, None, None, 10 ** 12, 0)), ('dayTimeDuration', True, (None, None, None, 24, None, None, 0)),
             ('dayTimeDuration', False, (None, None, None, None, 60, None, 0)), ('yearMonthDuration', False, (None, 12, None, None, None, None, 0))]
    for _ in range(150 if quick else 5000):
        kind = rng.choice(['duration', 'duration', 'yearMonthDuration', 'dayTimeDuration'])
        Y, Mo = (rand_piece(50), rand_piece(30)) if kind != 'dayTimeDuration' else (None, None)
        D, H, Mi, S = (rand_piece(40), rand_piece(30), rand_piece(70), rand_piece(70)) if kind != 'yearMonthDuration' else (None,) * 4
        f = rng.choice([0, 0, 500000, 1, 999999, 5000, 50, rng.randint(0, 999999)]) if S is not None else 0
        if all(x is None for x in (Y, Mo, D, H, Mi, S)):
            if kind == 'dayTimeDuration':
                D = 0
            else:
                Y = 0
        dcases.append((kind, rng.random() < 0.4, (Y, Mo, D, H, Mi, S, f)))
    dcases[:0] = fixed

    def dur_lex(kind, neg, pc):
        Y, Mo, D, H, Mi, S, f = pc
        t = ('-' if neg else '') + 'P'
        t += ''.join(f'{v}{u}' for v, u in ((Y, 'Y'), (Mo, 'M'), (D, 'D')) if v is not None)
        tt = ''.join(f'{v}{u}' for v, u in ((H, 'H'), (Mi, 'M')) if v is not None)
        if S is not None:
            tt += str(S) + (('.%06d' % f).rstrip('0') if f else '') + 'S'
        return f"xs:{kind}('{t}{'T' + tt if tt else ''}')"

    def totals(neg, pc):
        Y, Mo, D, H, Mi, S, f = [x or 0 for x in pc]
        months = 12 * Y + Mo
        us = (((D * 24 + H) * 60 + Mi) * 60 + S) * 1000000 + f
        return (-months, -us) if neg else (months, us)

    model = core.run_coq_cases('C11', IMPORTS, [f'run_dur {Z(totals(n, pc)[0])} {Z(totals(n, pc)[1])}' for _, n, pc in dcases],
                               chunk=500, tag='dur')
    FN = ['years', 'months', 'days', 'hours', 'minutes', 'seconds']
    for (kind, neg, pc), mo in zip(dcases, model):
        chk.evaluations += 1
        chk.count('components:duration')
        lexd = dur_lex(kind, neg, pc)
        desc = {'value': lexd, 'months': totals(neg, pc)[0], 'microseconds': totals(neg, pc)[1]}
        try:
            got = []
            for fn in FN:
                r = ev(P10, f'{fn}-from-duration({lexd})')
                if len(r) != 1 or (fn != 'seconds' and (isinstance(r[0], bool) or not isinstance(r[0], int))) or \
                        not isinstance(r[0], (int, Decimal)):
                    chk.violation('impl-vs-spec', desc, {'function': fn + '-from-duration', 'result': repr(r)})
                    got = None
                    break
                got.append(us_of(r[0]) if fn == 'seconds' else r[0])
        except ElementPathError as e:
            chk.violation('impl-vs-spec', desc, {'error': str(e)[:200]})
            continue
        except Exception as e:
            chk.violation('impl-raised', desc, repr(e)[:200])
            continue
        if got is None:
            continue
        mi, ms = list(mo[0]), list(mo[1])
        if got != mi:
            chk.corr_fail.append((desc, got, mi))
        if got != ms:
            chk.violation('impl-vs-spec', desc, {'impl': got, 'spec (F&O components)': ms, 'model': mi})
        chk.nontrivial.add(repr(('dur', kind, neg, pc)))
    # the difference of two dateTimes is a duration of its own: its components recompose the elapsed time
    for _ in range(20 if quick else 400):
        chk.evaluations += 1
        chk.count('components:of a dateTime difference')
        a = (rng.randint(1, 3000), rng.randint(1, 12), rng.randint(1, 28), rng.randint(0, 86399))
        b = (rng.randint(1, 3000), rng.randint(1, 12), rng.randint(1, 28), rng.randint(0, 86399))
        la, lb = ["xs:dateTime('%04d-%02d-%02dT%02d:%02d:%02d')" % (v[0], v[1], v[2], v[3] // 3600, v[3] // 60 % 60, v[3] % 60) for v in (a, b)]
        desc = {'expr': f'{la} - {lb}'}
        try:
            c = [ev(P10, f'{fn}-from-duration({la} - {lb})')[0] for fn in FN[2:]]
            elapsed = (datetime.datetime(a[0], a[1], a[2]) - datetime.datetime(b[0], b[1], b[2])).days * 86400 + a[3] - b[3]
            if ((c[0] * 24 + c[1]) * 60 + c[2]) * 60 + c[3] != elapsed or len({x > 0 for x in c if x}) > 1:
                chk.violation('impl-vs-spec', desc, {'components': repr(c), 'elapsed seconds': elapsed})
        except Exception as e:
            chk.violation('impl-raised', desc, repr(e)[:200])
        chk.nontrivial.add(repr(('durdiff', a, b)))

    # ---- dateTime / date / time
    def fmt_tz(t):
        return '' if t is None else 'Z' if t == 0 else '%s%02d:%02d' % ('+' if t > 0 else '-', abs(t) // 60, abs(t) % 60)

    YEARS = [-4713, -101, -100, -45, -5, -4, -2, -1, 1, 2, 4, 100, 1582, 1999, 2000, 2024, 9999, 10000, 10001, 12345, 99999]
    TZS = [None, None, 0, 60, -300, 840, -840, 330, -210]
    vcases = []
    for _ in range(160 if quick else 5000):
        y = rng.choice(YEARS + [rng.randint(-12000, 12000) or 1])
        m = rng.randint(1, 12)
        d = rng.choice([1, 28, mlen(astro(y), m), rng.randint(1, mlen(astro(y), m))])
        h, mi, sec = rng.choice([(0, 0, 0), (23, 59, 59), (12, 30, 15), (rng.randint(0, 23), rng.randint(0, 59), rng.randint(0, 59))])
        us = rng.choice([0, 0, 500000, 5000, 50, 1, 999999, 100000, 99999, rng.randint(0, 999999)])
        vcases.append((rng.choice(['dateTime', 'dateTime', 'date', 'time']), rng.choice(['1.0', '1.1']), (y, m, d, h, mi, sec, us), rng.choice(TZS)))
    vcases[:0] = [('dateTime', '1.0', (2000, 1, 1, 0, 0, 1, 5000), None), ('dateTime', '1.0', (2000, 1, 1, 0, 0, 1, 1), 0),
                  ('date', '1.0', (-44, 3, 15, 0, 0, 0, 0), 60), ('date', '1.1', (-44, 3, 15, 0, 0, 0, 0), -300),
                  ('dateTime', '1.1', (-1, 12, 31, 23, 59, 59, 999999), 840), ('time', '1.0', (1, 1, 1, 23, 59, 59, 50), -840)]

    def lex_year(y, ver):
        # y: XSD 1.0 numbering (no year zero).  In XSD 1.1 the lexical year 0000 is 1 BCE, -0001 is 2 BCE.
        ly = y if (ver == '1.0' or y > 0) else y + 1
        return ly, (('-%04d' % -ly) if ly < 0 else '%04d' % ly)

    model = core.run_coq_cases('C11', IMPORTS, [f'run_dtc {Z(v[0])} {v[1]} {v[2]} {tod_of(v[3], v[4], v[5], v[6])}' for _, _, v, _ in vcases],
                               chunk=500, tag='dtc')
    for (kind, ver, v, t), mo in zip(vcases, model):
        chk.evaluations += 1
        chk.count('components:' + kind)
        y, m, d, h, mi, sec, us = v
        ly, ytext = lex_year(y, ver)
        tod_text = '%02d:%02d:%02d' % (h, mi, sec) + (('.%06d' % us).rstrip('0') if us else '')
        if kind == 'dateTime':
            lexv = f"xs:dateTime('{ytext}-{m:02d}-{d:02d}T{tod_text}{fmt_tz(t)}')"
            fns = ['year', 'month', 'day', 'hours', 'minutes', 'seconds']
            want = [ly, m, d, h, mi, sec * 1000000 + us]
        elif kind == 'date':
            lexv = f"xs:date('{ytext}-{m:02d}-{d:02d}{fmt_tz(t)}')"
            fns = ['year', 'month', 'day']
            want = [ly, m, d]
        else:
            lexv = f"xs:time('{tod_text}{fmt_tz(t)}')"
            fns = ['hours', 'minutes', 'seconds']
            want = [h, mi, sec * 1000000 + us]
        desc = {'value': lexv, 'xsd_version': ver}
        P = P10 if ver == '1.0' else P11
        try:
            got = []
            for fn in fns:
                r = ev(P, f'{fn}-from-{kind}({lexv})')
                if len(r) != 1 or not isinstance(r[0], (int, Decimal)) or isinstance(r[0], bool):
                    raise ValueError(f'{fn}-from-{kind}: {r!r}')
                got.append(us_of(r[0]) if fn == 'seconds' else r[0])
            tzr = ev(P, f'timezone-from-{kind}({lexv})')
            if t is None:
                tz_ok = tzr == []
            else:
                tz_ok = len(tzr) == 1 and type(tzr[0]).__name__ == 'DayTimeDuration' and tzr[0].seconds == t * 60 and tzr[0].months == 0
        except ElementPathError as e:
            chk.violation('impl-vs-spec', desc, {'error': str(e)[:200]})
            continue
        except Exception as e:
            chk.violation('impl-raised', desc, repr(e)[:200])
            continue
        # the model computes in the XSD 1.0 numbering; the lexical year of XSD 1.1 is shifted by one for BCE years
        mfull = list(mo)
        mfull[0] = ly if mfull[0] == y else mfull[0]
        mwant = mfull if kind == 'dateTime' else mfull[:3] if kind == 'date' else mfull[3:]
        if mwant != want:
            chk.corr_fail.append((desc, want, mwant))
        if got != want:
            chk.violation('impl-vs-spec', desc, {'functions': fns, 'impl': got, 'own components of the value': want})
        if not tz_ok:
            chk.violation('impl-vs-spec', desc, {'timezone-from-' + kind: repr(tzr), 'timezone of the value (minutes)': t})
        chk.nontrivial.add(repr(('dtc', kind, ver, v, t)))
    # 24:00:00 is the first instant of the next day - also across the end of a month, of a year, of 1 BCE and of 9999
    for _ in range(60 if quick else 1500):
        chk.evaluations += 1
        chk.count('components:dateTime with 24:00:00')
        y = rng.choice([-2, -1, 1, 9998, 9999, 10000, -10000, 2000, rng.randint(-12000, 12000) or 1])
        m = rng.choice([12, 12, 2, rng.randint(1, 12)])
        d = rng.choice([mlen(astro(y), m), mlen(astro(y), m), rng.randint(1, mlen(astro(y), m))])
        ver = rng.choice(['1.0', '1.1'])
        if d < mlen(astro(y), m):
            ny, nm, nd = y, m, d + 1
        elif m < 12:
            ny, nm, nd = y, m + 1, 1
        else:
            ny, nm, nd = (y + 1 if y != -1 else 1), 1, 1
        lexv = f"xs:dateTime('{lex_year(y, ver)[1]}-{m:02d}-{d:02d}T24:00:00')"
        desc = {'value': lexv, 'xsd_version': ver}
        try:
            got = [ev(P10 if ver == '1.0' else P11, f'{fn}-from-dateTime({lexv})')[0] for fn in ('year', 'month', 'day', 'hours', 'minutes', 'seconds')]
            want = [lex_year(ny, ver)[0], nm, nd, 0, 0, 0]
            if got != want:
                chk.violation('impl-vs-spec', desc, {'impl': repr(got), 'components of the next day': want})
        except Exception as e:
            chk.violation('impl-raised' if not isinstance(e, ElementPathError) else 'impl-vs-spec', desc, repr(e)[:200])
        chk.nontrivial.add(repr(('dt24', y, m, d, ver)))
    # the empty sequence gives the empty sequence
    for expr, want in [("year-from-dateTime(xs:dateTime('1999-12-31T24:00:00'))", [2000]), ("day-from-dateTime(xs:dateTime('1999-12-31T24:00:00'))", [1]),
                       ("hours-from-dateTime(xs:dateTime('1999-12-31T24:00:00'))", [0]), ("hours-from-time(xs:time('24:00:00'))", [0]),
                       ("year-from-date(())", []), ("seconds-from-time(())", []), ("timezone-from-dateTime(())", []), ("days-from-duration(())", []),
                       ("seconds-from-duration(())", []), ("year-from-dateTime(xs:dateTime('-0001-12-31T24:00:00'))", [1])]:
        chk.evaluations += 1
        chk.count('components:fixed')
        try:
            got = ev(P10, expr)
            if got != want:
                chk.violation('impl-vs-spec', {'expr': expr}, {'impl': repr(got), 'spec': want})
        except Exception as e:
            chk.violation('impl-raised' if not isinstance(e, ElementPathError) else 'impl-vs-spec', {'expr': expr}, repr(e)[:200])
        chk.nontrivial.add(expr)


def _zroot():
    if not _ZROOT:
        import xml.etree.ElementTree as ET
        _ZROOT.append(ET.XML('<r/>'))
    return _ZROOT[0]


def run(chk):
    from elementpath.datatypes import DateTime, DateTime10, Date, Date10, DayTimeDuration, YearMonthDuration, Timezone
    from elementpath import select, XPath2Parser, ElementPathError
    rng = chk.rng
    quick = chk.tier == 'quick'
    chk.trusted += ['harness/py2coq.py + gen_c11.py (T-fun translator incl. match statements and tuple tables)',
                    'Common/PyCalendar.v: Gallina copies of calendar.isleap / calendar.leapdays (modelled external)',
                    'modelled not verified: datetime.datetime ordinal arithmetic for years 1..9999 (the model uses the same '
                    'formula as for the other years; agreement is checked by correspondence), timedelta normalisation, '
                    'Timezone offsets; comparison and adjust-*-to-timezone are judged against instants computed by the harness']
    st = gen_c11.generate()
    for k, v in st.items():
        chk.obligations.append({'name': 'translate:' + k, 'ok': v == 'ok', 'detail': v})
    for f in ('elementpath/datatypes/datetime.py', 'elementpath/helpers.py', 'elementpath/xpath_tokens/base.py'):
        chk.record_source(f)
    chk.forbidden_scan(['C11', 'Common'])
    proved = all(v == 'ok' for v in st.values()) and chk.prove(
        ['theories/Common/PyCalendar.v', 'theories/Gen/C11Helpers.v', 'theories/C11/Model.v', 'theories/C11/Proofs.v',
         'theories/C11/Run.v'], 'theories/C11/Properties.v')
    model_ok = True
    if not proved:
        try:
            core.coq_make(['theories/Gen/C11Helpers.v', 'theories/C11/Model.v', 'theories/C11/Run.v'])
        except core.CoqError as e:
            chk.notes.append('model does not build: ' + str(e))
            model_ok = False

    years = [1, 2, 3, 4, 5, 99, 100, 101, 399, 400, 401, 1582, 1900, 2000, 2024, 9998, 9999, 10000, 10001, 12000, 99999,
             400000, 2 ** 21, -1, -2, -3, -4, -5, -6, -99, -100, -101, -102, -400, -401, -402, -821, -9999, -10000, -2 ** 21]
    mds = [(1, 1), (1, 2), (1, 31), (2, 28), (2, 29), (3, 1), (4, 30), (6, 15), (12, 30), (12, 31)]
    tods = [0, 1, tod_of(12, 30, 15, 0), tod_of(23, 59, 59, 999999), tod_of(0, 0, 0, 500000)]
    dates = []
    for y in years:
        for m, d in mds:
            if valid(y, m, d):
                dates.append((y, m, d))
    for _ in range(60 if quick else 3000):
        y = rng.choice([rng.randint(-20000, 20000), rng.randint(-500, 500), rng.randint(9990, 10010)]) or 1
        m = rng.randint(1, 12)
        d = rng.randint(1, mlen(astro(y), m))
        dates.append((y, m, d))
    cases = []
    for (y, m, d) in dates:
        cases.append(('todelta', (y, m, d, rng.choice(tods))))
        n = None
        cases.append(('roundtrip', (y, m, d, rng.choice(tods))))
        for dur in (0, 1, -1, US, -US, 366 * US, -366 * US + 1, rng.randint(-10 ** 7, 10 ** 7) * US + rng.randint(0, US)):
            cases.append(('add', (y, m, d, rng.choice(tods), dur)))
        for k in (1, -1, 12, -12, 13, -25, rng.randint(-3000, 3000)):
            cases.append(('addmonths', (y, m, d, k)))
    # constructor validity: day 29..31 of every month of boundary years
    for y in years:
        for m in range(1, 13):
            for d in (28, 29, 30, 31):
                cases.append(('ctor', (y, m, d)))
    for _ in range(150 if quick else 5000):
        n = rng.choice([rng.randint(-4 * 10 ** 6, 4 * 10 ** 6), rng.randint(-1500, 1500), 3652059 + rng.randint(-800, 800)])
        cases.append(('fromdelta', (n, rng.choice(tods))))
    for n in (-367, -366, -365, -1, 0, 1, 365, 366, 146096, 146097, 146098, 36524, 36525, 1460, 1461, 3652058, 3652059, 3652060,
              -146097 - 366, -146097 - 367, -146097 - 365, -731, -732, -1096, -1097):
        for t in (0, 1):
            cases.append(('fromdelta', (n, t)))
    for y in (1, 4, 100, 400, 2000, 2023, -1 + 1, -3, -4):     # astronomical years for months2days
        for m in range(1, 13):
            for k in (-25, -13, -12, -1, 0, 1, 2, 11, 12, 13, 27):
                cases.append(('months2days', (y, m, k)))

    model = {}
    if model_ok:
        groups = {}
        for i, (k, a) in enumerate(cases):
            groups.setdefault(k, []).append(i)
        for k, idxs in groups.items():
            ts = []
            for i in idxs:
                a = cases[i][1]
                if k in ('todelta', 'roundtrip'):
                    ts.append(f'run_todelta {Z(a[0])} {a[1]} {a[2]}')
                elif k == 'fromdelta':
                    ts.append(f'run_fromdelta {Z(a[0])}')
                elif k == 'add':
                    ts.append(f'run_add {Z(a[0])} {a[1]} {a[2]} {a[3]} {Z(a[4])}')
                elif k == 'addmonths':
                    ts.append(f'run_addmonths {Z(a[0])} {a[1]} {a[2]} {Z(a[3])}')
                elif k == 'months2days':
                    ts.append(f'run_months2days {Z(a[0])} {a[1]} {Z(a[2])}')
                elif k == 'ctor':
                    ts.append(f'([1], [1])')
            vals = core.run_coq_cases('C11', IMPORTS, ts, chunk=500, tag=k)
            model.update(zip(idxs, vals))

    def mk(cls, y, m, d, tod):
        h, mi, s, us = split_tod(tod)
        return cls(y, m, d, h, mi, s, us)

    def fields(x):
        return [x._year, x.month, x.day, tod_of(x.hour, x.minute, x.second, x.microsecond)]

    from elementpath.helpers import months2days as impl_m2d
    for i, (k, a) in enumerate(cases):
        for cls in (DateTime, DateTime10):
            chk.evaluations += 1
            chk.count(k)
            desc = {'kind': k, 'args': list(a), 'class': cls.__name__}
            mo, sp = model.get(i, (None, None))
            try:
                if k == 'ctor':
                    y, m, d = a
                    try:
                        cls(y, m, d)
                        ok = True
                    except ValueError:
                        ok = False
                    if ok != valid(y, m, d):
                        chk.violation('impl-vs-spec', desc, {'constructor_accepts': ok, 'valid_date': valid(y, m, d)})
                    chk.nontrivial.add(repr((k, a)))
                    continue
                if k == 'months2days':
                    if cls is DateTime10:
                        continue
                    got = [impl_m2d(*a)]
                elif k == 'todelta':
                    td = mk(cls, *a).todelta()
                    got = [td.days]
                    if td.seconds * 10 ** 6 + td.microseconds != a[3]:
                        chk.violation('impl-vs-spec', desc, {'time part of todelta': [td.seconds, td.microseconds]})
                elif k == 'roundtrip':
                    x = mk(cls, *a)
                    r = cls.fromdelta(x.todelta())
                    got = None
                    if fields(r) != list(a):
                        chk.violation('impl-vs-spec', desc, {'fromdelta(todelta(x))': fields(r), 'x': list(a)})
                    chk.nontrivial.add(repr((k, a)))
                    continue
                elif k == 'fromdelta':
                    n, t = a
                    r = cls.fromdelta(datetime.timedelta(days=n, microseconds=t))
                    got = fields(r)[:3]
                    if fields(r)[3] != t:
                        chk.violation('impl-vs-spec', desc, {'time of day': fields(r)[3]})
                elif k == 'add':
                    y, m, d, tod, dur = a
                    x = mk(cls, y, m, d, tod)
                    delta = datetime.timedelta(microseconds=dur)
                    r = x + DayTimeDuration.fromtimedelta(delta)
                    got = fields(r)
                    back = r - DayTimeDuration.fromtimedelta(delta)
                    if fields(back) != [y, m, d, tod]:
                        chk.violation('impl-vs-spec', desc, {'(d + dur) - dur': fields(back), 'd': [y, m, d, tod]})
                    diff = r - x
                    if diff.get_timedelta() != delta:
                        chk.violation('impl-vs-spec', desc, {'(d + dur) - d': str(diff.get_timedelta()), 'dur': str(delta)})
                    if not ((dur > 0) == (r > x) and (dur < 0) == (r < x) and (dur == 0) == (r == x)):
                        chk.violation('impl-vs-spec', desc, {'order of d and d + dur': [r < x, r == x, r > x]})
                elif k == 'addmonths':
                    y, m, d, kk = a
                    x = mk(cls, y, m, d, 0)
                    try:
                        r = x + YearMonthDuration(months=kk)
                        got = fields(r)[:3]
                    except (ValueError, OverflowError) as e:
                        got = ['err', type(e).__name__]
                if mo is None:
                    continue
                if got != list(mo):
                    chk.corr_fail.append((desc, got, list(mo)))
                if got != list(sp):
                    chk.violation('impl-vs-spec', desc, {'impl': got, 'spec': list(sp), 'model': list(mo)})
                chk.nontrivial.add(repr((k, a)))
            except Exception as e:
                chk.violation('impl-raised', desc, repr(e))
        if i % 499 == 0:
            chk.sample({'kind': k, 'args': list(a), 'model,spec': model.get(i)})

    # ---- comparisons and timezone adjustment judged against instants (harness-side specification) ----
    tzs = [None, 0, 60, -300, 840, -840, 330]

    def instant(y, m, d, tod, tz, implicit=0):
        days = (astro(y) - 1) * 365 + (astro(y) - 1) // 4 - (astro(y) - 1) // 100 + (astro(y) - 1) // 400
        days += sum(mlen(astro(y), mm) for mm in range(1, m)) + d - 1
        return days * US + tod - (tz if tz is not None else implicit) * 60 * 10 ** 6

    def mkz(y, m, d, tod, tz):
        h, mi, s, us = split_tod(tod)
        return DateTime(y, m, d, h, mi, s, us, tzinfo=None if tz is None else Timezone(datetime.timedelta(minutes=tz)))

    ncmp = 400 if quick else 20000
    for _ in range(ncmp):
        chk.evaluations += 1
        chk.count('compare')
        y = rng.choice([1, 2000, 2001, 9999, 1999])
        m, d = rng.choice([(12, 31), (1, 1), (6, 15), (2, 28)])
        a = (y, m, d, rng.choice([0, tod_of(23, 0, 0, 0), tod_of(1, 0, 0, 0), tod_of(12, 0, 0, 0)]), rng.choice(tzs))
        y2 = y + rng.choice([0, 0, 1, -1]) or 1
        m2, d2 = rng.choice([(12, 31), (1, 1), (6, 15), (m, d)])
        b = (min(max(y2, 1), 9999), m2, d2, rng.choice([0, tod_of(23, 0, 0, 0), tod_of(1, 0, 0, 0), a[3]]), rng.choice(tzs))
        try:
            x1, x2 = mkz(*a), mkz(*b)
        except (ValueError, OverflowError):
            continue
        i1, i2 = instant(*a), instant(*b)
        got = [x1 < x2, x1 == x2, x1 > x2, x1 <= x2, x1 >= x2]
        want = [i1 < i2, i1 == i2, i1 > i2, i1 <= i2, i1 >= i2]
        chk.nontrivial.add(repr(('cmp', a, b)))
        if got != want:
            chk.violation('impl-vs-spec', {'kind': 'compare', 'a': list(a), 'b': list(b)}, {'impl [lt,eq,gt,le,ge]': got, 'instants': want})
    # adjust-*-to-timezone preserves the instant (dateTime) / the starting instant's local date (date)
    for _ in range(150 if quick else 5000):
        chk.evaluations += 1
        chk.count('adjust')
        y, m, d = rng.choice([(2002, 3, 7), (2000, 1, 1), (1999, 12, 31), (2024, 2, 29)])
        tod = rng.choice([0, tod_of(10, 0, 0, 0), tod_of(23, 30, 0, 0)])
        tz1 = rng.choice(tzs)
        tz2 = rng.choice([t for t in tzs if t is not None])
        implicit = rng.choice([0, -300, 330])
        fmt = lambda t: 'Z' if t == 0 else '%s%02d:%02d' % ('+' if t > 0 else '-', abs(t) // 60, abs(t) % 60)
        h, mi, s, _ = split_tod(tod)
        lex = '%04d-%02d-%02dT%02d:%02d:%02d' % (y, m, d, h, mi, s) + ('' if tz1 is None else fmt(tz1))
        dur = 'PT%dM' % tz2 if tz2 >= 0 else '-PT%dM' % -tz2
        try:
            r = select(None, f"adjust-dateTime-to-timezone(xs:dateTime('{lex}'), xs:dayTimeDuration('{dur}'))",
                       item=1, parser=XPath2Parser, timezone=fmt(implicit) if implicit else 'Z')
        except ElementPathError as e:
            chk.violation('impl-vs-spec', {'kind': 'adjust-dateTime', 'value': lex, 'tz': dur}, repr(e))
            continue
        # F&O: a value without timezone simply gets the new timezone (same local fields)
        want_i = instant(y, m, d, tod, tz1 if tz1 is not None else tz2)
        got_i = instant(r._year, r.month, r.day, tod_of(r.hour, r.minute, r.second, r.microsecond),
                        int(r.tzinfo.offset.total_seconds() // 60) if r.tzinfo is not None else None)
        roff = int(r.tzinfo.offset.total_seconds() // 60) if r.tzinfo is not None else None
        chk.nontrivial.add(repr(('adj', lex, dur, implicit)))
        if got_i != want_i or roff != tz2:
            chk.violation('impl-vs-spec', {'kind': 'adjust-dateTime-to-timezone', 'value': lex, 'tz': dur, 'implicit': implicit},
                          {'impl': str(r), 'instant_preserved': got_i == want_i, 'offset': roff})
        # xs:date: the date of the starting instant in the new timezone
        dlex = '%04d-%02d-%02d' % (y, m, d) + ('' if tz1 is None else fmt(tz1))
        try:
            r = select(None, f"adjust-date-to-timezone(xs:date('{dlex}'), xs:dayTimeDuration('{dur}'))",
                       item=1, parser=XPath2Parser, timezone=fmt(implicit) if implicit else 'Z')
        except ElementPathError as e:
            chk.violation('impl-vs-spec', {'kind': 'adjust-date', 'value': dlex, 'tz': dur}, repr(e))
            continue
        start = instant(y, m, d, 0, tz1 if tz1 is not None else tz2) + tz2 * 60 * 10 ** 6   # local time in the target zone
        local_day = start // US
        got_day = instant(r._year, r.month, r.day, 0, 0) // US
        roff = int(r.tzinfo.offset.total_seconds() // 60) if r.tzinfo is not None else None
        if got_day != local_day or roff != tz2:
            chk.violation('impl-vs-spec', {'kind': 'adjust-date-to-timezone', 'value': dlex, 'tz': dur, 'implicit': implicit},
                          {'impl': str(r), 'spec_day_number': local_day, 'impl_day_number': got_day})
    # ---- values with timezones through the XPath operators and functions (C11/Zoned.v): comparison (value and general),
    # subtraction, min / max, index-of, distinct-values, deep-equal, adjust-*-to-timezone, for xs:dateTime / xs:date / xs:time,
    # years on both sides of 1 and of 9999, every context timezone incl. none
    zoned_section(chk, rng, quick)
    components_section(chk, rng, quick)
    chk.rule = ('boundary years (+-1..5, 100/400 cycles, 9999/10000, BCE, 2^21) x boundary days x times of day, plus seeded random '
                'dates; operations todelta / fromdelta / +-dayTimeDuration / +yearMonthDuration / constructor validity / '
                'months2days for both XSD classes; comparisons and adjust-*-to-timezone across year boundaries and timezones '
                '-14:00..+14:00; non-trivial = every case with a valid date, distinct by (operation, arguments)')
    chk.obligations.append({'name': 'correspondence:impl==model(todelta,fromdelta,durations)', 'ok': not chk.corr_fail,
                            'detail': f'{len(chk.corr_fail)} disagreements' + (': ' + repr(chk.corr_fail[0])[:400] if chk.corr_fail else '')})
    if chk.corr_fail and not any(not v['no_failing_input'] for v in chk.violations):
        d, got, mo = chk.corr_fail[0]
        chk.violation('correspondence-broken', d, {'impl': got, 'model': mo, 'all': [repr(x)[:300] for x in chk.corr_fail[:30]]}, no_input=True)


def replay(rec):
    print(rec)
    return 0
