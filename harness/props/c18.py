"""C18 — sequence-type judgements are sound: instance of, treat as, function signatures.

proof:  coq/theories/C18/{Model,Proofs,Properties}.v : the atomic hierarchy used by the code (issubclass matrix, T-data) is the
        XSD derivation hierarchy; occurrence indicators = cardinality sets; the subtype relation is reflexive, transitive and
        sound for matching (all values, all sequence types over atomic types and item()); treat as = instance of; the
        occurrence logic of is_sequence_type_restriction is sound (and, pinned by the suite, not complete).
tie:    T-data (Gen/C18Types.v regenerated) + correspondence: sequences of typed atomic values x (occurrence, type) through
        'instance of' / 'treat as' / match_sequence_type with spacing variants; is_sequence_type_restriction on all occurrence
        x type pairs against the code model and the specification.
search: kind tests, map / array / function tests on a hand-written table; results of built-in function calls against the
        declared return types.
PARTIAL: node kind tests, map / array / function tests and schema types are not in the Coq model (table only).
"""
import itertools

import core

IMPORTS = 'From EP Require Import Gen.C18Types C18.Model C18.Run.'
LIT = {  # type -> an expression producing a value whose most specific type is that type
    'untypedAtomic': "xs:untypedAtomic('x')", 'string': "'s'", 'normalizedString': "xs:normalizedString('a b')", 'token': "xs:token('a b')",
    'language': "xs:language('en')", 'NMTOKEN': "xs:NMTOKEN('1a')", 'Name': "xs:Name('a:b')", 'NCName': "xs:NCName('a')", 'ID': "xs:ID('a')",
    'IDREF': "xs:IDREF('a')", 'ENTITY': "xs:ENTITY('a')", 'boolean': 'true()', 'decimal': '1.5', 'integer': '7',
    'nonPositiveInteger': 'xs:nonPositiveInteger(0)', 'negativeInteger': 'xs:negativeInteger(-1)', 'long': 'xs:long(1)', 'int': 'xs:int(1)',
    'short': 'xs:short(1)', 'byte': 'xs:byte(1)', 'nonNegativeInteger': 'xs:nonNegativeInteger(1)', 'unsignedLong': 'xs:unsignedLong(1)',
    'unsignedInt': 'xs:unsignedInt(1)', 'unsignedShort': 'xs:unsignedShort(1)', 'unsignedByte': 'xs:unsignedByte(1)',
    'positiveInteger': 'xs:positiveInteger(1)', 'float': "xs:float('1.5')", 'double': '1e0', 'duration': "xs:duration('P1Y1D')",
    'yearMonthDuration': "xs:yearMonthDuration('P1Y')", 'dayTimeDuration': "xs:dayTimeDuration('P1D')", 'dateTime': "xs:dateTime('2000-01-01T00:00:00')",
    'date': "xs:date('2000-01-01')", 'time': "xs:time('10:00:00')", 'gYear': "xs:gYear('2000')", 'gYearMonth': "xs:gYearMonth('2000-01')",
    'gMonth': "xs:gMonth('--01')", 'gMonthDay': "xs:gMonthDay('--01-01')", 'gDay': "xs:gDay('---01')", 'hexBinary': "xs:hexBinary('0A')",
    'base64Binary': "xs:base64Binary('YQ==')", 'anyURI': "xs:anyURI('http://a')", 'QName': "xs:QName('a')",
}
OCC = {0: None, 1: '', 2: '?', 3: '+', 4: '*'}


def run(chk):
    import sys
    import xml.etree.ElementTree as ET
    sys.path.insert(0, core.VERIF + '/harness')
    import gen_c18
    from elementpath import select, ElementPathError, XPathContext
    from elementpath.xpath31 import XPath31Parser
    from elementpath.sequence_types import is_sequence_type_restriction, match_sequence_type
    rng = chk.rng
    quick = chk.tier == 'quick'
    TYPES = gen_c18.TYPES
    TI = {t: i for i, t in enumerate(TYPES)}
    chk.trusted += ['Gen/C18Types.v: issubclass matrix of the registered atomic classes (T-data)',
                    'C18/Model.v parent: the derivation table of XSD 1.1 part 2 / XDM 3.1 section 2.7 (transcription)',
                    'the most specific type of a constructed value is the type of its constructor (harness table LIT)',
                    'PARTIAL: kind tests, map / array / function tests are checked against a hand-written expectation table']
    for f in ('elementpath/sequence_types.py', 'elementpath/xpath2/_xpath2_operators.py', 'elementpath/xpath_tokens/functions.py',
              'elementpath/datatypes/any_types.py', 'elementpath/datatypes/proxies.py', 'elementpath/datatypes/numeric.py'):
        chk.record_source(f)
    chk.forbidden_scan(['C18'])
    import sys as _sys
    _sys.path.insert(0, core.VERIF + '/harness')
    import gen_c18
    gen_c18.generate()          # T-data / source-shape facts regenerated from /repo on every run
    chk.trusted.append('harness/shape.py: AST lookup of the statements mirrored by the hand model (Gen/C18Shape.v)')
    proved = chk.prove(['theories/Gen/C18Shape.v', 'theories/C18/Model.v', 'theories/C18/Proofs.v', 'theories/C18/Run.v'], 'theories/C18/Properties.v')
    proved = chk.prove(['theories/C18/Conversion.v'], 'theories/C18/ConversionProperties.v') and proved
    model_ok = True
    if not proved:
        try:
            core.coq_make(['theories/C18/Model.v', 'theories/C18/Run.v'])
        except core.CoqError as e:
            chk.notes.append('model does not build: ' + str(e))
            model_ok = False
    parser = XPath31Parser()
    root = ET.XML('<r a="1"><a>t</a><!--c--><?p q?></r>', parser=ET.XMLParser(target=ET.TreeBuilder(insert_comments=True, insert_pis=True)))

    def ev(expr):
        try:
            return ('val', parser.parse(expr).evaluate(XPathContext(root)))
        except ElementPathError as ex:
            return ('err', (ex.code or '').split(':')[-1])
        except Exception as ex:
            return ('exc', type(ex).__name__ + ': ' + str(ex)[:100])

    # ---------------- 1. instance of / treat as on sequences of atomic values
    vtypes = list(LIT)
    cases = []
    # every value type against every target type with occurrence '' (the hierarchy), then sequences x occurrences
    for a in vtypes:
        for b in TYPES:
            if b in ('NOTATION', 'dateTimeStamp'):
                continue
            if quick and rng.random() < 0.6 and TI[a] != TI[b]:
                continue
            cases.append(([a], 1, b))
    for _ in range(300 if quick else 20000):
        n = rng.choice([0, 0, 1, 2, 2, 3])
        base = rng.choice(['integer', 'int', 'string', 'token', 'decimal', 'double', 'duration', 'byte', 'anyURI', 'boolean', 'date'])
        pool = [t for t in vtypes if rng.random() < 0.3] + [base] * 3
        seq = [rng.choice(pool) for _ in range(n)]
        target = rng.choice([base, base, 'anyAtomicType', 'ITEM', 'integer', 'decimal', 'string', rng.choice([t for t in TYPES if t not in ('NOTATION', 'dateTimeStamp')])])
        cases.append((seq, rng.choice([0, 1, 2, 3, 4]), target))
    terms = [f'run_match [{"; ".join(str(TI[t]) for t in seq)}] {o} {99 if t == "ITEM" else TI[t]}' for seq, o, t in cases]
    model = core.run_coq_cases('C18', IMPORTS, terms, chunk=600, tag='inst', preamble='Close Scope Z_scope. Open Scope nat_scope.') if model_ok else [None] * len(cases)
    for (seq, o, t), mo in zip(cases, model):
        chk.evaluations += 1
        chk.count('instance-of')
        vexpr = '(' + ', '.join(LIT[x] for x in seq) + ')'
        tname = 'item()' if t == 'ITEM' else 'xs:' + t
        if o == 0:
            st = 'empty-sequence()'
        else:
            st = tname + OCC[o]
        spaced = st.replace('()', rng.choice(['()', '( )'])) if rng.random() < 0.3 else st
        if o in (2, 3, 4) and rng.random() < 0.3:
            spaced = tname + ' ' + OCC[o]
        got = ev(f'{vexpr} instance of {spaced}')
        desc = {'value': vexpr, 'type': spaced}
        if mo is None:
            continue
        if got != ('val', bool(mo)):
            chk.violation('impl-vs-spec', desc, {'instance of': got, 'SequenceType matching': bool(mo)})
            chk.corr_fail.append((desc, got, mo))
        # treat as: the operand unchanged, or XPDY0050
        tr = ev(f'{vexpr} treat as {st}')
        same = ev(f'deep-equal({vexpr} treat as {st}, {vexpr})') if tr[0] == 'val' else None
        if mo:
            if tr[0] != 'val' or same != ('val', True):
                chk.violation('impl-vs-spec', desc, {'treat as': repr(tr)[:200], 'expected': 'the operand unchanged'})
        elif tr != ('err', 'XPDY0050'):
            chk.violation('impl-vs-spec', desc, {'treat as': repr(tr)[:200], 'expected': 'XPDY0050'})
        # the Python API
        val = ev(vexpr)[1]
        try:
            api = match_sequence_type(val, st, parser)
            if api != bool(mo):
                chk.violation('impl-vs-spec', desc, {'match_sequence_type': api, 'SequenceType matching': bool(mo)})
        except ElementPathError as ex:
            chk.violation('impl-vs-spec', desc, {'match_sequence_type raised': str(ex)})
        chk.nontrivial.add(vexpr + '|' + st)
        if len(chk.samples) < 5:
            chk.sample({'value': vexpr, 'type': st, 'model': mo})

    # ---------------- 2. is_sequence_type_restriction on occurrence x type pairs
    rcases = []
    sample_types = ['integer', 'int', 'decimal', 'string', 'token', 'anyAtomicType', 'double', 'ITEM', 'duration', 'dayTimeDuration']
    for o1, o2 in itertools.product(range(5), range(5)):
        for t1 in sample_types:
            for t2 in sample_types:
                if quick and rng.random() < 0.5:
                    continue
                rcases.append((o1, t1, o2, t2))
    terms = [f'run_restr {o1} {99 if t1 == "ITEM" else TI[t1]} {o2} {99 if t2 == "ITEM" else TI[t2]}' for o1, t1, o2, t2 in rcases]
    model = core.run_coq_cases('C18', IMPORTS, terms, chunk=800, tag='restr', preamble='Close Scope Z_scope. Open Scope nat_scope.') if model_ok else [None] * len(rcases)

    def st_text(o, t):
        return 'empty-sequence()' if o == 0 else ('item()' if t == 'ITEM' else 'xs:' + t) + OCC[o]
    for (o1, t1, o2, t2), mo in zip(rcases, model):
        chk.evaluations += 1
        chk.count('restriction')
        s1, s2 = st_text(o1, t1), st_text(o2, t2)
        got = is_sequence_type_restriction(s1, s2)
        desc = {'st1 (general)': s1, 'st2 (restriction)': s2}
        if mo is None:
            continue
        cm, sp = mo
        if got != bool(cm):
            chk.corr_fail.append((desc, got, cm))
        if got != bool(sp):
            if got == bool(cm) and o1 == 4 and o2 in (2, 3) and not got:
                chk.known('C18-restriction-star-incomplete', desc | {'impl': got, 'subtype': bool(sp)})
            else:
                chk.violation('impl-vs-spec', desc, {'is_sequence_type_restriction': got, 'subtype relation': bool(sp), 'code model': bool(cm)})
        chk.nontrivial.add(s1 + '<-' + s2)

    # ---------------- 3. kind tests, map / array / function tests (expectation table)
    TABLE = [
        ('/r', 'element()', True), ('/r', 'element(r)', True), ('/r', 'element(a)', False), ('/r', 'element(*)', True), ('/r', 'node()', True), ('/r', 'item()', True),
        ('/r', 'attribute()', False), ('/r/@a', 'attribute()', True), ('/r/@a', 'attribute(a)', True), ('/r/@a', 'attribute(b)', False), ('/r/@a', 'element()', False),
        ('/r/a/text()', 'text()', True), ('/r/a/text()', 'node()', True), ('/r/a/text()', 'comment()', False), ('/r/comment()', 'comment()', True),
        ('/r/processing-instruction()', 'processing-instruction()', True), ('/r/processing-instruction()', 'processing-instruction(p)', True),
        ('/r/processing-instruction()', 'processing-instruction(q)', False), ('/r/*', 'element()+', True), ('/r/*', 'element()', True), ('/r/node()', 'node()*', True),
        ('/r/node()', 'node()', False), ('/r/node()', 'element()*', False), ('/r/zz', 'element()?', True), ('/r/zz', 'element()', False), ('/r/zz', 'empty-sequence()', True),
        ('/r', 'empty-sequence()', False), ('/r', 'xs:anyAtomicType', False), ('1', 'node()', False), ('/r', 'document-node()', False), ('/', 'document-node()', None),
        ('map{"a": 1}', 'map(*)', True), ('map{"a": 1}', 'map(xs:string, xs:integer)', True), ('map{"a": 1}', 'map(xs:string, xs:string)', False),
        ('map{"a": 1}', 'map(xs:integer, xs:integer)', False), ('map{"a": (1, 2)}', 'map(xs:string, item())', False), ('map{"a": (1, 2)}', 'map(xs:string, item()+)', True),
        ('map{"a": ()}', 'map(xs:string, item())', False), ('map{"a": ()}', 'map(xs:string, item()?)', True), ('map{"a": ()}', 'map(xs:string, item()+)', False),
        ('map{"a": ()}', 'map(xs:string, item()*)', True), ('map{"a": (1, 2)}', 'map(xs:string, xs:integer*)', True), ('map{"a": 1}', 'map(xs:string, item())', True),
        ('map{}', 'map(xs:string, xs:integer)', True), ('map{"a": 1}', 'function(*)', True), ('map{"a": 1}', 'array(*)', False), ('map{"a": 1}', 'item()', True),
        ('[1, 2]', 'array(*)', True), ('[1, 2]', 'array(xs:integer)', True), ('[1, "a"]', 'array(xs:integer)', False), ('[(1, 2)]', 'array(xs:integer)', False),
        ('[(1, 2)]', 'array(xs:integer+)', True), ('[()]', 'array(xs:integer)', False), ('[()]', 'array(xs:integer?)', True), ('[]', 'array(xs:string)', True),
        ('[1]', 'map(*)', False), ('[1]', 'function(*)', True), ('([1], [2])', 'array(*)+', True), ('([1], 2)', 'array(*)+', False),
        ('abs#1', 'function(*)', True), ('abs#1', 'function(xs:integer) as xs:integer', None), ('function($x as xs:integer) as xs:integer { $x }', 'function(xs:integer) as xs:integer', True),
        ('function($x as xs:integer) as xs:integer { $x }', 'function(xs:string) as xs:integer', False), ('function($x as xs:integer) as xs:integer { $x }', 'function(xs:int) as xs:integer', True),
        ('function($x as xs:int) as xs:integer { $x }', 'function(xs:integer) as xs:integer', False), ('function($x as xs:integer) as xs:int { xs:int($x) }', 'function(xs:integer) as xs:integer', True),
        ('function($x as xs:integer) as xs:integer { $x }', 'function(xs:integer) as xs:int', False), ('function($x as xs:integer) as xs:integer? { $x }', 'function(xs:integer) as xs:integer', False),
        ('function($x) { $x }', 'function(item()*) as item()*', True), ('function($x) { $x }', 'function(*)', True), ('function($x, $y) { $x }', 'function(item()*) as item()*', False),
        ('1', 'function(*)', False), ('(abs#1, 1)', 'function(*)+', False), ('(1, "a")', 'xs:anyAtomicType+', True), ('(1, "a")', 'item()+', True),
        ('(1, /r)', 'item()+', True), ('(1, /r)', 'xs:anyAtomicType+', False), ('(1, /r)', 'node()+', False),
    ]
    for vexpr, st, want in TABLE:
        if want is None:
            continue
        chk.evaluations += 1
        chk.count('table')
        for text in (st, st.replace(', ', ' , ').replace('(', '( ', 1) if '(' in st and not st.endswith('()') and 'function' not in st else st):
            got = ev(f'{vexpr} instance of {text}')
            desc = {'value': vexpr, 'type': text}
            tr = ev(f'{vexpr} treat as {text}')
            if vexpr == '/r' and st.startswith('attribute(') and got == ('val', True) and tr[0] == 'val':
                chk.known('C18-attribute-test-on-element', desc)
                continue
            if got != ('val', want):
                chk.violation('impl-vs-spec', desc, {'instance of': got, 'SequenceType matching': want})
            if want and tr[0] != 'val' or not want and tr != ('err', 'XPDY0050'):
                chk.violation('impl-vs-spec', desc, {'treat as': repr(tr)[:200], 'expected': 'operand' if want else 'XPDY0050'})
        chk.nontrivial.add(vexpr + '|' + st)

    # ---------------- 4. results of built-in function calls match the declared return type
    CALLS = ["abs(-1)", "abs(-1.5)", "ceiling(1.2)", "floor(1.2e0)", "round(2.5)", "round-half-to-even(2.5)", "count((1,2))", "sum((1,2))", "sum(())", "avg((1,2))", "avg(())",
             "max((1,2))", "min(())", "string-length('ab')", "concat('a','b')", "substring('abc',2)", "contains('abc','b')", "starts-with('a','a')", "string-join(('a','b'),'-')",
             "normalize-space(' a ')", "upper-case('a')", "lower-case('A')", "translate('a','a','b')", "tokenize('a b',' ')", "tokenize('', ' ')", "matches('a','a')", "replace('a','a','b')",
             "string(1)", "number('1')", "boolean(1)", "not(1)", "true()", "false()", "data(1)", "empty(())", "exists(1)", "distinct-values((1,1))", "index-of((1,2),2)", "index-of((1,2),3)",
             "insert-before((1,2),1,0)", "remove((1,2),1)", "reverse((1,2))", "subsequence((1,2,3),2)", "zero-or-one(())", "one-or-more(1)", "exactly-one(1)", "deep-equal(1,1)",
             "name(/r)", "local-name(/r)", "namespace-uri(/r)", "root(/r)", "string(/r)", "base-uri(/r)", "node-name(/r)", "node-name(/r/text())", "nilled(/r)", "lang('en', /r)",
             "year-from-date(xs:date('2000-01-01'))", "current-date()", "current-dateTime()", "current-time()", "implicit-timezone()", "timezone-from-date(xs:date('2000-01-01'))",
             "hours-from-duration(xs:dayTimeDuration('PT1H'))", "adjust-date-to-timezone(xs:date('2000-01-01'))", "dateTime(xs:date('2000-01-01'), xs:time('10:00:00'))",
             "QName('u','a')", "local-name-from-QName(xs:QName('a'))", "namespace-uri-from-QName(xs:QName('a'))", "prefix-from-QName(xs:QName('a'))", "resolve-uri('a','http://x/')",
             "encode-for-uri('a b')", "iri-to-uri('a')", "escape-html-uri('a')", "codepoints-to-string((97,98))", "string-to-codepoints('ab')", "string-to-codepoints('')", "compare('a','b')",
             "codepoint-equal('a','a')", "ends-with('ab','b')", "substring-before('ab','b')", "substring-after('ab','a')", "head((1,2))", "head(())", "tail((1,2))", "format-integer(5,'1')",
             "math:pi()", "math:sqrt(4)", "math:pow(2,3)", "math:exp(1)", "math:sin(0)", "math:atan2(1,1)", "string-join(('a','b'))", "for-each((1,2), abs#1)", "filter((1,2), function($x){$x gt 1})",
             "fold-left((1,2),0,function($a,$b){$a+$b})", "function-arity(abs#1)", "function-name(abs#1)", "function-lookup(xs:QName('fn:abs'),1)", "map:size(map{})", "map:keys(map{'a':1})",
             "map:contains(map{'a':1},'a')", "map:get(map{'a':1},'a')", "map:put(map{},'a',1)", "map:entry('a',1)", "map:remove(map{'a':1},'a')", "map:merge((map{'a':1}))", "array:size([1])",
             "array:get([1],1)", "array:append([1],2)", "array:head([1])", "array:tail([1])", "array:reverse([1])", "array:join(([1],[2]))", "array:flatten([1,[2]])", "array:subarray([1,2],2)",
             "parse-json('1')", "parse-json('null')", "json-to-xml('1')", "xml-to-json(json-to-xml('1'))", "serialize(1)", "parse-xml('<a/>')", "analyze-string('a','a')", "sort((2,1))",
             "contains-token('a b','a')", "default-language()", "random-number-generator()", "round(1.5, 1)", "string-join((1,2) ! string(), ',')", "innermost(/r)", "outermost(/r)",
             "has-children(/r)", "path(/r)", "generate-id(/r)", "unparsed-text-available('x')", "environment-variable('NOPE')", "available-environment-variables()", "trace(1,'x')"]
    sigs = parser.function_signatures
    byname = {}
    for (qname, arity), sig in sigs.items():
        byname[(qname.local_name, qname.namespace, arity)] = sig
    NS = {'fn': 'http://www.w3.org/2005/xpath-functions', 'math': 'http://www.w3.org/2005/xpath-functions/math', 'map': 'http://www.w3.org/2005/xpath-functions/map',
          'array': 'http://www.w3.org/2005/xpath-functions/array'}
    import re as _re
    for call in CALLS:
        m = _re.match(r'^(?:(\w+):)?([\w-]+)\((.*)\)$', call, _re.S)
        prefix, local = m.group(1) or 'fn', m.group(2)
        try:
            tok = parser.parse(call)
            arity = len(tok)
            res = tok.evaluate(XPathContext(root))
        except ElementPathError as ex:
            chk.notes.append(f'call {call} raised {ex.code}') if len(chk.notes) < 5 else None
            continue
        sig = byname.get((local, NS[prefix], arity))
        chk.evaluations += 1
        chk.count('signature')
        if sig is None:
            continue
        ret = sig.rpartition(') as ')[2]
        try:
            ok = match_sequence_type(res, ret, parser, strict=False)
        except ElementPathError as ex:
            ok = 'error ' + str(ex.code)
        if ok is not True:
            chk.violation('impl-vs-spec', {'call': call, 'declared return type': ret}, {'result': repr(res)[:200], 'matches': ok})
        chk.nontrivial.add('sig:' + call)
    # ---------------- 4b. every registered function of arity 0-2 (XPath 3.1) on typed values: a successful call returns a
    #                      value that matches the declared return type
    NSP = {'http://www.w3.org/2005/xpath-functions': '', 'http://www.w3.org/2005/xpath-functions/math': 'math:',
           'http://www.w3.org/2005/xpath-functions/map': 'map:', 'http://www.w3.org/2005/xpath-functions/array': 'array:',
           'http://www.w3.org/2001/XMLSchema': 'xs:'}
    SKIPF = {'doc', 'collection', 'uri-collection', 'unparsed-text', 'unparsed-text-lines', 'json-doc', 'trace', 'error', 'environment-variable',
             'available-environment-variables', 'random-number-generator', 'load-xquery-module', 'transform', 'unparsed-text-available',
             'doc-available', 'exp10', 'serialize'}
    ARGS = ["1", "-1", "0", "2.5", "1e0", "xs:double('NaN')", "xs:float('1.5')", "'a'", "''", "'1'", "xs:untypedAtomic('1')", "xs:untypedAtomic('a')",
            "xs:anyURI('a')", "true()", "()", "(1, 2)", "('a', 'b')", "/r", "/r/text()", "/r/@a", "xs:date('2000-01-01')", "xs:dateTime('2000-01-01T10:00:00Z')",
            "xs:time('10:00:00')", "xs:dayTimeDuration('PT1H')", "xs:yearMonthDuration('P1Y')", "xs:duration('P1Y1D')", "xs:QName('a')", "xs:hexBinary('0A')",
            "xs:gYear('2000')", "[1, 2]", "[]", "map{'a': 1}", "map{}", "abs#1", "function($x) { $x }"]
    ARGS2 = ["1", "'a'", "()", "(1, 2)", "xs:untypedAtomic('1')", "/r", "[1, 2]", "map{'a': 1}", "abs#1", "xs:date('2000-01-01')", "2.5", "true()", "xs:dayTimeDuration('PT1H')", "'en'"]
    doc4 = ET.ElementTree(ET.XML('<r a="1">t<b>u</b></r>'))
    seenf = set()
    nsig = 0
    for (qname, arity), sig in sorted(parser.function_signatures.items(), key=lambda kv: (kv[0][0].namespace or '', kv[0][0].local_name, kv[0][1])):
        pre = NSP.get(qname.namespace)
        if pre is None or qname.local_name in SKIPF or (qname.namespace, qname.local_name, arity) in seenf or arity > 2:
            continue
        seenf.add((qname.namespace, qname.local_name, arity))
        ret = sig.rpartition(') as ')[2]
        fname = pre + qname.local_name
        if arity == 0:
            calls = [f'{fname}()']
        elif arity == 1:
            calls = [f'{fname}({a})' for a in ARGS]
        else:
            pairs = [(a, b) for a in ARGS2 for b in ARGS2]
            if quick:
                pairs = rng.sample(pairs, 40)
            calls = [f'{fname}({a}, {b})' for a, b in pairs]
        for call in calls:
            chk.evaluations += 1
            try:
                res = parser.parse(call).evaluate(XPathContext(doc4))
            except ElementPathError:
                continue
            except Exception:
                continue          # foreign exceptions are the subject of C03
            nsig += 1
            chk.count('signature-sweep')
            try:
                ok = match_sequence_type(res, ret, parser, strict=False)
            except ElementPathError as ex:
                ok = 'error ' + str(ex.code)
            if ok is not True:
                chk.violation('impl-vs-spec', {'call': call, 'declared return type': ret}, {'result': repr(res)[:200], 'matches': ok})
            chk.nontrivial.add('sigsweep:' + call)
    chk.distribution['successful calls checked against the declared return type'] = nsig
    # ---------------- 4c. function conversion rules (XPath 3.1 3.1.5.2) on every registered function with an atomic parameter:
    #   (i) a node argument is atomized: f(node) = f(xs:untypedAtomic(string(node)));
    #   (ii) an untyped argument is cast to the declared parameter type (xs:double for xs:numeric): f(untyped s) = f(T(s)).
    # Both sides are evaluated by the implementation; errors are compared as errors (any code), values with their types.
    import itertools as _it
    doc5 = ET.ElementTree(ET.XML('<r a="1" e="" z=" 2 "><n>42</n><s>abc</s><d>2000-01-01</d><f>1.5</f><b>true</b><e/></r>'))
    NODES = [('/r/n', '42'), ('/r/@a', '1'), ('/r/s', 'abc'), ('/r/d', '2000-01-01'), ('/r/f', '1.5'), ('/r/n/text()', '42'), ('/r/b', 'true'), ('/r/e', ''), ('/r/@z', ' 2 ')]
    VALS = {'xs:double': ['4.5', '-2', 'abc', 'NaN', ' 7 '], 'xs:numeric': ['4.5', '-2', 'abc', ' 7 '], 'xs:string': ['abc', '4.5', ''], 'xs:integer': ['42', '-3', '4.5', 'abc'],
            'xs:decimal': ['4.5', 'abc'], 'xs:float': ['4.5', 'abc'], 'xs:date': ['2000-01-01', 'abc'], 'xs:dateTime': ['2000-01-01T10:00:00', 'abc'], 'xs:time': ['10:00:00', 'abc'],
            'xs:duration': ['P1Y', 'abc'], 'xs:dayTimeDuration': ['PT1H', 'abc'], 'xs:yearMonthDuration': ['P1Y', 'abc'], 'xs:boolean': ['true', 'abc', '1'], 'xs:anyURI': ['abc']}
    OTHER = ["1", "'a'", "2.5", "'abc'", "()", "true()", "xs:dayTimeDuration('PT1H')", "'en'", "xs:date('2000-01-01')"]
    SKIPC = SKIPF | {'current-dateTime', 'current-date', 'current-time', 'id', 'idref', 'element-with-id', 'lang', 'root', 'path', 'generate-id', 'has-children', 'innermost',
                     'outermost', 'nilled', 'node-name', 'name', 'local-name', 'namespace-uri', 'base-uri', 'document-uri', 'data', 'string', 'number', 'boolean', 'not',
                     'count', 'exists', 'empty', 'reverse', 'head', 'tail', 'one-or-more', 'zero-or-one', 'exactly-one', 'unordered', 'deep-equal', 'position', 'last',
                     'parse-xml', 'parse-xml-fragment', 'json-to-xml', 'analyze-string', 'parse-json', 'parse-ietf-date', 'function-lookup'}

    def run5(call):
        try:
            r = parser.parse(call).evaluate(XPathContext(doc5))
        except ElementPathError:
            return ('err',)
        except Exception as ex:
            return ('exc', type(ex).__name__)      # foreign exceptions are the subject of C03
        r = r if isinstance(r, list) else [r]
        return ('ok', [(type(x).__name__, str(x)) for x in r])

    seen5 = set()
    nconv = 0
    for (qname, arity), sig in sorted(parser.function_signatures.items(), key=lambda kv: (kv[0][0].namespace or '', kv[0][0].local_name, kv[0][1])):
        pre = NSP.get(qname.namespace)
        if pre is None or pre in ('map:', 'array:', 'xs:') or qname.local_name in SKIPC or arity not in (1, 2, 3) or (qname, arity) in seen5:
            continue
        seen5.add((qname, arity))
        params = sig[sig.index('(') + 1:sig.rindex(') as ')].split(', ')
        fname = pre + qname.local_name
        for pos in range(arity):
            pt = params[pos] if pos < len(params) else ''
            if any(k in pt for k in ('node()', 'item()', 'element', 'function', 'map(', 'array(', 'document-node', 'attribute', 'QName')) or not pt:
                continue
            rests = list(_it.islice(_it.product(*([OTHER] * (arity - 1))), 0, 1 if arity == 1 else 9 if arity == 2 else 12))
            if quick and len(rests) > 3:
                rests = rng.sample(rests, 3)
            pairs = [(node, f"xs:untypedAtomic('{sv}')", 'atomization') for node, sv in NODES]
            base = pt.rstrip('?*+')
            target = 'xs:double' if base == 'xs:numeric' else base
            pairs += [(f"xs:untypedAtomic('{sv}')", f"{target}('{sv}')", 'untyped -> ' + target) for sv in VALS.get(base, [])]
            for lhs, rhs, rule in pairs:
                for rest in rests:
                    a1, a2 = list(rest), list(rest)
                    a1.insert(pos, lhs)
                    a2.insert(pos, rhs)
                    c1, c2 = f"{fname}({', '.join(a1)})", f"{fname}({', '.join(a2)})"
                    chk.evaluations += 1
                    r1, r2 = run5(c1), run5(c2)
                    if r1[0] == 'exc' or r2[0] == 'exc':
                        continue
                    nconv += 1
                    chk.count('conversion-rules:' + rule.split(' ')[0])
                    if r1 != r2:
                        chk.violation('impl-vs-spec', {'call': c1, 'equivalent call': c2, 'rule': rule, 'parameter type': pt},
                                      {'result': repr(r1)[:200], 'result of the equivalent call': repr(r2)[:200]})
                    elif r1[0] == 'ok':
                        chk.nontrivial.add('conv:' + c1)
    chk.distribution['function conversion pairs compared'] = nconv
    # the EQName form Q{http://www.w3.org/2001/XMLSchema}integer of a type name: accepted by instance of / treat as / cast as, but
    # not inside function signatures and map / array tests (recorded finding)
    XSQ = 'Q{http://www.w3.org/2001/XMLSchema}'
    for expr, want in ((f'5 instance of {XSQ}integer', ('ok', [('bool', 'True')])), (f"'5' cast as {XSQ}integer", ('ok', [('Integer', '5')])), (f'5 treat as {XSQ}integer', ('ok', [('int', '5')])),
                       (f'function($x as {XSQ}integer) {{ $x }}(2)', ('ok', [('int', '2')])), (f'function($x) as {XSQ}integer {{ $x }}(2)', ('ok', [('int', '2')])),
                       (f"map{{'a': 1}} instance of map({XSQ}string, {XSQ}integer)", ('ok', [('bool', 'True')])), (f'[1] instance of array({XSQ}integer)', ('ok', [('bool', 'True')])),
                       (f'abs#1 instance of function({XSQ}integer) as item()*', ('ok', [('bool', 'False')]))):
        chk.evaluations += 1
        chk.count('eqname-type')
        got = run5(expr)
        if got != want:
            if got == ('err',) and ('function(' in expr or 'map(' in expr or 'array(' in expr):
                chk.known('C18-eqname-in-signatures', {'expr': expr, 'impl': 'XPST0003', 'spec': repr(want)})
            else:
                chk.violation('impl-vs-spec', {'expr': expr}, {'impl': repr(got)[:200], 'spec': repr(want)})
        chk.nontrivial.add('eqname:' + expr)
    # the same rules for inline functions with a typed parameter: function($p as T) { $p }(node) = (untyped string value) = T(s)
    for tname, svs in VALS.items():
        if tname == 'xs:numeric':
            continue
        for node, sv in NODES:
            for occ in ('', '?'):
                fexpr = f'function($p as {tname}{occ}) {{ $p }}'
                c1, c2 = f'{fexpr}({node})', f"{fexpr}(xs:untypedAtomic('{sv}'))"
                chk.evaluations += 1
                chk.count('conversion-rules:inline-function')
                r1, r2 = run5(c1), run5(c2)
                if r1[0] != 'exc' and r2[0] != 'exc' and r1 != r2:
                    chk.violation('impl-vs-spec', {'call': c1, 'equivalent call': c2, 'rule': 'atomization (inline function)'}, {'result': repr(r1)[:200], 'result of the equivalent call': repr(r2)[:200]})
                elif r1[0] == 'ok':
                    chk.nontrivial.add('conv-inline:' + c1)
        for sv in svs:
            fexpr = f'function($p as {tname}) {{ $p }}'
            c1, c2 = f"{fexpr}(xs:untypedAtomic('{sv}'))", f"{fexpr}({tname}('{sv}'))"
            chk.evaluations += 1
            chk.count('conversion-rules:inline-function')
            r1, r2 = run5(c1), run5(c2)
            if r1[0] != 'exc' and r2[0] != 'exc' and r1 != r2:
                chk.violation('impl-vs-spec', {'call': c1, 'equivalent call': c2, 'rule': 'untyped -> ' + tname + ' (inline function)'}, {'result': repr(r1)[:200], 'result of the equivalent call': repr(r2)[:200]})
    chk.rule = ('every constructible atomic type against every atomic type; seeded sequences of 0-3 typed items x occurrence x target type through '
                'instance of (with spacing variants), treat as and match_sequence_type; all occurrence x occurrence x 10 x 10 type pairs through '
                'is_sequence_type_restriction; a table of kind / map / array / function tests; ~170 built-in function calls against their declared '
                'return type; non-trivial = distinct (value, type)')
    chk.obligations.append({'name': 'correspondence:impl==model(matching, restriction)', 'ok': not chk.corr_fail,
                            'detail': f'{len(chk.corr_fail)} disagreements' + (': ' + repr(chk.corr_fail[0])[:500] if chk.corr_fail else '')})


def replay(rec):
    print(rec)
    return 0
