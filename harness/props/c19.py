"""C19 — evaluation preserves process-global state: locale, locks, environment, entities.

proof:  coq/theories/C19/{Model,Proofs,Properties}.v : the lock / LC_COLLATE state machine of CollationManager with
        setlocale as an unconstrained oracle; blocks restore the state; interleaving semantics: mutex, no deadlock.
tie:    correspondence by FAULT SEQUENCES: sequences of collation-using calls (available / unavailable / malformed
        locales, with / without fallback), each sequence in a fresh sub-process under a watchdog, observing
        _locale_collate_lock.locked() and LC_COLLATE after every call; the oracle is measured by probing setlocale.
PARTIAL: real thread scheduling, the C library's locale, expat entity handling, os.environ and the decimal context
        are runtime behaviour: observed (threads vs sequential, DOCTYPE/entity inputs, snapshots), not proved.
"""
import itertools
import json
import os
import subprocess
import sys

import core

IMPORTS = 'From EP Require Import C19.Model C19.Run.'
UCA = 'http://www.w3.org/2013/collation/UCA'
CP = 'http://www.w3.org/2005/xpath-functions/collation/codepoint'
HTML = 'http://www.w3.org/2005/xpath-functions/collation/html-ascii-case-insensitive'


def worker(task, timeout=40):
    env = dict(os.environ, PYTHONPATH=core.REPO, PYTHONHASHSEED='0')
    w = os.path.join(os.path.dirname(os.path.dirname(os.path.abspath(__file__))), 'c19_worker.py')
    try:
        p = subprocess.run([sys.executable, w, json.dumps(task)], capture_output=True, text=True, env=env, timeout=timeout)
    except subprocess.TimeoutExpired:
        return 'hang', None
    lines = [l for l in p.stdout.splitlines() if l.startswith('{')]
    if not lines:
        return 'crash', p.stderr[-400:]
    return 'ok', json.loads(lines[-1])


def run(chk):
    from concurrent.futures import ThreadPoolExecutor
    rng = chk.rng
    quick = chk.tier == 'quick'
    chk.trusted += ['the availability oracle is measured by probing locale.setlocale in a sub-process (the sandbox offers C, C.utf8, POSIX)',
                    'the mapping of collation URIs to (locale name, fallback) is re-implemented by the harness from the code '
                    '(collations.py 89-121) to drive the model',
                    'PARTIAL: thread scheduling, libc locale, expat, os.environ, decimal context are observed, not modelled']
    for f in ('elementpath/collations.py', 'elementpath/xpath2/_xpath2_functions.py', 'elementpath/xpath30/_xpath30_functions.py', 'elementpath/etree.py'):
        chk.record_source(f)
    chk.forbidden_scan(['C19'])
    import sys as _sys
    _sys.path.insert(0, core.VERIF + '/harness')
    import gen_c19
    gen_c19.generate()          # source-shape facts regenerated from /repo on every run
    chk.trusted.append('harness/shape.py: AST lookup of the statements mirrored by the hand model (Gen/C19Shape.v)')
    proved = chk.prove(['theories/Gen/C19Shape.v', 'theories/C19/Model.v', 'theories/C19/Proofs.v', 'theories/C19/Run.v'], 'theories/C19/Properties.v')
    model_ok = True
    if not proved:
        try:
            core.coq_make(['theories/C19/Model.v', 'theories/C19/Run.v'])
        except core.CoqError as e:
            chk.notes.append('model does not build: ' + str(e))
            model_ok = False

    # collation arguments: (uri, locale spec as the code derives it, fallback)
    colls = [
        (CP, None, False), (HTML, None, False),
        (UCA, 'en_US.UTF-8', True), (UCA + '?lang=de', ['de', 'UTF-8'], True), (UCA + '?lang=de;fallback=no', ['de', 'UTF-8'], False),
        (UCA + '?lang=C.utf8;fallback=no', 'C.utf8', False), (UCA + '?lang=en.US.UTF-8;fallback=no', 'en.US.UTF-8', False),
        (UCA + '?fallback=no', 'en_US.UTF-8', False),
        ('C', 'C', False), ('POSIX', 'POSIX', False), ('C.utf8', 'C.utf8', False), ('xx_YY.UTF-8', 'xx_YY.UTF-8', False),
        ('it_IT.UTF-8', 'it_IT.UTF-8', False), ('not a locale', 'not a locale', False),
    ]
    names = []
    for _, spec, _ in colls:
        if spec is not None and spec not in names:
            names.append(spec)
    st, probe = worker({'kind': 'probe', 'locales': names + ['en_US.UTF-8']})
    if st != 'ok':
        chk.obligations.append({'name': 'probe-setlocale', 'ok': False, 'detail': str(probe)})
        return
    ids = {json.dumps(n): k + 1 for k, n in enumerate(names)}
    ids[json.dumps('en_US.UTF-8')] = 0
    avail_ids = sorted(ids[k] for k, v in probe.items() if v)
    chk.notes.append('available locales: ' + ', '.join(k for k, v in probe.items() if v))

    calls = ["compare('a', 'B', '{c}')", "contains('abc', 'B', '{c}')", "starts-with('abc', 'a', '{c}')", "ends-with('abc', 'C', '{c}')",
             "substring-before('abc', 'b', '{c}')", "sort(('b', 'a', 'C'), '{c}')", "index-of(('a', 'B'), 'b', '{c}')",
             "distinct-values(('a', 'A'), '{c}')", "deep-equal('a', 'A', '{c}')", "min(('b', 'a'), '{c}')", "max(('b', 'a'), '{c}')"]
    seqs = []
    # exhaustive: all sequences of length <= 2 over the collation arguments (through compare), plus length 3 samples
    for a in range(len(colls)):
        seqs.append([(a, 0)])
        for b in range(len(colls)):
            seqs.append([(a, 0), (b, rng.randrange(len(calls)))])
    for _ in range(40 if quick else 1500):
        seqs.append([(rng.randrange(len(colls)), rng.randrange(len(calls))) for _ in range(rng.randint(3, 6))])
    if quick:
        seqs = seqs[:len(colls)] + rng.sample(seqs[len(colls):], 110)

    terms = []
    for s in seqs:
        cs = []
        for a, _ in s:
            uri, spec, fb = colls[a]
            cs.append('(0, 0, 0)' if spec is None else f'(1, {ids[json.dumps(spec)]}, {1 if fb else 0})')
        terms.append(f'run_seq [{"; ".join(map(str, avail_ids))}] [{"; ".join(cs)}] 99')
    model = core.run_coq_cases('C19', IMPORTS, terms, chunk=300, tag='seq', preamble='Open Scope nat_scope.') if model_ok else [None] * len(seqs)

    def do(s):
        return worker({'kind': 'sequence', 'exprs': [calls[k].format(c=colls[a][0]) for a, k in s]})
    with ThreadPoolExecutor(max_workers=16) as ex:
        outs = list(ex.map(do, seqs))
    for i, (s, (st, res)) in enumerate(zip(seqs, outs)):
        chk.evaluations += 1
        exprs = [calls[k].format(c=colls[a][0]) for a, k in s]
        desc = {'calls': exprs}
        if st != 'ok':
            chk.violation('hang-or-crash', desc, {'status': st, 'detail': res})
            continue
        init = res['init']
        for k, step in enumerate(res['steps']):
            chk.count('outcome:' + step['outcome'][0])
            # specification, observed directly: lock free and LC_COLLATE unchanged after every call
            if step['locked'] or step['lc_collate'] != init:
                chk.violation('impl-vs-spec', desc | {'after_call': k}, step | {'initial_lc_collate': init})
                break
            if step['outcome'][0] == 'exc':
                chk.violation('foreign-exception', desc | {'after_call': k}, step)
                break
            if model[i] is not None:
                raised, lk, _ = model[i][k]
                got_raised = int(step['outcome'] == ['err', 'err:FOCH0002'] or step['outcome'][0] == 'err' and 'FOCH0002' in step['outcome'][1])
                if got_raised != raised or lk != 0:
                    chk.corr_fail.append((desc | {'call': k}, step, list(model[i][k])))
        if not res['env_same'] or not res['decimal_same']:
            chk.violation('impl-vs-spec', desc, {'os.environ unchanged': res['env_same'], 'decimal context unchanged': res['decimal_same']})
        if any(colls[a][1] is not None for a, _ in s):
            chk.nontrivial.add(repr(s))
        if i % 41 == 0:
            chk.sample({'calls': exprs, 'observed': res['steps'][:3], 'model [raised, locked, lc]': model[i][:3] if model[i] else None})

    # ---- environment variables, entities (implementation-side observations)
    from elementpath import select, ElementPathError
    from elementpath.xpath31 import XPath31Parser
    os.environ['VERIF_C19_SECRET'] = 'topsecret'
    try:
        for e in ["environment-variable('VERIF_C19_SECRET')", "environment-variable('PATH')", "available-environment-variables()"]:
            chk.evaluations += 1
            r = select(None, e, item=1, parser=XPath31Parser)
            if r not in ([], None):
                chk.violation('impl-vs-spec', {'expr': e}, {'observable with default settings': repr(r)[:100]})
    finally:
        del os.environ['VERIF_C19_SECRET']
    ent = '<!DOCTYPE r [<!ENTITY e "SECRET">]><r>&e;</r>'
    docs = [ent, '<!-- c -->' + ent, '<?p q?>' + ent, '\n ' + ent, '<!DOCTYPE r [<!ENTITY % p "x">]><r/>',
            '<!DOCTYPE r [<!ENTITY e SYSTEM "file:///etc/passwd">]><r>&e;</r>']
    for fn in ('parse-xml', 'parse-xml-fragment'):
        for d in docs:
            chk.evaluations += 1
            chk.count('entity:' + fn)
            try:
                r = select(None, f'string({fn}($x))', variables={'x': d}, item=1, parser=XPath31Parser)
                if 'SECRET' in str(r) or 'root:' in str(r):
                    chk.violation('impl-vs-spec', {'expr': f'{fn}($x)', 'x': d}, {'entity expanded': str(r)[:80]})
                else:
                    chk.violation('impl-vs-spec', {'expr': f'{fn}($x)', 'x': d}, {'DOCTYPE with entities accepted': str(r)[:80]})
            except ElementPathError:
                pass
            except Exception as e:
                if type(e).__name__ not in ('XMLResourceForbidden',):
                    chk.violation('foreign-exception', {'expr': f'{fn}($x)', 'x': d}, repr(e)[:200])
    # ---- threads vs sequential
    texprs = ["sort(/r/a)", "sort(/r/a, '%s')" % HTML, "/r/a[compare(., 'b', 'C') = 0]", "max(/r/a)", "count(//a)", "sort(/r/a, 'C.utf8')",
              "string-join(/r/a, '')", "/r/a[contains(., 'C', '%s')]" % HTML, "compare('a', 'b', 'xx_YY.UTF-8')"]
    for rep in range(2 if quick else 16):
        st, res = worker({'kind': 'threads', 'exprs': texprs, 'repeat': 3 if quick else 8}, timeout=120)
        chk.evaluations += 1
        chk.count('threads')
        if st != 'ok':
            chk.violation('hang-or-crash', {'threads': texprs}, {'status': st, 'detail': res})
            continue
        exp = [res['sequential'][k % len(texprs)] for k in range(len(res['threaded']))]
        if res['threaded'] != exp or res['alive'] or res['locked']:
            bad = [k for k in range(len(exp)) if res['threaded'][k] != exp[k]][:3]
            chk.violation('impl-vs-spec', {'threads': texprs}, {'differing_threads': [(texprs[k % len(texprs)], res['threaded'][k], exp[k]) for k in bad],
                                                                 'alive': res['alive'], 'locked': res['locked']})
    chk.rule = ('fault sequences: every sequence of <= 2 collation arguments (available, unavailable, malformed, with / without '
                'fallback) and seeded sequences of 3-6 collation-using calls over 11 functions, each in a fresh process under a '
                'watchdog; plus environment-variable gating, DOCTYPE/entity inputs to parse-xml(-fragment), threads vs sequential; '
                'non-trivial = a sequence that switches the locale at least once, distinct by sequence')
    chk.obligations.append({'name': 'correspondence:impl==model(raised, lock, locale after each call)', 'ok': not chk.corr_fail,
                            'detail': f'{len(chk.corr_fail)} disagreements' + (': ' + repr(chk.corr_fail[0])[:500] if chk.corr_fail else '')})
    if chk.corr_fail and not any(not v['no_failing_input'] for v in chk.violations):
        d0, got, mo = chk.corr_fail[0]
        chk.violation('correspondence-broken', d0, {'impl': got, 'model': mo}, no_input=True)


def replay(rec):
    print(rec)
    return 0
