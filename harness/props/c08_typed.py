"""C08, typed part: distinct-values / index-of / min / max / sum / avg on sequences of typed atomic values against
coq/theories/C08/Typed.v (the F&O definitions).  Called by props/c08.py."""
import math
from fractions import Fraction

import core

IMPORTS = 'From EP Require Import C15.Keys C08.Typed C08.TypedRun.'
RANK = {'': 0, '1': 1, '1.0': 2, '2.5': 3, 'a': 4, 'b': 5, 'c': 6, 'x': 7}

# (XPath expression, Coq av, group)
TV = [
    ('0', 'ANum TInteger (NFin 0 1)', 'n'), ('1', 'ANum TInteger (NFin 1 1)', 'n'), ('2', 'ANum TInteger (NFin 2 1)', 'n'),
    ('3', 'ANum TInteger (NFin 3 1)', 'n'), ('-1', 'ANum TInteger (NFin (-1) 1)', 'n'),
    ('1.0', 'ANum TDecimal (NFin 10 10)', 'n'), ('1.5', 'ANum TDecimal (NFin 15 10)', 'n'), ('2.5', 'ANum TDecimal (NFin 25 10)', 'n'),
    ('0.5', 'ANum TDecimal (NFin 5 10)', 'n'), ('-1.0', 'ANum TDecimal (NFin (-10) 10)', 'n'), ('3.0', 'ANum TDecimal (NFin 30 10)', 'n'),
    ('1e0', 'ANum TDouble (NFin 1 1)', 'n'), ('1.5e0', 'ANum TDouble (NFin 3 2)', 'n'), ('0.5e0', 'ANum TDouble (NFin 1 2)', 'n'),
    ('3e0', 'ANum TDouble (NFin 3 1)', 'n'), ('0e0', 'ANum TDouble (NFin 0 1)', 'n'),
    ("xs:double('NaN')", 'ANum TDouble NNaN', 'n'), ("xs:double('INF')", 'ANum TDouble NPInf', 'n'), ("xs:double('-INF')", 'ANum TDouble NNInf', 'n'),
    ("xs:float('1')", 'ANum TFloat (NFin 1 1)', 'n'), ("xs:float('2.5')", 'ANum TFloat (NFin 5 2)', 'n'), ("xs:float('NaN')", 'ANum TFloat NNaN', 'n'),
    ("xs:untypedAtomic('1')", 'AUntyped 1 (Some (NFin 1 1))', 'n'), ("xs:untypedAtomic('1.0')", 'AUntyped 2 (Some (NFin 1 1))', 'n'),
    ("xs:untypedAtomic('2.5')", 'AUntyped 3 (Some (NFin 5 2))', 'n'),
    ("''", 'AStr false 0', 's'), ("'1'", 'AStr false 1', 's'), ("'a'", 'AStr false 4', 's'), ("'b'", 'AStr false 5', 's'),
    ("xs:anyURI('a')", 'AStr true 4', 's'), ("xs:anyURI('c')", 'AStr true 6', 's'),
    ("xs:untypedAtomic('a')", 'AUntyped 4 None', 's'), ("xs:untypedAtomic('x')", 'AUntyped 7 None', 's'),
    ('true()', 'ABool true', 'b'), ('false()', 'ABool false', 'b'),
    ("xs:date('2000-01-01')", 'AOrd 1 0', 'd'), ("xs:date('2000-01-02')", 'AOrd 1 1', 'd'), ("xs:date('1999-12-31')", 'AOrd 1 (-1)', 'd'),
    ("xs:dateTime('2000-01-01T00:00:00')", 'AOrd 2 0', 'dt'), ("xs:dateTime('2000-01-01T12:00:00')", 'AOrd 2 43200', 'dt'),
    ("xs:time('10:00:00')", 'AOrd 3 36000', 't'), ("xs:time('11:00:00')", 'AOrd 3 39600', 't'),
    ("xs:yearMonthDuration('P1Y')", 'AOrd 4 12', 'ym'), ("xs:yearMonthDuration('P12M')", 'AOrd 4 12', 'ym'), ("xs:yearMonthDuration('P1M')", 'AOrd 4 1', 'ym'),
    ("xs:dayTimeDuration('PT1H')", 'AOrd 5 3600000', 'dtd'), ("xs:dayTimeDuration('PT60M')", 'AOrd 5 3600000', 'dtd'),
    ("xs:dayTimeDuration('P1D')", 'AOrd 5 86400000', 'dtd'),
    # XPath 3.1 orders the binary types (op:hexBinary-less-than ...): families 6 / 7 ordered by the octets
    ("xs:hexBinary('0A')", 'AOrd 6 10', 'hex'), ("xs:hexBinary('0B')", 'AOrd 6 11', 'hex'), ("xs:hexBinary('0a')", 'AOrd 6 10', 'hex'),
    ("xs:base64Binary('Cg==')", 'AOrd 7 10', 'b64'), ("xs:base64Binary('Cw==')", 'AOrd 7 11', 'b64'),
    ("xs:QName('a')", 'AEq 1 1', 'o'), ("xs:QName('b')", 'AEq 1 2', 'o'), ("xs:gYear('2000')", 'AEq 4 2000', 'o'),
    ("xs:gYear('2001')", 'AEq 4 2001', 'o'), ("xs:duration('P1Y1D')", 'AEq 5 1', 'o'),
]
ERRC = {'FORG0001': 1, 'FORG0006': 6}


def run(chk, model_ok):
    from decimal import Decimal
    import xml.etree.ElementTree as ET
    from elementpath import XPathContext, ElementPathError
    from elementpath.xpath31 import XPath31Parser
    from elementpath.datatypes import Float, UntypedAtomic, AnyURI, AbstractDateTime, Duration, YearMonthDuration, DayTimeDuration
    rng = chk.rng
    quick = chk.tier == 'quick'
    root = ET.XML('<r/>')
    cache = {}

    def ev(expr, **variables):
        tok = cache.get(expr)
        if tok is None:
            tok = cache[expr] = XPath31Parser().parse(expr)
        return tok.evaluate(XPathContext(root, variables=variables))
    val = {e: ev(e) for e, _, _ in TV}
    code_of = {}          # (class name, str(value)) -> model encoding, for the families given by a code table
    for e, lit, _ in TV:
        if lit.startswith(('AOrd', 'AEq')):
            parts = lit.replace('(', '').replace(')', '').split()
            code_of[(type(val[e]).__name__, str(val[e]))] = [5 if parts[0] == 'AOrd' else 6, int(parts[1]), int(parts[2])]

    def enc_num(t, x):
        if isinstance(x, float) and x != x:
            return [1, t, 1, Fraction(0)]
        if isinstance(x, float) and math.isinf(x):
            return [1, t, 2 if x > 0 else 3, Fraction(0)]
        return [1, t, 0, Fraction(x)]

    def enc(x):
        if isinstance(x, bool):
            return [4, int(x)]
        if isinstance(x, int):
            return enc_num(0, x)
        if isinstance(x, Decimal):
            return enc_num(1, x)
        if isinstance(x, Float):
            return enc_num(2, x)
        if isinstance(x, float):
            return enc_num(3, x)
        if isinstance(x, AnyURI):
            return [2, 1, RANK.get(str(x), -1)]
        if isinstance(x, str):
            return [2, 0, RANK.get(x, -1)]
        if isinstance(x, UntypedAtomic):
            return [3, RANK.get(x.value, -1)]
        if isinstance(x, YearMonthDuration):
            return [5, 4, x.months]
        if isinstance(x, DayTimeDuration):
            return [5, 5, int(Fraction(x.seconds) * 1000)]
        return code_of.get((type(x).__name__, str(x)), ['?', type(x).__name__, str(x)])

    def dec_model(m):
        """model encoding -> comparable form (numerics as Fractions)"""
        m = list(m)
        if m and m[0] == 1:
            return [1, m[1], m[2], Fraction(m[3], m[4]) if m[2] == 0 else Fraction(0)]
        return m

    def close(a, b):
        """impl result vs model result; decimal division is compared to 27 significant digits (Decimal context, external)"""
        if a == b:
            return True
        if b == [-1, 16] and a in ([-1, 1], [-1, 6]):
            return True               # both error conditions hold: either code
        if len(a) == 4 and len(b) == 4 and a[0] == b[0] == 1 and a[1] == 0 and b[1] == 1 and a[2:] == b[2:]:
            return True               # an integral xs:decimal returned as xs:integer (a subtype of xs:decimal)
        if len(a) == 4 and len(b) == 4 and a[:3] == b[:3] and a[0] == 1 and a[2] == 0:
            x, y = a[3], b[3]
            if a[1] in (2, 3):
                return float(x) == float(y)
            return abs(x - y) <= abs(y) * Fraction(1, 10 ** 26)
        return False

    def seq():
        r = rng.random()
        if r < 0.55:
            g = rng.choice(['n', 'n', 'n', 's', 'b', 'd', 'dt', 't', 'ym', 'dtd', 'hex', 'b64'])
            pool = [t for t in TV if t[2] == g]
        elif r < 0.75:
            g = rng.sample(['n', 's', 'b', 'd', 'ym', 'dtd', 'o', 'hex', 'b64'], 2)
            pool = [t for t in TV if t[2] in g]
        else:
            pool = TV
        return [rng.choice(pool) for _ in range(rng.randint(0, 5))]

    n = 250 if quick else 12000
    cases = []
    for _ in range(n):
        s = seq()
        k = rng.random()
        if k < 0.25:
            cases.append(('dv', s, None))
        elif k < 0.5:
            cases.append(('index', s, rng.choice(s) if s and rng.random() < 0.7 else rng.choice(TV)))
        else:
            cases.append(('agg', s, rng.randint(0, 3)))
    # fixed: every pair of values through distinct-values, index-of and deep-equal (the whole eq relation)
    for a in TV:
        for b in TV:
            cases.append(('dv', [a, b], None))
            cases.append(('index', [a], b))
            cases.append(('deq', [a], [b]))
    for _ in range(60 if quick else 3000):
        s1 = seq()
        s2 = [(rng.choice([t for t in TV if t[2] == x[2]]) if rng.random() < 0.5 else x) for x in s1]
        if rng.random() < 0.2:
            s2 = s2[:-1] if s2 and rng.random() < 0.5 else s2 + [rng.choice(TV)]
        cases.append(('deq', s1, s2))
    for g in ('n', 's', 'b', 'd', 'dt', 't', 'ym', 'dtd', 'o', 'hex', 'b64'):
        for a in [t for t in TV if t[2] == g]:
            for f in range(4):
                cases.append(('agg', [a], f))

    # fixed: one value of every group with one value of every group (both orders) through min / max / sum / avg: the
    # aggregates on mixed types do not depend on the luck of the seeded sequences
    GROUPS = ('n', 's', 'b', 'd', 'dt', 't', 'ym', 'dtd', 'o', 'hex', 'b64')
    first = {g: next(t for t in TV if t[2] == g) for g in GROUPS if any(t[2] == g for t in TV)}
    for g1, a in first.items():
        for g2, b in first.items():
            if g1 != g2:
                for f in range(4):
                    cases.append(('agg', [a, b], f))

    def lit(s):
        return '[' + '; '.join(t[1] for t in s) + ']'
    terms = []
    for kind, s, x in cases:
        if kind == 'dv':
            terms.append(f'(run_dv {lit(s)}, [0])')
        elif kind == 'index':
            terms.append(f'(([[0]], [0]), run_index {lit(s)} ({x[1]}))')
        elif kind == 'deq':
            terms.append(f'(([[0]], [0]), run_deq {lit(s)} {lit(x)})')
        else:
            terms.append(f'(([[0]], [0]), run_agg {x} {lit(s)})')
    model = core.run_coq_cases('C08', IMPORTS, terms, chunk=400, tag='typed') if model_ok else [None] * len(cases)
    FN = {0: 'min($S)', 1: 'max($S)', 2: 'sum($S)', 3: 'avg($S)'}
    for (kind, s, x), mo in zip(cases, model):
        chk.evaluations += 1
        chk.count('typed:' + kind)
        vals = [val[t[0]] for t in s]
        desc = {'fn': kind if kind != 'agg' else FN[x], 'S': [t[0] for t in s]}
        if kind == 'index':
            desc['search'] = x[0]
        if kind == 'deq':
            desc['T'] = [t[0] for t in x]
        try:
            if kind == 'deq':
                r = ev('deep-equal($S, $T)', S=vals, T=[val[t[0]] for t in x])
            elif kind == 'dv':
                r = ev('distinct-values($S)', S=vals)
            elif kind == 'index':
                r = ev('index-of($S, $x)', S=vals, x=val[x[0]])
            else:
                r = ev(FN[x], S=vals)
            r = r if isinstance(r, list) else [r]
            err = None
        except ElementPathError as e:
            r, err = None, (e.code or '').split(':')[-1]
        except Exception as e:
            chk.violation('foreign-exception', desc, repr(e)[:200])
            continue
        if mo is None:
            continue
        if kind == 'dv':
            reps, class_of = [dec_model(m) for m in mo[0]], list(mo[1])     # Coq prints ((a, b), c) as (a, b, c)
            if err is not None:
                chk.corr_fail.append((desc, 'error ' + err, 'values'))
                chk.violation('impl-vs-spec', desc, {'impl': 'error ' + err, 'spec': 'no error'})
                continue
            got_cls = []
            for item in r:
                j = next((k for k, v in enumerate(vals) if v is item), None)
                if j is None:
                    j = next((k for k, v in enumerate(vals) if enc(v) == enc(item)), None)
                got_cls.append(class_of[j] if j is not None else -1)
            if sorted(got_cls) != list(range(len(reps))):
                chk.corr_fail.append((desc, got_cls, len(reps)))
                chk.violation('impl-vs-spec', desc, {'impl classes of the result': got_cls, 'impl': [str(v) for v in r],
                                                     'spec: one value per class, classes': len(reps), 'class_of': class_of})
            if len(reps) >= 2:
                chk.nontrivial.add(repr(('dv', desc['S'])))
        elif kind == 'deq':
            want = [bool(mo[2][0])]
            got = ['error ' + err] if err else [bool(v) for v in r]
            if got != want:
                chk.corr_fail.append((desc, got, want))
                chk.violation('impl-vs-spec', desc, {'impl': got, 'spec': want})
            if want[0] and s:
                chk.nontrivial.add(repr(('deq', desc['S'], desc['T'])))
        elif kind == 'index':
            want = list(mo[2])
            got = ['error ' + err] if err else [int(v) for v in r]
            if got != want:
                chk.corr_fail.append((desc, got, want))
                chk.violation('impl-vs-spec', desc, {'impl': got, 'spec': want})
            if want:
                chk.nontrivial.add(repr(('index', desc['S'], x[0])))
        else:
            want = dec_model(mo[2])
            if x == 3 and s and all(t[2] == 'dtd' for t in s) and sum(int(t[1].split()[2]) for t in s) % len(s):
                continue              # dayTimeDuration div n with a fractional millisecond result: not judged
            if err is not None:
                got = [-1, ERRC.get(err, err)]
            elif not r:
                got = [0]
            else:
                got = enc(r[0]) if len(r) == 1 else ['sequence', len(r)]
            if not close(got, want):
                chk.corr_fail.append((desc, str(got), str(want)))
                chk.violation('impl-vs-spec', desc, {'impl': str(got), 'spec': str(want)})
            if want[0] not in (-1, 0):
                chk.nontrivial.add(repr(('agg', x, desc['S'])))
