"""C04 — token trees realise the XPath grammar; source round-trips; hash-seed independence.

proof:  coq/theories/Common/Pratt.v (generic Pratt loop = Parser.expression, pratt_correct, canon_img, verified
        table checker) + C04/{Spec,Model,Properties}.v over Gen/C04Tables.v (T-data: binding powers, led/nud rbp
        and non-associativity checks PROBED from the loaded token classes on every run)
tie:    T-data + correspondence of the model parser with parser.parse(s) on token sequences (trees compared).
"""
import hashlib
import json
import os
import subprocess
import sys

import core
import gen_c04

IMPORTS = 'From EP Require Import Common.Pratt C04.Spec Gen.C04Tables C04.Model C04.Run.'
OPS = gen_c04.OPS
CODE = gen_c04.CODE
COMPARISONS = set(OPS[2:17])


def render(toks):
    out = []
    for t in toks:
        if t == -1:
            out.append('(')
        elif t == -2:
            out.append(')')
        elif t >= 1000:
            out.append('a%d' % (t - 1000))
        else:
            out.append(OPS[t])
    return out


def enc_impl(tok):
    """flat encoding of the implementation's token tree (same format as C04/Run.v)"""
    sym = tok.symbol
    if sym == '(name)':
        v = tok.value
        if isinstance(v, str) and v[:1] == 'a' and v[1:].isdigit():
            return [1000 + int(v[1:])]
        raise ValueError('unexpected name %r' % v)
    if sym == '(' and len(tok) == 1:
        return [-1] + enc_impl(tok[0]) + [-2]
    if sym in CODE and len(tok) == 1:
        return [-3, CODE[sym]] + enc_impl(tok[0]) + [-4]
    if sym in CODE and len(tok) == 2:
        return [-5, CODE[sym]] + enc_impl(tok[0]) + enc_impl(tok[1]) + [-6]
    raise ValueError('unexpected token %r with %d items' % (sym, len(tok)))


def impl_parse(parser, text):
    from elementpath import ElementPathError
    try:
        root = parser.parse(text)
    except ElementPathError as e:
        return [-9], None
    except RecursionError:
        return ['exc', 'RecursionError'], None
    except Exception as e:
        return ['exc', repr(e)[:200]], None
    try:
        return enc_impl(root), root
    except ValueError as e:
        return ['shape', str(e)], root


HASHSEED_SCRIPT = r'''
import sys, json, hashlib
sys.path.insert(0, %r)
import elementpath
from elementpath import XPath1Parser, XPath2Parser
from elementpath.xpath30 import XPath30Parser
from elementpath.xpath31 import XPath31Parser
corpus = json.load(open(sys.argv[1]))
out = {}
for name, P in (('10', XPath1Parser), ('20', XPath2Parser), ('30', XPath30Parser), ('31', XPath31Parser)):
    p = P()
    # the custom patterns are joined in set order (hash-seed dependent): measure the hypothesis of C04's
    # alternation-order argument: at every position of the corpus all custom patterns that match, match the SAME text
    import re
    res = ['-']
    custom = [re.compile(x) for x in sorted({tc.pattern for tc in p.symbol_table.values() if tc.pattern is not None})]
    worst = 0
    for s in corpus + [k + '(' for k in p.symbol_table] + [k + '::' for k in p.symbol_table] + ['map{', 'array{', 'Q{u}a', 'map (: c :) (']:
        for pos in range(len(s)):
            worst = max(worst, len({m.group() for m in (c.match(s, pos) for c in custom) if m}))
    res.append('max distinct texts matched by custom patterns at one position: ' + str(worst))
    for s in corpus:
        try:
            res.append(p.parse(s).tree)
        except elementpath.ElementPathError as e:
            res.append('ERR ' + str(e.code))
        except Exception as e:
            res.append('EXC ' + type(e).__name__)
    out[name] = res
print(json.dumps(out))
'''


def run(chk):
    rng = chk.rng
    quick = chk.tier == 'quick'
    chk.trusted += ['harness/gen_c04.py: probing of led()/nud() of the loaded token classes with a recording stub for '
                    'parser.expression() (the table the theorems are about is what the probe observed)',
                    'C04/Spec.v: the transcription of the W3C EBNF operator levels',
                    'lexer / tokenizer, evaluation and .source are outside the model (correspondence / exploration only)']
    st, tables = gen_c04.generate()
    for k, v in st.items():
        chk.obligations.append({'name': 'probe:' + k, 'ok': v == 'ok', 'detail': v})
    for f in ('elementpath/tdop.py', 'elementpath/xpath1/_xpath1_operators.py', 'elementpath/xpath2/_xpath2_operators.py',
              'elementpath/xpath30/_xpath30_operators.py', 'elementpath/xpath31/_xpath31_operators.py',
              'elementpath/xpath2/xpath2_parser.py', 'elementpath/xpath_tokens/base.py', 'elementpath/xpath_tokens/tokens.py'):
        chk.record_source(f)
    chk.forbidden_scan(['C04'])
    proved = all(v == 'ok' for v in st.values()) and chk.prove(
        ['theories/Common/Pratt.v', 'theories/C04/Spec.v', 'theories/Gen/C04Tables.v', 'theories/C04/Model.v',
         'theories/C04/Run.v'], 'theories/C04/Properties.v')
    model_ok = len(tables) == 4
    if not proved and model_ok:
        try:
            core.coq_make(['theories/Gen/C04Tables.v', 'theories/C04/Model.v', 'theories/C04/Run.v'])
        except core.CoqError as e:
            chk.notes.append('model does not build: ' + str(e))
            model_ok = False

    parsers = {v: pc() for v, pc in gen_c04.parsers().items()}
    cases = []      # (version, tokens)
    for v in gen_c04.VERSIONS:
        ops = [CODE[o] for o in tables.get(v, {})] or [CODE[o] for o in OPS if o in parsers[v].symbol_table]
        pre = [CODE['-'], CODE['+']]
        A = lambda n: 1000 + n
        for o1 in ops:
            cases.append((v, [A(1), o1, A(2)]))
            cases.append((v, [pre[0], A(1), o1, A(2)]))
            cases.append((v, [A(1), o1, pre[0], A(2)]))
            for o2 in ops:
                cases.append((v, [A(1), o1, A(2), o2, A(3)]))
                if not quick or (o1 + o2) % 3 == 0:
                    cases.append((v, [A(1), o1, -1, A(2), o2, A(3), -2]))
                    cases.append((v, [pre[0], A(1), o1, A(2), o2, A(3)]))
        cases.append((v, [pre[0], pre[0], A(1)]))
        cases.append((v, [pre[0], pre[1], -1, A(1), -2]))
        alphabet = [o for o in ops if OPS[o] != '*'] * 2 + [A(1), A(2), A(3), A(4)] * 6 + [-1, -2] * 2 + pre
        for _ in range(200 if quick else 20000):
            # mostly well-formed: alternate operand / operator, sometimes break the pattern
            toks = []
            n = rng.randint(1, 5)
            depth = 0
            for i in range(n):
                while rng.random() < 0.2:
                    toks.append(rng.choice(pre))
                if rng.random() < 0.15:
                    toks.append(-1); depth += 1
                toks.append(A(rng.randint(1, 4)))
                if depth and rng.random() < 0.5:
                    toks.append(-2); depth -= 1
                if i < n - 1:
                    toks.append(rng.choice(ops))
            toks += [-2] * depth
            if rng.random() < 0.15:
                k = rng.randrange(len(toks))
                toks[k] = rng.choice(alphabet)
            if rng.random() < 0.05:
                del toks[rng.randrange(len(toks))]
            if toks:
                cases.append((v, toks))

    model = {}
    if model_ok:
        for v in gen_c04.VERSIONS:
            idxs = [i for i, c in enumerate(cases) if c[0] == v]
            vals = core.run_coq_cases('C04', IMPORTS, [f'run{v} {core.zlist(cases[i][1])}' for i in idxs],
                                      chunk=500, tag='v' + v, preamble='Open Scope Z_scope.')
            model.update(zip(idxs, vals))

    comment_variants = 0
    source_roundtrips = 0
    corpus = []
    for i, (v, toks) in enumerate(cases):
        chk.evaluations += 1
        chk.count('v' + v)
        words = render(toks)
        text = ' '.join(words)
        got, root = impl_parse(parsers[v], text)
        desc = {'version': v, 'expr': text}
        if got and got[0] == 'exc':
            chk.violation('foreign-exception', desc, got)
            continue
        if got and got[0] == 'shape':
            chk.count('outside-model-grammar (e.g. * as a name test)')   # not an operator-grammar input
            continue
        if len(corpus) < 300 and i % 7 == 0:
            corpus.append(text)
        if i in model:
            mo, sp = list(model[i][0]), list(model[i][1])
            if got != mo:
                chk.corr_fail.append((desc, got, mo))
            if got != sp:
                ncmp = sum(1 for t in toks if 0 <= t < 1000 and OPS[t] in COMPARISONS)
                if got == mo and v == '10' and ncmp >= 2:
                    chk.known('C04-xpath1-comparison-chains', desc | {'impl': 'rejected' if got == [-9] else got, 'spec': sp})
                else:
                    chk.violation('impl-vs-spec', desc, {'impl': got, 'spec': sp, 'model': mo})
            if mo != [-9] and len(toks) >= 5:
                chk.nontrivial.add(repr((v, toks)))
        if root is not None:
            # whitespace / comment invariance and source round trip (implementation-side observations)
            if i % 5 == 0:
                seps = ['  ', '\n', '\t ', ' ']
                def comment(depth):
                    inner = ' '.join(comment(depth - 1) for _ in range(rng.randint(1, 2))) if depth > 1 else rng.choice(['c', '', ':', '( )'])
                    return '(: ' + rng.choice(['a ', '']) + inner + rng.choice([' b', '']) + ' :)'
                if v != '10':
                    seps += [' ' + comment(d) + ' ' for d in (1, 2, 3, 4)]
                t2 = ' '.join(w + rng.choice(seps) for w in words)
                got2, _ = impl_parse(parsers[v], t2)
                comment_variants += 1
                if got2 != got:
                    chk.violation('whitespace-or-comment-changes-parse', desc | {'variant': t2}, {'plain': got, 'variant': got2})
                if v != '10' and i % 25 == 0:
                    # an unterminated (unbalanced) comment is a syntax error, whatever follows
                    t3 = text + ' ' + comment(rng.randint(2, 4))[:-3] + ' + a1 (: :) + a2'
                    got3, _ = impl_parse(parsers[v], t3)
                    if got3 != [-9]:
                        chk.violation('unbalanced-comment-accepted', desc | {'variant': t3}, {'parsed_as': got3})
            if i % 3 == 0:
                src = root.source
                got3, _ = impl_parse(parsers[v], src)
                source_roundtrips += 1
                if got3 != got:
                    chk.violation('source-does-not-round-trip', desc | {'source': src}, {'tree': got, 'reparsed': got3})
        if i % 1999 == 0:
            chk.sample({'version': v, 'expr': text, 'model,spec': model.get(i)})
    chk.distribution['comment/whitespace variants'] = comment_variants
    chk.distribution['source round trips'] = source_roundtrips

    # hash-seed independence: tokenizer pattern text and parse trees in sub-processes with other seeds
    os.makedirs(core.BUILD, exist_ok=True)
    cpath = os.path.join(core.BUILD, f'c04_corpus_{os.getpid()}.json')
    json.dump(corpus, open(cpath, 'w'))
    results = {}
    for seed in ([0, 1, 2, 3] if quick else list(range(16))):
        env = dict(os.environ, PYTHONHASHSEED=str(seed), PYTHONPATH=core.REPO)
        p = subprocess.run([sys.executable, '-c', HASHSEED_SCRIPT % core.REPO, cpath], env=env, capture_output=True, text=True, timeout=600)
        chk.evaluations += 1
        if p.returncode != 0:
            chk.violation('hash-seed-run-failed', {'seed': seed}, p.stderr[-500:])
            continue
        results[seed] = json.loads(p.stdout)
    os.remove(cpath)
    seeds = sorted(results)
    for s in seeds[1:]:
        for v in gen_c04.VERSIONS:
            a, b = results[seeds[0]][v], results[s][v]
            if a != b:
                k = next(j for j in range(len(a)) if a[j] != b[j])
                chk.violation('hash-seed-dependence', {'version': v, 'seeds': [seeds[0], s],
                                                       'what': '-' if k == 0
                                                       else ('disjointness measure' if k == 1 else corpus[k - 2])},
                              {'a': a[k][:200], 'b': b[k][:200]})
    chk.distribution['hash seeds compared'] = len(seeds)
    if seeds:
        for v in gen_c04.VERSIONS:
            m = results[seeds[0]][v][1]
            chk.distribution[f'v{v} {m}'] = 1
            if not m.endswith(': 1') and not m.endswith(': 0'):
                chk.violation('custom-token-patterns-overlap', {'version': v}, m)
    chk.rule = ('per parser version: every operator pair a o1 b o2 c (+ parenthesised and prefixed variants), seeded random '
                'mostly-well-formed token sequences with mutations; non-trivial = accepted by the model with >= 5 tokens, '
                'distinct by (version, tokens); plus whitespace/comment variants, .source round trips and hash-seed runs')
    chk.obligations.append({'name': 'correspondence:impl==model(parse trees, rejections)', 'ok': not chk.corr_fail,
                            'detail': f'{len(chk.corr_fail)} disagreements' + (': ' + repr(chk.corr_fail[0])[:400] if chk.corr_fail else '')})
    if chk.corr_fail and not any(not v['no_failing_input'] for v in chk.violations):
        d, got, mo = chk.corr_fail[0]
        chk.violation('correspondence-broken', d, {'impl': got, 'model': mo, 'all': [repr(x)[:300] for x in chk.corr_fail[:30]]}, no_input=True)


def replay(rec):
    print(rec)
    return 0
