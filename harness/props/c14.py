"""C14 — fn:path and node path strings identify each node uniquely.

proof:  coq/theories/C14/{Model,Proofs,Properties}.v : path_of / eval on rose trees; the path of a node evaluates to
        exactly that node, distinct nodes have distinct paths (all trees, all nodes).
tie:    correspondence of the structured steps with node.path / fn:path / etree_iter_paths strings, and evaluation of
        every path string back on the implementation (XPath 3.0 / 3.1 parser): must select exactly the node.
"""
import core
import trees

IMPORTS = 'From EP Require Import C14.Model C14.Run.'
NAMES = ['a', 'b', 'x', 'y', 'pi', 'alpha', 'text', 'node', 'map', 'count', 'if', 'for', 'div', 'let', 'union', 'some']
CODE = {n: i + 1 for i, n in enumerate(NAMES)}


def rlit(t):
    """abstract tree -> Coq rtree (children in the order of the XPath node tree: text, then each child + its tail)"""
    if t.kind == 'c':
        return 'RNode KComment []'
    if t.kind == 'p':
        return f'RNode (KPI {CODE[t.target]}) []'
    ch = []
    if t.text is not None:
        ch.append('RNode KText []')
    for c in t.children:
        ch.append(rlit(c))
        if c.tail is not None:
            ch.append('RNode KText []')
    return f'RNode (KElem {CODE[t.name]}) [{"; ".join(ch)}]'


def depth(t):
    return 1 + max([depth(c) for c in t.children] + [0]) if t.kind == 'e' else 1


def fmt(steps, ns=''):
    out = ''
    for k, n, pos in steps:
        if k == 1:
            out += '/Q{%s}%s[%d]' % (ns, NAMES[n - 1], pos)
        elif k == 4:
            out += '/text()[%d]' % pos
        elif k == 5:
            out += '/comment()[%d]' % pos
        else:
            out += '/processing-instruction(%s)[%d]' % (NAMES[n - 1], pos)
    return out


def run(chk):
    import xml.etree.ElementTree as ET
    from elementpath import get_node_tree, XPathContext, ElementPathError
    from elementpath.xpath30 import XPath30Parser
    from elementpath.xpath31 import XPath31Parser
    from elementpath.etree import etree_iter_paths
    from elementpath import xpath_nodes as X
    rng = chk.rng
    quick = chk.tier == 'quick'
    chk.trusted += ['harness formatting of structured steps to the Q{ns}local[n] notation; attribute and namespace node paths '
                    '(/@name, /namespace::prefix) are checked on the implementation only (unique by XML well-formedness)',
                    'the text -> parser -> evaluation step is correspondence (C01 for the semantics of child::test[n])']
    for f in ('elementpath/xpath_nodes.py', 'elementpath/xpath30/_xpath30_functions.py', 'elementpath/etree.py'):
        chk.record_source(f)
    chk.forbidden_scan(['C14'])
    proved = chk.prove(['theories/C14/Model.v', 'theories/C14/Proofs.v', 'theories/C14/Run.v'], 'theories/C14/Properties.v')
    model_ok = True
    if not proved:
        try:
            core.coq_make(['theories/C14/Model.v', 'theories/C14/Run.v'])
        except core.CoqError as e:
            chk.notes.append('model does not build: ' + str(e))
            model_ok = False

    tlist = []
    for n in (1, 2, 3):
        for s in trees.all_shapes(n, names=('a', 'b')):
            tlist.append(trees.from_shape(s))
    for _ in range(60 if quick else 4000):
        t = trees.random_tree(rng, maxnodes=rng.choice([4, 9, 16]), names=('a', 'b', 'x', 'y', 'pi', 'text', 'map', 'if', 'div'))
        t.tail = None
        # PI targets incl. names of functions / kind tests; repeated names interleaved with text and comments
        def retarget(x):
            for c in x.children:
                if c.kind == 'p':
                    c.target = rng.choice(['pi', 'alpha', 'text', 'node', 'map', 'count', 'x', 'a', 'b', 'if', 'for', 'div', 'let', 'union', 'some'])
                elif c.kind == 'e':
                    retarget(c)
        retarget(t)
        tlist.append(t)
    pi_case = trees.T('e', 'a', children=[trees.T('p', target='x', text='d'), trees.T('p', target='y', text='e'), trees.T('e', 'b', tail='t'),
                                           trees.T('e', 'b'), trees.T('c', text='c'), trees.T('p', target='x', text='z'),
                                           trees.T('p', target='b', text='q'), trees.T('e', 'b')])
    tlist.append(pi_case)

    terms = [f'run ({rlit(t)}) {depth(t) + 1}' for t in tlist]
    model = core.run_coq_cases('C14', IMPORTS, terms, chunk=80, tag='paths') if model_ok else [None] * len(tlist)
    parsers = [XPath30Parser(), XPath31Parser()]
    P31 = parsers[1]

    def children_kinds(node):
        return [c for c in node.children]

    for ti, t in enumerate(tlist):
        for lib in ('et', 'lxml'):
            for mode in ('doc', 'elem'):
                if quick and lib == 'lxml' and mode == 'elem' and ti % 3:
                    continue
                desc0 = {'lib': lib, 'mode': mode, 'tree': trees.serialize(t)[:500]}
                if lib == 'et':
                    elem = trees.to_et(t)
                    root = ET.ElementTree(elem) if mode == 'doc' else elem
                else:
                    elem = trees.to_lxml(t)
                    root = elem.getroottree() if mode == 'doc' else elem
                node = get_node_tree(root)
                rn = node if isinstance(node, X.ElementNode) else node.getroot()
                nodes = list(node.iter())
                index = {id(n): i for i, n in enumerate(nodes)}
                # model: index path -> steps (relative to the root element)
                want = {}
                if model[ti] is not None:
                    for ip, steps, back in model[ti]:
                        want[tuple(ip)] = ([tuple(s) for s in steps], [list(b) for b in back])
                        if [list(ip)] != [list(b) for b in back]:
                            chk.violation('model-path-does-not-select-self', desc0, {'index_path': ip})

                def ipath(n):
                    p = []
                    while n is not rn:
                        p.append([id(c) for c in n.parent.children].index(id(n)))
                        n = n.parent
                    return tuple(reversed(p))
                for n in nodes:
                    chk.evaluations += 1
                    chk.count(type(n).__name__)
                    desc = desc0 | {'node_index': index[id(n)], 'node': type(n).__name__}
                    strings = {'path': n.path}
                    for parser in parsers[:1] if quick and ti % 2 else parsers:
                        try:
                            fp = parser.parse('path(.)').evaluate(XPathContext(node, item=n))
                            strings['fn:path/' + parser.version] = fp
                        except ElementPathError as e:
                            chk.violation('impl-vs-spec', desc, 'fn:path raised ' + str(e.code))
                    # 1. model correspondence of the path text (elements, text, comments, PIs below the root element)
                    if want and not isinstance(n, (X.DocumentNode, X.AttributeNode, X.NamespaceNode)):
                        steps = want.get(ipath(n))
                        if steps is not None:
                            root_step = '/Q{}%s[1]' % t.name
                            expect = root_step + fmt(steps[0])
                            if n.path != expect:
                                chk.corr_fail.append((desc, n.path, expect))
                    # 2. every path string evaluates back to exactly the node
                    for label, p in strings.items():
                        if not isinstance(p, str):
                            chk.violation('impl-vs-spec', desc, {label: repr(p)})
                            continue
                        for parser in parsers:
                            try:
                                res = list(parser.parse(p).select(XPathContext(node)))
                                ok = len(res) == 1 and res[0] is n
                                got = [index.get(id(x), -1) for x in res]
                            except ElementPathError as e:
                                ok, got = False, 'error ' + str(e.code)
                            if not ok:
                                chk.violation('impl-vs-spec', desc | {'parser': parser.version}, {label: p, 'selects': got})
                    chk.nontrivial.add((ti, lib, mode, index[id(n)]))
                # 3. distinct nodes have distinct paths
                paths = [n.path for n in nodes]
                if len(set(paths)) != len(paths):
                    dup = [p for p in set(paths) if paths.count(p) > 1]
                    chk.violation('impl-vs-spec', desc0, {'duplicate_paths': dup[:5]})
                # 4. etree_iter_paths of the root element
                for e, p in etree_iter_paths(elem):
                    chk.evaluations += 1
                    target = node.tree.elements.get(e)
                    if target is None:
                        continue
                    for parser in parsers[:1]:
                        try:
                            res = list(parser.parse(p).select(XPathContext(node, item=rn)))
                            ok = len(res) == 1 and res[0] is target
                            got = [index.get(id(x), -1) for x in res]
                        except ElementPathError as ex:
                            ok, got = False, 'error ' + str(ex.code)
                        if not ok:
                            chk.violation('impl-vs-spec', desc0, {'etree_iter_paths': p, 'selects': got, 'expected_node': index[id(target)]})
        # fragment roots (an element as the root of its tree, fragment=True): fn:path starts with fn:root() and selects the node back
        if ti % (4 if quick else 1) == 0:
            for lib in ('et', 'lxml'):
                elem = trees.to_et(t) if lib == 'et' else trees.to_lxml(t)
                nodeF = get_node_tree(elem, fragment=True)
                seen = {}
                for k, n in enumerate(nodeF.iter()):
                    chk.evaluations += 1
                    chk.count('fragment root: fn:path')
                    desc = {'lib': lib, 'mode': 'fragment', 'tree': trees.serialize(t)[:500], 'node_index': k}
                    try:
                        ptxt = P31.parse('path(.)').evaluate(XPathContext(nodeF, item=n, fragment=True))
                        back = list(P31.parse(ptxt).select(XPathContext(nodeF, fragment=True)))
                    except Exception as e:
                        chk.violation('foreign-exception' if not isinstance(e, ElementPathError) else 'impl-vs-spec', desc, repr(e)[:200])
                        continue
                    if len(back) != 1 or back[0] is not n:
                        chk.violation('impl-vs-spec', desc, {'fn:path': ptxt, 'selects': len(back)})
                    if ptxt in seen:
                        chk.violation('impl-vs-spec', desc, {'fn:path': ptxt, 'also the path of node': seen[ptxt]})
                    seen[ptxt] = k
                    chk.nontrivial.add((ti, lib, 'fragment', k))
                    # the path property does not know the evaluation mode: it is written for the dummy document of an element root
                    try:
                        back2 = list(P31.parse(n.path).select(XPathContext(nodeF, fragment=True)))
                    except ElementPathError:
                        back2 = None
                    if back2 is None or len(back2) != 1 or back2[0] is not n:
                        chk.known('C14-path-property-on-fragment-roots', desc | {'node.path': n.path, 'selects': None if back2 is None else len(back2),
                                                                                 'fn:path': ptxt})
        if ti % 37 == 0 and model[ti] is not None:
            chk.sample({'tree': trees.serialize(t)[:200], 'model (index path, steps, eval)': model[ti][:4]})
    chk.nontrivial = {repr(x) for x in chk.nontrivial}
    chk.rule = ('all element-only shapes <= 3 nodes plus seeded random trees with repeated names, interleaved text / comments, PI '
                'targets and element names that are also function, kind-test, keyword or operator names; every node of root.iter() (document, element, namespace, '
                'attribute, text, comment, PI) x {node.path, fn:path under 3.0 and 3.1} evaluated back, x {xml.etree, lxml} x '
                '{document, element root}; etree_iter_paths of every tree; non-trivial = every node, distinct by (tree, lib, mode, node)')
    chk.obligations.append({'name': 'correspondence:node.path==model steps', 'ok': not chk.corr_fail,
                            'detail': f'{len(chk.corr_fail)} disagreements' + (': ' + repr(chk.corr_fail[0])[:500] if chk.corr_fail else '')})
    if chk.corr_fail and not any(not v['no_failing_input'] for v in chk.violations):
        d0, got, mo = chk.corr_fail[0]
        chk.violation('correspondence-broken', d0, {'impl': got, 'model': mo}, no_input=True)


def replay(rec):
    print(rec)
    return 0
