"""C12 — XSD/XPath regular expressions translate to Python regexes with the same language.

proof:  coq/theories/C12/{Regex,Classes,Model,Proofs,Properties}.v : a derivative matcher proved to decide the XSD (set of
        strings) semantics; quantifier expansion; the CharacterClass algebra of the code (positive / negated subsets,
        _add_negative, complement, subtraction; UnicodeSubset operations = C13 model) proved to compute the denoted set for
        every class expression; hence matching with classes as the code computes them = XSD matching.
tie:    correspondence: random abstract expressions rendered to pattern text -> translate_pattern -> Python re, against the
        Coq matcher on sampled and random subjects (XPath mode with ^/$ and search, XSD anchored mode, flags s / x / q,
        through fn:matches too); class membership per code point against str(CharacterClass) compiled by re.
search: malformed patterns must raise RegexError; multi-digit back-references against a brute-force oracle; fn:matches /
        replace / tokenize / analyze-string mutual consistency.
PARTIAL: back-references, lazy quantifiers and the flags i / m are outside the regular model (checked on the
        implementation only); \\i \\c tables are T-data from the implementation.
"""
import re

import core

IMPORTS = 'From EP Require Import C13.Model Gen.C12Sets C12.Regex C12.Classes C12.Model C12.Run.'
ALPHA = [0x61, 0x62, 0x7a, 0x41, 0x35, 0x30, 0x663, 0x20, 0x0a, 0x2d, 0x5f, 0xe9, 0x3b1, 0x3a, 0xb7, 0x1d7ce, 0x2e, 0x5e, 0x0d, 0x39, 0xa0, 0x24, 0x301]
ESCAPES = {  # text -> (set name, negated)
    r'\d': ('esc_d', False), r'\D': ('esc_d', True), r'\s': ('esc_s', False), r'\S': ('esc_s', True), r'\w': ('esc_w', False), r'\W': ('esc_w', True),
    r'\i': ('esc_i', False), r'\I': ('esc_i', True), r'\c': ('esc_c', False), r'\C': ('esc_c', True),
    r'\p{L}': ('cat_L', False), r'\P{L}': ('cat_L', True), r'\p{Lu}': ('cat_Lu', False), r'\P{Lu}': ('cat_Lu', True), r'\p{Nd}': ('cat_Nd', False),
    r'\P{N}': ('cat_N', True), r'\p{N}': ('cat_N', False), r'\p{P}': ('cat_P', False), r'\P{Z}': ('cat_Z', True), r'\p{Ll}': ('cat_Ll', False),
    r'\p{IsGreek}': ('blk_IsGreek', False), r'\P{IsBasicLatin}': ('blk_IsBasicLatin', True), r'\p{IsBasicLatin}': ('blk_IsBasicLatin', False),
}
META = set(map(ord, '\\|.-^?*+{}()[]$'))


def esc_char(cp, in_class=False):
    if cp == 0x0a:
        return r'\n'
    if cp == 0x0d:
        return r'\r'
    if cp in META:
        return '\\' + chr(cp)
    return chr(cp)


class Gen:
    def __init__(self, rng, sets):
        self.rng = rng
        self.sets = sets

    def member(self, name, cp):
        import bisect
        rs = self.sets[name]
        i = bisect.bisect_right(rs, (cp, 0x7fffffff)) - 1
        return i >= 0 and rs[i][0] <= cp < rs[i][1]

    def cls(self, depth=0):
        rng = self.rng
        parts = []
        for _ in range(rng.choice([1, 1, 2, 2, 3, 4])):
            r = rng.random()
            if r < 0.4:
                parts.append(('ch', rng.choice(ALPHA)))
            elif r < 0.6:
                a, b = sorted(rng.sample([0x30, 0x35, 0x39, 0x41, 0x5a, 0x61, 0x62, 0x7a, 0xe9, 0x3b1, 0x660, 0x669], 2))
                parts.append(('rg', a, b))
            else:
                parts.append(('esc', rng.choice(list(ESCAPES))))
        neg = rng.random() < 0.4
        sub = self.cls(depth + 1) if depth < 2 and rng.random() < 0.3 else None
        return ('cls', neg, parts, sub)

    def atom(self, depth):
        rng = self.rng
        r = rng.random()
        if r < 0.35:
            return ('ch', rng.choice(ALPHA))
        if r < 0.42:
            return ('dot',)
        if r < 0.55:
            return ('esc', rng.choice(list(ESCAPES)))
        if r < 0.85 or depth <= 0:
            return self.cls()
        return ('grp', self.rx(depth - 1))

    def piece(self, depth):
        rng = self.rng
        a = self.atom(depth)
        r = rng.random()
        if r < 0.55:
            return a
        q = rng.choice(['?', '*', '+', 'n', 'n,', 'n,m'])
        if q == '?':
            return ('q', a, 0, 1, '?')
        if q == '*':
            return ('q', a, 0, None, '*')
        if q == '+':
            return ('q', a, 1, None, '+')
        n = rng.randint(0, 3)
        if q == 'n':
            return ('q', a, n, n, '{%d}' % n)
        if q == 'n,':
            return ('q', a, n, None, '{%d,}' % n)
        m = rng.randint(n, n + 2)
        return ('q', a, n, m, '{%d,%d}' % (n, m))

    def rx(self, depth):
        rng = self.rng
        branches = []
        for _ in range(rng.choice([1, 1, 1, 2, 3])):
            branches.append([self.piece(depth) for _ in range(rng.choice([0, 1, 1, 2, 2, 3]))])
        return ('alt', branches)

    # ---- spec-side membership (for sampling subjects only)
    def cls_mem(self, c, cp):
        _, neg, parts, sub = c
        b = False
        for p in parts:
            if p[0] == 'ch':
                b |= cp == p[1]
            elif p[0] == 'rg':
                b |= p[1] <= cp <= p[2]
            else:
                name, ng = ESCAPES[p[1]]
                b |= self.member(name, cp) != ng
        if neg:
            b = not b
        if sub is not None and self.cls_mem(sub, cp):
            b = False
        return b

    def sample(self, e):
        rng = self.rng
        k = e[0]
        if k == 'ch':
            return [e[1]]
        if k == 'dot':
            return [rng.choice([c for c in ALPHA if c not in (10, 13)])]
        if k == 'esc':
            name, ng = ESCAPES[e[1]]
            ok = [c for c in ALPHA if self.member(name, c) != ng]
            return [rng.choice(ok)] if ok else [0x61]
        if k == 'cls':
            ok = [c for c in ALPHA if self.cls_mem(e, c)]
            return [rng.choice(ok)] if ok else [0x62]
        if k == 'grp':
            return self.sample(e[1])
        if k == 'q':
            n = e[2] + (rng.randint(0, 2) if e[3] is None else rng.randint(0, e[3] - e[2]))
            out = []
            for _ in range(n):
                out += self.sample(e[1])
            return out
        br = rng.choice(e[1])
        out = []
        for p in br:
            out += self.sample(p)
        return out


def cls_text(c):
    _, neg, parts, sub = c
    out = '[' + ('^' if neg else '')
    for p in parts:
        if p[0] == 'ch':
            out += esc_char(p[1], True)
        elif p[0] == 'rg':
            out += esc_char(p[1], True) + '-' + esc_char(p[2], True)
        else:
            out += p[1]
    if sub is not None:
        out += '-' + cls_text(sub)
    return out + ']'


def rx_text(e, verbose=False, rng=None):
    k = e[0]
    sp = (lambda: ' ' * rng.choice([0, 0, 1])) if verbose else (lambda: '')
    if k == 'ch':
        return esc_char(e[1])
    if k == 'dot':
        return '.'
    if k == 'esc':
        return e[1]
    if k == 'cls':
        return cls_text(e)
    if k == 'grp':
        return '(' + rx_text(e[1], verbose, rng) + ')'
    if k == 'q':
        inner = rx_text(e[1], verbose, rng)
        return inner + sp() + e[4]
    brs = []
    for br in e[1]:
        brs.append(sp().join(rx_text(p, verbose, rng) for p in br))
    return '|'.join(brs)


def part_coq(p):
    if p[0] == 'ch':
        return f'PPos [Single {p[1]}]'
    if p[0] == 'rg':
        return f'PPos [Range {p[1]} {p[2] + 1}]' if p[2] > p[1] else f'PPos [Single {p[1]}]'
    name, ng = ESCAPES[p[1]]
    return f'{"PNeg" if ng else "PPos"} {name}'


def cls_coq(c):
    _, neg, parts, sub = c
    return '(Cls %s [%s] %s)' % ('true' if neg else 'false', '; '.join(part_coq(p) for p in parts), 'None' if sub is None else '(Some ' + cls_coq(sub) + ')')


def rx_coq(e):
    k = e[0]
    if k == 'ch':
        return f'(RChar {e[1]})'
    if k == 'dot':
        return 'RDot'
    if k == 'esc':
        name, ng = ESCAPES[e[1]]
        impl_name = {'esc_w': 'py_w', 'esc_s': 'py_s'}.get(name, name)       # passed through to Python's re
        return f'(RSet {"true" if ng else "false"} {name} {impl_name})'
    if k == 'cls':
        return f'(RCls {cls_coq(e)})'
    if k == 'grp':
        return rx_coq(e[1])
    if k == 'q':
        return f'(RQuant {rx_coq(e[1])} {e[2]}%nat {"None" if e[3] is None else "(Some %d%%nat)" % e[3]})'
    brs = []
    for br in e[1]:
        t = 'REps'
        for p in reversed(br):
            t = rx_coq(p) if t == 'REps' else f'(RCat {rx_coq(p)} {t})'
        brs.append(t)
    t = brs[-1]
    for b in reversed(brs[:-1]):
        t = f'(RAlt {b} {t})'
    return t


def toplevel_ws(e):
    """a \\w \\W \\s \\S escape outside a character class"""
    if e[0] == 'esc':
        return e[1] in (r'\w', r'\W', r'\s', r'\S')
    if e[0] in ('grp', 'q'):
        return toplevel_ws(e[1])
    if e[0] == 'alt':
        return any(toplevel_ws(p) for br in e[1] for p in br)
    return False


def has_space_char(e):
    if e[0] == 'ch':
        return e[1] in (0x20, 0x0a, 0x0d)
    if e[0] == 'cls':
        return any(p[0] == 'ch' and p[1] in (0x20, 0x0a, 0x0d) for p in e[2]) or (e[3] is not None and has_space_char(e[3]))
    if e[0] in ('grp',):
        return has_space_char(e[1])
    if e[0] == 'q':
        return has_space_char(e[1])
    if e[0] == 'alt':
        return any(has_space_char(p) for br in e[1] for p in br)
    return False


INVALID = ['[', '[]', '[a', 'a)', '(a', 'a**', '*a', '+', '?a', '[z-a]', 'a{2,1}', 'a{', 'a{,2}', '(?i)a', '(?=a)', r'\p{Foo}', r'\p{L', r'\pL',
           '[a--b]', r'\q', r'\e', r'[\q]', '[a-z-[]', '[[a]]', 'a{1}{2}', 'a|*', '(*)', r'[^]', ']', 'a]', r'\P{IsNoSuchBlock}', r'\b', r'\A', r'\Z',
           r'[a-\d]', '{1}', 'a{x}', r'\1', r'(a)\2', 'a|{2}', '(+a)', '(a)|?', r'[a\e]', r'[^\q]', r'[a-z-[\q]]', r'\0', 'a{3,2}?', r'(a)\3',
           r'(a)(b)\3', 'a{2,1}b', r'\y', r'[\y]']
VALID = ['', 'a|', '|a', '()', 'a{0}', 'a{2,}', '[-a]', '[a-]', r'[\-]', '[a-z-[aeiou]]', r'\p{IsGreek}', r'[^\d\s]', 'a{1,2}?', 'a*?', 'a+?', 'a??', '(a)|b', r'[\^a]',
         r'\.', r'\\', r'\|', '^a$', r'(a)\1', '(?:a)+', r'[\$]', r'\$', r'(a)(b)\2\1', 'a{0,0}', '(|a)', 'a||b', 'a{2,2}', r'[\\\$]', r'[\p{L}-[\p{Lu}]]', '.', r'\n', r'\t', '[+]', '[*?]', r'\-', 'a-b']


def run(chk):
    import sys
    sys.path.insert(0, core.VERIF + '/harness')
    import gen_c12
    from elementpath import select, ElementPathError
    from elementpath.xpath31 import XPath31Parser
    from elementpath.regex import translate_pattern, RegexError, CharacterClass
    rng = chk.rng
    quick = chk.tier == 'quick'
    chk.trusted += ['C12/Regex.v lang is the XSD semantics of regular expressions (sets of strings); Python re is the trusted external: what a '
                    'translated pattern matches is observed, only the character class algebra (and C13 subsets) is a model of code',
                    'Gen/C12Sets.v: \\d \\w \\s \\p{..} from the interpreter unicodedata (XSD defines them by general category); \\i \\c '
                    'dumped from the implementation (T-data, modelled not verified)',
                    'harness rendering of abstract expressions to pattern text and to the Coq term',
                    'PARTIAL: back-references, lazy quantifiers, flags i and m are not in the regular model']
    for f in ('elementpath/regex/patterns.py', 'elementpath/regex/character_classes.py', 'elementpath/regex/codepoints.py',
              'elementpath/regex/unicode_subsets.py', 'elementpath/xpath2/_xpath2_functions.py', 'elementpath/xpath30/_xpath30_functions.py'):
        chk.record_source(f)
    chk.forbidden_scan(['C12'])
    import sys as _sys
    _sys.path.insert(0, core.VERIF + '/harness')
    import gen_c12
    gen_c12.generate()          # T-data / source-shape facts regenerated from /repo on every run
    chk.trusted.append('harness/shape.py: AST lookup of the statements mirrored by the hand model (Gen/C12Shape.v)')
    proved = chk.prove(['theories/Gen/C12Shape.v', 'theories/C12/Regex.v', 'theories/C12/Classes.v', 'theories/C12/Model.v', 'theories/C12/Proofs.v', 'theories/C12/Run.v'],
                       'theories/C12/Properties.v')
    model_ok = True
    if not proved:
        try:
            core.coq_make(['theories/C12/Model.v', 'theories/C12/Run.v'])
        except core.CoqError as e:
            chk.notes.append('model does not build: ' + str(e))
            model_ok = False
    sets = gen_c12.sets()
    g = Gen(rng, sets)

    # ---------------- 1. character classes: membership per code point
    classes = [g.cls() for _ in range(30 if quick else 500)]
    classes += [('cls', True, [('ch', 0x61), ('esc', r'\D')], None), ('cls', False, [('esc', r'\D'), ('esc', r'\S')], None),
                ('cls', False, [('ch', 0x61), ('esc', r'\S')], ('cls', False, [('esc', r'\D')], None)),
                ('cls', False, [('ch', 0x20), ('esc', r'\S')], ('cls', False, [('esc', r'\D'), ('ch', 0x61)], None)),
                ('cls', True, [('esc', r'\S'), ('esc', r'\d')], None), ('cls', False, [('esc', r'\P{L}'), ('esc', r'\P{N}')], None),
                ('cls', True, [('esc', r'\P{L}'), ('ch', 0x61)], None), ('cls', False, [('esc', r'\W'), ('esc', r'\D')], None),
                ('cls', False, [('esc', r'\d'), ('esc', r'\D')], None), ('cls', True, [('esc', r'\d'), ('esc', r'\D')], None),
                ('cls', False, [('ch', 0x2d), ('esc', r'\w')], None), ('cls', False, [('ch', 0x2d), ('esc', r'\d'), ('rg', 0x5a, 0x62)], None),
                ('cls', True, [('ch', 0x61), ('ch', 0x2d), ('esc', r'\S')], None), ('cls', False, [('ch', 0x5e), ('esc', r'\p{L}')], None),
                ('cls', False, [('ch', 0x2e), ('esc', r'\D')], ('cls', False, [('ch', 0x2d), ('esc', r'\s')], None)),
                ('cls', False, [('ch', 0x24)], None), ('cls', False, [('ch', 0x61), ('ch', 0x24), ('ch', 0x62)], None),
                ('cls', True, [('ch', 0x24), ('esc', r'\d')], None), ('cls', False, [('ch', 0x5c), ('ch', 0x24)], None)]
    # systematic small classes: every base of <= 2 parts over {5, a, \d, \D, \S}, negated or not, with every subtrahend
    import itertools
    atoms = [('ch', 0x35), ('ch', 0x61), ('esc', r'\d'), ('esc', r'\D'), ('esc', r'\S')]
    subs = [None, ('cls', False, [('ch', 0x35)], None), ('cls', False, [('esc', r'\D')], None), ('cls', False, [('ch', 0x61), ('esc', r'\S')], None),
            ('cls', True, [('ch', 0x35)], None), ('cls', False, [('ch', 0x20), ('ch', 0x61)], None)]
    bases = [[a] for a in atoms] + [list(c) for c in itertools.combinations(atoms, 2)]
    for base in bases:
        for ng in (False, True):
            for sb in subs:
                classes.append(('cls', ng, base, sb))
    probe = ALPHA + [0x31, 0x42, 0x3c3, 0x2028, 0x10000, 0x0, 0x5c]
    terms = [f'run_cls {cls_coq(c)} {core.zlist(probe)}' for c in classes]
    model = core.run_coq_cases('C12', IMPORTS, terms, chunk=6, tag='cls') if model_ok else [None] * len(classes)
    for c, mo in zip(classes, model):
        text = cls_text(c)
        chk.count('class')
        desc = {'class': text}
        try:
            tr = translate_pattern(text, back_references=False, lazy_quantifiers=False, anchors=False)
            cre = re.compile(tr)
        except (RegexError, re.error) as ex:
            chk.violation('impl-vs-spec', desc, 'valid class rejected: ' + repr(ex)[:200])
            continue
        for k, cp in enumerate(probe):
            chk.evaluations += 1
            got = cre.search(chr(cp)) is not None
            if mo is None:
                continue
            okb, rows = mo
            sp, im, old = rows[k]
            if not okb:
                continue
            if int(got) != im:
                chk.corr_fail.append((desc | {'cp': hex(cp)}, got, im))
            if int(got) != sp:
                chk.violation('impl-vs-spec', desc | {'code point': hex(cp), 'translated': tr[:200]}, {'impl matches': got, 'XSD semantics': bool(sp), 'model': bool(im)})
        chk.nontrivial.add(text)

    # ---------------- 2. whole expressions
    cases = []
    for i in range(60 if quick else 700):
        e = g.rx(rng.choice([1, 2, 2]))
        mode = rng.choice(['xpath', 'xpath', 'xsd', 'fn', 'fn-x'])
        dotall = rng.random() < 0.3 and mode != 'xsd'
        a = rng.random() < 0.5
        z = rng.random() < 0.5
        if mode == 'xsd':
            a = z = True
        subjects = [g.sample(e) for _ in range(4)]
        for s in list(subjects[:2]):
            if s:
                t = list(s)
                t[rng.randrange(len(t))] = rng.choice(ALPHA)
                subjects.append(t)
        subjects += [[rng.choice(ALPHA) for _ in range(rng.randint(0, 4))] for _ in range(3)]
        subjects.append([])
        cases.append((e, mode, dotall, a, z, subjects))
    terms = []
    for e, mode, dotall, a, z, subjects in cases:
        b = lambda v: 'true' if v else 'false'
        terms.append(f'run {b(dotall)} {b(a)} {b(z)} {rx_coq(e)} [{"; ".join(core.zlist(s) for s in subjects)}]')
    model = core.run_coq_cases('C12', IMPORTS, terms, chunk=7, tag='rx') if model_ok else [None] * len(cases)
    for (e, mode, dotall, a, z, subjects), mo in zip(cases, model):
        verbose = mode == 'fn-x' and not has_space_char(e)
        text = rx_text(e, verbose, rng)
        if mode != 'xsd':
            if len(e[1]) > 1 and (a or z):
                text = '(' + text + ')'         # ^ and $ bind to a branch, not to the alternation
            text = ('^' if a else '') + text + ('$' if z else '')
        flags = ('s' if dotall else '') + ('x' if verbose else '')
        desc = {'pattern': text, 'mode': mode, 'flags': flags}
        chk.count('rx:' + mode)
        try:
            if mode == 'xsd':
                cre = re.compile(translate_pattern(text, back_references=False, lazy_quantifiers=False, anchors=False))
            elif mode == 'xpath':
                cre = re.compile(translate_pattern(text, flags=re.DOTALL if dotall else 0), re.DOTALL if dotall else 0)
            else:
                cre = None
        except (RegexError, re.error) as ex:
            chk.violation('impl-vs-spec', desc, 'valid pattern rejected: ' + repr(ex)[:200])
            continue
        for k, s in enumerate(subjects):
            chk.evaluations += 1
            subj = ''.join(map(chr, s))
            try:
                if cre is not None:
                    got = cre.search(subj) is not None
                else:
                    got = select(None, 'matches($s, $p, $f)', variables={'s': subj, 'p': text, 'f': flags}, parser=XPath31Parser, item=1)
            except ElementPathError as ex:
                chk.violation('impl-vs-spec', desc | {'subject': repr(subj)}, 'valid pattern rejected: ' + str(ex)[:200])
                break
            if mo is None:
                continue
            okb, rows = mo
            sp, im = rows[k]
            if not okb:
                continue
            if int(got) != im:
                chk.corr_fail.append((desc | {'subject': repr(subj)}, got, im))
            if int(got) != sp:
                if int(got) == im and toplevel_ws(e):
                    chk.known('C12-toplevel-w-s-escapes', desc | {'subject': ascii(subj), 'impl matches': got, 'XSD semantics': bool(sp)})
                else:
                    chk.violation('impl-vs-spec', desc | {'subject': repr(subj)}, {'impl matches': got, 'XSD semantics': bool(sp)})
        chk.nontrivial.add(text + '/' + mode + flags)
        if len(chk.samples) < 8:
            chk.sample({'pattern': text, 'mode': mode, 'subjects': [''.join(map(chr, s)) for s in subjects[:3]], 'model': mo[1][:3] if mo else None})

    # ---------------- 3. malformed / well-formed corpus
    for p in INVALID:
        chk.evaluations += 1
        chk.count('invalid-corpus')
        for kw in ({}, {'back_references': False, 'lazy_quantifiers': False, 'anchors': False}):
            if p in (r'\1', r'(a)\2') and kw:
                continue
            desc = {'pattern': p, 'options': kw}
            try:
                t = translate_pattern(p, **kw)
            except RegexError:
                continue
            except Exception as ex:
                chk.violation('foreign-exception', desc, repr(ex)[:200])
                continue
            try:
                re.compile(t)
                if p in ACCEPTED_INVALID:
                    chk.known('C12-invalid-escape-in-class-accepted', desc | {'translated': t[:60]})
                else:
                    chk.violation('impl-vs-spec', desc, 'invalid pattern accepted: ' + t[:200])
            except re.error as ex:
                if p in DELEGATED_INVALID:
                    chk.known('C12-invalid-pattern-left-to-re', desc | {'re.error': str(ex)})
                else:
                    chk.violation('impl-vs-spec', desc, 're.error from the translated text instead of RegexError: ' + str(ex))
        try:
            select(None, 'matches("a", $p)', variables={'p': p}, parser=XPath31Parser, item=1)
            if p not in ACCEPTED_INVALID:
                chk.violation('impl-vs-spec', {'pattern': p}, 'fn:matches accepts an invalid pattern')
        except ElementPathError as ex:
            if 'FORX0002' not in str(ex.code):
                chk.violation('impl-vs-spec', {'pattern': p}, 'fn:matches raises %s instead of FORX0002' % ex.code)
        except Exception as ex:
            chk.violation('foreign-exception', {'pattern': p, 'via': 'fn:matches'}, repr(ex)[:200])
    for p in VALID:
        chk.evaluations += 1
        chk.count('valid-corpus')
        try:
            re.compile(translate_pattern(p))
        except (RegexError, re.error) as ex:
            chk.violation('impl-vs-spec', {'pattern': p}, 'valid pattern rejected: ' + repr(ex)[:200])

    # ---------------- 4. multi-digit back-references (brute-force oracle)
    for groups in range(1, 13):
        for digits in ('1', '2', '10', '11', '12', '13', '20', '111', '9', '19'):
            first_valid = None
            for k in range(len(digits), 0, -1):
                if 1 <= int(digits[:k]) <= groups and digits[0] != '0':
                    first_valid = k
                    break
            pattern = '^' + ''.join('(a|b)' for _ in range(groups)) + '\\' + digits + '$'
            chk.evaluations += 1
            chk.count('backref')
            if first_valid is None:
                try:
                    translate_pattern(pattern)
                    select(None, 'matches("a", $p)', variables={'p': pattern}, parser=XPath31Parser, item=1)
                    chk.known('C12-invalid-pattern-accepted', {'pattern': pattern}) if 'backref' in KNOWN_ACCEPTED else \
                        chk.violation('impl-vs-spec', {'pattern': pattern}, 'back-reference to a group that does not exist is accepted')
                except (RegexError, ElementPathError):
                    pass
                continue
            ref, rest = int(digits[:first_valid]), digits[first_valid:]
            for _ in range(3):
                choice = [rng.choice('ab') for _ in range(groups)]
                good = ''.join(choice) + choice[ref - 1] + rest
                bad = ''.join(choice) + ('a' if choice[ref - 1] == 'b' else 'b') + rest
                for subj, want in ((good, True), (bad, False)):
                    try:
                        got = select(None, 'matches($s, $p)', variables={'s': subj, 'p': pattern}, parser=XPath31Parser, item=1)
                    except ElementPathError as ex:
                        got = 'error ' + str(ex.code)
                    if got != want:
                        chk.violation('impl-vs-spec', {'pattern': pattern, 'subject': subj}, {'impl': got, 'spec': want})
            chk.nontrivial.add(pattern)

    # ---------------- 5. matches / replace / tokenize / analyze-string consistency
    for i in range(40 if quick else 400):
        e = g.rx(rng.choice([1, 1, 2]))
        text = rx_text(e)
        subj = ''.join(map(chr, g.sample(e) + [rng.choice(ALPHA)] + g.sample(e) + [rng.choice(ALPHA) for _ in range(rng.randint(0, 2))]))
        subj = subj.replace('\r', 'r')
        chk.evaluations += 1
        # the four functions agree under every flag (the same translation, the same search)
        fl = rng.choice(['', '', '', 'i', 'm', 's', 'x', 'im', 'si', 'q'])
        if ('m' in fl or 's' in fl) and subj:
            k = rng.randrange(len(subj) + 1)
            subj = subj[:k] + '\n' + subj[k:]
        chk.count('consistency' + (' flags=' + fl if fl else ''))
        v = {'s': subj, 'p': text, 'f': fl}
        try:
            empty = select(None, 'matches("", $p, $f)', variables=v, parser=XPath31Parser, item=1)
            if empty:
                continue
            m = select(None, 'matches($s, $p, $f)', variables=v, parser=XPath31Parser, item=1)
            tok = select(None, 'tokenize($s, $p, $f)', variables=v, parser=XPath31Parser, item=1)
            rep = select(None, 'replace($s, $p, "$0", $f)' if fl != 'q' else '$s', variables=v, parser=XPath31Parser, item=1)
            res = select(None, 'analyze-string($s, $p, $f)', variables=v, parser=XPath31Parser, item=1)
            res = res[0] if isinstance(res, list) else res
            parts = []
            for child in res:       # (the string value of mixed content is C02's known finding: use itertext)
                parts += [child.tag.split('}')[1], ''.join(child.itertext())]
        except ElementPathError as ex:
            chk.violation('impl-vs-spec', {'pattern': text, 'subject': subj, 'flags': fl}, 'error ' + str(ex))
            continue
        kinds, texts = parts[0::2], parts[1::2]
        desc = {'pattern': text, 'subject': subj, 'flags': fl}
        if ''.join(texts) != subj:
            chk.violation('impl-vs-spec', desc, {'analyze-string parts': parts})
        if [t for k, t in zip(kinds, texts) if k == 'non-match'] != [t for t in tok if t != '']:
            chk.violation('impl-vs-spec', desc, {'tokenize': tok, 'analyze-string parts': parts})
        if rep != subj:
            chk.violation('impl-vs-spec', desc, {'replace($0)': rep})
        if m != ('match' in kinds):
            chk.violation('impl-vs-spec', desc, {'matches': m, 'analyze-string parts': parts})
        chk.nontrivial.add(text + '~' + subj)
    # ---------------- 5a. character classes under the i flag (C12/CaseClass.v): literals match their case variants, escapes do not
    case_class_section(chk, rng, quick)
    # ---------------- 5c. the q flag (a literal pattern: C12/Literal.v) and the x flag (only #x9 #xA #xD #x20 are removed)
    flag_q_x_section(chk, rng, quick, g)
    # ---------------- 5b. fn:replace replacement strings (F&O 5.6.4): $N is the longest group number that exists, a single digit beyond
    # the groups is the zero-length string, \\ and \$ are the escaped characters, anything else is FORX0004; with the q flag the
    # replacement (and a backslash in the input) is literal. Expected values written from the rule.
    RT = [("abracadabra", "bra", "*", '', "a*cada*"), ("abracadabra", "a(.)", "a$1$1", '', "abbraccaddabbra"), ("darted", "^(.*?)d(.*)$", "$1c$2", '', "carted"),
          ("abc", "b", "$", '', 'FORX0004'), ("abc", "b", "\\", '', 'FORX0004'), ("abc", "b", "\\$", '', "a$c"), ("abc", "b", "\\\\", '', "a\\c"), ("abc", "b", "$0", '', "abc"),
          ("abc", "(b)", "[$1]", '', "a[b]c"), ("abc", "(b)", "$2", '', "ac"), ("abc", "(b)", "$10", '', "ab0c"), ("abc", "b", "\\n", '', 'FORX0004'), ("abc", "b", "$a", '', 'FORX0004'),
          ("abc", "(a)(b)(c)", "$3$2$1", '', "cba"), ("abcdefghijk", "(a)(b)(c)(d)(e)(f)(g)(h)(i)(j)(k)", "$11-$1", '', "k-a"), ("abcdefghijk", "(a)(b)(c)(d)(e)(f)(g)(h)(i)(j)(k)", "$12", '', "a2"),
          ("abc", "(b)", "\\\\$1", '', "a\\bc"), ("abc", "(b)", "\\$1", '', "a$1c"), ("abc", "(b)", "$1\\$", '', "ab$c"), ("abc", "(b)|(x)", "[$2]", '', "a[]c"), ("abc", "(b)", "$01", '', "abc"),
          ("abc", "b", "x\\\\", '', "ax\\c"), ("a.b", ".", "$1", 'q', "a$1b"), ("a\\b", "\\", "/", 'q', "a/b"), ("a\\b", "\\", "\\\\", 'q', "a\\\\b"), ("abc", "(?:b)(c)", "$1$1", '', "acc"),
          ("abc", "B", "x", 'i', "axc"), ("AAAA", "A+?", "b", '', "bbbb"), ("abc", "x*", "y", '', 'FORX0003'), ("abc", "b", "x", 'z', 'FORX0001')]
    for subj, pat, rep_s, fl, want in RT:
        chk.evaluations += 1
        chk.count('replace-replacement-string')
        desc = {'input': subj, 'pattern': pat, 'replacement': rep_s, 'flags': fl}
        try:
            got = select(None, 'replace($s, $p, $r, $f)', variables={'s': subj, 'p': pat, 'r': rep_s, 'f': fl}, parser=XPath31Parser, item=1)
        except ElementPathError as ex:
            got = (ex.code or '').split(':')[-1]
        if got != want:
            chk.violation('impl-vs-spec', desc, {'impl': got, 'spec': want})
        chk.nontrivial.add('replace:' + repr((subj, pat, rep_s, fl)))
    chk.rule = ('seeded random class expressions (chars, ranges, positive / negated escapes, negation, nested subtraction) x 26 probe code '
                'points; seeded random expressions (depth <= 2) x {XPath mode with ^/$, XSD anchored mode, fn:matches with flags s / x} x '
                'subjects sampled from the expression, mutated and random; corpora of malformed and well-formed patterns; multi-digit '
                'back-references for 1-12 groups; consistency of matches / tokenize / replace / analyze-string; non-trivial = distinct pattern')
    chk.obligations.append({'name': 'correspondence:impl==model(classes, whole expressions)', 'ok': not chk.corr_fail,
                            'detail': f'{len(chk.corr_fail)} disagreements' + (': ' + repr(chk.corr_fail[0])[:500] if chk.corr_fail else '')})


ACCEPTED_INVALID = set()
DELEGATED_INVALID = set()
KNOWN_ACCEPTED = set()


def case_class_section(chk, rng, quick):
    import unicodedata
    from elementpath import select, ElementPathError
    from elementpath.xpath31 import XPath31Parser
    chk.prove(['theories/C12/CaseClass.v', 'theories/C12/CaseClassProofs.v', 'theories/C12/CaseRun.v'], 'theories/C12/CaseClassProperties.v')
    ALPHA = ['a', 'A', 'b', 'B', 'c', 'C', 'k', 'K', '\u212a', 's', 'S', '\u017f', '\u03c3', '\u03a3', '\u03c2', '\xe9', '\xc9', 'z', 'Z', '1', '_', ' ', '\xb5', '\u039c', '\u03bc']
    # the case variants of CPython's single character mappings (modelled external), over all code points
    by_l, by_u = {}, {}
    for cp in range(0x110000):
        ch = chr(cp)
        lo, up = ch.lower(), ch.upper()
        if lo != ch or up != ch:
            by_l.setdefault(lo, set()).add(cp)
            by_u.setdefault(up, set()).add(cp)

    def variants(ch):
        lo, up = ch.lower(), ch.upper()
        if lo == ch and up == ch:
            return []
        v = set(by_l.get(lo, ())) | set(by_u.get(up, ())) | {ord(x) for x in (lo, up) if len(x) == 1}
        v.discard(ord(ch))
        return sorted(v)
    probes = sorted({ord(c) for c in ALPHA} | {v for c in ALPHA for v in variants(c)})
    table = '[' + '; '.join(f"({ord(c)}, {core.zlist(variants(c))})" for c in map(chr, probes)) + ']'
    ESC = {'\\p{Lu}': lambda c: unicodedata.category(c) == 'Lu', '\\p{Ll}': lambda c: unicodedata.category(c) == 'Ll',
           '\\p{L}': lambda c: unicodedata.category(c)[0] == 'L', '\\d': lambda c: unicodedata.category(c) == 'Nd',
           '\\P{Lu}': lambda c: unicodedata.category(c) != 'Lu', '\\s': lambda c: c in ' \t\n\r'}

    def rand_group():
        lits, text = [], ''
        for _ in range(rng.randint(0, 3)):
            if rng.random() < 0.3:
                lo, hi = rng.choice([('a', 'c'), ('A', 'C'), ('r', 't'), ('\u03b1', '\u03c9'), ('J', 'L')])
                lits += list(range(ord(lo), ord(hi) + 1))
                text += f'{lo}-{hi}'
            else:
                c = rng.choice([x for x in ALPHA if x not in ' _'])
                lits.append(ord(c))
                text += c
        escapes = []
        for _ in range(rng.randint(0, 2) if lits else 1):
            e = rng.choice(list(ESC))
            escapes.append([p for p in probes if ESC[e](chr(p))])
            text += e
        neg = rng.random() < 0.3
        coq = f"Group {core.zlist(lits)} [{'; '.join(core.zlist(e) for e in escapes)}]"
        return ('^' if neg else '') + text, (f'Neg ({coq})' if neg else coq)

    cases = [('[\\p{Lu}]', 'Group [] [%s]' % core.zlist([p for p in probes if unicodedata.category(chr(p)) == 'Lu'])),
             ('[^\\p{Lu}]', 'Neg (Group [] [%s])' % core.zlist([p for p in probes if unicodedata.category(chr(p)) == 'Lu'])),
             ('[^K]', 'Neg (Group [75] [])'), ('[a-c-[B]]', 'Sub (Group [97; 98; 99] []) (Group [66] [])')]
    for _ in range(60 if quick else 2500):
        t, c = rand_group()
        if rng.random() < 0.35:
            t2, c2 = rand_group()
            t, c = f'{t}-[{t2}]', f'Sub ({c}) ({c2})'
        cases.append(('[' + t + ']', c))
    model = core.run_coq_cases('C12', 'From EP Require Import C12.CaseClass C12.CaseRun.', [f'run_case {table} ({c}) {core.zlist(probes)}' for _, c in cases],
                               chunk=200, tag='caseclass', preamble='Open Scope Z_scope.')
    for (text, c), mo in zip(cases, model):
        desc = {'pattern': text, 'flags': 'i'}
        try:
            # one translation per flag: the probes (distinct characters) that fn:replace removes are the ones the class matches
            allp = ''.join(chr(p) for p in probes)
            rest_i = select(None, 'replace($s, $p, "", "i")', variables={'s': allp, 'p': text}, parser=XPath31Parser, item=1)
            rest_p = select(None, 'replace($s, $p, "")', variables={'s': allp, 'p': text}, parser=XPath31Parser, item=1)
            got_i = [int(chr(p) not in rest_i) for p in probes]
            got_plain = [int(chr(p) not in rest_p) for p in probes]
            k0 = probes[len(probes) // 2]
            one = select(None, 'matches($s, $p, "i")', variables={'s': chr(k0), 'p': text}, parser=XPath31Parser, item=1)
            if int(bool(one)) != got_i[len(probes) // 2]:
                chk.violation('impl-vs-spec', desc | {'input': ascii(chr(k0))}, {'fn:matches': one, 'fn:replace removes it': bool(got_i[len(probes) // 2])})
        except ElementPathError as e:
            chk.violation('impl-vs-spec', desc, 'a well-formed class is rejected: ' + str(e)[:150])
            continue
        except Exception as e:
            chk.violation('foreign-exception', desc, repr(e)[:200])
            continue
        chk.evaluations += 2 * len(probes)
        chk.count('classes under the i flag')
        mi, ms, mp = [x[0] for x in mo], [x[1] for x in mo], [x[2] for x in mo]
        if got_i != mi:
            chk.corr_fail.append((desc, got_i, mi))
        if got_i != ms:
            k = next(j for j in range(len(probes)) if got_i[j] != ms[j])
            chk.violation('impl-vs-spec', desc | {'input': ascii(chr(probes[k]))}, {'matches with the i flag': bool(got_i[k]), 'F&O': bool(ms[k])})
        if got_plain != mp:
            k = next(j for j in range(len(probes)) if got_plain[j] != mp[j])
            chk.violation('impl-vs-spec', desc | {'input': ascii(chr(probes[k])), 'flags': ''}, {'matches': bool(got_plain[k]), 'model': bool(mp[k])})
        chk.nontrivial.add('caseclass:' + text)


def flag_q_x_section(chk, rng, quick, g):
    from elementpath import select, ElementPathError
    from elementpath.xpath31 import XPath31Parser
    chk.prove(['theories/C12/Regex.v', 'theories/C12/Literal.v'], 'theories/C12/LiteralProperties.v')
    QALPHA = list('ab.*+?|()[]{}\\^$- #&~:/') + ['\t', '\n', '\x0b', '\x0c', '\xe9', '\u3000']

    def ev(expr, **v):
        try:
            return select(None, expr, variables=v, parser=XPath31Parser, item=1)
        except ElementPathError as e:
            return 'error ' + (e.code or '').split(':')[-1]
    cases = [('a b', 'xa by'), ('#', 'a#b'), ('&', 'a&b'), ('~', '~'), ('.', 'axb'), ('.', 'a.b'), ('a b', 'ab'), ('\t', 'a\tb'), ('\\d[', 'x\\d['), ('$1', 'a$1')]
    for _ in range(60 if quick else 3000):
        pat = ''.join(rng.choice(QALPHA) for _ in range(rng.randint(1, 4)))
        subj = ''.join(rng.choice(QALPHA) for _ in range(rng.randint(0, 3)))
        if rng.random() < 0.6:
            subj = subj[:len(subj) // 2] + pat + subj[len(subj) // 2:]
        cases.append((pat, subj))
    for pat, subj in cases:
        for fl in ('q', 'qx', 'xq', 'qs', 'qm'):
            chk.evaluations += 1
            chk.count('flag q')
            desc = {'pattern': pat, 'subject': subj, 'flags': fl}
            # C12_literal_pattern: an occurrence of the literal pattern = the substring test
            want = pat in subj
            got = ev('matches($s, $p, $f)', s=subj, p=pat, f=fl)
            if got != want:
                chk.violation('impl-vs-spec', desc, {'fn:matches': got, 'substring test': want})
            rep = ev('replace($s, $p, "<$0>", $f)', s=subj, p=pat, f=fl)      # the replacement is literal with q
            if rep != subj.replace(pat, '<$0>'):
                chk.violation('impl-vs-spec', desc, {'fn:replace': rep, 'str.replace': subj.replace(pat, '<$0>')})
            tok = ev('tokenize($s, $p, $f)', s=subj, p=pat, f=fl)
            wtok = subj.split(pat) if subj else []
            if tok != wtok:
                chk.violation('impl-vs-spec', desc, {'fn:tokenize': tok, 'str.split': wtok})
        qi = ev('matches($s, $p, "qi")', s=subj.upper(), p=pat.lower())
        if qi != (pat.lower() in subj.upper().lower()) and subj.upper().lower() == subj.lower() and len(subj.upper()) == len(subj):
            chk.violation('impl-vs-spec', {'pattern': pat.lower(), 'subject': subj.upper(), 'flags': 'qi'}, {'fn:matches': qi})
        chk.nontrivial.add('q:' + pat + '~' + subj)
    # the x flag: white space (#x9 #xA #xD #x20) outside character classes is removed, nothing else: a pattern with white space
    # inserted between its pieces behaves as the pattern without it; '#', VT and FF are ordinary characters
    XC = [('a#b', 'a', False), ('a#b', 'a#b', True), ('a # b', 'a#b', True), ('a b', 'ab', True), ('a[ ]b', 'a b', True), ('a[ ]b', 'ab', False),
          ('a\x0bb', 'a\x0bb', True), ('a\x0bb', 'ab', False), ('a\tb\n', 'ab', True), ('[#]', '#', True), ('\\p{ L u }', 'A', True), ('a{ 2 }', 'aa', 'any')]
    for pat, subj, want in XC:
        chk.evaluations += 1
        chk.count('flag x')
        got = ev('matches($s, $p, "x")', s=subj, p=pat)
        if want != 'any' and got != want:
            chk.violation('impl-vs-spec', {'pattern': pat, 'subject': subj, 'flags': 'x'}, {'fn:matches': got, 'F&O': want})
        chk.nontrivial.add('x:' + pat + '~' + subj)
    # fn:tokenize with one argument = tokenize(normalize-space($s), ' '): the separators are #x9 #xA #xD #x20 and nothing else;
    # fn:contains-token($s, $t) = the trimmed $t is one of these tokens
    WSA = ['a', 'b', 'ab', ' ', '  ', '\t', '\n', '\r', '\x0c', '\x0b', '\xa0', '\u3000', '\u2003', '\x85']
    for _ in range(80 if quick else 3000):
        subj = ''.join(rng.choice(WSA) for _ in range(rng.randint(0, 6)))
        chk.evaluations += 1
        chk.count('tokenize/1 and contains-token')
        want = [t for t in re.split('[ \t\n\r]+', subj) if t]
        got = ev('tokenize($s)', s=subj)
        if got != want:
            chk.violation('impl-vs-spec', {'expr': 'tokenize($s)', 's': ascii(subj)}, {'impl': ascii(got), 'split at XML white space': ascii(want)})
        tok = rng.choice(want + ['a', 'b', '\x0c']) if rng.random() < 0.8 or not want else rng.choice(WSA)
        padded = rng.choice(['', ' ', '\t']) + tok + rng.choice(['', ' ', '\r\n'])
        wantc = tok.strip(' \t\n\r') in want
        gotc = ev('contains-token($s, $t)', s=subj, t=padded)
        if gotc != wantc:
            chk.violation('impl-vs-spec', {'expr': 'contains-token($s, $t)', 's': ascii(subj), 't': ascii(padded)}, {'impl': gotc, 'token of tokenize($s)': wantc})
        chk.nontrivial.add('tok1:' + subj + '~' + padded)
    for _ in range(40 if quick else 1500):
        e = g.rx(rng.choice([1, 1, 2]))
        text = rx_text(e)
        # safe insertion points: outside [...] and {...}, not after a backslash
        out, depth, brace, prev = [], 0, 0, ''
        for ch in text:
            if depth == 0 and brace == 0 and prev != '\\' and not (ch == '{' and out[-2:-1] == ['\\']) and rng.random() < 0.3:
                out.append(rng.choice([' ', '\t', '\n', '  ']))
            out.append(ch)
            if prev != '\\':
                depth += (ch == '[') - (ch == ']' and depth > 0)
                brace += (ch == '{') - (ch == '}' and brace > 0)
            prev = ch if not (prev == '\\' and ch == '\\') else ''
        spaced = ''.join(out)
        if any(c in text for c in ' \t\n\r'):
            continue        # the pattern itself has white space outside... its meaning changes with x
        subj = ''.join(map(chr, g.sample(e) + [rng.choice(ALPHA)] + g.sample(e))).replace('\r', 'r')
        chk.evaluations += 1
        chk.count('flag x: inserted white space')
        a = ev('matches($s, $p)', s=subj, p=text)
        b = ev('matches($s, $p, "x")', s=subj, p=spaced)
        if a != b:
            chk.violation('impl-vs-spec', {'pattern': text, 'with white space': spaced, 'subject': subj, 'flags': 'x'}, {'without x': a, 'with x': b})
        chk.nontrivial.add('xs:' + text + '~' + subj)


def replay(rec):
    print(rec)
    return 0
