"""C01 — path expressions select exactly the XDM nodes, once, in document order.

proof:  coq/theories/C01/{Model,Proofs,Properties}.v : XDM path semantics on the document-ordered node sequence
        (13 axes, node tests, positional/existence predicates, nested paths); proved: document order, no
        duplicates, step composition, canonicity of document order, proximity positions of reverse axes.
tie:    after the fix of '/' and '//' (results sorted by position) the implementation model IS the specification;
        correspondence: root_token.select(context) node identities vs sem on the same document and path, every node
        as context item, 4 parsers x {xml.etree, lxml}; libxml2 (lxml xpath()) as cross-check of the 1.0 subset.
PARTIAL: axes are an executable specification validated against the implementation exhaustively on small trees
        (no separate model of the context iterators); functions in predicates other than position()/last()/not() are
        outside the model.
"""
import itertools

import core
import trees
import gen_c01

IMPORTS = 'From EP Require Import C01.Model C01.Run.'
AXES = ['self', 'child', 'descendant', 'descendant-or-self', 'parent', 'ancestor', 'ancestor-or-self',
        'following-sibling', 'preceding-sibling', 'following', 'preceding', 'attribute', 'namespace']
COQ_AXIS = {'self': 'Self', 'child': 'Child', 'descendant': 'Descendant', 'descendant-or-self': 'DescendantOrSelf',
            'parent': 'Parent', 'ancestor': 'Ancestor', 'ancestor-or-self': 'AncestorOrSelf',
            'following-sibling': 'FollowingSibling', 'preceding-sibling': 'PrecedingSibling', 'following': 'Following',
            'preceding': 'Preceding', 'attribute': 'Attribute', 'namespace': 'Namespace'}
NAMES = ['a', 'b', 'x', 'y', 'k0', 'k1', 'k2', 'pi', 'alpha', 'xml']
CODE = {n: i + 1 for i, n in enumerate(NAMES)}


# ---- path ASTs: step = (axis, test, [pred]); test = ('name', n) | ('any',) | ('node',) | ('text',) | ('comment',) | ('pi',) | ('piname', n)
def test_str(t):
    return {'name': lambda: t[1], 'any': lambda: '*', 'node': lambda: 'node()', 'text': lambda: 'text()',
            'comment': lambda: 'comment()', 'pi': lambda: 'processing-instruction()',
            'piname': lambda: "processing-instruction('%s')" % t[1]}[t[0]]()


def pred_str(p):
    k = p[0]
    if k == 'pos':
        return '[%d]' % p[1]
    if k == 'last':
        return '[last()]'
    if k == 'le':
        return '[position() <= %d]' % p[1]
    if k == 'gt':
        return '[position() > %d]' % p[1]
    if k == 'has':
        return '[%s]' % steps_str(p[1])
    return '[not(%s)]' % steps_str(p[1])


def step_str(s, abbreviate):
    a, t, ps = s
    if abbreviate and a == 'child':
        base = test_str(t)
    elif abbreviate and a == 'attribute' and t[0] in ('name', 'any'):
        base = '@' + test_str(t)
    elif abbreviate and a == 'parent' and t == ('node',) and not ps:
        return '..'
    elif abbreviate and a == 'self' and t == ('node',) and not ps:
        return '.'
    else:
        base = a + '::' + test_str(t)
    return base + ''.join(pred_str(p) for p in ps)


def steps_str(steps, abbreviate=False):
    out = []
    i = 0
    while i < len(steps):
        s = steps[i]
        if abbreviate and s == ('descendant-or-self', ('node',), []) and 0 < i < len(steps) - 1:
            out.append('')          # a/descendant-or-self::node()/b  ->  a//b
        else:
            out.append(step_str(s, abbreviate))
        i += 1
    return '/'.join(out)


def test_coq(t):
    return {'name': lambda: f'TName {CODE[t[1]]}', 'any': lambda: 'TAny', 'node': lambda: 'TNode', 'text': lambda: 'TText',
            'comment': lambda: 'TComment', 'pi': lambda: 'TPI', 'piname': lambda: f'TPIName {CODE[t[1]]}'}[t[0]]()


def pred_coq(p):
    k = p[0]
    return {'pos': lambda: f'PPos {p[1]}', 'last': lambda: 'PLast', 'le': lambda: f'PPosLe {p[1]}', 'gt': lambda: f'PPosGt {p[1]}',
            'has': lambda: f'PHas {steps_coq(p[1])}', 'nothas': lambda: f'PNotHas {steps_coq(p[1])}'}[k]()


def steps_coq(steps):
    return '[' + '; '.join(f'Step {COQ_AXIS[a]} ({test_coq(t)}) [{"; ".join(pred_coq(p) for p in ps)}]' for a, t, ps in steps) + ']'


def random_test(rng, axis):
    if axis == 'attribute':
        return rng.choice([('name', 'k0'), ('name', 'k1'), ('any',), ('node',)])
    if axis == 'namespace':
        return rng.choice([('any',), ('node',), ('name', 'xml')])
    return rng.choice([('name', 'a'), ('name', 'b'), ('name', 'x'), ('name', 'y'), ('any',), ('any',), ('node',), ('node',),
                       ('text',), ('comment',), ('pi',), ('piname', 'pi'), ('piname', 'alpha')])


def random_steps(rng, n, depth=0):
    steps = []
    for _ in range(n):
        axis = rng.choice(AXES if rng.random() < 0.7 else ['child', 'descendant', 'following', 'preceding', 'ancestor', 'parent'])
        ps = []
        while rng.random() < (0.35 if depth == 0 else 0.15) and len(ps) < 2:
            k = rng.choice(['pos', 'pos', 'last', 'le', 'gt', 'has', 'nothas'])
            if k in ('pos', 'le', 'gt'):
                ps.append((k, rng.randint(1, 3)))
            elif k == 'last':
                ps.append((k,))
            elif depth < 1:
                ps.append((k, random_steps(rng, rng.randint(1, 2), depth + 1)))
        steps.append((axis, random_test(rng, axis), ps))
    return steps


# ---- documents
def doc_of(node_list):
    """node_list: XPathNode objects in iter() order -> [(kind, parent index, name code)]"""
    from elementpath import xpath_nodes as X
    index = {id(n): i for i, n in enumerate(node_list)}
    out = []
    for n in node_list:
        if isinstance(n, X.DocumentNode):
            k = 0
        elif isinstance(n, X.ElementNode):
            k = 1
        elif isinstance(n, X.NamespaceNode):
            k = 2
        elif isinstance(n, X.AttributeNode):
            k = 3
        elif isinstance(n, X.TextNode):
            k = 4
        elif isinstance(n, X.CommentNode):
            k = 5
        else:
            k = 6
        nm = n.name if isinstance(n.name, str) else None
        if nm is not None and '}' in nm:
            nm = nm.split('}')[1]
        out.append((k, index[id(n.parent)] if n.parent is not None else -1, CODE.get(nm, 0)))
    return out


def doc_coq(doc):
    return '[' + '; '.join(f'mknode {k} {core.zlit(p)} {c}' for k, p, c in doc) + ']'


def run(chk):
    import xml.etree.ElementTree as ET
    import lxml.etree as LE
    from elementpath import XPathContext, XPath1Parser, XPath2Parser, ElementPathError, get_node_tree
    from elementpath.xpath30 import XPath30Parser
    from elementpath.xpath31 import XPath31Parser
    rng = chk.rng
    quick = chk.tier == 'quick'
    chk.trusted += ['C01/Model.v is the XDM definition itself (read it: axis_nodes, matches, sem_step, sem); after the fix of the '
                    "'/' and '//' operators the implementation is claimed to compute exactly it - tied by correspondence only",
                    'libxml2 (lxml 6.1.3 xpath()) as an independent cross-check of the specification on the XPath 1.0 subset',
                    'harness/trees.py (abstract tree -> xml.etree / lxml), node identity through context.root.iter()']
    for f in ('elementpath/xpath_context.py', 'elementpath/xpath1/_xpath1_axes.py', 'elementpath/xpath1/_xpath1_operators.py',
              'elementpath/xpath_tokens/axes.py', 'elementpath/xpath1/_xpath1_functions.py', 'elementpath/xpath_selectors.py'):
        chk.record_source(f)
    chk.forbidden_scan(['C01'])
    gen_c01.generate()          # source-shape facts regenerated from /repo on every run
    chk.trusted.append('harness/shape.py: AST lookup of the statements mirrored by the hand model (Gen/C01Shape.v)')
    proved = chk.prove(['theories/Gen/C01Shape.v', 'theories/C01/Model.v', 'theories/C01/Proofs.v', 'theories/C01/Run.v'], 'theories/C01/Properties.v')
    model_ok = True
    if not proved:
        try:
            core.coq_make(['theories/C01/Model.v', 'theories/C01/Run.v'])
        except core.CoqError as e:
            chk.notes.append('model does not build: ' + str(e))
            model_ok = False
    parsers = {'10': XPath1Parser(), '20': XPath2Parser(), '30': XPath30Parser(), '31': XPath31Parser()}

    # ---- trees
    tlist = []
    for n in (1, 2, 3, 4):
        for s in trees.all_shapes(n, names=('x', 'y')):
            tlist.append(trees.from_shape(s))
    if quick:
        tlist = [t for k, t in enumerate(tlist) if k % 3 == 0 or trees.count_nodes(t) <= 3]
    small_count = len(tlist)
    for _ in range(25 if quick else 1500):
        t = trees.random_tree(rng, maxnodes=rng.choice([5, 9, 14]), names=('a', 'b', 'x', 'y'))
        t.tail = None
        tlist.append(t)
    nested = trees.T('e', 'a', children=[
        trees.T('e', 'x', attrs=[('k0', '1')], children=[trees.T('e', 'x', attrs=[('k0', '2')], children=[trees.T('e', 'y', attrs=[('k0', '3')])]),
                                                          trees.T('e', 'y', attrs=[('k0', '4')])]),
        trees.T('e', 'y', attrs=[('k0', '5')]), trees.T('e', 'x', attrs=[('k0', '6')], children=[trees.T('e', 'y', attrs=[('k0', '7')])])])
    tlist.append(nested)

    # ---- (tree, path) jobs
    jobs = []       # (tree index, start, steps, libs)
    for ti, t in enumerate(tlist):
        if ti < small_count:
            # exhaustive: every axis x a few tests, every node as context
            for a in AXES:
                for tst in ([('node',), ('any',)] if a not in ('attribute', 'namespace') else [('node',)]):
                    jobs.append((ti, 'ctx', [(a, tst, [])]))
                for n in (1, 2):
                    jobs.append((ti, 'ctx', [(a, ('node',), [('pos', n)])]))
            jobs.append((ti, 'root', [('descendant-or-self', ('node',), []), ('child', ('name', 'x'), []), ('following', ('name', 'y'), [])]))
            jobs.append((ti, 'root', [('descendant', ('name', 'y'), []), ('preceding', ('name', 'x'), [])]))
            jobs.append((ti, 'root', [('descendant', ('name', 'y'), []), ('parent', ('node',), [])]))
            jobs.append((ti, 'root', [('descendant', ('name', 'x'), []), ('descendant', ('name', 'y'), [])]))
        else:
            for _ in range(6 if quick else 12):
                jobs.append((ti, rng.choice(['ctx', 'ctx', 'root']), random_steps(rng, rng.randint(1, 4))))

    # fixed corpus on trees with attributes / text / comments / PIs: every axis from every node kind (attribute and
    # namespace contexts included), and two predicates on one step (positions of the second predicate on reverse axes)
    mixed = trees.T('e', 'b', attrs=[('k0', 'v')], text='uv', children=[
        trees.T('e', 'y', children=[trees.T('p', target='alpha', text='d'), trees.T('e', 'x', text='uv'), trees.T('c', text='k'),
                                    trees.T('e', 'b', text='1', tail='z1'), trees.T('e', 'b', text='t')]),
        trees.T('e', 'y', attrs=[('k0', 'v'), ('k1', '2')])])
    tlist.append(mixed)
    for ti in (len(tlist) - 2, len(tlist) - 1):
        for a in AXES:
            jobs.append((ti, 'ctx', [(a, ('node',), [])]))
            jobs.append((ti, 'ctx', [(a, ('node',), [('le', 3), ('pos', 1)])]))
            jobs.append((ti, 'ctx', [(a, ('node',), [('gt', 1), ('last',)])]))
            jobs.append((ti, 'ctx', [(a, ('node',), [('gt', 1), ('le', 2), ('pos', 1)])]))

    # documents with comments / PIs before and after the root element (lxml only: xml.etree cannot hold them): every axis
    # from every node, and random paths
    prepost = {}
    for k in range(4 if quick else 150):
        t = trees.random_tree(rng, maxnodes=rng.choice([3, 6, 9]), names=('a', 'b', 'x', 'y'))
        t.tail = None
        mk = lambda: rng.choice([trees.T('c', text='k'), trees.T('p', target=rng.choice(['pi', 'alpha']), text='d')])
        prepost[len(tlist)] = ([mk() for _ in range(rng.randint(0, 2))], [mk() for _ in range(rng.randint(1, 2))])
        tlist.append(t)
        for a in AXES:
            jobs.append((len(tlist) - 1, 'ctx', [(a, ('node',), [])]))
        for _ in range(4 if quick else 10):
            jobs.append((len(tlist) - 1, rng.choice(['ctx', 'ctx', 'root']), random_steps(rng, rng.randint(1, 3))))

    def ser(ti):
        pre, post = prepost.get(ti, ((), ()))
        return ''.join(trees.serialize(x) for x in pre) + trees.serialize(tlist[ti]) + ''.join(trees.serialize(x) for x in post)

    # ---- build documents once per (tree, lib)
    built = {}

    def get(ti, lib):
        key = (ti, lib)
        if key not in built:
            t = tlist[ti]
            if lib == 'et':
                root = ET.ElementTree(trees.to_et(t))
            else:
                root = trees.to_lxml(t, *prepost.get(ti, ((), ()))).getroottree()
            node = get_node_tree(root)
            nodes = list(node.iter())
            built[key] = (root, node, nodes, doc_of(nodes))
        return built[key]

    terms, meta = [], []
    for ji, (ti, start, steps) in enumerate(jobs):
        _, _, nodes, doc = get(ti, 'lxml' if ti in prepost else 'et')
        terms.append(f'run_all {doc_coq(doc)} {"FromRoot" if start == "root" else "FromContext"} {steps_coq(steps)}')
    model = core.run_coq_cases('C01', IMPORTS, terms, chunk=120, tag='paths') if model_ok else [None] * len(jobs)

    known_axes_region = 0
    lx_checked = lx_dis = 0
    for ji, (ti, start, steps) in enumerate(jobs):
        text_full = ('/' if start == 'root' else '') + steps_str(steps)
        text_abbr = ('/' if start == 'root' else '') + steps_str(steps, abbreviate=True)
        # a parenthesised sub-path followed by the remaining steps selects the same nodes: (a/b)/c = a/b/c
        text_paren = None
        if len(steps) >= 2:
            k = 1 + (ji % (len(steps) - 1))
            text_paren = '(' + ('/' if start == 'root' else '') + steps_str(steps[:k]) + ')/' + steps_str(steps[k:])
        for lib in (('lxml',) if ti in prepost else ('et', 'lxml')):
            root, node, nodes, doc = get(ti, lib)
            if lib == 'lxml' and ti not in prepost and doc != get(ti, 'et')[3]:
                chk.violation('impl-vs-spec', {'tree': repr(tlist[ti])[:400]}, 'xml.etree and lxml node sequences differ')
                continue
            index = {id(n): i for i, n in enumerate(nodes)}
            ctxs = range(len(nodes)) if start == 'ctx' else [0]
            if quick and ti >= small_count and start == 'ctx':
                ctxs = sorted(rng.sample(range(len(nodes)), min(len(nodes), 6)))
            base = None
            for v, parser in parsers.items():
                if quick and lib == 'lxml' and v in ('20', '30') and ji % 4:
                    continue
                texts = (text_full, text_abbr) if (ji % 5 == 0 and text_abbr != text_full) else (text_full,)
                if text_paren is not None and ji % 3 == 0:
                    texts = texts + (text_paren,)
                for text in texts:
                    try:
                        tok = parser.parse(text)
                    except ElementPathError as e:
                        chk.violation('impl-vs-spec', {'path': text, 'version': v}, 'parse error ' + str(e.code))
                        continue
                    for ci in ctxs:
                        chk.evaluations += 1
                        desc = {'lib': lib, 'version': v, 'path': text, 'context_index': ci, 'tree': ser(ti)[:500]}
                        try:
                            res = [index.get(id(x), -7) for x in tok.select(XPathContext(node, item=nodes[ci]))]
                        except ElementPathError as e:
                            res = ['err', str(e.code)]
                        except Exception as e:
                            chk.violation('foreign-exception', desc, repr(e))
                            continue
                        if model[ji] is None:
                            continue
                        mo, want = (list(x) for x in model[ji][ci])
                        if res != mo:
                            chk.corr_fail.append((desc, res, mo))
                        if res != want:
                            if res == mo and 'following::' in text:
                                # the deviation the faithful model predicts: following:: from an attribute or namespace
                                # node somewhere in the path
                                chk.known('C01-following-from-attribute-or-namespace', desc | {'impl': res, 'spec': want})
                            else:
                                chk.violation('impl-vs-spec', desc, {'impl': res, 'spec': want, 'model': mo})
                        if want and len(steps) >= 1:
                            chk.nontrivial.add((ti, text_full, ci))
            # libxml2 cross-check of the specification (XPath 1.0 subset; element / text / comment / PI results)
            if lib == 'lxml' and model[ji] is not None and all(a != 'namespace' for a, _, _ in steps) and ji % 2 == 0 \
                    and not (('attribute::' in text_full or '@' in text_full) and ('following::' in text_full or 'preceding::' in text_full)):
                # (libxml2's following:: / preceding:: from an attribute node start from the owner element and so omit the
                #  owner's descendants / include nothing of them — a documented libxml2 deviation from XPath 1.0 §2.2; skipped)
                lnodes = {}
                for k, n in enumerate(nodes):
                    if doc[k][0] in (1, 5, 6):
                        lnodes[k] = n.value
                for ci in (ctxs if start == 'ctx' else [0]):
                    if start == 'ctx' and doc[ci][0] != 1:
                        continue
                    want = list(model[ji][ci][1])
                    if any(doc[w][0] not in (1, 5, 6) for w in want):
                        continue
                    try:
                        lres = lnodes[ci].xpath(text_full) if start == 'ctx' else root.xpath(text_full)
                    except Exception:
                        continue
                    rev = {id(v): k for k, v in lnodes.items()}
                    got = [rev.get(id(x), -7) for x in lres]
                    lx_checked += 1
                    if got != want:
                        lx_dis += 1
                        if len(chk.notes) < 8:
                            chk.notes.append(f'spec/libxml2 disagreement: {text_full} ctx={ci} libxml2={got} spec={want} tree={trees.serialize(tlist[ti])[:200]}')
        if ji % 97 == 0 and model[ji] is not None:
            chk.sample({'tree': trees.serialize(tlist[ti])[:200], 'path': text_full, 'start': start, '(model,spec) per context': model[ji][:4]})
    # ---- root kinds and the public API: fragment roots (an element as the root of its tree, no document node) against the model on
    #      the fragment's node list; element roots and select() / iter_select() against the document-rooted results
    from elementpath import select as api_select, iter_select as api_iter_select
    sel = [ji for ji, (ti, start, steps) in enumerate(jobs) if ti not in prepost and ji % (9 if quick else 2) == 0]
    fbuilt = {}

    def fget(ti):
        if ti not in fbuilt:
            elem = get(ti, 'et')[0].getroot()
            nodeF = get_node_tree(elem, fragment=True)
            nodesF = list(nodeF.iter())
            fbuilt[ti] = (elem, nodeF, nodesF, doc_of(nodesF))
        return fbuilt[ti]
    fterms = [f'run_all {doc_coq(fget(jobs[ji][0])[3])} {"FromRoot" if jobs[ji][1] == "root" else "FromContext"} {steps_coq(jobs[ji][2])}' for ji in sel]
    fmodel = core.run_coq_cases('C01', IMPORTS, fterms, chunk=120, tag='fragments') if model_ok else [None] * len(sel)
    for ji, fm in zip(sel, fmodel):
        ti, start, steps = jobs[ji]
        text = ('/' if start == 'root' else '') + steps_str(steps)
        elem, nodeF, nodesF, docF = fget(ti)
        indexF = {id(n): i for i, n in enumerate(nodesF)}
        root, node, nodes, doc = get(ti, 'et')
        for v in ('10', '31'):
            try:
                tok = parsers[v].parse(text)
            except ElementPathError:
                continue
            # (a) fragment root: every node of the fragment as context item
            if fm is not None:
                for ci in (range(len(nodesF)) if start == 'ctx' else [0]):
                    chk.evaluations += 1
                    chk.count('fragment root')
                    desc = {'root': 'fragment (element, fragment=True)', 'version': v, 'path': text, 'context_index': ci, 'tree': ser(ti)[:500]}
                    try:
                        res = [indexF.get(id(x), -7) for x in tok.select(XPathContext(nodeF, item=nodesF[ci], fragment=True))]
                    except ElementPathError as e:
                        res = ['err', str(e.code)]
                    except Exception as e:
                        chk.violation('foreign-exception', desc, repr(e))
                        continue
                    mo, want = (list(x) for x in fm[ci])
                    if res != mo:
                        chk.corr_fail.append((desc, res, mo))
                    if res != want:
                        if res == mo and 'following::' in text:
                            chk.known('C01-following-from-attribute-or-namespace', desc | {'impl': res, 'spec': want})
                        else:
                            chk.violation('impl-vs-spec', desc, {'impl': res, 'spec': want, 'model': mo})
                    if want:
                        chk.nontrivial.add(('fragment', ti, text, ci))
            # (b) the public API on the document: select() = the model result for the document node as context (elements and the
            #     document by identity, the other kinds by count), iter_select() = select()
            if model[ji] is not None:
                chk.evaluations += 1
                chk.count('select() / iter_select() on a document root')
                desc = {'root': 'document', 'version': v, 'path': text, 'tree': ser(ti)[:500]}
                try:
                    r1 = api_select(root, text, parser=type(parsers[v]))
                    r2 = list(api_iter_select(root, text, parser=type(parsers[v])))
                    want = list(model[ji][0][1])
                    objs = [nodes[w].value for w in want if doc[w][0] in (0, 1, 5, 6)]
                    got_objs = [x for x in r1 if hasattr(x, 'tag') or hasattr(x, 'getroot')]
                    same = len(r1) == len(want) and len(objs) == len(got_objs) and all(a is b for a, b in zip(objs, got_objs))
                    if not same and not ('following::' in text):
                        chk.violation('impl-vs-spec', desc, {'select()': repr(r1)[:300], 'model (node indices)': want})
                    if len(r1) != len(r2) or any(a is not b and a != b for a, b in zip(r1, r2)):
                        chk.violation('impl-vs-spec', desc, {'select()': repr(r1)[:300], 'iter_select()': repr(r2)[:300]})
                    # (c) element root (no fragment flag): as the document with the root element as context item, the document node
                    #     itself never selected
                    # (only for paths that do not walk through the document node: the dummy document of an element root is not
                    #  a node that later steps can start from)
                    through_doc = any(a in ('ancestor', 'ancestor-or-self', 'parent') for st in steps for pr in st[2]
                                      if pr[0] in ('has', 'nothas') for a, _, _ in pr[1])
                    for k in range(1, len(steps) + 1):      # predicates stripped: the document node must not even be a candidate
                        pre = api_select(root, ('/' if start == 'root' else '') + steps_str([(a, t, []) for a, t, _ in steps[:k]]),
                                         parser=type(parsers[v]), item=elem)
                        through_doc = through_doc or any(hasattr(x, 'getroot') for x in pre)
                    if through_doc:
                        continue
                    e1 = api_select(elem, text, parser=type(parsers[v]))
                    e2 = list(api_iter_select(elem, text, parser=type(parsers[v])))
                    d1 = [x for x in api_select(root, text, parser=type(parsers[v]), item=elem) if not hasattr(x, 'getroot')]
                    if len(e1) != len(d1) or any(a is not b and a != b for a, b in zip(e1, d1)):
                        chk.violation('impl-vs-spec', desc | {'root': 'element'}, {'select(element root)': repr(e1)[:300],
                                                                                   'select(document, item=root element) without the document node': repr(d1)[:300]})
                    if len(e1) != len(e2) or any(a is not b and a != b for a, b in zip(e1, e2)):
                        chk.violation('impl-vs-spec', desc | {'root': 'element'}, {'select()': repr(e1)[:300], 'iter_select()': repr(e2)[:300]})
                except ElementPathError as e:
                    chk.violation('impl-vs-spec', desc, 'error ' + str(e.code))
                except Exception as e:
                    chk.violation('foreign-exception', desc, repr(e))
    # fixed corpus for the element roots: an explicit child:: step after the leading '/' is the abbreviated step
    for ti in [t for t in range(len(tlist)) if t not in prepost][:: max(1, len(tlist) // (60 if quick else 600))]:
        root = get(ti, 'et')[0]
        elem = root.getroot()
        for v in ('10', '31'):
            for full, abbr in (('/child::*', '/*'), ('/child::node()', '/node()'), ('/child::*/child::*', '/*/*'), ('/child::*/child::node()', '/*/node()'),
                               ('/child::*/attribute::*', '/*/@*'), ('/child::%s' % elem.tag, '/%s' % elem.tag), ('/child::*/descendant::*', '/*/descendant::*')):
                chk.evaluations += 1
                chk.count('element root: explicit child step')
                desc = {'root': 'element', 'version': v, 'path': full, 'tree': ser(ti)[:500]}
                try:
                    x, y, z = (api_select(r_, p_, parser=type(parsers[v])) for r_, p_ in ((elem, full), (elem, abbr), (root, full)))
                    if len(x) != len(y) or len(x) != len(z) or any(a is not b and a != b for a, b in zip(x, y)) or any(a is not b and a != b for a, b in zip(x, z)):
                        chk.violation('impl-vs-spec', desc, {full + ' on the element root': repr(x)[:200], abbr + ' on the element root': repr(y)[:200],
                                                             full + ' on the document': repr(z)[:200]})
                except Exception as e:
                    chk.violation('foreign-exception' if not isinstance(e, ElementPathError) else 'impl-vs-spec', desc, repr(e)[:200])
                chk.nontrivial.add(('elemroot', ti, full))
    chk.distribution['libxml2 cross-checks'] = lx_checked
    chk.distribution['libxml2 vs spec disagreements'] = lx_dis
    chk.distribution['trees'] = len(tlist)
    chk.distribution['paths'] = len(jobs)
    if lx_dis:
        chk.obligations.append({'name': 'specification-agrees-with-libxml2', 'ok': False, 'detail': '; '.join(chk.notes[:3])})
    chk.nontrivial = {repr(x) for x in chk.nontrivial}
    chk.obligations.append({'name': 'correspondence:impl==model(node identities in order)', 'ok': not chk.corr_fail,
                            'detail': f'{len(chk.corr_fail)} disagreements' + (': ' + repr(chk.corr_fail[0])[:500] if chk.corr_fail else '')})
    if chk.corr_fail and not any(not v['no_failing_input'] for v in chk.violations):
        d0, got, mo = chk.corr_fail[0]
        chk.violation('correspondence-broken', d0, {'impl': got, 'model': mo}, no_input=True)
    chk.rule = ('exhaustive: element-only trees <= 4 nodes over {x,y} x 13 axes x tests x [n] x every node (incl. namespace nodes) '
                'as context; seeded random trees (attributes, text/tails, comments, PIs) x random paths of 1-4 steps with 0-2 '
                'predicates (positions, last(), nested relative paths, not()); 4 parsers x {xml.etree, lxml}, explicit and '
                'abbreviated syntax; non-trivial = non-empty specification result, distinct by (tree, path, context)')


def replay(rec):
    print(rec)
    return 0
