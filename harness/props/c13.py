"""C13 — UnicodeSubset set algebra and Unicode tables.

proof:  coq/theories/C13/{Model,Proofs,Checkers,Tables,Properties}.v (+ Gen/C13Tables.v regenerated here)
tie:    hand model of add/discard/|=/-=/&=/^=/complement/update/iter_code_points, run on the same
        operation sequences as elementpath.regex.UnicodeSubset (lists compared literally);
        tables regenerated from the loaded modules and re-proved.
"""
import itertools
import sys

import core
import gen_c13

IMPORTS = 'From EP Require Import C13.Model C13.Run.'


def item_lit(v):
    return f'Single {v}' if isinstance(v, int) else f'Range {v[0]} {v[1]}'


def items_lit(vs):
    return '[' + '; '.join(item_lit(v) for v in vs) + ']'


def op_lit(o):
    k, a = o
    if k in ('add', 'discard'):
        return ('OAdd ' if k == 'add' else 'ODiscard ') + '(' + item_lit(a) + ')'
    return {'ior': 'OIor', 'isub': 'OIsub', 'iand': 'OIand', 'ixor': 'OIxor'}[k] + ' ' + items_lit(a)


def enc(cps):
    return [[c] if isinstance(c, int) else [c[0], c[1]] for c in cps]


def canonical(cps):
    """Spec: the canonical list of the set denoted by a sorted list."""
    out = []
    for c in cps:
        lo, hi = (c, c + 1) if isinstance(c, int) else c
        if out and lo <= out[-1][1]:
            out[-1][1] = max(out[-1][1], hi)
        else:
            out.append([lo, hi])
    return [[a] if b == a + 1 else [a, b] for a, b in out]


def wf_lists(n):
    """all sorted, non-overlapping item lists over universe 0..n-1 (Single / Range representations)"""
    def rec(start):
        yield []
        for a in range(start, n):
            yield from ([a] + r for r in rec(a + 1))
            for b in range(a + 1, n + 1):
                for r in rec(b):
                    yield [(a, b)] + r
    return list(rec(0))


def all_items(n):
    return list(range(n)) + [(a, b) for a in range(n) for b in range(a + 1, n + 1)]


def impl_ops(start, ops):
    from elementpath.regex import UnicodeSubset
    s = UnicodeSubset()
    s._codepoints = list(start)
    for k, a in ops:
        if k == 'add':
            s.add(a)
        elif k == 'discard':
            s.discard(a)
        else:
            o = UnicodeSubset()
            o._codepoints = list(a)
            if k == 'ior':
                s |= o
            elif k == 'isub':
                s -= o
            elif k == 'iand':
                s &= o
            elif k == 'ixor':
                s ^= o
    return s


def random_wf(rng, universe, maxitems):
    pts = sorted(rng.sample(range(universe + 1), min(universe + 1, 2 * rng.randint(0, maxitems))))
    out = []
    for i in range(0, len(pts) - 1, 2):
        a, b = pts[i], pts[i + 1]
        if b == a + 1 and rng.random() < 0.7:
            out.append(a)
        else:
            out.append((a, b))
    return out


def random_item(rng, universe):
    if rng.random() < 0.4:
        return rng.randrange(universe)
    a = rng.randrange(universe)
    return (a, rng.randint(a + 1, min(universe, a + 1 + rng.choice([0, 1, 2, 5, universe]))))


def run(chk):
    rng = chk.rng
    quick = chk.tier == 'quick'
    chk.trusted += ['harness/gen_c13.py (table dump from the loaded elementpath.regex modules and from unicodedata; '
                    'the unicodedata dump is the reference, not verified)',
                    'modelled not verified: Python list.insert/del/sorted semantics as mirrored in C13/Model.v']
    for f in ('elementpath/regex/unicode_subsets.py', 'elementpath/regex/codepoints.py',
              'elementpath/regex/unicode_categories.py', 'elementpath/regex/unicode_blocks.py'):
        chk.record_source(f)
    # 1. translate (T-data) and prove
    cats, ref, blocks = gen_c13.generate()
    chk.forbidden_scan(['C13', 'Gen'])
    proved = chk.prove(['theories/Gen/C13Shape.v', 'theories/C13/Model.v', 'theories/C13/Proofs.v', 'theories/C13/Checkers.v',
                        'theories/Gen/C13Tables.v', 'theories/C13/Tables.v', 'theories/C13/Run.v'],
                       'theories/C13/Properties.v')
    if not proved:
        # model files without the regenerated tables must still run for the correspondence / search
        try:
            core.coq_make(['theories/C13/Model.v', 'theories/C13/Run.v'])
        except core.CoqError as e:
            chk.notes.append('model does not build: ' + str(e))
            return
        search_tables(chk, cats, ref, blocks)

    # 2. cases
    cases = []           # (kind, payload)
    n = 4 if quick else 5
    lists = wf_lists(n)
    items = all_items(n)
    for s in lists:
        for v in items:
            cases.append(('ops', (s, [('add', v)], list(range(n + 1)))))
            cases.append(('ops', (s, [('discard', v)], list(range(n + 1)))))
    chk.notes.append(f'exhaustive: all {len(lists)} well-formed lists over universe 0..{n-1} x all {len(items)} add/discard arguments')
    nrand = 600 if quick else 20000
    for _ in range(nrand):
        big = rng.random() < 0.15
        U = 0x110000 if big else rng.choice([8, 12, 40])
        s = random_wf(rng, U if not big else 3000, rng.randint(0, 5))
        ops = []
        for _ in range(rng.randint(1, 8 if quick else 30)):
            k = rng.choice(['add', 'add', 'discard', 'discard', 'ior', 'isub', 'iand', 'ixor'])
            if k in ('add', 'discard'):
                ops.append((k, random_item(rng, U if not big else 3000)))
            else:
                ops.append((k, random_wf(rng, U if not big else 300, rng.randint(0, 4))))
        probes = list(range(U + 1)) if U <= 40 else sorted(rng.sample(range(0, 3100), 40))
        cases.append(('ops', (s, ops, probes)))
    for _ in range(200 if quick else 5000):
        U = rng.choice([8, 12, 40, 1000])
        o = [random_item(rng, U) for _ in range(rng.randint(0, 6))]
        s = random_wf(rng, U, rng.randint(0, 4))
        cases.append((rng.choice(['update', 'diffupdate']), (s, o)))
        cases.append(('icp', (o, rng.random() < 0.5)))
        cases.append(('complement', (random_wf(rng, rng.choice([8, 40, 0x110000]), rng.randint(0, 5)),)))
    for s in wf_lists(3):
        cases.append(('complement', (s,)))
    # boundary of the code-point range
    for s in ([(0, 0x110000)], [0x10FFFF], [(0x10FFFE, 0x110000)], [(0, 0x10FFFF)], [0, 0x10FFFF], [(2, 0x10FFFE)]):
        cases.append(('complement', (s,)))

    terms = []
    for kind, p in cases:
        if kind == 'ops':
            s, ops, probes = p
            terms.append(None)
        elif kind == 'update':
            terms.append(None)
    # evaluate the model per kind (each kind has its own result type)
    by_kind = {}
    for idx, (kind, p) in enumerate(cases):
        by_kind.setdefault(kind, []).append(idx)
    model = {}
    for kind, idxs in by_kind.items():
        ts = []
        for i in idxs:
            p = cases[i][1]
            if kind == 'ops':
                ts.append(f'run_ops {items_lit(p[0])} [{"; ".join(op_lit(o) for o in p[1])}] {core.zlist(p[2])}')
            elif kind == 'update':
                ts.append(f'run_update {items_lit(p[0])} {items_lit(p[1])}')
            elif kind == 'diffupdate':
                ts.append(f'run_diffupdate {items_lit(p[0])} {items_lit(p[1])}')
            elif kind == 'icp':
                ts.append(f'run_icp {items_lit(p[0])} {"true" if p[1] else "false"}')
            elif kind == 'complement':
                ts.append(f'run_complement {items_lit(p[0])}')
        vals = core.run_coq_cases('C13', IMPORTS, ts, chunk=400, tag=kind)
        for i, v in zip(idxs, vals):
            model[i] = v

    # 3. implementation + comparison
    from elementpath.regex import UnicodeSubset
    from elementpath.regex.codepoints import iter_code_points
    seen = set()
    for idx, (kind, p) in enumerate(cases):
        chk.evaluations += 1
        chk.count(kind)
        key = repr((kind, p))
        try:
            if kind == 'ops':
                s, ops, probes = p
                sub = impl_ops(s, ops)
                got = enc(sub.codepoints)
                mlist, mbits, sbits = model[idx]
                mlist = [list(x) for x in mlist]
                ibits = [int(x in sub) for x in probes]
                for k, _ in ops:
                    chk.count('op:' + k)
                if got != mlist:
                    chk.corr_fail.append((kind, p, got, mlist))
                if ibits != list(sbits):
                    chk.violation('impl-vs-spec', {'kind': kind, 'start': s, 'ops': ops, 'probes': probes},
                                  {'impl_list': got, 'impl_membership': ibits, 'spec_membership': list(sbits)})
                elif got != canonical(sub.codepoints):
                    if got == mlist:
                        chk.known('C13-add-not-merged', {'start': s, 'ops': ops, 'impl': got, 'canonical': canonical(sub.codepoints)})
                    else:
                        chk.violation('impl-not-canonical-and-not-model', {'kind': kind, 'start': s, 'ops': ops},
                                      {'impl_list': got, 'model_list': mlist})
                if got != enc(s) and key not in seen:
                    chk.nontrivial.add(key)
            elif kind in ('update', 'diffupdate'):
                s, o = p
                sub = UnicodeSubset(); sub._codepoints = list(s)
                (sub.update if kind == 'update' else sub.difference_update)(list(o))
                got = enc(sub.codepoints)
                mlist = [list(x) for x in model[idx]]
                want = set(UnicodeSubset_points(s))
                arg = set(UnicodeSubset_points(o))
                want = want | arg if kind == 'update' else want - arg
                if got != mlist:
                    chk.corr_fail.append((kind, p, got, mlist))
                if set(sub) != want:
                    chk.violation('impl-vs-spec', {'kind': kind, 'start': s, 'arg': o}, {'impl_list': got, 'spec_set': sorted(want)})
                elif got != canonical(sub.codepoints) and got == mlist:
                    chk.known('C13-add-not-merged', {'start': s, kind: o, 'impl': got})
                if o:
                    chk.nontrivial.add(key)
            elif kind == 'icp':
                o, rev = p
                got = enc(list(iter_code_points(list(o), reverse=rev)))
                mlist = [list(x) for x in model[idx]]
                if got != mlist:
                    chk.corr_fail.append((kind, p, got, mlist))
                if set(UnicodeSubset_points(dec(got))) != set(UnicodeSubset_points(o)):
                    chk.violation('impl-vs-spec', {'kind': kind, 'arg': o, 'reverse': rev}, {'impl': got})
                if len(o) > 1:
                    chk.nontrivial.add(key)
            elif kind == 'complement':
                (s,) = p
                sub = UnicodeSubset(); sub._codepoints = list(s)
                got = enc(list(sub.complement()))
                mlist = [list(x) for x in model[idx]]
                if got != mlist:
                    chk.corr_fail.append((kind, p, got, mlist))
                # spec on the boundary points of every item
                pts = {0, 1, 0x10FFFF, 0x10FFFE}
                for c in list(s) + dec(got):
                    lo, hi = (c, c + 1) if isinstance(c, int) else c
                    pts |= {lo - 1, lo, hi - 1, hi}
                comp = UnicodeSubset(); comp._codepoints = dec(got)
                bad = [x for x in pts if 0 <= x <= 0x10FFFF and ((x in comp) == (x in sub))]
                if bad:
                    chk.violation('impl-vs-spec', {'kind': kind, 'start': s}, {'impl': got, 'points_in_both_or_neither': bad})
                if s:
                    chk.nontrivial.add(key)
        except Exception as e:  # the model predicts no exception on valid arguments
            chk.violation('impl-raised', {'kind': kind, 'payload': p}, repr(e))
        if idx % 997 == 0:
            chk.sample({'kind': kind, 'payload': p, 'model': model[idx]})
    chk.exhaustive = False
    chk.rule = ('exhaustive small scope (all well-formed lists over a small universe x every add/discard argument) '
                'plus seeded random operation sequences over add/discard/|=/-=/&=/^=, update/difference_update, '
                'iter_code_points, complement; a case is non-trivial when the operation changes the stored list '
                '(ops), has a non-empty argument (update/icp) or a non-empty subset (complement); distinct by payload')
    # correspondence verdict
    chk.obligations.append({'name': 'correspondence:impl==model(list-literal)', 'ok': not chk.corr_fail,
                            'detail': f'{len(chk.corr_fail)} disagreements' + (': ' + repr(chk.corr_fail[0])[:400] if chk.corr_fail else '')})
    if chk.corr_fail and not any(not v['no_failing_input'] for v in chk.violations):
        kind, p, got, mlist = chk.corr_fail[0]
        chk.violation('correspondence-broken', {'kind': kind, 'payload': p}, {'impl': got, 'model': mlist,
                      'note': 'implementation and Coq model disagree; no deviation from the set-algebra specification found'},
                      no_input=True)


def dec(e):
    return [x[0] if len(x) == 1 else (x[0], x[1]) for x in e]


def UnicodeSubset_points(items):
    for c in items:
        if isinstance(c, int):
            yield c
        else:
            yield from range(c[0], c[1])


def search_tables(chk, cats, ref, blocks):
    """A table theorem no longer checks: look for a concrete code point on which the property fails."""
    import unicodedata
    for c, r in ref.items():
        have = set(UnicodeSubset_points(cats[c]))
        want = set(UnicodeSubset_points(r))
        d = sorted(have ^ want)
        if d:
            cp = d[0]
            chk.violation('category-table', {'category': c, 'code_point': cp},
                          {'unicodedata.category': unicodedata.category(chr(cp)), 'in_table': cp in have})
            return
    for m in 'LMNPSZC':
        whole = set(UnicodeSubset_points(cats[m]))
        parts = set()
        for c in ref:
            if c[0] == m:
                parts |= set(UnicodeSubset_points(cats[c]))
        d = sorted(whole ^ parts)
        if d:
            chk.violation('major-category-union', {'category': m, 'code_point': d[0]}, {'in_major': d[0] in whole})
            return
    names = list(blocks)
    pts = {n: set(UnicodeSubset_points(blocks[n])) for n in names}
    for i, a in enumerate(names):
        for b in names[i + 1:]:
            if pts[a] & pts[b]:
                chk.violation('blocks-overlap', {'blocks': [a, b], 'code_point': min(pts[a] & pts[b])}, {})
                return


def replay(rec):
    print(rec)
    return 0
