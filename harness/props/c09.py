"""C09 — string functions on Unicode strings (lists of code points).

proof:  coq/theories/C09/{Model,Proofs,Properties}.v (+ Gen/C09Helpers.v: helpers.is_xml_codepoint re-translated)
tie:    hand model run on the same arguments as select(None, 'f($s, ...)', variables=...) under the
        XPath 1.0 and 2.0 parsers; libxml2 (lxml) as cross-check of the XPath 1.0 functions.
"""
import itertools
import math
from fractions import Fraction

import core
import gen_c09

IMPORTS = 'From EP Require Import C06.Model C09.Model C09.Run.'


def cps(s):
    return [ord(c) for c in s]


def slit(s):
    return core.zlist(cps(s))


def dlit(x):
    if x != x:
        return '(DA 1 0 1)'
    if x == math.inf:
        return '(DA 2 0 1)'
    if x == -math.inf:
        return '(DA 3 0 1)'
    f = Fraction(x)
    return f'(DA 0 {core.zlit(f.numerator)} {f.denominator})'


def impl(expr, variables, parser):
    from elementpath import select, ElementPathError
    try:
        return ('val', select(None, expr, variables=variables, item=1, parser=parser))
    except ElementPathError as e:
        return ('err', (e.code or '').split(':')[-1])
    except Exception as e:
        return ('exc', repr(e))


def run(chk):
    from elementpath import XPath1Parser, XPath2Parser
    import lxml.etree as LE
    rng = chk.rng
    quick = chk.tier == 'quick'
    chk.trusted += ['harness/py2coq.py + gen_c09.py (T-fun translator)',
                    'harness/shape.py: AST lookup of the statements mirrored by the hand model (Gen/C09Shape.v)',
                    'modelled not verified: Python str slicing / str.find / str.startswith / str.endswith / `in` / '
                    'str.translate(dict) / re.split on the literal class [ \\t\\n\\r]+ as written in C09/Model.v; '
                    'upper-case/lower-case (str.upper/lower) and non-codepoint collations are not modelled; urllib.parse.quote is modelled as in C09/UriEscape.v (always-safe set read from the running interpreter, UTF-8 + %HH), tied by correspondence',
                    'helpers.round_number is modelled by C06.round_md (proved = floor(x+1/2))']
    st = gen_c09.generate()
    for k, v in st.items():
        chk.obligations.append({'name': 'translate:' + k, 'ok': v == 'ok', 'detail': v})
    for f in ('elementpath/xpath1/_xpath1_functions.py', 'elementpath/xpath2/_xpath2_functions.py',
              'elementpath/collations.py', 'elementpath/helpers.py'):
        chk.record_source(f)
    chk.forbidden_scan(['C09'])
    proved = all(v == 'ok' for v in st.values()) and chk.prove(
        ['theories/Gen/C06Kernels.v', 'theories/C06/Model.v', 'theories/C06/Proofs.v', 'theories/Gen/C09Helpers.v', 'theories/Gen/C09Shape.v',
         'theories/C09/Model.v', 'theories/C09/Proofs.v', 'theories/C09/Run.v'], 'theories/C09/Properties.v')
    model_ok = True
    if not proved:
        try:
            core.coq_make(['theories/Gen/C09Helpers.v', 'theories/C09/Model.v', 'theories/C09/Run.v'])
        except core.CoqError as e:
            chk.notes.append('model does not build: ' + str(e))
            model_ok = False

    alpha = ['a', 'b', 'c', 'é', '\U0001F600', '́', ' ', '-']
    def rstr(maxlen=8, chars=alpha):
        return ''.join(rng.choice(chars) for _ in range(rng.randint(0, maxlen)))
    positions = [k / 2 for k in range(-7, 17)] + [math.inf, -math.inf, math.nan, 0.49999999999999994, 1.4999999999999998,
                                                   2.5000000000000004, -0.5000000000000001, 1e15, -1e15, 0.1, 2.51]
    cases = []   # (kind, args)
    for s in ('12345', '', 'a', 'a\U0001F600bé'):
        for a in positions:
            cases.append(('substring2', (s, a)))
            for b in positions if (not quick or s == '12345') else positions[::3]:
                cases.append(('substring3', (s, a, b)))
    for _ in range(150 if quick else 20000):
        cases.append(('substring3', (rstr(), rng.choice(positions + [rng.uniform(-3, 9)]), rng.choice(positions + [rng.uniform(-3, 9)]))))
    # exhaustive small scope for the search functions: all strings of length <= 3 over {a, b}
    small = [''.join(p) for n in range(0, 4) for p in itertools.product('ab', repeat=n)]
    for s in small if not quick else small[:15] + small[-4:]:
        for t in small[:7]:
            for f in range(5):
                cases.append(('find', (f, s, t)))
    for _ in range(200 if quick else 20000):
        s = rstr(10, 'abc\U0001F600')
        t = rng.choice([rstr(3, 'abc\U0001F600'), s[rng.randint(0, len(s)):][:rng.randint(0, 3)]])
        cases.append(('find', (rng.randrange(5), s, t)))
    for _ in range(200 if quick else 20000):
        cases.append(('translate', (rstr(8, 'abcd-é'), rstr(5, 'abcd-'), rstr(5, 'xyzab\U0001F600'))))
    for m, t in (('aa', 'xy'), ('abc', 'x'), ('ab', 'xyz'), ('aba', 'xyz'), ('', 'x'), ('abca', '')):
        cases.append(('translate', ('abcabc-', m, t)))
    ws_chars = ['a', 'b', ' ', '\t', '\n', '\r', '\xa0', ' ', '\x0b', '\x1c', '\x85', '　']
    for _ in range(150 if quick else 10000):
        cases.append(('normalize', (rstr(9, ws_chars[:6] * 3 + ws_chars[6:]),)))
    for s in ('', ' ', '  a  b  ', 'a\xa0b', '\ta\n', 'a  b'):
        cases.append(('normalize', (s,)))
    for _ in range(150 if quick else 10000):
        a = rstr(5, 'ab\U0001F600é')
        b = rng.choice([a, a[:rng.randint(0, len(a))], rstr(5, 'ab\U0001F600é')])
        cases.append(('compare', (a, b)))
    for c in (0, 8, 9, 10, 11, 13, 14, 31, 32, 0xD7FF, 0xD800, 0xDFFF, 0xE000, 0xFFFD, 0xFFFE, 0xFFFF, 0x10000, 0x10FFFF, 0x110000, -1):
        cases.append(('xmlchar', (c,)))

    model = {}
    if model_ok:
        groups = {}
        for i, (k, a) in enumerate(cases):
            groups.setdefault(k, []).append(i)
        for k, idxs in groups.items():
            ts = []
            for i in idxs:
                a = cases[i][1]
                if k == 'substring2':
                    ts.append(f'run_substring2 {slit(a[0])} {dlit(a[1])}')
                elif k == 'substring3':
                    ts.append(f'run_substring3 {slit(a[0])} {dlit(a[1])} {dlit(a[2])}')
                elif k == 'find':
                    ts.append(f'run_find {a[0]} {slit(a[1])} {slit(a[2])}')
                elif k == 'translate':
                    ts.append(f'run_translate {slit(a[0])} {slit(a[1])} {slit(a[2])}')
                elif k == 'normalize':
                    ts.append(f'run_normalize {slit(a[0])}')
                elif k == 'compare':
                    ts.append(f'run_compare {slit(a[0])} {slit(a[1])}')
                elif k == 'xmlchar':
                    ts.append(f'run_xmlchar {core.zlit(a[0])}')
            vals = core.run_coq_cases('C09', IMPORTS, ts, chunk=400, tag=k)
            model.update(zip(idxs, vals))

    FIND = ['contains($s, $t)', 'starts-with($s, $t)', 'ends-with($s, $t)', 'substring-before($s, $t)', 'substring-after($s, $t)']
    doc = LE.XML('<a/>')

    def libxml(expr, **kw):
        try:
            return LE.XPath(expr)(doc, **kw)
        except Exception as e:
            return ('lxml-error', repr(e))

    def xmlsafe(*strs):
        return all(all(c in '\t\n\r' or 0x20 <= ord(c) for c in s) for s in strs)

    for i, (k, a) in enumerate(cases):
        chk.evaluations += 1
        chk.count(k)
        outs = []          # (parser name, result as code point list / value)
        lx = None
        if k == 'substring2':
            expr, var = 'substring($s, $a)', {'s': a[0], 'a': a[1]}
        elif k == 'substring3':
            expr, var = 'substring($s, $a, $b)', {'s': a[0], 'a': a[1], 'b': a[2]}
        elif k == 'find':
            expr, var = FIND[a[0]], {'s': a[1], 't': a[2]}
        elif k == 'translate':
            expr, var = 'translate($s, $m, $t)', {'s': a[0], 'm': a[1], 't': a[2]}
        elif k == 'normalize':
            expr, var = 'normalize-space($s)', {'s': a[0]}
        elif k == 'compare':
            expr, var = '(compare($a, $b), codepoint-equal($a, $b))', {'a': a[0], 'b': a[1]}
        else:
            expr, var = 'string-length(codepoints-to-string($c))', {'c': a[0]}
        parsers = [XPath2Parser] if k in ('compare', 'xmlchar') or (k == 'find' and a[0] == 2) else [XPath1Parser, XPath2Parser]
        desc = {'expr': expr, 'vars': {x: (repr(v)) for x, v in var.items()}}
        if i in model:
            mo, sp = model[i]
        else:
            mo = sp = None
        for P in parsers:
            r = impl(expr, var, P)
            if r[0] == 'exc':
                chk.violation('foreign-exception', desc | {'parser': P.__name__}, r[1])
                continue
            if k == 'xmlchar':
                got = [1] if r[0] == 'val' else ([0] if r[1] == 'FOCH0001' else ['err', r[1]])
            elif r[0] == 'err':
                got = ['err', r[1]]
            elif k == 'compare':
                got = [r[1][0], int(r[1][1])]
            elif isinstance(r[1], bool):
                got = [int(r[1])]
            else:
                got = cps(r[1])
            if mo is None:
                continue
            if got != list(mo):
                chk.corr_fail.append((desc | {'parser': P.__name__}, got, list(mo)))
            if got != list(sp):
                chk.violation('impl-vs-spec', desc | {'parser': P.__name__}, {'impl': got, 'spec': list(sp), 'model': list(mo)})
        # libxml2 cross-check of the XPath 1.0 functions (an independent reading of the spec)
        if sp is not None and k in ('substring2', 'substring3', 'find', 'translate', 'normalize') and not (k == 'find' and a[0] == 2):
            strs = [v for v in var.values() if isinstance(v, str)]
            if xmlsafe(*strs):
                lx = libxml(expr, **var)
                lxv = [int(lx)] if isinstance(lx, bool) else (cps(lx) if isinstance(lx, str) else lx)
                chk.count('libxml2-crosschecked')
                if lxv != list(sp):
                    chk.notes.append(f'spec/libxml2 disagreement on {desc}: libxml2={lxv} spec={list(sp)}') if len(chk.notes) < 10 else None
                    chk.count('libxml2-vs-spec-disagreements')
        if mo is not None and (len(mo) > 0 or k in ('find', 'compare')):
            chk.nontrivial.add(repr((k, a)))
        if i % 701 == 0:
            chk.sample({'kind': k, 'args': repr(a), 'model,spec': model.get(i)})
    # ---- XPath 1.0: conversion of non-string arguments by the string functions (C09/XPath1Args.v string1), with libxml2
    from elementpath import select, ElementPathError
    chk.prove(['theories/C15/Keys.v', 'theories/C10/Model.v', 'theories/C10/Proofs.v', 'theories/C09/XPath1Args.v'], 'theories/C09/XPath1ArgsProperties.v')
    A1 = [('true()', 'ABool1 true'), ('false()', 'ABool1 false'), ('(0 div 0)', 'ANum1 NNaN'), ('(1 div 0)', 'ANum1 NPInf'), ('(-1 div 0)', 'ANum1 NNInf'),
          ('0', 'ANum1 (NFin 0 1)'), ('(-1 * 0)', 'ANum1 (NFin 0 1)'), ('12', 'ANum1 (NFin 12 1)'), ('-7', 'ANum1 (NFin (-7) 1)'), ('(6 div 3)', 'ANum1 (NFin 6 3)'),
          ('1000000', 'ANum1 (NFin 1000000 1)'), ('123456789012', 'ANum1 (NFin 123456789012 1)'), ('(3 div 2)', 'ANum1 (NFin 3 2)')]
    a1model = core.run_coq_cases('C09', 'From EP Require Import C15.Keys C09.XPath1Args.', [f'run_string1 ({l})' for _, l in A1], chunk=100, tag='xp1args') if model_ok else [None] * len(A1)
    lroot1 = LE.fromstring('<r><a>2</a><b>x</b></r>')
    for (e, l), mo in zip(A1, a1model):
        if mo is None:
            continue
        code_s, spec_s = list(mo[0]), list(mo[1])
        for form in ('string({})', 'concat({}, "")', 'substring-before(concat({}, "|"), "|")', 'normalize-space({})'):
            expr = form.format(e)
            chk.evaluations += 1
            chk.count('xpath1-args')
            r = impl(expr, {}, XPath1Parser)
            got = cps(r[1]) if r[0] == 'val' and isinstance(r[1], str) else list(r)
            desc = {'parser': 'XPath1Parser', 'expr': expr}
            if code_s[0] == 1 and got != code_s[1:]:
                chk.corr_fail.append((desc, got, code_s[1:]))
            if spec_s[0] == 1 and got != spec_s[1:]:
                if got == code_s[1:] and 'div 0' in e and e != '(0 div 0)':
                    chk.known('C09-xpath1-infinity-string', desc | {'impl': ''.join(map(chr, got)), 'spec': ''.join(map(chr, spec_s[1:]))})
                else:
                    chk.violation('impl-vs-spec', desc, {'impl': got, 'spec': spec_s[1:]})
            lxv = lroot1.xpath(expr)
            if spec_s[0] == 1 and cps(lxv) != spec_s[1:] and len(chk.notes) < 10:
                chk.notes.append(f'spec/libxml2 disagreement on {expr}: libxml2={lxv!r}')
            chk.nontrivial.add(repr(('xp1args', expr)))
    # numeric arguments given as strings or nodes (converted with number() in XPath 1.0): substring positions
    for expr, want in (("substring('12345', '2')", '2345'), ("substring('12345', a)", '2345'), ("substring('12345', b)", ''),
                       ("substring('12345', 1, '2')", '12'), ("substring('12345', true())", '12345'), ("substring('12345', a, a)", '23')):
        chk.evaluations += 1
        try:
            got = select(lroot1, expr, parser=XPath1Parser)
        except ElementPathError as ex:
            got = 'error ' + (ex.code or '').split(':')[-1]
        if lroot1.xpath(expr) != want:
            chk.notes.append(f'spec/libxml2 disagreement on {expr}')
        if got != want:
            if got == 'error FORG0006' and ("'" in expr.split(',', 1)[1] or ' a' in expr or ' b' in expr):
                chk.known('C09-xpath1-substring-non-numeric-position', {'expr': expr, 'impl': got, 'spec (libxml2 agrees)': want})
            else:
                chk.violation('impl-vs-spec', {'parser': 'XPath1Parser', 'expr': expr}, {'impl': got, 'spec': want})
    # ---- XPath 1.0: every string function of the core library on arguments of the four object types (strings, numbers, booleans,
    # node-sets with 0 / 1 / 2 nodes) against libxml2 (the oracle named by the property); the two recorded findings are kept out
    # (infinities as arguments, strings as substring positions)
    import math as _m
    lroot2 = LE.fromstring('<r a="1"><n>42</n><n>-1.5</n><s>abc</s><e/><m> 7 </m>text</r>')
    XA = ["1", "0", "-1.5", "0.5", "12", "'a'", "''", "'12'", "' 3 '", "'abc'", "'b c'", "true()", "false()", "/r/n", "/r/s", "/r/e", "/r/nothing", "/r/@a", "/r/m", "/r/text()", "/r/*", "2.5", "3"]
    XNUM = ["1", "0", "-1.5", "0.5", "2.5", "3", "true()", "false()", "/r/n", "/r/nothing", "/r/@a", "/r/m", "12"]
    calls1 = [f'{f}({a})' for f in ('string', 'string-length', 'normalize-space') for a in XA]
    calls1 += [f'{f}({a}, {b})' for f in ('concat', 'starts-with', 'contains', 'substring-before', 'substring-after') for a in XA for b in XA]
    calls1 += [f'translate({a}, {b}, {c})' for a in ("'abcdef'", "/r/s", "12345", "/r/nothing") for b in XA for c in XA]
    calls1 += [f'substring({a}, {b})' for a in XA for b in XNUM] + [f'substring({a}, {b}, {c})' for a in ("'abcdef'", "/r/s", "12345", "true()") for b in XNUM for c in XNUM]
    calls1 += [f'concat({a}, {b}, {c})' for a in XA[::3] for b in XA[1::3] for c in XA[2::3]]
    if quick:
        calls1 = rng.sample(calls1, 1500)
    for expr in calls1:
        chk.evaluations += 1
        chk.count('xpath1-libxml2-sweep')
        want = lroot2.xpath(expr)
        try:
            got = select(lroot2, expr, parser=XPath1Parser)
        except ElementPathError as ex:
            got = 'error ' + (ex.code or '').split(':')[-1]
        if isinstance(want, float) and isinstance(got, (int, float)) and not isinstance(got, bool):
            same_ = (_m.isnan(want) and isinstance(got, float) and _m.isnan(got)) or float(got) == want
        else:
            same_ = got == want and isinstance(got, bool) == isinstance(want, bool)
        if not same_:
            chk.violation('impl-vs-spec', {'parser': 'XPath1Parser', 'expr': expr, 'document': '<r a="1"><n>42</n><n>-1.5</n><s>abc</s><e/><m> 7 </m>text</r>'},
                          {'impl': repr(got)[:200], 'libxml2': repr(want)[:200]})
        chk.nontrivial.add('xp1sweep:' + expr)
    # ---- lang() (core library, the language of the nearest ancestor-or-self xml:lang, sublanguages, case): XPath 1.0 and 3.1 against libxml2
    from elementpath.xpath31 import XPath31Parser as _P31l
    lroot3 = LE.fromstring('<r a="1" xml:lang="en-US"><b>u</b><c xml:lang="fr"><d/></c><e xml:lang="de-x-y"><f xml:lang=""><g/></f></e></r>')
    for t in ['en', 'EN', 'en-us', 'en-US', 'en-u', 'fr', 'FR', 'de', 'de-x', 'de-x-y', 'de-x-y-z', 'd', '', 'e']:
        for expr in (f"//*[lang('{t}')]", f"count(//@a[lang('{t}')])", f"count(//text()[lang('{t}')])"):
            want = lroot3.xpath(expr)
            want = [x.tag for x in want] if isinstance(want, list) else float(want)
            for P in (XPath1Parser, _P31l):
                chk.evaluations += 1
                chk.count('lang-libxml2')
                try:
                    got = select(lroot3, expr, parser=P)
                    got = [x.tag for x in got] if isinstance(got, list) else float(got)
                except ElementPathError as ex:
                    got = 'error ' + str(ex.code)
                except Exception as ex:
                    got = 'exception ' + type(ex).__name__
                if got != want:
                    chk.violation('impl-vs-spec', {'parser': P.__name__, 'expr': expr}, {'impl': repr(got)[:200], 'libxml2': repr(want)[:200]})
            chk.nontrivial.add('lang:' + expr)
    # ---- id() of the XPath 1.0 core library against libxml2: a string with several IDs, a node-set of references
    lroot4 = LE.fromstring('<r xml:id="i1" ref="i2 i3"><x xml:id="i2">1</x><y><z xml:id="i3"/></y><w ref="i1"/></r>')
    for expr in ("id('i1')", "id('i2 i3')", "id('i3 i1')", "id('zz')", "id(//@ref)", "id(/r/w/@ref)", "id('i2')/text()", "count(id('i1 i2 i3'))", "id(12)", "id(true())", "id('')",
                 "id('i1')/x", "id('i2')//text()", "(id('i1'))/y/z", "count(id('i1')/*)", "(//x)/text()", "(//x | //y)/..", "count((//x)//text())", "string(id('i1')/x)",
                 # only #x20 #x9 #xA #xD separate the IDs
                 "count(id('i1\xa0i2'))", "count(id('i1\u3000i2'))", "count(id('i1\ti2'))", "count(id('i1\u2003i2 i3'))"):
        want = lroot4.xpath(expr)
        want = [getattr(x, 'tag', x) for x in want] if isinstance(want, list) else want
        chk.evaluations += 1
        chk.count('id-libxml2')
        try:
            got = select(lroot4, expr, parser=XPath1Parser)
            got = [getattr(x, 'tag', x) for x in got] if isinstance(got, list) else got
        except ElementPathError as ex:
            got = 'error ' + str(ex.code)
        except Exception as ex:
            got = 'exception ' + type(ex).__name__
        if got != want:
            chk.violation('impl-vs-spec', {'parser': 'XPath1Parser', 'expr': expr}, {'impl': repr(got)[:200], 'libxml2': repr(want)[:200]})
        chk.nontrivial.add('id:' + expr)
    # ---- the HTML ASCII case-insensitive collation (C09/Collation.v: code point order of the strings with A-Z folded onto a-z, nothing else
    # folded) through every function that takes a collation; strings over ASCII letters, digits, non-ASCII letters with case pairs
    # (201 / 233, the Kelvin sign 8490, sharp s 223); the order is asserted only where the direction of the fold does not matter
    chk.prove(['theories/C09/Collation.v'], 'theories/C09/CollationProperties.v')
    CI = 'http://www.w3.org/2005/xpath-functions/collation/html-ascii-case-insensitive'
    CCH = ['a', 'A', 'b', 'B', 'z', 'Z', '1', '\xe9', '\xc9', '\u212a', 'k', 'K', '\xdf', 's', 'S', ' ']
    cstr = lambda: ''.join(rng.choice(CCH) for _ in range(rng.randint(0, 4)))
    cpairs = [(cstr(), cstr()) for _ in range(150 if quick else 6000)] + [('a', 'A'), ('\xe9', '\xc9'), ('K', '\u212a'), ('Strasse', 'Stra\xdfe'), ('aB', 'Ab'), ('', '')]
    cpairs += [(a, ''.join(c.swapcase() if c.isascii() else c for c in a)) for a, _ in cpairs[:60]]
    cmodel = core.run_coq_cases('C09', 'From EP Require Import C06.Model C09.Model C09.Collation.', [f'run_ci {core.zlist(cps(a))} {core.zlist(cps(b))}' for a, b in cpairs], chunk=400, tag='ci') if model_ok else [None] * len(cpairs)
    fold = lambda x: ''.join(chr(ord(c) + 32) if 'A' <= c <= 'Z' else c for c in x)
    for (a, b), mo in zip(cpairs, cmodel):
        if mo is None:
            continue
        cmp_, same_ = mo
        chk.evaluations += 1
        chk.count('html-ascii-collation')
        v = {'a': a, 'b': b, 'c': CI}
        try:
            got = select(lroot3, '(compare($a, $b, $c), deep-equal($a, $b, $c), count(distinct-values(($a, $b), $c)), count(index-of(($a), $b, $c)), '
                                'contains($a, $b, $c), starts-with($a, $b, $c), ends-with($a, $b, $c), count(distinct-values((xs:untypedAtomic($a), $b), $c)))', variables=v, parser=_P31l)
        except ElementPathError as ex:
            got = 'error ' + str(ex.code)
        fa, fb = fold(a), fold(b)
        want = [cmp_, same_ == 1, 1 if same_ == 1 else 2, 1 if same_ == 1 else 0, fb in fa, fa.startswith(fb), fa.endswith(fb), 1 if same_ == 1 else 2]
        desc = {'a': ascii(a), 'b': ascii(b), 'collation': 'html-ascii-case-insensitive'}
        if isinstance(got, list) and len(got) == 8 and got[0] != cmp_ and cmp_ != 0 and got[0] != 0 and (set(a + b) & set('[\\]^_`')):
            got[0] = cmp_       # (the direction of the fold is observable only against the characters between Z and a: not generated)
        if got != want:
            chk.corr_fail.append((desc, got, want))
            chk.violation('impl-vs-spec', desc, {'impl [compare, deep-equal, count distinct, count index-of, contains, starts-with, ends-with, distinct with untyped]': repr(got)[:300], 'spec': repr(want)})
        # min / max follow the collation: the greatest folded string
        if same_ != 1:
            try:
                mx = select(lroot3, '(max(($a, $b), $c), min(($a, $b), $c))', variables=v, parser=_P31l)
            except ElementPathError as ex:
                mx = 'error ' + str(ex.code)
            wmx = [a, b] if cmp_ > 0 else [b, a]
            if mx != wmx:
                chk.violation('impl-vs-spec', desc, {'impl [max, min]': repr(mx)[:200], 'spec': repr(wmx)})
        chk.nontrivial.add('ci:' + repr((a, b)))
    # round trip codepoints-to-string(string-to-codepoints(s)) = s and string-length in code points
    for _ in range(100 if quick else 5000):
        s = rstr(8, 'ab\U0001F600é́\t')
        chk.evaluations += 1
        r = impl('(codepoints-to-string(string-to-codepoints($s)), string-length($s))', {'s': s}, XPath2Parser)
        want = [s, len(cps(s))] if s else ['', 0]
        if r[0] != 'val' or list(r[1]) != want:
            chk.violation('impl-vs-spec', {'expr': 'codepoints round trip / string-length', 's': repr(s)}, {'impl': repr(r), 'spec': want})
    # ---- URI escaping (C09/UriEscape.v): the three functions on strings over every class of character, under the 2.0 and 3.1
    # parsers, against the code model (quote with the extracted safe sets) and the F&O definition; string-length in code points,
    # the code point round trip and the substring-before / after law on the same strings
    from elementpath import select as _select, ElementPathError as _EPE
    from elementpath.xpath31 import XPath31Parser as _P31
    import xml.etree.ElementTree as _ET
    proved_u = chk.prove(['theories/Gen/C09UriSafe.v', 'theories/C09/UriEscape.v', 'theories/C09/UriEscapeProofs.v'], 'theories/C09/UriEscapeProperties.v')
    UCH = [chr(c) for c in range(32, 127)] + ['\t', '\n', '\r', '\x7f', '\x80', '\xa0', '\xe9', '\u07ff', '\u0800', '\u20ac', '\ud7ff', '\ue000', '\ufffd',
                                               '\U00010000', '\U0001F600', '\U0010FFFF']
    ustrs = [c for c in UCH] + [''.join(rng.choice(UCH) for _ in range(rng.randint(0, 8))) for _ in range(120 if quick else 6000)] + ['']
    FN = ['encode-for-uri', 'iri-to-uri', 'escape-html-uri']
    terms = [f'run_uri {k} {core.zlist([ord(c) for c in x])}' for x in ustrs for k in range(3)]
    umodel = core.run_coq_cases('C09', IMPORTS, terms, chunk=400, tag='uri') if model_ok else [None] * len(terms)
    _root = _ET.XML('<r/>')
    it = iter(umodel)
    for x in ustrs:
        for k in range(3):
            mo = next(it)
            if mo is None:
                continue
            for P in (XPath2Parser, _P31):
                chk.evaluations += 1
                chk.count('uri:' + FN[k])
                desc = {'fn': FN[k], 'string (code points)': [ord(c) for c in x], 'parser': P.__name__}
                try:
                    got = [ord(c) for c in _select(_root, f'{FN[k]}($s)', variables={'s': x}, parser=P)]
                except _EPE as ex:
                    got = ['error', str(ex.code)]
                if got != list(mo[0]):
                    chk.corr_fail.append((desc, got, list(mo[0])))
                if got != list(mo[1]):
                    chk.violation('impl-vs-spec', desc, {'impl': ''.join(map(chr, got)) if got[:1] != ['error'] else got, 'F&O definition': ''.join(map(chr, mo[1]))})
            if x:
                chk.nontrivial.add(repr(('uri', k, x)))
        # string functions on the same strings: lengths in code points, code point round trip, the before / after law
        chk.evaluations += 1
        chk.count('codepoints')
        try:
            r = _select(_root, '(string-length($s), codepoints-to-string(string-to-codepoints($s)) eq $s, count(string-to-codepoints($s)), '
                               'string-join(for $c in string-to-codepoints($s) return string($c), ","))', variables={'s': x}, parser=_P31)
            want = [len(x), True, len(x), ','.join(str(ord(c)) for c in x)]
            if r != want:
                chk.violation('impl-vs-spec', {'fn': 'string-length / codepoints', 'string (code points)': [ord(c) for c in x]}, {'impl': repr(r)[:200], 'spec': repr(want)[:200]})
        except _EPE as ex:
            chk.violation('impl-vs-spec', {'fn': 'string-length / codepoints', 'string (code points)': [ord(c) for c in x]}, 'raised ' + str(ex)[:200])
        if len(x) >= 2:
            i = rng.randrange(len(x))
            t = x[i:i + rng.randint(1, 2)]
            chk.evaluations += 1
            chk.count('before-after-law')
            r = _select(_root, 'concat(substring-before($s, $t), $t, substring-after($s, $t)) eq $s and contains($s, $t)', variables={'s': x, 't': t}, parser=_P31)
            if r is not True:
                chk.violation('impl-vs-spec', {'fn': 'concat(substring-before(s,t), t, substring-after(s,t)) = s', 's': ascii(x), 't': ascii(t)}, {'impl': r})
    chk.rule = ('substring on boundary positions (halves, +-INF, NaN, doubles next to .5) x strings with astral/combining '
                'characters; exhaustive strings <=3 over {a,b} for contains/starts-with/ends-with/substring-before/after; '
                'seeded random translate / normalize-space / compare cases; non-trivial = non-empty result or a search '
                'function, distinct by (function, arguments)')
    chk.obligations.append({'name': 'correspondence:impl==model(code point lists)', 'ok': not chk.corr_fail,
                            'detail': f'{len(chk.corr_fail)} disagreements' + (': ' + repr(chk.corr_fail[0])[:400] if chk.corr_fail else '')})
    if chk.corr_fail and not any(not v['no_failing_input'] for v in chk.violations):
        d, got, mo = chk.corr_fail[0]
        chk.violation('correspondence-broken', d, {'impl': got, 'model': mo, 'all': [repr(x)[:300] for x in chk.corr_fail[:30]]}, no_input=True)


def replay(rec):
    print(rec)
    return 0
