"""C07 — comparisons, effective boolean value and logic.

proof:  coq/theories/C07/{Model,Properties}.v : general comparison = exists pair; EBV = F&O table; Boolean algebra; the
        value-comparison type-check chain as a decision table, with the exact list of cells where it deviates from the
        F&O operator mapping computed by the kernel (C07_type_table_disagreements).
tie:    correspondence: every (type, type, operator) cell with representative values through select(); general
        comparisons on integer sequences; EBV of sequences of <= 2 items of every kind.
"""
import itertools
import math

import core

IMPORTS = 'From EP Require Import C07.Model C07.Run.'
TY = ['int', 'dec', 'dbl', 'flt', 'str', 'untyped', 'anyURI', 'bool', 'qname', 'date', 'dateTime', 'time', 'gYear', 'duration', 'ymdur',
      'dtdur', 'hex', 'b64']
OPS = ['eq', 'ne', 'lt', 'le', 'gt', 'ge']
REP = {
    'int': ["1", "2", "-3"], 'dec': ["1.0", "2.5", "-0.5"], 'dbl': ["1e0", "2.5e0", "xs:double('NaN')"], 'flt': ["xs:float('1')", "xs:float('2.5')"],
    'str': ["'a'", "'b'", "''"], 'untyped': ["xs:untypedAtomic('a')", "xs:untypedAtomic('1')"], 'anyURI': ["xs:anyURI('a')", "xs:anyURI('b')"],
    'bool': ["true()", "false()"], 'qname': ["xs:QName('a')", "xs:QName('b')"], 'date': ["xs:date('2000-01-01')", "xs:date('2001-06-01')"],
    'dateTime': ["xs:dateTime('2000-01-01T00:00:00')", "xs:dateTime('2000-01-01T12:00:00Z')"], 'time': ["xs:time('10:00:00')", "xs:time('11:00:00')"],
    'gYear': ["xs:gYear('2000')", "xs:gYear('2001')"], 'duration': ["xs:duration('P1Y1D')", "xs:duration('P1D')"],
    'ymdur': ["xs:yearMonthDuration('P1Y')", "xs:yearMonthDuration('P2M')"], 'dtdur': ["xs:dayTimeDuration('P1D')", "xs:dayTimeDuration('PT2H')"],
    'hex': ["xs:hexBinary('0A')", "xs:hexBinary('0B')"], 'b64': ["xs:base64Binary('Cg==')", "xs:base64Binary('Cw==')"],
}

UNTYPED_FOR = {'int': '1', 'dec': '1.5', 'dbl': '1', 'flt': '1', 'str': 'a', 'anyURI': 'a', 'bool': 'true', 'qname': 'a', 'date': '2000-01-01',
               'dateTime': '2000-01-01T00:00:00', 'time': '10:00:00', 'gYear': '2000', 'duration': 'P1Y1D', 'ymdur': 'P1Y', 'dtdur': 'P1D',
               'hex': '0A', 'b64': 'Cg=='}


def run(chk):
    import xml.etree.ElementTree as ET
    from elementpath import select, XPath2Parser, ElementPathError, XPathContext
    from elementpath.xpath31 import XPath31Parser
    rng = chk.rng
    quick = chk.tier == 'quick'
    chk.trusted += ['C07/Model.v vc_spec is the transcription of the F&O operator mapping (B.2) for value comparisons',
                    'type tags stand for the Python classes of the atomized operands; the representative values of each type are chosen by the harness',
                    'ordering within a type (numbers, dates, durations) is C06 / C11 / hardware comparison, not re-proved here']
    for f in ('elementpath/xpath_tokens/base.py', 'elementpath/xpath1/_xpath1_operators.py', 'elementpath/xpath2/_xpath2_operators.py', 'elementpath/helpers.py'):
        chk.record_source(f)
    chk.forbidden_scan(['C07'])
    import gen_c07
    gen_c07.generate()          # source-shape facts regenerated from /repo on every run
    chk.trusted.append('harness/shape.py: AST lookup of the statements mirrored by the hand model (Gen/C07Shape.v)')
    proved = chk.prove(['theories/Gen/C07Shape.v', 'theories/C07/Model.v', 'theories/C07/Run.v'], 'theories/C07/Properties.v')
    model_ok = True
    if not proved:
        try:
            core.coq_make(['theories/C07/Model.v', 'theories/C07/Run.v'])
        except core.CoqError as e:
            chk.notes.append('model does not build: ' + str(e))
            model_ok = False

    root0 = ET.XML('<r/>')
    # ---- 1. value comparison type table
    cells = [(v, o, a, b) for v in (1, 0) for o in range(6) for a in range(len(TY)) for b in range(len(TY))]
    model = core.run_coq_cases('C07', IMPORTS, [f'run_vc {v} {o} {a} {b}' for v, o, a, b in cells], chunk=700, tag='vc') if model_ok else [None] * len(cells)
    for (v, o, a, b), mo in zip(cells, model):
        P = XPath31Parser if v else XPath2Parser
        outcomes = set()
        for va in REP[TY[a]][:2]:
            for vb in REP[TY[b]][:2]:
                chk.evaluations += 1
                expr = f'{va} {OPS[o]} {vb}'
                try:
                    select(None, expr, item=1, parser=P)
                    outcomes.add('value')
                except ElementPathError as e:
                    outcomes.add((e.code or '').split(':')[-1])
                except Exception as e:
                    chk.violation('foreign-exception', {'expr': expr}, repr(e)[:200])
        chk.count('vc:' + OPS[o])
        if mo is None:
            continue
        defined, spec = mo
        observable_defined = outcomes != {'XPTY0004'}
        desc = {'parser': P.__name__, 'op': OPS[o], 'types': [TY[a], TY[b]], 'outcomes': sorted(map(str, outcomes))}
        # correspondence with the chain + operator model: a value iff the model says so
        if observable_defined != bool(defined):
            chk.corr_fail.append((desc, 'value' if observable_defined else 'XPTY0004', 'value' if defined else 'XPTY0004'))
        if observable_defined != bool(spec):
            chk.violation('impl-vs-spec', desc, {'defined_on_impl': observable_defined, 'defined_by_F&O': bool(spec)})
        chk.nontrivial.add(repr((v, o, a, b)))

    # ---- 1b. general comparison type table (= != < <= > >=), untypedAtomic conversion rules included
    GOPS = ['=', '!=', '<', '<=', '>', '>=']
    gcells = [(v, o, a, b) for v in (1, 0) for o in range(6) for a in range(len(TY)) for b in range(len(TY))]
    gmodel = core.run_coq_cases('C07', IMPORTS, [f'run_gc {v} {o} {a} {b}' for v, o, a, b in gcells], chunk=700, tag='gc') if model_ok else [None] * len(gcells)
    for (v, o, a, b), mo in zip(gcells, gmodel):
        P = XPath31Parser if v else XPath2Parser
        outcomes = set()
        # an untypedAtomic operand against a typed one: a content that casts to the type of the other operand (the
        # cast error FORG0001 of any other content is raised before the comparison is looked at)
        ra = [f"xs:untypedAtomic('{UNTYPED_FOR[TY[b]]}')"] if TY[a] == 'untyped' and TY[b] != 'untyped' else REP[TY[a]][:2]
        rb = [f"xs:untypedAtomic('{UNTYPED_FOR[TY[a]]}')"] if TY[b] == 'untyped' and TY[a] != 'untyped' else REP[TY[b]][:2]
        for va in ra:
            for vb in rb:
                chk.evaluations += 1
                expr = f'{va} {GOPS[o]} {vb}'
                try:
                    select(None, expr, item=1, parser=P)
                    outcomes.add('value')
                except ElementPathError as e:
                    outcomes.add((e.code or '').split(':')[-1])
                except Exception as e:
                    chk.violation('foreign-exception', {'expr': expr}, repr(e)[:200])
        chk.count('gc:' + GOPS[o])
        if mo is None:
            continue
        defined, spec = mo
        observable_defined = outcomes != {'XPTY0004'}
        desc = {'parser': P.__name__, 'op': GOPS[o], 'types': [TY[a], TY[b]], 'outcomes': sorted(map(str, outcomes))}
        if observable_defined != bool(defined):
            chk.corr_fail.append((desc, 'value' if observable_defined else 'XPTY0004', 'value' if defined else 'XPTY0004'))
        if observable_defined != bool(spec):
            chk.violation('impl-vs-spec', desc, {'defined_on_impl': observable_defined, 'defined_by_XPath': bool(spec)})
        chk.nontrivial.add(repr(('gc', v, o, a, b)))

    # ---- 1b'. the same table with the XPath 1.0 compatibility mode switched on (XPath2Parser / XPath31Parser)
    cmodel = core.run_coq_cases('C07', IMPORTS, [f'run_gcc {v} {o} {a} {b}' for v, o, a, b in gcells], chunk=700, tag='gcc') if model_ok else [None] * len(gcells)
    for (v, o, a, b), mo in zip(gcells, cmodel):
        P = XPath31Parser if v else XPath2Parser
        outcomes = set()
        ra = [f"xs:untypedAtomic('{UNTYPED_FOR[TY[b]]}')"] if TY[a] == 'untyped' and TY[b] != 'untyped' else REP[TY[a]][:2]
        rb = [f"xs:untypedAtomic('{UNTYPED_FOR[TY[a]]}')"] if TY[b] == 'untyped' and TY[a] != 'untyped' else REP[TY[b]][:2]
        for va in ra:
            for vb in rb:
                chk.evaluations += 1
                expr = f'{va} {GOPS[o]} {vb}'
                try:
                    P(compatibility_mode=True).parse(expr).evaluate()
                    outcomes.add('value')
                except ElementPathError as e:
                    outcomes.add((e.code or '').split(':')[-1])
                except Exception as e:
                    chk.violation('foreign-exception', {'expr': expr, 'compatibility_mode': True}, repr(e)[:200])
        chk.count('gc-compat:' + GOPS[o])
        if mo is None:
            continue
        defined, spec = mo
        observable_defined = outcomes != {'XPTY0004'}
        desc = {'parser': P.__name__, 'compatibility_mode': True, 'op': GOPS[o], 'types': [TY[a], TY[b]], 'outcomes': sorted(map(str, outcomes))}
        if observable_defined != bool(defined):
            chk.corr_fail.append((desc, 'value' if observable_defined else 'XPTY0004', 'value' if defined else 'XPTY0004'))
        if observable_defined != bool(spec):
            chk.violation('impl-vs-spec', desc, {'defined_on_impl': observable_defined, 'defined_by_XPath': bool(spec)})
        chk.nontrivial.add(repr(('gcc', v, o, a, b)))

    # ---- 1c. XPath 1.0 comparisons (section 3.4) over booleans, numbers, strings and node-sets: C07/XPath1.v compare1
    import re as _re
    import lxml.etree as _LE
    from fractions import Fraction as _Fr
    from elementpath import XPath1Parser as _P1
    chk.prove(['theories/C15/Keys.v', 'theories/C15/KeysProofs.v', 'theories/C07/XPath1.v'], 'theories/C07/XPath1Properties.v')
    POOL = ['', '1', ' 2 ', 'x', '3', 'true', '1.0', '-1', '1e1', 'Infinity', ' ', '.5', '5.', '+1', '0', '-0', '2', 'NaN', '1 1']
    CODE1 = {t: k for k, t in enumerate(POOL)}
    NUMRE = _re.compile(r'^[ \t\r\n]*-?([0-9]+(\.[0-9]*)?|\.[0-9]+)[ \t\r\n]*$')

    def xnum(t):      # XPath 1.0 number(): the Number production with optional minus and surrounding whitespace
        if NUMRE.match(t) is None:
            return 'NNaN'
        fr = _Fr(t.strip())
        return f'NFin ({fr.numerator}) {fr.denominator}'

    def slit(t):
        return f'(mkstr {CODE1[t]} ({xnum(t)}) {"true" if t else "false"})'
    NUML = [('0', 'NFin 0 1'), ('1', 'NFin 1 1'), ('2', 'NFin 2 1'), ('-1', 'NFin (-1) 1'), ('0.5', 'NFin 1 2'), ('3', 'NFin 3 1'),
            ('(0 div 0)', 'NNaN'), ('(1 div 0)', 'NPInf'), ('(-1 div 0)', 'NNInf')]

    def operand(k):
        """-> (XPath 1.0 text with a placeholder for the node-set name, Coq obj, node strings or None)"""
        r = rng.random()
        if r < 0.15:
            b = rng.choice([True, False])
            return ('true()' if b else 'false()', f'OBool {"true" if b else "false"}', None)
        if r < 0.35:
            e, l = rng.choice(NUML)
            return (e, f'ONum ({l})', None)
        if r < 0.55:
            t = rng.choice(POOL)
            return (f"'{t}'", f'OStr {slit(t)}', None)
        ns = [rng.choice(POOL) for _ in range(rng.choice([0, 1, 1, 2, 3]))]
        return (f'n{k}', 'ONodes [' + '; '.join(slit(t) for t in ns) + ']', ns)
    xcases = []
    for _ in range(400 if quick else 20000):
        a, b = operand(0), operand(1)
        xcases.append((rng.randint(0, 5), a, b))
    for ea in ('true()', 'false()'):           # fixed: every scalar pair with a boolean, every operator
        for eb, lb in [(e, f'ONum ({l})') for e, l in NUML] + [(f"'{t}'", f'OStr {slit(t)}') for t in POOL]:
            for o in range(6):
                xcases.append((o, (ea, f'OBool {"true" if ea == "true()" else "false"}', None), (eb, lb, None)))
    xmodel = core.run_coq_cases('C07', 'From EP Require Import C15.Keys C07.Model C07.XPath1.',
                                [f'run_cmp1 {o} ({a[1]}) ({b[1]})' for o, a, b in xcases], chunk=500, tag='xp1') if model_ok else [None] * len(xcases)
    lx_dis = 0
    for (o, a, b), mo in zip(xcases, xmodel):
        chk.evaluations += 1
        chk.count('xpath1-cmp')
        doc = '<r>' + ''.join(f'<n0>{t}</n0>' for t in (a[2] or [])) + ''.join(f'<n1>{t}</n1>' for t in (b[2] or [])) + '</r>'
        expr = f'{a[0]} {GOPS[o]} {b[0]}'
        desc = {'parser': 'XPath1Parser', 'expr': expr, 'doc': doc}
        lroot = _LE.fromstring(doc)
        eroot = ET.XML(doc)
        try:
            got = {select(lroot, expr, parser=_P1), select(eroot, expr, parser=_P1)}
        except ElementPathError as e:
            got = {'error ' + str(e.code)}
        except Exception as e:
            chk.violation('foreign-exception', desc, repr(e)[:200])
            continue
        if mo is None:
            continue
        want = bool(mo)
        if got != {want}:
            chk.corr_fail.append((desc, sorted(map(str, got)), want))
            chk.violation('impl-vs-spec', desc, {'impl': sorted(map(str, got)), 'spec': want})
        # (libxml2 reads an exponent in number('1e1'), which the Number production of XPath 1.0 does not have: skipped)
        if '1e1' not in expr and '1e1' not in doc and lroot.xpath(expr) != want:
            lx_dis += 1
            if len(chk.notes) < 8:
                chk.notes.append(f'spec/libxml2 disagreement: {expr} on {doc}: libxml2={lroot.xpath(expr)} spec={want}')
        chk.nontrivial.add(repr(('xp1', expr, doc)))
    chk.distribution['xpath1 comparisons: libxml2 vs spec disagreements'] = lx_dis
    # ---- 1d. XPath 1.0 arithmetic (section 3.5) over the same four object types: C07/XPath1Arith.v arith1 (number() of both operands,
    # IEEE on the extended values); libxml2 as a second reading. Operands with the value -0 and the non-standard '1e1' are left out.
    import math as _m
    chk.prove(['theories/C07/XPath1Arith.v'], 'theories/C07/XPath1ArithProperties.v')
    AOPS = ['+', '-', '*', 'div']

    def ok_operand(x):
        return '-0' not in x[0] and '1e1' not in x[0] and not any(t in ('-0', '1e1') for t in (x[2] or []))
    acases = []
    for _ in range(300 if quick else 15000):
        a, b = operand(0), operand(1)
        if ok_operand(a) and ok_operand(b):
            acases.append((rng.randint(0, 3), a, b))
    for o in range(4):     # fixed: an empty node-set on either side of every operator, zero divisors
        acases += [(o, ('n0', 'ONodes []', []), ('1', 'ONum (NFin 1 1)', None)), (o, ('2', 'ONum (NFin 2 1)', None), ('n1', 'ONodes []', [])),
                   (o, ('n0', 'ONodes []', []), ('n1', 'ONodes []', [])), (o, ('1', 'ONum (NFin 1 1)', None), ('0', 'ONum (NFin 0 1)', None)),
                   (o, ('0', 'ONum (NFin 0 1)', None), ('0', 'ONum (NFin 0 1)', None)), (o, ('-1', 'ONum (NFin (-1) 1)', None), ('0', 'ONum (NFin 0 1)', None)),
                   (o, ('true()', 'OBool true', None), ("'x'", f'OStr {slit("x")}', None))]
    amodel = core.run_coq_cases('C07', 'From EP Require Import C15.Keys C07.Model C07.XPath1 C07.XPath1Arith.',
                                [f'run_arith1 {o} ({a[1]}) ({b[1]})' for o, a, b in acases], chunk=500, tag='xp1a') if model_ok else [None] * len(acases)

    def num_class(v):
        # [kind, numerator, denominator] of a result of the implementation or of libxml2
        if isinstance(v, list):
            return ['sequence', len(v)]
        v = _Fr(v) if not isinstance(v, float) else v
        if isinstance(v, float):
            if _m.isnan(v):
                return [1, 0, 1]
            if _m.isinf(v):
                return [2, 0, 1] if v > 0 else [3, 0, 1]
            v = _Fr(v)
        return [0, v.numerator, v.denominator]

    def close(x, y):
        if x[0] != 0 or y[0] != 0:
            return x == y
        return abs(_Fr(x[1], x[2]) - _Fr(y[1], y[2])) <= _Fr(1, 10 ** 12) * max(1, abs(_Fr(y[1], y[2])))
    la_dis = 0
    for (o, a, b), mo in zip(acases, amodel):
        chk.evaluations += 1
        chk.count('xpath1-arith')
        doc = '<r>' + ''.join(f'<n0>{t}</n0>' for t in (a[2] or [])) + ''.join(f'<n1>{t}</n1>' for t in (b[2] or [])) + '</r>'
        expr = f'{a[0]} {AOPS[o]} {b[0]}'
        desc = {'parser': 'XPath1Parser', 'expr': expr, 'doc': doc}
        lroot = _LE.fromstring(doc)
        try:
            got = num_class(select(lroot, expr, parser=_P1))
        except ElementPathError as e:
            got = ['error ' + str(e.code)]
        except Exception as e:
            chk.violation('foreign-exception', desc, repr(e)[:200])
            continue
        if mo is None:
            continue
        want = list(mo)
        if not close(got, want):
            chk.corr_fail.append((desc, got, want))
            chk.violation('impl-vs-spec', desc, {'impl [kind, numerator, denominator] (kind 0 finite, 1 NaN, 2 INF, 3 -INF)': got, 'spec': want})
        if not close(num_class(lroot.xpath(expr)), want):
            la_dis += 1
            if len(chk.notes) < 8:
                chk.notes.append(f'spec/libxml2 disagreement: {expr} on {doc}: libxml2={lroot.xpath(expr)} spec={want}')
        chk.nontrivial.add(repr(('xp1a', expr, doc)))
    chk.distribution['xpath1 arithmetic: libxml2 vs spec disagreements'] = la_dis
    if la_dis:
        chk.obligations.append({'name': 'specification-agrees-with-libxml2(xpath1 arithmetic)', 'ok': False, 'detail': '; '.join(chk.notes[:3])})
    if lx_dis:
        chk.obligations.append({'name': 'specification-agrees-with-libxml2(xpath1 comparisons)', 'ok': False, 'detail': '; '.join(chk.notes[:3])})

    # ---- 2. general comparisons on integer sequences (exists semantics) + untyped conversions
    gcases = []
    for _ in range(300 if quick else 20000):
        gcases.append((rng.randrange(6), [rng.randint(0, 4) for _ in range(rng.randint(0, 3))], [rng.randint(0, 4) for _ in range(rng.randint(0, 3))]))
    gm = core.run_coq_cases('C07', IMPORTS, [f'run_general {o} {core.zlist(l)} {core.zlist(r)}' for o, l, r in gcases], chunk=700, tag='gen') if model_ok else [None] * len(gcases)
    GOP = ['=', '!=', '<', '<=', '>', '>=']
    for (o, l, r), mo in zip(gcases, gm):
        for P2 in (XPath2Parser, XPath31Parser):
            chk.evaluations += 1
            chk.count('general:' + GOP[o])
            got = select(None, f'$l {GOP[o]} $r', variables={'l': l, 'r': r}, item=1, parser=P2)
            if mo is not None and int(bool(got)) != mo[0]:
                chk.corr_fail.append(({'expr': f'$l {GOP[o]} $r', 'l': l, 'r': r}, got, mo[0]))
                chk.violation('impl-vs-spec', {'expr': f'$l {GOP[o]} $r', 'l': l, 'r': r}, {'impl': got, 'spec(model)': mo[0]})
        chk.nontrivial.add(repr(('g', o, l, r)))
    # double sequences with NaN in every position, under the 1.0 parser, 2.0 compatibility mode and 2.0 / 3.1
    from elementpath import XPath1Parser
    ncases = []
    for _ in range(250 if quick else 10000):
        ncases.append((rng.randrange(6), [rng.choice([0, 1, 2, 3, 99]) for _ in range(rng.randint(0, 3))],
                       [rng.choice([0, 1, 2, 3, 99]) for _ in range(rng.randint(0, 3))]))
    ncases += [(o, [99, 1], [2]) for o in range(6)] + [(o, [2], [99, 1]) for o in range(6)] + [(o, [1, 99], [0, 99]) for o in range(6)]
    nm = core.run_coq_cases('C07', IMPORTS, [f'run_general_nan {o} {core.zlist(l)} {core.zlist(r)}' for o, l, r in ncases], chunk=700, tag='gnan') if model_ok else [None] * len(ncases)
    fl = lambda v: [math.nan if x == 99 else float(x) for x in v]
    modes = [('1.0', lambda: XPath1Parser()), ('2.0-compat', lambda: XPath2Parser(compatibility_mode=True)), ('2.0', lambda: XPath2Parser()), ('3.1', lambda: XPath31Parser())]
    modes = [(n, f()) for n, f in modes]
    for (o, l, r), mo in zip(ncases, nm):
        for name, parser in modes:
            if name in ('1.0', '2.0-compat') and (not l or not r):
                pass
            chk.evaluations += 1
            chk.count('general-double:' + name)
            desc = {'expr': f'$l {GOP[o]} $r', 'l': [str(x) for x in fl(l)], 'r': [str(x) for x in fl(r)], 'parser': name}
            try:
                tok = parser.parse(f'$l {GOP[o]} $r')
                got = tok.evaluate(XPathContext(root0, variables={'l': fl(l), 'r': fl(r)}))
            except ElementPathError as e:
                chk.violation('impl-vs-spec', desc, 'raised ' + str(e))
                continue
            if mo is not None and int(bool(got)) != mo[0]:
                chk.corr_fail.append((desc, got, mo[0]))
                chk.violation('impl-vs-spec', desc, {'impl': got, 'spec(model)': mo[0]})
        chk.nontrivial.add(repr(('gn', o, l, r)))
    # untypedAtomic conversion rules of general comparisons (harness-side table from XPath 2.0 3.5.2)
    UT = [("xs:untypedAtomic('1')", "1", '=', True), ("xs:untypedAtomic('1.0')", "1", '=', True), ("xs:untypedAtomic('1')", "'1'", '=', True),
          ("xs:untypedAtomic('01')", "'1'", '=', False), ("xs:untypedAtomic('01')", "1", '=', True), ("xs:untypedAtomic('a')", "xs:untypedAtomic('a')", '=', True),
          ("xs:untypedAtomic('10')", "xs:untypedAtomic('9')", '<', True), ("xs:untypedAtomic('10')", "9", '<', False), ("xs:untypedAtomic('a')", "xs:untypedAtomic('b')", '<', True),
          ("xs:untypedAtomic('b')", "xs:untypedAtomic('a')", '>=', True), ("xs:untypedAtomic('10')", "xs:untypedAtomic('9')", '>', False),
          ("xs:untypedAtomic('9')", "'10'", '>', True), ("xs:untypedAtomic('9')", "10", '>', False),
          ("xs:untypedAtomic('true')", "true()", '=', True), ("xs:untypedAtomic('2000-01-01')", "xs:date('2000-01-01')", '=', True),
          ("(1, 2)", "(2, 3)", '=', True), ("(1, 2)", "(3, 4)", '=', False), ("()", "1", '=', False), ("(1, 2)", "(1, 2)", '!=', True),
          ("xs:double('NaN')", "xs:double('NaN')", '=', False), ("xs:double('NaN')", "xs:double('NaN')", '!=', True), ("1", "1.0", '=', True)]
    for a, b, op, want in UT:
        chk.evaluations += 1
        try:
            got = select(None, f'{a} {op} {b}', item=1, parser=XPath31Parser)
        except ElementPathError as e:
            got = str(e.code)
        if got != want:
            chk.violation('impl-vs-spec', {'expr': f'{a} {op} {b}'}, {'impl': got, 'spec': want})

    # ---- 3. value comparison: NaN, order laws on samples, doubles that differ by less than 1e-7 relative
    doubles = [0.0, 1.0, 1.00000001, 1.0000001, 1.000001, -1.0, 1e300, 1e300 * (1 + 1e-9), 5e-324, 1e-323, math.inf]
    for x, y in itertools.product(doubles, doubles):
        chk.evaluations += 1
        got = [select(None, f'$x {op} $y', variables={'x': x, 'y': y}, item=1, parser=XPath31Parser) for op in OPS]
        want = [x == y, x != y, x < y, x <= y, x > y, x >= y]
        if got != want:
            chk.violation('impl-vs-spec', {'x': repr(x), 'y': repr(y)}, {'impl [eq,ne,lt,le,gt,ge]': got, 'spec': want})
    # numeric type promotion in value comparisons: xs:integer / xs:decimal against xs:double are promoted to xs:double
    from decimal import Decimal
    big = [2 ** 53, 2 ** 53 + 1, 2 ** 53 + 2, -(2 ** 53) - 1, 10 ** 17 + 1, 10 ** 22, 10 ** 22 + 1, 3, 0]
    dbs = [float(2 ** 53), float(2 ** 53 + 2), 1e17, 1e22, 3.0, 0.1, 0.0]
    decs = [Decimal('0.1'), Decimal('0.1000000000000000055511151231257827'), Decimal('9007199254740993'), Decimal('3')]
    for x, y in list(itertools.product(big + decs, dbs)) + list(itertools.product(dbs, big + decs)) + list(itertools.product(big, decs)):
        chk.evaluations += 1
        chk.count('promotion')
        fx = float(x) if isinstance(y, float) else x
        fy = float(y) if isinstance(x, float) else y
        want = [fx == fy, fx != fy, fx < fy, fx <= fy, fx > fy, fx >= fy]
        try:
            got = [select(None, f'$x {op} $y', variables={'x': x, 'y': y}, item=1, parser=XPath31Parser) for op in OPS]
        except ElementPathError as e:
            got = str(e)
        if got != want:
            chk.violation('impl-vs-spec', {'x': repr(x), 'y': repr(y), 'ops': OPS}, {'impl': got, 'spec (promotion to xs:double)': want})
    for op in OPS:
        for x, y in ((math.nan, 1.0), (1.0, math.nan), (math.nan, math.nan)):
            chk.evaluations += 1
            got = select(None, f'$x {op} $y', variables={'x': x, 'y': y}, item=1, parser=XPath31Parser)
            if got != (op == 'ne'):
                chk.violation('impl-vs-spec', {'expr': f'$x {op} $y', 'x': repr(x), 'y': repr(y)}, {'impl': got, 'spec': op == 'ne'})

    # ---- 4. effective boolean value
    root = ET.XML('<r><a/></r>')
    from elementpath import get_node_tree
    IT = {0: None, 1: True, 2: False, 3: '', 4: 'x', 5: 0, 6: 7, 7: None}
    extra = {3: ["''", "xs:untypedAtomic('')", "xs:anyURI('')"], 4: ["'x'", "xs:untypedAtomic('0')", "xs:anyURI('u')", "'false'"],
             5: ["0", "0.0", "0e0", "xs:double('NaN')", "xs:float('-0')"], 6: ["7", "0.5", "-1e0", "xs:double('INF')"],
             7: ["xs:date('2000-01-01')", "xs:QName('a')", "xs:hexBinary('')", "xs:duration('P0D')"], 1: ["true()"], 2: ["false()"], 0: ["/r/a", "/r"]}
    seqs = [[]] + [[k] for k in range(8)] + [[a, b] for a in range(8) for b in range(8)]
    em = core.run_coq_cases('C07', IMPORTS, [f'run_ebv {core.zlist(s)}' for s in seqs], chunk=200, tag='ebv') if model_ok else [None] * len(seqs)
    for s, mo in zip(seqs, em):
        for _ in range(2 if s else 1):
            chk.evaluations += 1
            chk.count('ebv')
            expr_items = [rng.choice(extra[k]) for k in s]
            seq = '(' + ', '.join(expr_items) + ')'
            outs = []
            for tpl in ('boolean({s})', 'if ({s}) then true() else false()', 'not(not({s}))', '({s}) and true()', 'false() or ({s})'):
                try:
                    r = select(root, tpl.format(s=seq), parser=XPath31Parser)
                    outs.append(int(bool(r)))
                except ElementPathError as e:
                    outs.append(-1 if 'FORG0006' in str(e.code) else str(e.code))
            if mo is not None and any(o != mo[0] for o in outs):
                chk.corr_fail.append(({'sequence': seq}, outs, mo[0]))
                chk.violation('impl-vs-spec', {'sequence': seq, 'forms': 'boolean(), if, not(not()), and, or'}, {'impl': outs, 'spec(model)': mo[0]})
            chk.nontrivial.add(repr(('ebv', s)))
    chk.sample({'cells': len(cells), 'example': {'op': 'lt', 'types': ['str', 'qname'], 'model [chain accepts, F&O defines]': [1, 0]}})
    chk.rule = ('all 6 x 18 x 18 value-comparison cells with 2 x 2 representative values; seeded general comparisons on integer sequences of '
                'length 0-3 under two parsers + an untypedAtomic conversion table; doubles near each other / NaN; EBV of every sequence '
                'of <= 2 items over 8 item kinds in five syntactic forms; non-trivial = every cell / case, distinct')
    chk.obligations.append({'name': 'correspondence:impl==model(type check chain, exists semantics, EBV)', 'ok': not chk.corr_fail,
                            'detail': f'{len(chk.corr_fail)} disagreements' + (': ' + repr(chk.corr_fail[0])[:500] if chk.corr_fail else '')})


def replay(rec):
    print(rec)
    return 0
