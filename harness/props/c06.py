"""C06 — numeric operators and rounding functions.

proof:  coq/theories/C06/{Model,Proofs,Properties}.v over Gen/C06Kernels.v (T-expr: the integer kernels of
        'mod' and 'idiv' are re-translated from /repo's source on every run)
tie:    T-expr + correspondence of the dispatch model (promotion, special values, scaling) with
        select(None, '$a op $b', variables=...) on the same typed operands.
"""
import math
from decimal import Decimal
from fractions import Fraction

import core
import gen_c06

IMPORTS = 'From EP Require Import Gen.C06Kernels C06.Model C06.Run.'
KINDS = ['int', 'dec', 'flt', 'dbl']
BIN = {0: '$a + $b', 1: '$a - $b', 2: '$a * $b', 3: '$a idiv $b', 4: '$a mod $b', 5: '$a mod $b', 6: '$a div $b'}
UN = {0: 'round($a)', 1: 'floor($a)', 2: 'ceiling($a)', 3: 'abs($a)', 4: 'round-half-to-even($a, $p)', 5: 'round($a, $p)'}
ERR = {'FOAR0001': 1, 'FOAR0002': 2}


def norm_me(m, e):
    if m == 0:
        return (0, 0)
    while m % 10 == 0:
        m //= 10
        e += 1
    return (m, e)


def enc_num(v):
    from elementpath.datatypes import Float
    if isinstance(v, bool):
        raise TypeError(v)
    if isinstance(v, int):
        return (0, 0, v, 0)
    if isinstance(v, Decimal):
        sign, digits, exp = v.as_tuple()
        m = int(''.join(map(str, digits)) or '0')
        return (1, 0, -m if sign else m, exp)
    if isinstance(v, float):
        k = 2 if isinstance(v, Float) else 3
        if math.isnan(v):
            return (k, 1, 0, 0)
        if math.isinf(v):
            return (k, 2 if v > 0 else 3, 0, 0)
        if v == 0 and math.copysign(1, v) < 0:
            return (k, 4, 0, 0)
        sign, digits, exp = Decimal(float(v)).as_tuple()
        m = int(''.join(map(str, digits)) or '0')
        return (k, 0, -m if sign else m, exp)
    raise TypeError(type(v))


def canon(t):
    """(kind, cls, m, e) -> comparable"""
    k, c, m, e = t
    if c != 0:
        return (k, c, 0, 0)
    return (k, 0) + norm_me(m, e)


def impl_eval(expr, variables, parser):
    from elementpath import select, ElementPathError
    try:
        r = select(None, expr, variables=variables, item=1, parser=parser)
    except ElementPathError as e:
        code = (e.code or '').split(':')[-1]
        return ('err', ERR.get(code, code))
    except Exception as e:  # foreign exception
        return ('exc', repr(e))
    if r == []:
        return ('empty',)
    return ('val', r)


def pools(rng, quick):
    from elementpath.datatypes import Float
    ints = [0, 1, -1, 2, -2, 3, -3, 5, -5, 6, -6, 7, -7, 10, -10, 12, 10 ** 18, -10 ** 18, 2 ** 63, -2 ** 63]
    decs = [Decimal(s) for s in ('0', '0.5', '-0.5', '2.5', '-2.5', '6.5', '-7.5', '0.3', '-10', '1.25', '-1.25',
                                 '100', '0.001', '3', '-6', '2.0', '1.5', '-1.5', '0.25', '-0.35')]
    dbls = [0.0, -0.0, 0.5, -0.5, 1.5, -1.5, 2.5, -2.5, 6.5, -6.5, 7.5, -7.5, 6.0, -6.0, 2.0, -2.0, 4.0, 3.0, 0.1, -0.1,
            1e10, -1e10, 0.125, -0.375, 1e-3, math.inf, -math.inf, math.nan, 4503599627370495.5, 0.49999999999999994]
    flts = [Float(x) for x in (0.0, -0.0, 0.5, -0.5, 2.5, -2.5, 6.5, -6.5, 4.0, -6.0, 2.0, 3.0, math.inf, -math.inf, math.nan)]
    n = 40 if quick else 400
    for _ in range(n):
        ints.append(rng.randint(-10 ** rng.randint(1, 19), 10 ** rng.randint(1, 19)))
        decs.append(Decimal(rng.randint(-10 ** 8, 10 ** 8)).scaleb(-rng.randint(0, 6)))
        dbls.append(rng.randint(-2 ** 20, 2 ** 20) / 2 ** rng.randint(0, 12))
        flts.append(Float(rng.randint(-2 ** 12, 2 ** 12) / 2 ** rng.randint(0, 6)))
    return {'int': ints, 'dec': decs, 'dbl': dbls, 'flt': flts}


def run(chk):
    from elementpath import XPath1Parser, XPath2Parser
    from elementpath.xpath3 import XPath3Parser
    from elementpath.datatypes import Float
    rng = chk.rng
    quick = chk.tier == 'quick'
    chk.trusted += ['harness/py2coq.py + gen_c06.py (T-expr translator: Python int = Z, // = Z.div, % = Z.modulo)',
                    'modelled not verified: decimal.Decimal // and % truncate (Z.quot/Z.rem), math.fmod is the exact '
                    'truncated remainder, float // is the exact floor of the quotient for |q| < 2^52, '
                    'Decimal.quantize / math.floor / math.ceil / round() as written in C06/Model.v',
                    'finite double + - * div are hardware operations and are not modelled (partial)']
    st = gen_c06.generate()
    for k, v in st.items():
        chk.obligations.append({'name': 'translate:' + k, 'ok': v == 'ok', 'detail': v})
    for f in ('elementpath/xpath1/_xpath1_operators.py', 'elementpath/xpath2/_xpath2_operators.py',
              'elementpath/xpath1/_xpath1_functions.py', 'elementpath/xpath2/_xpath2_functions.py',
              'elementpath/xpath30/_xpath30_functions.py', 'elementpath/xpath_tokens/base.py'):
        chk.record_source(f)
    chk.forbidden_scan(['C06'])
    proved = all(v == 'ok' for v in st.values()) and chk.prove(
        ['theories/Gen/C06Kernels.v', 'theories/C06/Model.v', 'theories/C06/Proofs.v', 'theories/C06/Run.v'],
        'theories/C06/Properties.v')
    proved = chk.prove(['theories/C06/OpTable.v'], 'theories/C06/OpTableProperties.v') and proved
    model_ok = True
    if not proved:
        try:
            core.coq_make(['theories/Gen/C06Kernels.v', 'theories/C06/Model.v', 'theories/C06/Run.v', 'theories/C06/OpTable.v'])
        except core.CoqError as e:
            chk.notes.append('model does not build: ' + str(e))
            model_ok = False

    P = pools(rng, quick)
    cases = []
    # exhaustive grid over the boundary values of every type pair (first 20 of each pool) for idiv/mod/div-by-zero
    nb = 12 if quick else 20
    for ka in KINDS:
        for kb in KINDS:
            for a in P[ka][:nb]:
                for b in P[kb][:nb]:
                    for op in (3, 4):
                        cases.append(('bin', op, a, b))
                    if enc_num(b)[1] in (0, 4) and enc_num(b)[2] == 0:
                        cases.append(('bin', 6, a, b))
                    if ka in ('int', 'dec') and kb in ('int', 'dec'):
                        for op in (0, 1, 2):
                            cases.append(('bin', op, a, b))
    for _ in range(300 if quick else 30000):
        ka, kb = rng.choice(KINDS), rng.choice(KINDS)
        a, b = rng.choice(P[ka]), rng.choice(P[kb])
        op = rng.choice([3, 3, 4, 4, 5, 6] + ([0, 1, 2] if ka in ('int', 'dec') and kb in ('int', 'dec') else []))
        if op == 6:
            b = rng.choice([0, Decimal('0'), Decimal('-0.0'), 0.0, -0.0, Float(0.0), Float(-0.0)])
        cases.append(('bin', op, a, b))
    for k in KINDS:
        for a in P[k] if not quick else P[k][:40]:
            t = enc_num(a)
            if t[1] != 0:
                continue
            for f in (0, 1, 2, 3):
                cases.append(('un', f, a, 0))
            for p in (-2, -1, 0, 1, 2):
                cases.append(('un', 4, a, p))
                cases.append(('un', 5, a, p))
    # half-way values for the rounding functions
    for k10 in range(-45, 46, 5):
        for ctor in (lambda x: Decimal(x) / 10, lambda x: x / 10.0, lambda x: Float(x / 10.0), lambda x: x * 10):
            a = ctor(k10)
            for f in (0, 1, 2, 3):
                cases.append(('un', f, a, 0))
            for p in (-1, 0, 1):
                cases.append(('un', 4, a, p))
                cases.append(('un', 5, a, p))

    def guard(c):
        """stay inside the model's validity domain (stated in DESIGN.md): |quotient| < 2^52 for float idiv"""
        if c[0] == 'bin' and c[1] in (3, 4, 5):
            ta, tb = enc_num(c[2]), enc_num(c[3])
            if (ta[0] >= 2 or tb[0] >= 2) and (abs(ta[2]) > 10 ** 300 or abs(tb[2]) > 10 ** 300):
                return False
            if ta[1] == 0 and tb[1] == 0 and tb[2] != 0 and (ta[0] >= 2 or tb[0] >= 2):
                q = abs(Fraction(ta[2]) * Fraction(10) ** ta[3] / (Fraction(tb[2]) * Fraction(10) ** tb[3]))
                return q < 2 ** 52
        if c[0] == 'un':
            t = enc_num(c[2])
            return abs(t[2]) < 10 ** 20 and abs(t[3]) < 40
        return True
    cases = [c for c in cases if guard(c)]

    # ---- model
    bin_idx = [i for i, c in enumerate(cases) if c[0] == 'bin']
    un_idx = [i for i, c in enumerate(cases) if c[0] == 'un']
    model = {}
    if model_ok:
        def nlit(v, other=None):
            k, c, m, e = enc_num(v)
            if other is not None and k < 2 and enc_num(other)[0] >= 2:
                # modelled external: get_operands / Python turn the exact operand into the nearest double
                # (XPath numeric promotion); the kind tag stays, the value is that double's
                _, c, m, e = enc_num(float(v))
            return f'(NUM {k} {c} {core.zlit(m)} {core.zlit(e)})'
        vals = core.run_coq_cases('C06', IMPORTS, [f'run_bin {cases[i][1]} {nlit(cases[i][2], cases[i][3])} {nlit(cases[i][3], cases[i][2])}' for i in bin_idx],
                                  chunk=500, tag='bin')
        model.update(zip(bin_idx, vals))
        vals = core.run_coq_cases('C06', IMPORTS, [f'run_un {cases[i][1]} {nlit(cases[i][2])} {core.zlit(cases[i][3])}' for i in un_idx],
                                  chunk=500, tag='un')
        model.update(zip(un_idx, vals))

    # ---- implementation and comparison
    for i, c in enumerate(cases):
        chk.evaluations += 1
        if c[0] == 'bin':
            _, op, a, b = c
            parser = XPath1Parser if op == 5 else XPath2Parser
            r = impl_eval(BIN[op], {'a': a, 'b': b}, parser)
            chk.count(f'bin:{BIN[op]}:{KINDS[enc_num(a)[0]]}x{KINDS[enc_num(b)[0]]}')
            desc = {'expr': BIN[op], 'parser': parser.__name__, 'a': repr(a), 'b': repr(b)}
            if r[0] == 'exc':
                chk.violation('foreign-exception', desc, r[1])
                continue
            if r[0] == 'val':
                try:
                    got = ('val',) + canon(enc_num(r[1]))
                except TypeError:
                    got = ('other', repr(r[1]))
            else:
                got = r
            if i in model:
                mo, sp = model[i]
                mo = ('err', mo[1]) if mo[0] == 1 else ('val',) + canon(tuple(mo[1:]))
                sp = ('err', sp[1]) if sp[0] == 1 else ('val',) + canon(tuple(sp[1:]))
                ta, tb = enc_num(a), enc_num(b)
                finite = ta[1] == 0 and tb[1] == 0 and tb[2] != 0
                has_spec = op in (0, 1, 2, 3, 4, 6) or finite
                if got != mo:
                    chk.corr_fail.append((desc, got, mo))
                if sp == ('err', 3) and got in (('err', 1), ('err', 2)):
                    sp = got        # INF idiv 0, NaN idiv 0: both error conditions hold
                if has_spec and got != sp:
                    chk.violation('impl-vs-spec', desc, {'impl': got, 'spec': sp, 'model': mo})
                if finite or op == 6:
                    chk.nontrivial.add(repr(c))
        else:
            _, f, a, p = c
            parser = XPath3Parser if f == 5 else XPath2Parser
            r = impl_eval(UN[f], {'a': a, 'p': p}, parser)
            chk.count(f'un:{UN[f]}:{KINDS[enc_num(a)[0]]}')
            desc = {'expr': UN[f], 'parser': parser.__name__, 'a': repr(a), 'p': p}
            if r[0] != 'val':
                chk.violation('foreign-exception' if r[0] == 'exc' else 'unexpected-error', desc, r)
                continue
            v = r[1]
            ka = enc_num(a)[0]
            if enc_num(v)[0] != ka and not (f == 3 and False):
                chk.violation('result-type', desc, {'impl_type': type(v).__name__})
                continue
            if i in model:
                (mm, md, mnz), (sm, sd, snz) = model[i]
                scale = Fraction(10) ** (-p if f in (4, 5) else 0)
                want_m = Fraction(mm, md) * scale
                want_s = Fraction(sm, sd) * scale
                if isinstance(v, float):
                    gotv, want_m, want_s = float(v), float(want_m), float(want_s)
                else:
                    gotv = Fraction(v)
                if gotv != want_m:
                    chk.corr_fail.append((desc, repr(v), str(want_m)))
                if gotv != want_s:
                    chk.violation('impl-vs-spec', desc, {'impl': repr(v), 'spec': str(want_s)})
                elif isinstance(v, float) and v == 0:
                    neg = int(math.copysign(1, v) < 0)
                    if neg != mnz:
                        chk.corr_fail.append((desc, repr(v), 'negative zero' if mnz else 'positive zero'))
                    if neg != snz:
                        chk.violation('impl-vs-spec', desc, {'impl': repr(v), 'spec': '-0.0' if snz else '0.0'})
                chk.nontrivial.add(repr(c))
        if i % 1499 == 0:
            chk.sample({'case': repr(c), 'model': model.get(i)})
    # negative zero through floor/ceiling/round/abs (direct table; exploration-level support)
    for f, want_neg in ((0, True), (1, True), (2, True), (3, False)):
        for a in (-0.0, Float(-0.0)):
            r = impl_eval(UN[f], {'a': a, 'p': 0}, XPath2Parser)
            chk.evaluations += 1
            neg = r[0] == 'val' and r[1] == 0 and math.copysign(1, r[1]) < 0
            if want_neg and not neg:
                chk.violation('impl-vs-spec', {'expr': UN[f], 'a': repr(a)}, {'impl': repr(r), 'spec': '-0.0'})
    # ---- xs:float is binary32 (F&O / XSD): values and results are rounded to 24 bits of precision.  The implementation
    # keeps Python doubles inside the Float class (known finding C06-float-not-single-precision; a redesign)
    import struct as _struct
    from elementpath.xpath31 import XPath31Parser as _PF

    def f32(x):
        return _struct.unpack('f', _struct.pack('f', x))[0]
    for expr, dbl in (("xs:float('16777217')", 16777217.0), ("xs:float('0.1')", 0.1), ("xs:float(1) div xs:float(3)", 1 / 3),
                      ("xs:float('0.1') + xs:float('0.2')", 0.1 + 0.2), ("xs:float('1.00000001')", 1.00000001), ("xs:float('1.5')", 1.5),
                      ("xs:float(3) * xs:float('0.5')", 1.5), ("xs:float('16777216')", 16777216.0)):
        chk.evaluations += 1
        try:
            got = float(_PF().parse(f'xs:double({expr})').evaluate())
        except Exception as e:
            chk.violation('impl-raised', {'expr': expr}, repr(e)[:200])
            continue
        want = f32(dbl)
        if got != want:
            if got == dbl:
                chk.known('C06-float-not-single-precision', {'expr': f'xs:double({expr})', 'impl': repr(got), 'binary32': repr(want)})
            else:
                chk.violation('impl-vs-spec', {'expr': expr}, {'impl': repr(got), 'spec (binary32)': repr(want)})

    # ---- the arithmetic operator mapping over operand types (C06/OpTable.v): defined / XPTY0004 and the result type
    from decimal import Decimal as _D
    from elementpath.datatypes import (Float as _F, Date as _Date, DateTime as _DT, Time as _T, YearMonthDuration as _YM,
                                       DayTimeDuration as _DTD)
    from elementpath.xpath31 import XPath31Parser as _P31
    from elementpath import ElementPathError
    OT = ['int', 'dec', 'dbl', 'flt', 'untyped', 'str', 'anyURI', 'bool', 'qname', 'date', 'dateTime', 'time', 'gYear', 'duration', 'ymdur',
          'dtdur', 'hex', 'b64']
    OREP = {'int': ["7", "2"], 'dec': ["1.5", "2.5"], 'dbl': ["1e0", "2.5e0"], 'flt': ["xs:float('1')", "xs:float('2.5')"],
            'untyped': ["xs:untypedAtomic('2')"], 'str': ["'a'", "'2'"], 'anyURI': ["xs:anyURI('a')"], 'bool': ["true()"],
            'qname': ["xs:QName('a')"], 'date': ["xs:date('2000-01-01')", "xs:date('2001-06-01')"],
            'dateTime': ["xs:dateTime('2000-01-01T00:00:00')", "xs:dateTime('2000-01-01T12:00:00')"],
            'time': ["xs:time('10:00:00')", "xs:time('11:00:00')"], 'gYear': ["xs:gYear('2000')"], 'duration': ["xs:duration('P1Y1D')"],
            'ymdur': ["xs:yearMonthDuration('P1Y')", "xs:yearMonthDuration('P2M')"],
            'dtdur': ["xs:dayTimeDuration('P1D')", "xs:dayTimeDuration('PT2H')"], 'hex': ["xs:hexBinary('0A')"], 'b64': ["xs:base64Binary('Cg==')"]}
    OOPS = ['+', '-', '*', 'div', 'idiv', 'mod']

    def type_index(v):
        if isinstance(v, bool):
            return OT.index('bool')
        for cls, name in ((int, 'int'), (_D, 'dec'), (_F, 'flt'), (float, 'dbl'), (_YM, 'ymdur'), (_DTD, 'dtdur'), (_DT, 'dateTime'),
                          (_Date, 'date'), (_T, 'time')):
            if isinstance(v, cls):
                return OT.index(name)
        return -2
    ocells = [(o, a, b) for o in range(6) for a in range(len(OT)) for b in range(len(OT))]
    omodel = core.run_coq_cases('C06', 'From EP Require Import C06.OpTable.', [f'run_op {o} {a} {b}' for o, a, b in ocells],
                                chunk=700, tag='optable') if model_ok else [None] * len(ocells)
    for (o, a, b), mo in zip(ocells, omodel):
        got = set()
        for va in OREP[OT[a]]:
            for vb in OREP[OT[b]]:
                chk.evaluations += 1
                expr = f'{va} {OOPS[o]} {vb}'
                try:
                    got.add(type_index(_P31().parse(expr).evaluate()))
                except ElementPathError as e:
                    code = (e.code or '').split(':')[-1]
                    got.add(-1 if code == 'XPTY0004' else 'error ' + code)
                except Exception as e:
                    chk.violation('foreign-exception', {'expr': expr}, repr(e)[:200])
        chk.count('optable:' + OOPS[o])
        if mo is None:
            continue
        desc = {'op': OOPS[o], 'types': [OT[a], OT[b]], 'impl result types': sorted(map(str, got))}
        if got != {mo}:
            chk.corr_fail.append((desc, sorted(map(str, got)), mo))
            chk.violation('impl-vs-spec', desc, {'impl': sorted(OT[g] if isinstance(g, int) and g >= 0 else str(g) for g in got),
                                                 'spec': OT[mo] if mo >= 0 else 'XPTY0004'})
        if mo >= 0:
            chk.nontrivial.add(repr(('optable', o, a, b)))
    # ---- an operand that is empty at run time (a path that selects nothing): every arithmetic operator and rounding function
    # returns the empty sequence (XPath 2.0 3.4: 'if an operand is an empty sequence the result is an empty sequence')
    import xml.etree.ElementTree as _ET6
    from elementpath import select as _sel6, ElementPathError as _EPE6
    from elementpath.xpath2 import XPath2Parser as _P2
    from elementpath.xpath31 import XPath31Parser as _P31
    _r6 = _ET6.XML('<r><n>7</n></r>')
    for P in (_P2, _P31):
        for expr in [f'{a} {op} {b}' for op in ('+', '-', '*', 'div', 'idiv', 'mod') for a, b in (('x', '2'), ('2', 'x'), ('x', 'x'), ('x', 'n'), ('n', 'x'), ('(x)', '2.5'), ('1e0', 'x/y'))] + \
                ['-x', '+x', 'abs(x)', 'floor(x)', 'ceiling(x)', 'round(x)', 'round-half-to-even(x)', '-(x)', 'abs(x/y)']:
            chk.evaluations += 1
            chk.count('empty-operand')
            try:
                got = _sel6(_r6, expr, parser=P)
            except _EPE6 as ex:
                got = 'error ' + str(ex.code)
            if got != []:
                chk.violation('impl-vs-spec', {'parser': P.__name__, 'expr': expr, 'document': '<r><n>7</n></r>'}, {'impl': repr(got)[:200], 'spec': 'the empty sequence'})
            chk.nontrivial.add('empty-operand:' + expr)
    chk.rule = ('grid of boundary values of the four numeric types (type pairs x idiv/mod/div-by-zero/+,-,* on exact types) '
                'plus seeded random operands, and rounding functions on half-way values x precisions; non-trivial = '
                'finite operands with a non-zero divisor (or a zero divisor for div), distinct by (op, operands)')
    chk.obligations.append({'name': 'correspondence:impl==model(dispatch,special values,exact results)', 'ok': not chk.corr_fail,
                            'detail': f'{len(chk.corr_fail)} disagreements' + (': ' + repr(chk.corr_fail[0])[:400] if chk.corr_fail else '')})
    if chk.corr_fail and not any(not v['no_failing_input'] for v in chk.violations):
        d, got, mo = chk.corr_fail[0]
        chk.violation('correspondence-broken', d, {'impl': got, 'model': mo, 'all': [repr(x)[:300] for x in chk.corr_fail[:40]]}, no_input=True)


def replay(rec):
    print(rec)
    return 0
