"""C10 — atomic datatypes: lexical space, canonical form and casting are coherent.

proof:  coq/theories/C10/{Model,Proofs,Properties}.v : the bounds declared by the 13 integer classes (T-data) are the XSD
        bounds; constructor = lexical integer within bounds (all types, all strings); canonical integer strings re-parse to
        the same value; hexBinary / base64Binary codecs round-trip for all octet sequences (so casts between them preserve
        the value).
tie:    T-data (Gen/C10Tables.v regenerated from the classes) + correspondence: generated lexical forms (valid, near-valid,
        decorated with whitespace) through the Python class, is_valid, xs:T(), cast as, castable as, and from
        xs:untypedAtomic, against the Coq recognizers / make_int / codecs.
search: canonical strings are fixed points with equal value and hash; double canonical form against the F&O rule; the
        three cast paths agree for the other built-in types.
PARTIAL: lexical spaces of date/time, duration, QName, URI and string-derived types are not modelled (path agreement only).
"""
import math
import re

import core

IMPORTS = 'From EP Require Import Gen.C10Tables C10.Model C10.Run.'
INT_TYPES = ['integer', 'nonPositiveInteger', 'negativeInteger', 'long', 'int', 'short', 'byte', 'nonNegativeInteger', 'positiveInteger',
             'unsignedLong', 'unsignedInt', 'unsignedShort', 'unsignedByte']


def collapse(s):
    return ' '.join(x for x in re.split('[ \t\n\r]+', s) if x)


def zs(s):
    return core.zlist([ord(c) for c in s])


def decorate(rng, s):
    r = rng.random()
    if r < 0.6:
        return s
    if r < 0.75:
        return rng.choice([' ', '\n', '\t ', '  ']) + s + rng.choice(['', ' ', '\r\n'])
    if r < 0.85 and s and s[0] not in '+-':
        return '+' + s
    if r < 0.95 and s and s[0].isdigit():
        return '0' * rng.randint(1, 3) + s
    return s


BAD_NUM = ['1_0', '١٢', '１２', '1.0', '', '-', '+', '+-1', '1e3', '0x1', '1 2', '1,000', 'abc', '--1', '1-', '١', ' ', '1.', '.5', '1E', 'e5',
           '1e+', 'INF', '+INF', '-INF', 'NaN', 'inf', 'nan', 'Infinity', '1__0', '1_', '_1', '0b1', '1L', '1f', 'true', '1.5.2', '1e1.5', '.', '+.', '1e 5', '0.0e0', '-0']


def canonical_double(x):
    """F&O 19.1.2.2 casting xs:double / xs:float to xs:string"""
    if math.isnan(x):
        return 'NaN'
    if math.isinf(x):
        return 'INF' if x > 0 else '-INF'
    if x == 0:
        return '-0' if math.copysign(1, x) < 0 else '0'
    from decimal import Decimal
    r = repr(x)
    d = Decimal(r)
    if 1e-6 <= abs(x) < 1e6:
        t = format(d, 'f')
        if '.' in t:
            t = t.rstrip('0').rstrip('.')
        return t
    sign, digits, exp = d.as_tuple()
    digits = ''.join(map(str, digits)).rstrip('0') or '0'
    e = len(''.join(map(str, d.as_tuple().digits))) - 1 + exp
    mant = digits[0] + '.' + (digits[1:] or '0')
    return ('-' if sign else '') + mant + 'E' + str(e)


def run(chk):
    from decimal import Decimal
    from elementpath import select, ElementPathError
    from elementpath.xpath31 import XPath31Parser
    from elementpath import datatypes as dt
    rng = chk.rng
    quick = chk.tier == 'quick'
    chk.trusted += ['harness whitespace collapse (XSD whiteSpace=collapse) applied before the Coq recognizers in sections 1-6 (section 7 runs C10/Whitespace.v collapse inside the model)',
                    'Gen/C10Tables.v: bounds dumped from the classes (T-data)',
                    "CPython's codecs / base64 / int() / float() / Decimal are externals reached through the constructors",
                    'PARTIAL: QName, URI and string-derived lexical spaces: agreement of the cast paths only (date / time / duration lexical spaces: C10/DateLex.v)']
    for f in ('elementpath/datatypes/numeric.py', 'elementpath/datatypes/proxies.py', 'elementpath/datatypes/binary.py', 'elementpath/datatypes/any_types.py',
              'elementpath/xpath2/_xpath2_constructors.py', 'elementpath/xpath2/_xpath2_operators.py', 'elementpath/xpath_tokens/base.py', 'elementpath/helpers.py'):
        chk.record_source(f)
    chk.forbidden_scan(['C10'])
    import sys as _sys
    _sys.path.insert(0, core.VERIF + '/harness')
    import gen_c10
    gen_c10.generate()          # T-data / source-shape facts regenerated from /repo on every run
    chk.trusted.append('harness/shape.py: AST lookup of the statements mirrored by the hand model (Gen/C10Shape.v)')
    proved = chk.prove(['theories/Gen/C10Shape.v', 'theories/C10/Model.v', 'theories/C10/Proofs.v', 'theories/C10/Run.v'], 'theories/C10/Properties.v')
    proved = chk.prove(['theories/C10/CastTable.v'], 'theories/C10/CastTableProperties.v') and proved
    proved = chk.prove(['theories/C15/Keys.v', 'theories/C10/CastValue.v'], 'theories/C10/CastValueProperties.v') and proved
    model_ok = True
    if not proved:
        try:
            core.coq_make(['theories/C10/Model.v', 'theories/C10/Run.v'])
        except core.CoqError as e:
            chk.notes.append('model does not build: ' + str(e))
            model_ok = False

    def paths(tname, s, cls=None):
        """outcomes of the code paths: ('val', string value) | ('err', code)"""
        out = {}
        v = {'s': s}
        for label, expr in (('constructor', f'string(xs:{tname}($s))'), ('cast', f'string($s cast as xs:{tname})'),
                            ('castable', f'$s castable as xs:{tname}'), ('untyped', f'string(xs:{tname}(xs:untypedAtomic($s)))'),
                            ('untyped-cast', f'string(xs:untypedAtomic($s) cast as xs:{tname})')):
            try:
                r = select(None, expr, variables=v, parser=XPath31Parser, item=1)
                out[label] = ('val', r)
            except ElementPathError as ex:
                out[label] = ('err', (ex.code or '').split(':')[-1])
            except Exception as ex:
                out[label] = ('exc', repr(ex)[:120])
        if cls is not None:
            try:
                out['class'] = ('val', str(cls(s)) if not isinstance(cls(s), bool) else str(cls(s)).lower())
            except (ValueError, ArithmeticError, TypeError) as ex:
                out['class'] = ('err', type(ex).__name__)
            except Exception as ex:
                out['class'] = ('exc', repr(ex)[:120])
        return out

    def agree(desc, out, want_ok, want_val=None, label_known=None):
        """all paths succeed iff want_ok (castable: the boolean), and the values equal want_val when given"""
        for label, o in out.items():
            if o[0] == 'exc':
                chk.violation('foreign-exception', desc | {'path': label}, o[1])
                continue
            if label == 'castable':
                ok = o == ('val', True)
                if o[0] != 'val':
                    chk.violation('impl-vs-spec', desc | {'path': label}, {'castable raised': o[1]})
                    continue
            else:
                ok = o[0] == 'val'
            if ok != want_ok:
                chk.violation('impl-vs-spec', desc | {'path': label}, {'impl': o, 'in the lexical / value space': want_ok})
            elif ok and want_val is not None and label != 'castable' and o[1] != want_val:
                chk.violation('impl-vs-spec', desc | {'path': label}, {'impl': o[1], 'spec': want_val})

    # ---------------- 1. integer types
    cases = []
    for t, name in enumerate(INT_TYPES):
        cls = next(c for c in vars(dt).values() if isinstance(c, type) and getattr(c, 'name', None) == name and issubclass(c, int))
        lo, hi = cls._lower_bound, cls._higher_bound
        vals = {0, 1, -1, 127, 128, -128, -129, 255, 256, 32767, 32768, -32768, -32769, 65535, 65536, 2 ** 31 - 1, 2 ** 31, -2 ** 31, -2 ** 31 - 1,
                2 ** 32 - 1, 2 ** 32, 2 ** 63 - 1, 2 ** 63, -2 ** 63, -2 ** 63 - 1, 2 ** 64 - 1, 2 ** 64, 10 ** 30}
        vals = sorted(vals) if not quick else sorted(v for v in vals if any(abs(v - b) <= 1 for b in (lo, hi, 0) if b is not None) or rng.random() < 0.2)
        for v in vals:
            cases.append((t, name, cls, decorate(rng, str(v))))
        for _ in range(3 if quick else 60):
            cases.append((t, name, cls, decorate(rng, str(rng.randint(-300, 300) * rng.choice([1, 1, 10 ** 9])))))
        for b in (BAD_NUM if not quick else rng.sample(BAD_NUM, 8)):
            cases.append((t, name, cls, b))
    terms = [f'(run_int {t}%nat {zs(collapse(s))}, run_lex 0 {zs(collapse(s))})' for t, _, _, s in cases]
    model = core.run_coq_cases('C10', IMPORTS, terms, chunk=300, tag='int') if model_ok else [None] * len(cases)
    for (t, name, cls, s), mo in zip(cases, model):
        chk.evaluations += 1
        chk.count('int:' + name)
        if mo is None:
            continue
        (mok, mz), (ok, z), lex = (mo[0], mo[1]), tuple(mo[2]), mo[3]      # Coq prints ((a, b), (c, d), e) as (a, b, (c, d), e)
        desc = {'type': 'xs:' + name, 'string': ascii(s)}
        out = paths(name, s, cls)
        agree(desc, out, bool(ok), str(z) if ok else None)
        got_ok = out.get('class', ('err',))[0] == 'val'
        if got_ok != bool(mok):
            chk.corr_fail.append((desc, out.get('class'), (mok, mz)))
        iv = cls.is_valid(collapse(s))
        if iv != bool(lex):
            chk.violation('impl-vs-spec', desc, {'is_valid (collapsed)': iv, 'lexical space': bool(lex)})
        chk.nontrivial.add(name + ':' + s)

    # ---------------- 2. lexical spaces of decimal / boolean / double / float / hexBinary / base64Binary
    def num_string():
        r = rng.random()
        m = str(rng.randint(0, 9999))
        if r < 0.3:
            m += '.' + ''.join(rng.choice('0123456789') for _ in range(rng.randint(0, 4)))
        elif r < 0.4:
            m = '.' + str(rng.randint(0, 999))
        if rng.random() < 0.3:
            m = rng.choice('+-') + m
        return m
    lexcases = []
    for _ in range(60 if quick else 2000):
        lexcases.append((1, 'decimal', decorate(rng, num_string())))
        d = num_string() + (rng.choice('eE') + rng.choice(['', '+', '-']) + str(rng.randint(0, 30)) if rng.random() < 0.6 else '')
        lexcases.append((3, rng.choice(['double', 'float']), decorate(rng, d)))
        h = ''.join(rng.choice('0123456789abcdefABCDEF') for _ in range(rng.choice([0, 2, 4, 6, 3, 1])))
        lexcases.append((5, 'hexBinary', decorate(rng, h)))
        import base64 as _b64
        b = _b64.b64encode(bytes(rng.randrange(256) for _ in range(rng.randint(0, 7)))).decode()
        r = rng.random()
        if r < 0.25 and b:
            k = rng.randrange(len(b))
            b = b[:k] + rng.choice(['=', 'A', '*', ' ', '\n', '']) + b[k + 1:]
        elif r < 0.4 and len(b) > 4:
            k = rng.randrange(1, len(b))
            b = b[:k] + rng.choice([' ', '\n', '\t']) + b[k:]
        lexcases.append((6, 'base64Binary', b))
    for b in BAD_NUM:
        lexcases += [(1, 'decimal', b), (3, 'double', b), (3, 'float', b), (2, 'boolean', b)]
    for b in ['true', 'false', '1', '0', ' true ', 'TRUE', 'True', '00', '01', 'yes', 't', '']:
        lexcases.append((2, 'boolean', b))
    for b in ['YWJj\nZGVm', 'YWJj ZGVm', 'YW Jj', 'YQ==', 'YQ=', 'YR==', 'YWI=', 'YWJ=', '====', 'Y', 'YQ= =', 'Y Q = =', 'YWJjZA', 'YWJj=ZGVm', ' YQ== ', 'YQ==YQ==']:
        lexcases.append((6, 'base64Binary', b))
    for b in ['0A', '0a', '0', '0G', ' 0A ', '0 A', '', 'FFFF']:
        lexcases.append((5, 'hexBinary', b))
    terms = []
    for k, name, s in lexcases:
        c = collapse(s)
        if k == 6:
            c = c.replace(' ', '')
        terms.append(f'run_lex {k} {zs(c)}')
    model = core.run_coq_cases('C10', IMPORTS, terms, chunk=400, tag='lex') if model_ok else [None] * len(lexcases)
    CLS = {'decimal': dt.DecimalProxy, 'double': dt.DoubleProxy, 'float': dt.Float, 'boolean': dt.BooleanProxy, 'hexBinary': dt.HexBinary,
           'base64Binary': dt.Base64Binary}
    for (k, name, s), mo in zip(lexcases, model):
        chk.evaluations += 1
        chk.count('lex:' + name)
        if mo is None:
            continue
        desc = {'type': 'xs:' + name, 'string': ascii(s)}
        out = paths(name, s)
        agree(desc, out, bool(mo))
        # the classes take no XSD version: '+INF' (XSD 1.1) is in their lexical space
        mo_cls = True if (k == 3 and collapse(s) == '+INF') else bool(mo)
        iv = CLS[name].is_valid(collapse(s))
        if iv != mo_cls:
            chk.violation('impl-vs-spec', desc, {'is_valid (collapsed)': iv, 'lexical space': mo_cls})
        try:
            CLS[name](s)
            cok = True
        except (ValueError, ArithmeticError, TypeError):
            cok = False
        if cok != mo_cls:
            chk.violation('impl-vs-spec', desc, {'class constructor succeeds': cok, 'lexical space': mo_cls})
        chk.nontrivial.add(name + ':' + s)

    # ---------------- 3. canonical strings: fixed points, equal value and hash; integers against print_int
    ints = [0, -1, 7, -120, 10 ** 25, -10 ** 19, 2 ** 63 - 1] + [rng.randint(-10 ** 12, 10 ** 12) for _ in range(20 if quick else 500)]
    pm = core.run_coq_cases('C10', IMPORTS, [f'run_print {core.zlit(z)}' for z in ints], chunk=400, tag='print') if model_ok else [None] * len(ints)
    for z, mo in zip(ints, pm):
        chk.evaluations += 1
        chk.count('canonical:integer')
        got = select(None, 'string(xs:integer($s))', variables={'s': ' +00' + str(abs(z)) if z >= 0 else ' -00' + str(abs(z))}, parser=XPath31Parser, item=1)
        if mo is not None and got != ''.join(map(chr, mo)):
            chk.violation('impl-vs-spec', {'integer': z}, {'impl canonical': got, 'model': ''.join(map(chr, mo))})
    doubles = [1e-7, 1.5e-10, 1e-6, 1e6, 999999.5, 1e7, 123456789012345678.0, 0.1, 100.0, 1.25, -2.5e-300, 5e-324, 1.7976931348623157e308, 0.000001, 0.00001234,
               1e5, 12345.678, -0.0, 0.0, math.inf, -math.inf, math.nan, 1e21, 1e22, 2.0 ** 70]
    doubles += [rng.uniform(-1, 1) * 10 ** rng.randint(-30, 30) for _ in range(20 if quick else 2000)]
    for x in doubles:
        chk.evaluations += 1
        chk.count('canonical:double')
        s1 = select(None, 'string($x)', variables={'x': x}, parser=XPath31Parser, item=1)
        desc = {'double': repr(x)}
        try:
            back = select(None, 'xs:double($s)', variables={'s': s1}, parser=XPath31Parser, item=1)
            s2 = select(None, 'string(xs:double($s))', variables={'s': s1}, parser=XPath31Parser, item=1)
        except ElementPathError as ex:
            chk.violation('impl-vs-spec', desc, {'canonical string': s1, 'does not re-parse': str(ex)})
            continue
        same = (back == x) or (math.isnan(back) and math.isnan(x))
        if not same or s2 != s1 or (not math.isnan(x) and hash(back) != hash(x)):
            chk.violation('impl-vs-spec', desc, {'canonical string': s1, 're-parsed': repr(back), 'string again': s2})
        elif s1 != canonical_double(x):
            chk.known('C10-double-canonical-form', desc | {'impl': s1, 'F&O canonical': canonical_double(x)})
        chk.nontrivial.add('d' + repr(x))
    for s in ['1.50', '+0.0', '-0', '000.100', '12', '1e0', '.5', '100.', '123456789012345678901234567890.123456789']:
        for t in ('decimal',):
            if 'e' in s:
                continue
            chk.evaluations += 1
            s1 = select(None, f'string(xs:{t}($s))', variables={'s': s}, parser=XPath31Parser, item=1)
            s2 = select(None, f'string(xs:{t}($s))', variables={'s': s1}, parser=XPath31Parser, item=1)
            v1 = select(None, f'xs:{t}($s)', variables={'s': s}, parser=XPath31Parser, item=1)
            v2 = select(None, f'xs:{t}($s)', variables={'s': s1}, parser=XPath31Parser, item=1)
            want = format(Decimal(s), 'f')
            want = (want.rstrip('0').rstrip('.') if '.' in want else want) or '0'
            want = '0' if want in ('-0', '+0') else want
            if s1 != s2 or v1 != v2 or hash(v1) != hash(v2) or s1 != want:
                chk.violation('impl-vs-spec', {'decimal': s}, {'canonical': s1, 'again': s2, 'F&O canonical': want})

    # ---------------- 4. casts hexBinary <-> base64Binary, integer <-> decimal <-> string
    bcases = [bytes(rng.randrange(256) for _ in range(rng.randint(0, 9))) for _ in range(40 if quick else 2000)] + [b'', b'\x00', b'\xff\xff', b'foob']
    hm = core.run_coq_cases('C10', IMPORTS, [f'(run_hex_to_b64 {zs(b.hex().upper())}, run_b64_to_hex {zs(__import__("base64").b64encode(b).decode())})' for b in bcases],
                            chunk=300, tag='bin') if model_ok else [None] * len(bcases)
    import base64
    for b, mo in zip(bcases, hm):
        chk.evaluations += 1
        chk.count('cast:binary')
        h, b64 = b.hex().upper(), base64.b64encode(b).decode()
        got1 = select(None, 'string(xs:base64Binary(xs:hexBinary($h)))', variables={'h': h}, parser=XPath31Parser, item=1)
        got2 = select(None, 'string(xs:hexBinary(xs:base64Binary($b)))', variables={'b': b64}, parser=XPath31Parser, item=1)
        got3 = select(None, 'string(xs:hexBinary(xs:base64Binary(xs:hexBinary($h))))', variables={'h': h.lower()}, parser=XPath31Parser, item=1)
        eq = select(None, 'xs:hexBinary($h) eq xs:hexBinary(xs:base64Binary($b))', variables={'h': h, 'b': b64}, parser=XPath31Parser, item=1)
        if mo is not None:
            (ok1, m1, (ok2, m2)) = mo[0], mo[1], mo[2]
            want1, want2 = ''.join(map(chr, m1)), ''.join(map(chr, m2))
            if not ok1 or not ok2 or got1 != want1 or got2 != want2 or got3 != h or eq is not True:
                chk.violation('impl-vs-spec', {'octets': h}, {'hex->base64': got1, 'model': want1, 'base64->hex': got2, 'model ': want2, 'round trip': got3, 'eq': eq})
        chk.nontrivial.add('b' + h)
    for z in ints[:40]:
        chk.evaluations += 1
        chk.count('cast:numeric')
        r = select(None, '(xs:integer(xs:decimal($z)), xs:integer(string(xs:decimal($z))), xs:decimal(string($z)) eq $z, string(xs:decimal($z)), xs:integer(xs:double($s)))',
                   variables={'z': z, 's': z % 10 ** 6}, parser=XPath31Parser, item=1)
        if r != [z, z, True, str(z), z % 10 ** 6]:
            chk.violation('impl-vs-spec', {'integer': z}, {'integer<->decimal<->string casts': repr(r)})

    # ---------------- 5. the other built-in types: the cast paths agree with each other
    OTHER = {
        'date': ['2000-01-01', '2000-1-1', '2000-02-30', '2000-01-01Z', '2000-01-01+14:00', '2000-01-01+15:00', ' 2000-01-01 ', '-0001-01-01', '0000-01-01', '12000-01-01', ''],
        'dateTime': ['2000-01-01T00:00:00', '2000-01-01T24:00:00', '2000-01-01T25:00:00', '2000-01-01 00:00:00', '2000-01-01T00:00:00.123Z', '2000-01-01T00:00'],
        'time': ['12:00:00', '24:00:00', '12:00', '12:00:00.5-05:00', '12:60:00'],
        'duration': ['P1Y', 'P', 'PT', 'P1Y2M3DT4H5M6.7S', '-P1D', 'P-1D', 'P1S', 'PT1S', '1Y'],
        'dayTimeDuration': ['P1D', 'P1Y', 'PT1H', 'P1DT', '-PT0S'], 'yearMonthDuration': ['P1Y', 'P1D', 'P1Y2M', 'P2M1Y'],
        'gYear': ['2000', '200', '-2000', '2000Z', '02000', '0000'], 'gMonth': ['--01', '--13', '--1', '--01Z'], 'gDay': ['---01', '---32', '---1'],
        'gYearMonth': ['2000-01', '2000-13', '2000-1'], 'gMonthDay': ['--01-01', '--02-30', '--02-29', '--13-01'],
        'QName': ['a', 'a:b', ':a', 'a:', '1a', 'xs:int', 'a b'], 'anyURI': ['http://a', '', 'a b', '%', '%zz', '::', 'http://[::1]'],
        'NCName': ['a', 'a:b', '1a', 'a-b', '', ' a '], 'Name': ['a:b', '1a', ':a'], 'NMTOKEN': ['1a', 'a b', ''], 'language': ['en', 'en-US', 'e', 'abcdefghi', 'en-'],
        'token': ['a  b', ' a'], 'normalizedString': ['a\tb'], 'ID': ['a', '1'], 'string': ['', ' a '], 'untypedAtomic': ['x'],
    }
    for tname, strings in OTHER.items():
        for s in strings:
            chk.evaluations += 1
            chk.count('paths:' + tname)
            out = paths(tname, s)
            ok = {k: (o == ('val', True) if k == 'castable' else o[0] == 'val') for k, o in out.items()}
            vals = {o[1] for k, o in out.items() if k != 'castable' and o[0] == 'val'}
            desc = {'type': 'xs:' + tname, 'string': ascii(s)}
            if any(o[0] == 'exc' for o in out.values()):
                chk.violation('foreign-exception', desc, {k: o for k, o in out.items() if o[0] == 'exc'})
            elif len(set(ok.values())) > 1 or len(vals) > 1:
                chk.violation('impl-vs-spec', desc, {'paths disagree': {k: repr(o) for k, o in out.items()}})
            chk.nontrivial.add(tname + ':' + s)
    # ---------------- 6. lexical spaces of the date / time / duration types against the recognisers of C10/DateLex.v, in both
    #                    XSD year numberings: class.fromstring, is_valid, xs:T(), cast as, castable as, xs:T(untypedAtomic)
    date_lexical_section(chk, rng, quick, model_ok)
    # ---------------- 7. the whiteSpace facet: only #x20 #x9 #xA #xD are white space (C10/Whitespace.v collapse, then the recogniser)
    whitespace_section(chk, rng, quick, model_ok)
    # ---- the casting table (F&O 19.1) over 21 source x 21 target types: castable as / cast as / constructor function
    CT = ['untypedAtomic', 'string', 'float', 'double', 'decimal', 'integer', 'duration', 'yearMonthDuration', 'dayTimeDuration', 'dateTime',
          'time', 'date', 'gYearMonth', 'gYear', 'gMonthDay', 'gDay', 'gMonth', 'boolean', 'base64Binary', 'hexBinary', 'anyURI']
    CVAL = {'untypedAtomic': "xs:untypedAtomic('%s')", 'string': "'%s'", 'float': "xs:float('1')", 'double': "1e0", 'decimal': "1.0", 'integer': "1",
            'duration': "xs:duration('P1Y1D')", 'yearMonthDuration': "xs:yearMonthDuration('P1Y')", 'dayTimeDuration': "xs:dayTimeDuration('P1D')",
            'dateTime': "xs:dateTime('2000-01-01T00:00:00')", 'time': "xs:time('10:00:00')", 'date': "xs:date('2000-01-01')",
            'gYearMonth': "xs:gYearMonth('2000-01')", 'gYear': "xs:gYear('2000')", 'gMonthDay': "xs:gMonthDay('--01-01')", 'gDay': "xs:gDay('---01')",
            'gMonth': "xs:gMonth('--01')", 'boolean': "true()", 'base64Binary': "xs:base64Binary('Cg==')", 'hexBinary': "xs:hexBinary('0A')",
            'anyURI': "xs:anyURI('a')"}
    # a lexical form of each target type, for the string / untypedAtomic sources (M in the table: depends on the value)
    LEX = {'untypedAtomic': 'a', 'string': 'a', 'float': '1', 'double': '1', 'decimal': '1', 'integer': '1', 'duration': 'P1Y1D',
           'yearMonthDuration': 'P1Y', 'dayTimeDuration': 'P1D', 'dateTime': '2000-01-01T00:00:00', 'time': '10:00:00', 'date': '2000-01-01',
           'gYearMonth': '2000-01', 'gYear': '2000', 'gMonthDay': '--01-01', 'gDay': '---01', 'gMonth': '--01', 'boolean': 'true',
           'base64Binary': 'Cg==', 'hexBinary': '0A', 'anyURI': 'a'}
    ccells = [(a, b) for a in range(len(CT)) for b in range(len(CT))]
    cmodel = core.run_coq_cases('C10', 'From EP Require Import C10.CastTable.', [f'run_cast {a} {b}' for a, b in ccells],
                                chunk=500, tag='casttable') if model_ok else [None] * len(ccells)

    def cev(expr):
        try:
            return ('val', select(None, expr, item=1, parser=XPath31Parser))
        except ElementPathError as e:
            return ('err', (e.code or '').split(':')[-1])
        except Exception as e:
            return ('exc', repr(e)[:120])
    for (a, b), mo in zip(ccells, cmodel):
        chk.evaluations += 1
        chk.count('cast-table')
        if mo is None:
            continue
        src = CVAL[CT[a]] % LEX[CT[b]] if '%s' in CVAL[CT[a]] else CVAL[CT[a]]
        desc = {'source': CT[a], 'target': CT[b], 'value': src}
        c = cev(f'{src} castable as xs:{CT[b]}')
        k = cev(f'{src} cast as xs:{CT[b]}')
        f = cev(f'xs:{CT[b]}({src})')
        for o in (c, k, f):
            if o[0] == 'exc':
                chk.violation('foreign-exception', desc, o[1])
        allowed = bool(mo)
        ok_c = c == ('val', allowed)
        ok_k = (k[0] == 'val') if allowed else k == ('err', 'XPTY0004')
        ok_f = (f[0] == 'val') if allowed else f == ('err', 'XPTY0004')
        if not (ok_c and ok_k):
            chk.corr_fail.append((desc, {'castable': c, 'cast': k[:2]}, 'allowed' if allowed else 'XPTY0004'))
            chk.violation('impl-vs-spec', desc, {'castable as': str(c), 'cast as': str(k)[:80], 'table': 'allowed' if allowed else 'not allowed'})
        if not ok_f:
            if not allowed and f[0] == 'err' and f[1] in ('FORG0001', 'FORG0006') and ok_c and ok_k:
                chk.known('C10-constructor-error-code-outside-casting-table', desc | {'constructor': f[1], 'spec': 'XPTY0004'})
            else:
                chk.violation('impl-vs-spec', desc, {'constructor function': str(f)[:80], 'table': 'allowed' if allowed else 'not allowed'})
        if allowed and k[0] == 'val' and f[0] == 'val' and not (k[1] == f[1] or (k[1] != k[1] and f[1] != f[1])):
            chk.violation('impl-vs-spec', desc, {'cast as': repr(k[1]), 'constructor function': repr(f[1])})
        chk.nontrivial.add(repr(('cast', a, b)))
    # ---- value-level casts in the numeric / boolean family (C10/CastValue.v)
    from fractions import Fraction as _Fr
    from decimal import Decimal as _Dc
    NUMS = [('0', 0, 1), ('1', 1, 1), ('-1', -1, 1), ('7', 7, 1), ('1.9', 19, 10), ('-1.9', -19, 10), ('0.5', 1, 2), ('-0.5', -1, 2),
            ('2.5', 5, 2), ('-2.5', -5, 2), ('0.0', 0, 1), ('-0.0', 0, 1), ('1e0', 1, 1), ('1.9e0', 19, 10), ('-1.9e0', -19, 10), ('0e0', 0, 1),
            ('-0e0', 0, 1), ('2.5e0', 5, 2), ('1e30', 10 ** 30, 1), ("xs:double('NaN')", 'NNaN', 0), ("xs:double('INF')", 'NPInf', 0),
            ("xs:double('-INF')", 'NNInf', 0), ("xs:float('1.5')", 3, 2), ("xs:float('-0.5')", -1, 2), ("xs:float('NaN')", 'NNaN', 0),
            ("xs:float('-INF')", 'NNInf', 0), ('99999999999999999999.9', 999999999999999999999, 10), ('-7.0', -7, 1)]
    for _ in range(20 if quick else 400):
        n, d = rng.randint(-5000, 5000), rng.choice([1, 2, 4, 5, 8, 10, 16, 100])
        NUMS.append((f'{_Dc(n) / _Dc(d)}', n, d))
        if d in (1, 2, 4, 8, 16):
            NUMS.append((f'{float(_Fr(n, d))!r}e0' if 'e' not in repr(float(_Fr(n, d))) else f'xs:double("{float(_Fr(n, d))!r}")', n, d))
    def exact(expr, n, d):
        # xs:double / xs:float literals denote the binary value nearest to the decimal numeral: use it exactly
        if isinstance(n, int) and ('e' in expr or 'E' in expr):
            fr = _Fr(float(_Fr(n, d)))
            return fr.numerator, fr.denominator
        return n, d
    NUMS = [(e,) + exact(e, n, d) for e, n, d in NUMS]
    vterms, vmeta = [], []
    for expr, n, d in NUMS:
        lit = n if isinstance(n, str) else (f'NFin ({n}) {d}')
        for target in (0, 1, 2):
            vterms.append(f'run_cast_value {target} ({lit})')
            vmeta.append((expr, target))
    vmodel = core.run_coq_cases('C10', 'From EP Require Import C15.Keys C10.CastValue.', vterms, chunk=400, tag='castvalue') if model_ok else [None] * len(vterms)
    TGT = {0: 'integer', 1: 'decimal', 2: 'boolean'}
    for (expr, target), mo in zip(vmeta, vmodel):
        chk.evaluations += 1
        chk.count('cast-value')
        if mo is None:
            continue
        desc = {'value': expr, 'target': 'xs:' + TGT[target]}
        want = ('err', 'FOCA0002') if list(mo) == [-1] else ('val', _Fr(mo[1], mo[2]))
        for form in (f'{expr} cast as xs:{TGT[target]}', f'xs:{TGT[target]}({expr})'):
            o = cev(form)
            got = ('val', _Fr(int(o[1]) if isinstance(o[1], bool) else o[1])) if o[0] == 'val' else o
            if got != want:
                chk.corr_fail.append((desc | {'form': form}, str(got), str(want)))
                chk.violation('impl-vs-spec', desc | {'form': form}, {'impl': str(got), 'spec': str(want)})
        c = cev(f'{expr} castable as xs:{TGT[target]}')
        if c != ('val', want[0] == 'val'):
            chk.violation('impl-vs-spec', desc, {'castable as': str(c), 'spec': want[0] == 'val'})
        chk.nontrivial.add(repr(('castvalue', expr, target)))
    for b in ('true()', 'false()'):
        for t, w in (('integer', int(b == 'true()')), ('decimal', int(b == 'true()')), ('double', float(b == 'true()')), ('float', float(b == 'true()'))):
            o = cev(f'{b} cast as xs:{t}')
            chk.evaluations += 1
            if o != ('val', w):
                chk.violation('impl-vs-spec', {'value': b, 'target': 'xs:' + t}, {'impl': str(o), 'spec': w})
    chk.rule = ('13 integer types x {boundary values +-1, random values, malformed numerals} decorated with whitespace / sign / leading zeros, through '
                'the class, is_valid, xs:T(), cast as, castable as and from xs:untypedAtomic; generated and mutated lexical forms of decimal, '
                'boolean, double, float, hexBinary, base64Binary; canonical strings of integers, decimals and doubles; hexBinary <-> base64Binary '
                'on random octets; integer <-> decimal <-> string; fixed candidate strings for 23 other types (agreement of the paths); '
                'non-trivial = distinct (type, string)')
    chk.obligations.append({'name': 'correspondence:impl==model(lexical spaces, bounds, codecs)', 'ok': not chk.corr_fail and not any(v['kind'] == 'impl-vs-spec' for v in chk.violations),
                            'detail': (repr(chk.corr_fail[0])[:400] if chk.corr_fail else 'see violations')})


def date_lexical_section(chk, rng, quick, model_ok):
    from decimal import Decimal
    from elementpath import select, ElementPathError
    from elementpath.xpath31 import XPath31Parser
    from elementpath import datatypes as dt
    proved = chk.prove(['theories/Common/PyCalendar.v', 'theories/C10/Model.v', 'theories/C10/DateLex.v', 'theories/C10/DateLexProofs.v'],
                       'theories/C10/DateLexProperties.v')
    KINDS = {'date': (0, dt.Date10, dt.Date), 'dateTime': (1, dt.DateTime10, dt.DateTime), 'time': (2, dt.Time, dt.Time),
             'gYear': (3, dt.GregorianYear10, dt.GregorianYear), 'gYearMonth': (4, dt.GregorianYearMonth10, dt.GregorianYearMonth),
             'gMonth': (5, dt.GregorianMonth, dt.GregorianMonth), 'gDay': (6, dt.GregorianDay, dt.GregorianDay),
             'gMonthDay': (7, dt.GregorianMonthDay, dt.GregorianMonthDay), 'duration': (8, dt.Duration, dt.Duration),
             'dayTimeDuration': (9, dt.DayTimeDuration, dt.DayTimeDuration), 'yearMonthDuration': (10, dt.YearMonthDuration, dt.YearMonthDuration)}
    SEEDS = {
        'date': ['2000-01-01', '2000-02-29', '1900-02-29', '-0001-02-29', '0000-02-29', '-0004-02-29', '-0005-02-29', '12000-12-31Z', '2000-01-01+14:00',
                 '2000-01-01-13:59', '0001-01-01', '-0000-01-01', '02000-01-01', '99999-06-30+00:00', '2000-04-31', '2000-13-01', '2000-00-10', '2000-01-00',
                 '2000-01-01+14:01', '2000-01-01+5:00', '200-01-01', '2000-1-01', '+2000-01-01', '2000-01-01z', '2000-01-01Z ', '2100-02-29', '2400-02-29'],
        'dateTime': ['2000-01-01T00:00:00', '2000-01-01T24:00:00', '2000-01-01T24:00:00.000', '2000-01-01T23:59:59.999999Z', '-0001-12-31T24:00:00',
                     '2000-01-01T00:00:60', '2000-01-01T12:00:00.5+05:30', '2000-01-01T24:00:01', '2000-02-30T00:00:00', '10000-01-01T00:00:00-14:00',
                     '2000-01-01T24:00:00.001', '2000-01-01T12:00:00.', '2000-01-01T12:00', '2000-01-01 12:00:00', '2000-01-01t12:00:00', '2000-01-01T1:00:00',
                     '0000-01-01T00:00:00', '2000-01-01T23:59:59.1234567'],
        'time': ['00:00:00', '24:00:00', '23:59:59.5Z', '12:00:00+14:00', '12:00:00-14:01', '24:00:00.0', '24:00:00.1', '12:60:00', '12:00:60', '25:00:00',
                 '12:00:00.', '1:00:00', '12:00', '12:00:00+00:00', '12:00:00-00:00', '12:00:00Z+01:00'],
        'duration': ['P1Y', 'P1Y2M3DT4H5M6.7S', '-P1D', 'PT1S', 'PT1.5S', 'P', 'PT', 'P1YT', 'P1M2Y', 'PT1M1H', 'P1.5Y', 'PT.5S', 'PT1.S', 'P0D', '-PT0S', 'P1Y1D',
                     '+P1D', 'P-1D', 'p1d', 'P1DT1.5M', 'P1D1H', 'PT1H1D', 'P01Y', 'PT0.000001S', 'PT1S1S', 'P1Y1Y', '--P1D', 'P1DT0.1234567S'],
        'dayTimeDuration': ['P1D', 'PT1H', 'P1DT1H1M1.1S', 'P1Y', '-P1DT', 'P1M', 'PT1M', 'P0Y', 'P0M1D', 'P0Y0M0DT0S', '-P0D', 'PT36H', 'P'],
        'yearMonthDuration': ['P1Y', 'P1M', 'P1Y1M', 'P1D', '-P1Y', 'P1YT', 'P0D', 'P1YT0S', 'P14M', '-P0M', 'P1Y0D', 'P'],
        'gYear': ['2000', '-2000', '0000', '-0001', '20000', '02000', '2000Z', '2000+14:00', '-0000', '200', '2000-01', '+2000'],
        'gYearMonth': ['2000-01', '2000-13', '-0001-12Z', '0000-01', '2000-00', '2000-1', '20000-12+01:00', '2000-01-01'],
        'gMonth': ['--01', '--12Z', '--13', '--00', '--1', '-01', '--01--', '--01+14:00'], 'gDay': ['---01', '---31+01:00', '---32', '---00', '---1', '--01'],
        'gMonthDay': ['--02-29', '--02-30', '--12-31Z', '--04-31', '--00-01', '--01-00', '--1-01', '--06-30-05:00', '--11-31']}
    CH = '0123456789-+:.TZPYMDHS '
    cases = []
    for name, seeds in SEEDS.items():
        ss = list(seeds)
        for s0 in seeds:
            for _ in range(6 if quick else 150):
                t = list(s0)
                for _ in range(rng.randint(1, 2)):
                    r = rng.random()
                    if r < 0.4 and t:
                        t[rng.randrange(len(t))] = rng.choice(CH)
                    elif r < 0.7:
                        t.insert(rng.randint(0, len(t)), rng.choice(CH))
                    elif t:
                        del t[rng.randrange(len(t))]
                ss.append(''.join(t))
        for s1 in dict.fromkeys(ss):
            s1 = decorate(rng, s1) if rng.random() < 0.1 else s1
            for v11 in (False, True):
                cases.append((name, v11, s1))
    model = core.run_coq_cases('C10', IMPORTS, [f"run_datelex {KINDS[n][0]} {'true' if v else 'false'} {zs(collapse(s1))}" for n, v, s1 in cases],
                               chunk=500, tag='datelex', preamble='Open Scope Z_scope.') if model_ok else [None] * len(cases)

    def lex_year_of(v, v11):
        y = v.year
        return y if (y > 0 or not v11) else y + 1

    def tz_of(v):
        return 9999 if v.tzinfo is None else int(v.tzinfo.offset.total_seconds()) // 60

    def fields(name, v, v11):
        if name == 'date':
            return [lex_year_of(v, v11), v.month, v.day, tz_of(v)]
        if name == 'dateTime':
            return [lex_year_of(v, v11), v.month, v.day, v.hour, v.minute, v.second, v.microsecond, tz_of(v)]
        if name == 'time':
            return [v.hour, v.minute, v.second, v.microsecond, tz_of(v)]
        if name == 'gYear':
            return [lex_year_of(v, v11), tz_of(v)]
        if name == 'gYearMonth':
            return [lex_year_of(v, v11), v.month, tz_of(v)]
        if name == 'gMonth':
            return [v.month, tz_of(v)]
        if name == 'gDay':
            return [v.day, tz_of(v)]
        if name == 'gMonthDay':
            return [v.month, v.day, tz_of(v)]
        return [v.months, int(Decimal(v.seconds) * 1000000)]

    canon = []
    for (name, v11, s1), mo in zip(cases, model):
        chk.evaluations += 1
        chk.count('datelex:' + name)
        if mo is None:
            continue
        mo = list(mo)
        want = bool(mo)
        cls = KINDS[name][2 if v11 else 1]
        desc = {'type': 'xs:' + name, 'xsd_version': '1.1' if v11 else '1.0', 'string': ascii(s1)}
        try:
            v = cls.fromstring(s1)
            got = True
        except (ValueError, TypeError, OverflowError):
            got, v = False, None
        except Exception as e:
            chk.violation('foreign-exception', desc, repr(e)[:200])
            continue
        if got != want:
            chk.violation('impl-vs-spec', desc, {'constructor accepts': got, 'in the lexical space': want})
            continue
        try:
            iv = cls.is_valid(collapse(s1))
        except Exception as e:
            chk.violation('foreign-exception', desc | {'path': 'is_valid'}, repr(e)[:200])
            continue
        if iv != want:
            chk.violation('impl-vs-spec', desc, {'is_valid (collapsed)': iv, 'in the lexical space': want})
        # the fields of the value (24:00:00 is the next day: the components are C11's; fractions beyond microseconds are cut)
        if want and not (name in ('dateTime', 'time') and mo[4 if name == 'dateTime' else 1] == 24):
            fs = fields(name, v, v11)
            frac_long = name in ('duration', 'dayTimeDuration') and '.' in s1 and len(s1.split('.')[1].rstrip('S ')) > 6
            if fs != mo[1:] and not frac_long:
                chk.violation('impl-vs-spec', desc, {'fields of the value': fs, 'fields of the lexical form': mo[1:]})
        # the canonical string of the value is a fixed point that re-parses to an equal value with an equal hash
        if want:
            try:
                s2 = str(v)
                v2 = cls.fromstring(s2)
                if str(v2) != s2 or not (v2 == v) or hash(v2) != hash(v):
                    chk.violation('impl-vs-spec', desc, {'canonical string': s2, 're-parsed': repr(v2), 'canonical again': str(v2),
                                                         'equal': v2 == v, 'equal hash': hash(v2) == hash(v)})
                canon.append((name, v11, s2, fields(name, v, v11)))
            except Exception as e:
                chk.violation('impl-vs-spec' if isinstance(e, (ValueError, TypeError)) else 'foreign-exception', desc,
                              {'canonical string does not re-parse': repr(e)[:200]})
        # the XPath paths
        P = XPath31Parser(xsd_version='1.1') if v11 else XPath31Parser()
        for label, expr in (('constructor', f'xs:{name}($s)'), ('cast', f'$s cast as xs:{name}'), ('castable', f'$s castable as xs:{name}'),
                            ('untyped', f'xs:{name}(xs:untypedAtomic($s))')):
            try:
                from elementpath import XPathContext
                r = P.parse(expr).evaluate(XPathContext(root=_lex_root(), variables={'s': s1}))
                ok = (r is True) if label == 'castable' else True
            except ElementPathError:
                ok = False
            except Exception as e:
                chk.violation('foreign-exception', desc | {'path': label}, repr(e)[:200])
                continue
            if ok != want:
                chk.violation('impl-vs-spec', desc | {'path': label}, {'succeeds': ok, 'in the lexical space': want})
        if want:
            chk.nontrivial.add(repr(('datelex', name, v11, s1)))

    # the canonical strings are in the lexical space and denote the fields of the value they were printed from
    canon = list(dict.fromkeys((n, v, s2, tuple(f)) for n, v, s2, f in canon))
    cm = core.run_coq_cases('C10', IMPORTS, [f"run_datelex {KINDS[n][0]} {'true' if v else 'false'} {zs(s2)}" for n, v, s2, _ in canon],
                            chunk=500, tag='datecanon', preamble='Open Scope Z_scope.') if model_ok else []
    for (n, v, s2, f), mo in zip(canon, cm):
        chk.evaluations += 1
        chk.count('datelex:canonical ' + n)
        mo = list(mo)
        if not mo or (mo[1:] != list(f) and not (n in ('dateTime', 'time') and 24 in mo[1:6])):
            chk.violation('impl-vs-spec', {'type': 'xs:' + n, 'xsd_version': '1.1' if v else '1.0', 'canonical string': s2},
                          {'fields of the value': list(f), 'fields of the canonical string (model)': mo})


def whitespace_section(chk, rng, quick, model_ok):
    from elementpath import select, ElementPathError
    from elementpath.xpath31 import XPath31Parser
    chk.prove(['theories/C10/Model.v', 'theories/C10/Whitespace.v', 'theories/C10/WhitespaceProofs.v'], 'theories/C10/WhitespaceProperties.v')
    XML_WS = ' \t\n\r'
    OTHER_WS = ['\u3000', '\xa0', '\x0c', '\x0b', '\x1c', '\x1f', '\x85', '\u2003', '\u2028', '\u2029', '\u200b', '\ufeff', '\u1680', '\u202f']
    # (type, valid lexical form, model kind for run_ws or None when the type has no recogniser)
    TYPES = [('integer', '12', 0), ('decimal', '1.5', 1), ('boolean', 'true', 2), ('boolean', '0', 2), ('double', '1e0', 3), ('float', '-INF', 3),
             ('hexBinary', '0A', 5), ('base64Binary', 'Cg==', 6), ('date', '2000-01-01', 100), ('dateTime', '2000-01-01T00:00:00Z', 101),
             ('time', '12:00:00', 102), ('gYear', '2000', 103), ('gYearMonth', '2000-01', 104), ('gMonth', '--01', 105), ('gDay', '---01', 106),
             ('gMonthDay', '--01-01', 107), ('duration', 'P1D', 108), ('dayTimeDuration', 'PT1S', 109), ('yearMonthDuration', 'P1Y', 110),
             ('language', 'en', None), ('NCName', 'a', None), ('Name', 'a:b', None), ('NMTOKEN', '1a', None), ('ID', 'a', None),
             ('byte', '1', None), ('unsignedInt', '1', None), ('positiveInteger', '1', None), ('long', '-1', None)]
    cases = []
    for t, v, k in TYPES:
        for w in list(XML_WS) + OTHER_WS + [' \t', '\r\n ', ' \u3000', '\xa0 ']:
            for raw in (w + v, v + w, w + v + w):
                cases.append((t, v, k, w, raw))
        mid = len(v) // 2
        for w in (' ', '\t', '\u3000'):          # white space inside the lexical form is never dropped
            cases.append((t, v, k, w, v[:mid] + w + v[mid:]))
    # list types: the items are separated by XML white space and by nothing else (the other space characters are not name characters)
    for t in ('NMTOKENS', 'IDREFS', 'ENTITIES'):
        for w in list(XML_WS) + OTHER_WS + [' \t', '\r\n ']:
            cases.append((t, 'a b', 'list', w, 'a' + w + 'b'))
    idx = [i for i, c in enumerate(cases) if isinstance(c[2], int)]
    model = dict(zip(idx, core.run_coq_cases('C10', IMPORTS, [f'run_ws {cases[i][2]} {zs(cases[i][4])}' for i in idx], chunk=500, tag='ws',
                                             preamble='Open Scope Z_scope.'))) if model_ok else {}
    for i, (t, v, k, w, raw) in enumerate(cases):
        chk.evaluations += 1
        chk.count('whitespace:' + t)
        inner = not (raw.startswith(w) or raw.endswith(w))
        if k == 'list':
            want = all(c in XML_WS for c in w)
        elif i in model:
            want = bool(model[i])
        elif inner:
            want = None                      # no recogniser for the type: only the edge positions are judged
        else:
            want = all(c in XML_WS for c in w)
        if want is None:
            continue
        desc = {'type': 'xs:' + t, 'string': ascii(raw)}
        for label, expr in (('castable', f'$s castable as xs:{t}'), ('constructor', f'xs:{t}($s)'), ('cast', f'$s cast as xs:{t}'),
                            ('untyped', f'xs:{t}(xs:untypedAtomic($s))')):
            try:
                r = select(None, expr, variables={'s': raw}, parser=XPath31Parser, item=1)
                ok = (r is True) if label == 'castable' else True
            except ElementPathError:
                ok = False
            except Exception as e:
                chk.violation('foreign-exception', desc | {'path': label}, repr(e)[:200])
                continue
            if ok != want:
                chk.violation('impl-vs-spec', desc | {'path': label}, {'succeeds': ok, 'in the lexical space after whiteSpace collapse': want})
        chk.nontrivial.add(repr(('ws', t, raw)))


_LEX_ROOT = []


def _lex_root():
    if not _LEX_ROOT:
        import xml.etree.ElementTree as ET
        _LEX_ROOT.append(ET.XML('<r/>'))
    return _LEX_ROOT[0]


def replay(rec):
    print(rec)
    return 0
