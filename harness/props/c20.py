"""C20 — schema-aware evaluation assigns sound XSD types and never changes node selection.

proof:  coq/theories/C20/{Model,Proofs,Properties}.v : the typing walk of apply_schema (instance and content models in
        lockstep, element matches cached per content model identity) assigns to every element the type its parent's content
        model declares (every coherent schema, instance, truthful cache); cache irrelevance; erasing types gives back the
        instance; a cache keyed by type name is refuted (anonymous types collide).
tie:    correspondence: generated schemas (anonymous and named complex types re-declaring the same child names with different
        types, attributes, simple content, lists, unions, restrictions) with valid instances, typed by
        XPathContext(root, schema=xmlschema proxy) under XSD 1.0 and 1.1, against the Coq walk and the declarative typing.
search: typed values against the schema processor's decode; instance of element(*, T) / attribute(*, T) for the declared and
        base types; arithmetic on typed nodes; selection with and without the schema.
PARTIAL: xsi:type, wildcards, substitution groups, assertion-based and not fully valid schemas are not modelled.
"""
import core

IMPORTS = 'From EP Require Import C20.Model C20.Run.'
SIMPLE = [('xs:string', 'abc'), ('xs:integer', ' 12 '), ('xs:int', '-5'), ('xs:decimal', '1.50'), ('xs:boolean', 'true'), ('xs:date', '2001-02-03'),
          ('xs:double', '1e3'), ('xs:NMTOKENS', 'a b'), ('small', '5'), ('un', '2000-01-01'), ('sl', '1 2'), ('xs:token', ' x  y '), ('xs:unsignedByte', '200')]
BASES = {'xs:integer': ['xs:integer', 'xs:decimal', 'xs:anyAtomicType'], 'xs:int': ['xs:int', 'xs:long', 'xs:integer', 'xs:decimal'],
         'xs:decimal': ['xs:decimal', 'xs:anyAtomicType'], 'xs:boolean': ['xs:boolean'], 'xs:date': ['xs:date', 'xs:anyAtomicType'], 'xs:double': ['xs:double'],
         'xs:string': ['xs:string', 'xs:anyAtomicType'], 'small': ['xs:integer', 'xs:decimal'], 'xs:token': ['xs:token', 'xs:normalizedString', 'xs:string'],
         'xs:unsignedByte': ['xs:unsignedByte', 'xs:unsignedShort', 'xs:nonNegativeInteger', 'xs:integer']}
NOT_BASES = {'xs:integer': ['xs:int', 'xs:string', 'xs:double'], 'xs:int': ['xs:short', 'xs:string'], 'xs:date': ['xs:dateTime', 'xs:string'],
             'small': ['xs:int', 'xs:string'], 'xs:string': ['xs:token', 'xs:integer'], 'xs:decimal': ['xs:integer'], 'xs:token': ['xs:NCName', 'xs:language']}
NAMES = ['a', 'b', 'v', 'w', 'x']
PRELUDE = '''<xs:simpleType name="small"><xs:restriction base="xs:integer"><xs:minInclusive value="0"/></xs:restriction></xs:simpleType>
<xs:simpleType name="un"><xs:union memberTypes="small xs:date"/></xs:simpleType>
<xs:simpleType name="sl"><xs:list itemType="small"/></xs:simpleType>'''


class Gen:
    def __init__(self, rng):
        self.rng = rng
        self.gid = 0
        self.named = {}          # name -> complex type

    def new_gid(self):
        self.gid += 1
        return self.gid

    def complex(self, depth, name=None):
        rng = self.rng
        gid = self.new_gid()
        decls = []
        for nm in rng.sample(NAMES, rng.randint(1, 3)):
            r = rng.random()
            if depth > 0 and r < 0.45:
                t = self.complex(depth - 1)
            elif self.named and r < 0.6:
                t = rng.choice(list(self.named.values()))
            else:
                t = ('s', rng.randrange(len(SIMPLE)))
            decls.append((nm, t, rng.choice([1, 1, 2])))
        attrs = []
        for an in rng.sample(['k', 'q'], rng.randint(0, 2)):
            attrs.append((an, rng.choice([1, 2, 3, 4, 5, 8]), rng.random() < 0.3))
        simple_content = None
        return {'kind': 'c', 'gid': gid, 'decls': decls, 'attrs': attrs, 'name': name}

    def schema(self):
        rng = self.rng
        for nm in ('CT1', 'CT2')[:rng.randint(0, 2)]:
            self.named[nm] = self.complex(1, name=nm)
        self.ext = rng.random() < 0.5
        root = self.complex(2)
        return root


def type_xsd(t, indent=''):
    if t[0] == 's' if isinstance(t, tuple) else False:
        return None
    out = indent + '<xs:complexType' + (f' name="{t["name"]}"' if t['name'] and indent == '' else '') + '><xs:sequence>'
    for nm, ct, mx in t['decls']:
        occ = ' maxOccurs="2"' if mx == 2 else ''
        if isinstance(ct, tuple):
            out += f'<xs:element name="{nm}" type="{SIMPLE[ct[1]][0]}"{occ}/>'
        elif ct['name']:
            out += f'<xs:element name="{nm}" type="{ct["name"]}"{occ}/>'
        else:
            out += f'<xs:element name="{nm}"{occ}>' + type_xsd(ct, indent + ' ') + '</xs:element>'
    out += '</xs:sequence>'
    for an, si, dflt in t['attrs']:
        out += f'<xs:attribute name="{an}" type="{SIMPLE[si][0]}"' + (f' default="{SIMPLE[si][1].strip()}"' if dflt else '') + '/>'
    return out + '</xs:complexType>'


def instance_xml(rng, name, t, present_attrs):
    if isinstance(t, tuple):
        return f'<{name}>{SIMPLE[t[1]][1]}</{name}>'
    attrs = ''
    for an, si, dflt in t['attrs']:
        if not dflt or rng.random() < 0.5:
            attrs += f' {an}="{SIMPLE[si][1].strip()}"'
    body = ''
    for nm, ct, mx in t['decls']:
        for _ in range(mx if mx == 1 else rng.randint(1, 2)):
            body += instance_xml(rng, nm, ct, present_attrs)
    return f'<{name}{attrs}>{body}</{name}>'


def type_coq(t):
    if isinstance(t, tuple):
        return f'(TSimple {t[1]})'
    return '(TComplex %d [%s])' % (t['gid'], '; '.join(f'({NAMES.index(nm)}, {type_coq(ct)})' for nm, ct, _ in t['decls']))


def inst_coq(elem):
    return '(Elem %d [%s])' % (NAMES.index(elem.tag) if elem.tag in NAMES else 9, '; '.join(inst_coq(c) for c in elem))


TYPED_XSD = """<xs:schema xmlns:xs="http://www.w3.org/2001/XMLSchema">
<xs:simpleType name="ints"><xs:list itemType="xs:int"/></xs:simpleType>
<xs:simpleType name="iu"><xs:union memberTypes="xs:int xs:date xs:string"/></xs:simpleType>
<xs:simpleType name="small"><xs:restriction base="xs:int"><xs:maxInclusive value="10"/></xs:restriction></xs:simpleType>
<xs:complexType name="price"><xs:simpleContent><xs:extension base="xs:decimal"><xs:attribute name="cur" type="xs:NMTOKEN"/></xs:extension></xs:simpleContent></xs:complexType>
<xs:element name="r"><xs:complexType><xs:sequence>
 <xs:element name="i" type="xs:int"/><xs:element name="l" type="ints"/><xs:element name="u" type="iu" maxOccurs="3"/>
 <xs:element name="s" type="small"/><xs:element name="p" type="price"/><xs:element name="d" type="xs:date"/>
 <xs:element name="b" type="xs:boolean"/><xs:element name="f" type="xs:double"/><xs:element name="q" type="xs:QName"/>
 <xs:element name="n" type="xs:int" nillable="true"/>
 <xs:element name="e"><xs:complexType><xs:sequence><xs:element name="k" type="xs:int"/></xs:sequence></xs:complexType></xs:element>
 <xs:element name="t" type="xs:token"/>
</xs:sequence><xs:attribute name="a" type="xs:int"/><xs:attribute name="al" type="ints"/></xs:complexType></xs:element>
</xs:schema>"""
TYPED_XML = ('<r a=" 7 " al="1 2 3" xmlns:xsi="http://www.w3.org/2001/XMLSchema-instance" xmlns:p="urn:p"><i> 42 </i><l>1 2  3</l><u>5</u><u>2000-01-01</u>'
             '<u>x y</u><s>7</s><p cur="EUR">1.50</p><d>2000-01-01Z</d><b>1</b><f>1e2</f><q>p:name</q><n xsi:nil="true"/><e><k>3</k></e><t>  a   b </t></r>')
# expression -> expected value rendered as (type name, string) items; the typed values are what the schema processor decodes
TYPED_CASES = [
    ("data(i)", [('Int', '42')]), ("i + 1", [('int', '43')]), ("i eq 42", [('bool', 'True')]), ("i lt 100", [('bool', 'True')]),
    ("count(data(l))", [('int', '3')]), ("sum(l)", [('int', '6')]), ("sum(@al)", [('int', '6')]), ("max(l)", [('Int', '3')]), ("avg(l)", [('int', '2')]),
    ("sum((i, s))", [('int', '49')]), ("l = 2", [('bool', 'True')]), ("@a + 1", [('int', '8')]),
    ("xs:string(i)", [('str', '42')]), ("i cast as xs:string", [('str', '42')]), ("string(i)", [('str', ' 42 ')]),
    ("xs:string(b)", [('str', 'true')]), ("b cast as xs:string", [('str', 'true')]), ("xs:string(f)", [('str', '100')]),
    ("xs:string(t)", [('str', 'a b')]), ("string-length(t)", [('int', '3')]), ("xs:string(p)", [('str', '1.5')]),
    ("i castable as xs:date", [('bool', 'False')]), ("i castable as xs:string", [('bool', 'True')]), ("(i treat as element()) is i", [('bool', 'True')]),
    ("data(n)", []), ("empty(data(n))", [('bool', 'True')]), ("nilled(n)", [('bool', 'True')]), ("n castable as xs:int", [('bool', 'False')]),
    ("abs(i)", [('int', '42')]), ("round(p)", [('Decimal', '2')]), ("floor(p)", [('Decimal', '1')]), ("p * 2", [('Decimal', '3.00')]),
    ("data(u[2]) instance of xs:date", [('bool', 'True')]), ("data(u[3]) instance of xs:string", [('bool', 'True')]), ("u[1] + 1", [('int', '6')]),
    ("xs:string(u[2])", [("str", "2000-01-01")]), ("u[2] cast as xs:string", [("str", "2000-01-01")]), ("xs:integer(/r/u[1])", [("Integer", "5")]), ("/r/u[1] cast as xs:integer", [("Integer", "5")]),
    ("d + xs:dayTimeDuration('P1D')", [('Date10', '2000-01-02Z')]), ("namespace-uri-from-QName(data(q))", [('AnyURI', 'urn:p')]),
    ("b and true()", [('bool', 'True')]), ("b eq true()", [('bool', 'True')]), ("f div 4", [('float', '25.0')]), ("e/k + 1", [('int', '4')]),
    ("l instance of element(*, ints)", [('bool', 'True')]), ("s instance of element(*, small)", [('bool', 'True')]), ("s instance of element(*, xs:int)", [('bool', 'True')]),
    ("p instance of element(*, price)", [('bool', 'True')]), ("p instance of element(*, xs:decimal)", [('bool', 'True')]), ("u[2] instance of element(*, iu)", [('bool', 'True')]),
    ("@al instance of attribute(*, ints)", [('bool', 'True')]), ("i instance of element(*, small)", [('bool', 'False')]), ("l instance of element(*, xs:int)", [('bool', 'False')]),
    ("e instance of element(*, xs:anyType)", [('bool', 'True')]), ("i instance of element(*, xs:anyType)", [('bool', 'True')]), ("e instance of element(*, price)", [('bool', 'False')]),
    ("i instance of element(*, price)", [('bool', 'False')]), ("i instance of element(*, xs:untyped)", [('bool', 'False')]), ("n instance of element(*, xs:int?)", [('bool', 'True')]),
    ("n instance of element(*, xs:int)", [('bool', 'False')]), ("i instance of element(i, xs:int)", [('bool', 'True')]), ("i instance of element(s, xs:int)", [('bool', 'False')]),
    ("concat(i, '|', b)", [('str', '42|true')]), ("i || f", [('str', '42100')]), ("string-join((i, l), '-')", [('str', '42-1-2-3')]),
    ("sort((i, s, @a)) ! name()", [('str', 's'), ('str', 'a'), ('str', 'i')]),
    ("map{data(i): 'x'}?42", [('str', 'x')]), ("i idiv s", [('int', '6')]),
    ("distinct-values((i, s, @a))", [('Int', '42'), ('Int', '7')]), ("data(p/@cur) instance of xs:NMTOKEN", [('bool', 'True')]),
]


def typed_scenario(chk):
    """fixed scenario: typed values of list / union / restricted / simple-content / nillable declarations through data(), arithmetic,
    the aggregate functions, cast as / constructor functions and the function conversion rules"""
    import xmlschema
    import xml.etree.ElementTree as ET
    from elementpath import select, ElementPathError
    from elementpath.xpath31 import XPath31Parser
    schema = xmlschema.XMLSchema10(TYPED_XSD)
    root = ET.XML(TYPED_XML)
    valid = schema.is_valid(TYPED_XML)
    chk.obligations.append({'name': 'typed scenario: the instance is valid against its schema', 'ok': valid, 'detail': ''})
    if not valid:
        return
    for expr, want in TYPED_CASES:
        chk.evaluations += 1
        chk.count('typed-scenario')
        try:
            r = select(root, expr, schema=schema.xpath_proxy, parser=XPath31Parser, namespaces={'p': 'urn:p'})
            r = r if isinstance(r, list) else [r]
            got = [(type(x).__name__, str(x)) for x in r]
        except ElementPathError as ex:
            got = 'error ' + str(ex)[:160]
        if got != want:
            chk.violation('impl-vs-spec', {'scenario': 'typed values', 'expr': expr}, {'impl': repr(got)[:300], 'expected (typed value semantics)': repr(want)})
        chk.nontrivial.add('typed-scenario:' + expr)
    # the recorded finding: the type argument of a kind test is decided on the typed value (valid for T) when the type annotation
    # is neither T nor a built-in type derived from it; XPath asks for derivation of the annotation from T
    for expr in ("s instance of element(*, ints)", "@a instance of attribute(*, small)", "u[1] instance of element(*, xs:int)"):
        chk.evaluations += 1
        chk.count('typed-scenario')
        try:
            r = select(root, expr, schema=schema.xpath_proxy, parser=XPath31Parser, namespaces={'p': 'urn:p'})
        except ElementPathError as ex:
            r = 'error ' + str(ex)[:160]
        if r is True:
            chk.known('C20-type-test-by-value', {'expr': expr, 'impl': True, 'spec': False})
        elif r is not False:
            chk.violation('impl-vs-spec', {'scenario': 'typed values', 'expr': expr}, {'impl': repr(r)[:200], 'expected': False})


def run(chk):
    import xml.etree.ElementTree as ET
    import xmlschema
    from decimal import Decimal
    from elementpath import select, XPathContext, ElementPathError
    from elementpath.xpath31 import XPath31Parser
    from elementpath import xpath_nodes as X
    rng = chk.rng
    quick = chk.tier == 'quick'
    chk.trusted += ['xmlschema 4.3.1 (schema compilation, validity of the generated instances, decode) is the schema processor of the property',
                    'harness: schema generator, rendering to XSD text / Coq terms, mapping of xmlschema type objects to model types by parallel walk',
                    'C20/Model.v walk is a recursive store-passing model of the explicit-stack loop of apply_schema (tied by correspondence)',
                    'PARTIAL: xsi:type, wildcards, substitution groups, assertion-based / not fully valid schemas are not modelled']
    for f in ('elementpath/xpath_nodes.py', 'elementpath/schema_proxy.py', 'elementpath/decoder.py', 'elementpath/xpath_context.py',
              'elementpath/xpath2/_xpath2_operators.py', 'elementpath/sequence_types.py'):
        chk.record_source(f)
    chk.forbidden_scan(['C20'])
    import sys as _sys
    _sys.path.insert(0, core.VERIF + '/harness')
    import gen_c20
    gen_c20.generate()          # T-data / source-shape facts regenerated from /repo on every run
    chk.trusted.append('harness/shape.py: AST lookup of the statements mirrored by the hand model (Gen/C20Shape.v)')
    proved = chk.prove(['theories/Gen/C20Shape.v', 'theories/C20/Model.v', 'theories/C20/Proofs.v', 'theories/C20/Run.v'], 'theories/C20/Properties.v')
    model_ok = True
    if not proved:
        try:
            core.coq_make(['theories/C20/Model.v', 'theories/C20/Run.v'])
        except core.CoqError as e:
            chk.notes.append('model does not build: ' + str(e))
            model_ok = False

    cases = []
    for i in range(40 if quick else 1200):
        g = Gen(rng)
        root_t = g.schema()
        xsd = '<xs:schema xmlns:xs="http://www.w3.org/2001/XMLSchema">' + PRELUDE
        for nm, ct in g.named.items():
            xsd += type_xsd(ct)
        xsd += '<xs:element name="r">' + type_xsd(root_t, ' ') + '</xs:element></xs:schema>'
        xml = instance_xml(rng, 'r', root_t, None)
        cases.append((g, root_t, xsd, xml, rng.choice(['1.0', '1.1'])))
    # the fixed scenario: two anonymous types with the same child name and different types
    fx = '''<xs:schema xmlns:xs="http://www.w3.org/2001/XMLSchema"><xs:element name="r"><xs:complexType><xs:sequence>
<xs:element name="a"><xs:complexType><xs:sequence><xs:element name="v" type="xs:integer"/></xs:sequence></xs:complexType></xs:element>
<xs:element name="b"><xs:complexType><xs:sequence><xs:element name="v" type="xs:date"/></xs:sequence></xs:complexType></xs:element>
</xs:sequence></xs:complexType></xs:element></xs:schema>'''
    ft = {'kind': 'c', 'gid': 1, 'name': None, 'attrs': [], 'decls': [
        ('a', {'kind': 'c', 'gid': 2, 'name': None, 'attrs': [], 'decls': [('v', ('s', 1), 1)]}, 1),
        ('b', {'kind': 'c', 'gid': 3, 'name': None, 'attrs': [], 'decls': [('v', ('s', 5), 1)]}, 1)]}
    cases.append((None, ft, fx, '<r><a><v>12</v></a><b><v>2001-02-03</v></b></r>', '1.0'))
    cases.append((None, ft, fx, '<r><a><v>12</v></a><b><v>2001-02-03</v></b></r>', '1.1'))

    terms, meta = [], []
    for g, root_t, xsd, xml, ver in cases:
        root = ET.XML(xml)
        wrapper = '(TComplex 0 [(8, %s)])' % type_coq(root_t)
        inst = '(Elem 8 [%s])' % '; '.join(inst_coq(c) for c in root)
        terms.append(f'run {wrapper} {inst}')
    model = core.run_coq_cases('C20', IMPORTS, terms, chunk=20, tag='types', preamble='Close Scope Z_scope. Open Scope nat_scope.') if model_ok else [None] * len(cases)

    PATHS = ['//*', '//v', '/r/*[1]', '//a/v', '//*[last()]', '//v/..', '//*[v]', '//*[not(*)]', '/r//b/preceding::*', '//w/following-sibling::*', '//*[@k]',
             '//a//*', '(//*)[2]', '//x/ancestor::*', '/r/*/*', '//*[position() = 2]', '//b | //a', '//*[self::v or self::w]']
    for (g, root_t, xsd, xml, ver), mo in zip(cases, model):
        desc0 = {'xsd': xsd[:1500], 'xml': xml[:600], 'xsd_version': ver}
        try:
            schema = (xmlschema.XMLSchema11 if ver == '1.1' else xmlschema.XMLSchema10)(xsd)
        except Exception as ex:
            chk.notes.append('generated schema rejected: ' + str(ex)[:200]) if len(chk.notes) < 5 else None
            continue
        root = ET.XML(xml)
        if not schema.is_valid(root):
            chk.notes.append('generated instance not valid') if len(chk.notes) < 5 else None
            continue
        chk.evaluations += 1
        chk.count('schema:' + ver)
        # map the schema processor's type objects to the model types (parallel walk)
        tmap = {}

        def bind(xt, mt):
            if isinstance(mt, tuple):
                tmap[id(xt)] = mt[1] + 1
                return
            tmap[id(xt)] = 1000 + mt['gid']
            decl = {e.name: e for e in xt.content.iter_elements()}
            for nm, ct, _ in mt['decls']:
                bind(decl[nm].type, ct)
        bind(schema.elements['r'].type, root_t)
        ctx = XPathContext(root, schema=schema.xpath_proxy)
        got = []
        elems = [n for n in ctx.root.iter_descendants() if isinstance(n, X.ElementNode)]
        for n in elems:
            got.append(999999 if n.xsd_type is None else tmap.get(id(n.xsd_type), -1))
        if mo is not None:
            walk, spec = list(mo[0]), list(mo[1])
            # the Coq wrapper element stands for the root element r (its type 1000 + gid of the root type)
            if got != walk:
                chk.corr_fail.append((desc0, got, walk))
            if got != spec:
                chk.violation('impl-vs-spec', desc0, {'types assigned (document order)': got, 'declared types': spec})
        # typed values, instance of, arithmetic
        for n in elems:
            t = n.xsd_type
            if t is None:
                continue
            path = n.path
            nodes_to_check = []
            if t.is_simple() or t.has_simple_content():
                nodes_to_check.append((n, t, n.value.text, path))
            for a in n.attributes:
                if a.xsd_type is not None:
                    nodes_to_check.append((a, a.xsd_type, a.value, path + '/@' + a.name))
            for node, xt, text, p in nodes_to_check:
                chk.evaluations += 1
                chk.count('typed-value')
                desc = desc0 | {'node': p, 'type': xt.name or 'anonymous'}
                try:
                    tv = node.typed_value
                    want = xt.decode(text)
                except Exception as ex:
                    chk.violation('impl-vs-spec', desc, 'typed value / decode raised ' + repr(ex)[:200])
                    continue
                same = tv == want and (isinstance(tv, bool) == isinstance(want, bool)) or \
                    isinstance(tv, list) and isinstance(want, list) and len(tv) == len(want) and all(x == y for x, y in zip(tv, want))
                if not same:
                    chk.violation('impl-vs-spec', desc, {'typed value': repr(tv), 'schema processor decodes': repr(want)})
                tname = xt.name.replace('{http://www.w3.org/2001/XMLSchema}', 'xs:') if xt.name else None
                kind = 'attribute' if isinstance(node, X.AttributeNode) else 'element'
                for b in BASES.get(tname, []):
                    try:
                        r = select(root, f'{p} instance of {kind}(*, {b})', schema=schema.xpath_proxy, parser=XPath31Parser)
                    except ElementPathError as ex:
                        r = 'error ' + str(ex.code)
                    if r is not True:
                        chk.violation('impl-vs-spec', desc, {f'instance of {kind}(*, {b})': r, 'expected': True})
                for b in NOT_BASES.get(tname, []):
                    try:
                        r = select(root, f'{p} instance of {kind}(*, {b})', schema=schema.xpath_proxy, parser=XPath31Parser)
                    except ElementPathError as ex:
                        r = 'error ' + str(ex.code)
                    if r is not False:
                        chk.violation('impl-vs-spec', desc, {f'instance of {kind}(*, {b})': r, 'expected': False})
                if tname in ('xs:integer', 'xs:int', 'small', 'xs:decimal', 'xs:unsignedByte') and isinstance(want, (int, Decimal)):
                    try:
                        r = select(root, f'{p} + 1', schema=schema.xpath_proxy, parser=XPath31Parser)
                        r2 = select(root, f'{p} = {want}', schema=schema.xpath_proxy, parser=XPath31Parser)
                    except ElementPathError as ex:
                        r, r2 = 'error ' + str(ex.code), None
                    if r != want + 1 or r2 is not True:
                        chk.violation('impl-vs-spec', desc, {'node + 1': repr(r), 'node = value': r2, 'typed value': repr(want)})
                # the typed value is what cast as, the constructor functions and the function conversion rules see:
                # xs:string(node) = node cast as xs:string = string(data(node)); abs / round use the typed number
                if not isinstance(tv, list):
                    try:
                        r3 = select(root, f'(xs:string({p}), {p} cast as xs:string, string(data({p})), {p} castable as xs:string, ({p} treat as {kind}()) is {p})',
                                    schema=schema.xpath_proxy, parser=XPath31Parser)
                    except ElementPathError as ex:
                        r3 = 'error ' + str(ex)[:120]
                    if not (isinstance(r3, list) and len(r3) == 5 and r3[0] == r3[1] == r3[2] and r3[3] is True and r3[4] is True):
                        chk.violation('impl-vs-spec', desc, {'(xs:string(n), n cast as xs:string, string(data(n)), n castable as xs:string, (n treat as kind()) is n)': repr(r3)[:300]})
                    if isinstance(want, (int, Decimal)) and not isinstance(want, bool):
                        try:
                            r4 = select(root, f'(abs({p}), round({p}), floor({p}))', schema=schema.xpath_proxy, parser=XPath31Parser)
                        except ElementPathError as ex:
                            r4 = 'error ' + str(ex)[:120]
                        import math as _m
                        w4 = [abs(want), (want if isinstance(want, int) else Decimal(_m.floor(want + Decimal('0.5')))), (want if isinstance(want, int) else Decimal(_m.floor(want)))]
                        if not (isinstance(r4, list) and r4 == w4 and [type(x) is float for x in r4] == [False] * 3):
                            chk.violation('impl-vs-spec', desc, {'(abs(n), round(n), floor(n))': repr(r4)[:200], 'on the typed value': repr(w4)})
                chk.nontrivial.add(repr((xsd, p)))
        # selection is the same with and without the schema (element root and document root)
        has_default = 'default=' in xsd
        for mode in ('document', 'element'):
            target = ET.ElementTree(root) if mode == 'document' else root
            for p in PATHS:
                chk.evaluations += 1
                chk.count('selection:' + mode)
                try:
                    with_s = [id(x) for x in select(target, p, schema=schema.xpath_proxy, parser=XPath31Parser)]
                    without = [id(x) for x in select(target, p, parser=XPath31Parser)]
                except ElementPathError as ex:
                    chk.violation('impl-vs-spec', desc0 | {'path': p, 'root': mode}, 'raised ' + str(ex)[:200])
                    continue
                if with_s != without:
                    idx = {id(e): k for k, e in enumerate(root.iter())}
                    d = desc0 | {'path': p, 'root': mode, 'with schema': [idx.get(i, -1) for i in with_s], 'without': [idx.get(i, -1) for i in without]}
                    if '@' in p and has_default:
                        chk.known('C20-defaulted-attributes-selected', d)
                    elif mode == 'element' and '*' in p:       # the same paths are checked exactly on the document root
                        chk.known('C20-root-element-skipped-by-wildcard', d)
                    else:
                        chk.violation('impl-vs-spec', {k: v for k, v in d.items() if k not in ('with schema', 'without')},
                                      {'with schema': d['with schema'], 'without': d['without']})
        chk.nontrivial.add(xsd + xml)
        if len(chk.samples) < 4:
            chk.sample({'xml': xml[:200], 'types (document order)': got, 'model': mo})
    # ---------------- attribute typing scenarios: the declared attribute use has priority over wildcards / global declarations
    SCEN = [
        ('<xs:schema xmlns:xs="http://www.w3.org/2001/XMLSchema"><xs:attribute name="k" type="xs:date"/>'
         '<xs:element name="r"><xs:complexType><xs:attribute name="k" type="xs:int"/><xs:attribute name="j" type="xs:boolean"/>'
         '<xs:anyAttribute processContents="lax"/></xs:complexType></xs:element></xs:schema>',
         '<r k="5" j="true"/>', [('/r/@k', 5, 'xs:int', 'xs:date'), ('/r/@j', True, 'xs:boolean', 'xs:int')]),
        ('<xs:schema xmlns:xs="http://www.w3.org/2001/XMLSchema"><xs:attribute name="g" type="xs:date"/>'
         '<xs:element name="r"><xs:complexType><xs:attribute name="k" type="xs:decimal"/><xs:attribute ref="g"/>'
         '</xs:complexType></xs:element></xs:schema>',
         '<r k="1.5" g="2000-01-01"/>', [('/r/@k', __import__('decimal').Decimal('1.5'), 'xs:decimal', 'xs:date'), ('/r/@g', None, 'xs:date', 'xs:decimal')]),
        ('<xs:schema xmlns:xs="http://www.w3.org/2001/XMLSchema"><xs:complexType name="e"><xs:simpleContent><xs:extension base="xs:decimal">'
         '<xs:attribute name="cur" type="xs:NMTOKEN" default="EUR"/></xs:extension></xs:simpleContent></xs:complexType>'
         '<xs:element name="r"><xs:complexType><xs:sequence><xs:element name="p" type="e" maxOccurs="2"/></xs:sequence></xs:complexType></xs:element></xs:schema>',
         '<r><p cur="USD">1.50</p><p>2</p></r>', [('/r/p[1]', __import__('decimal').Decimal('1.50'), 'xs:decimal', 'xs:integer'), ('/r/p[1]/@cur', 'USD', 'xs:NMTOKEN', 'xs:int')]),
    ]
    for xsd, xml, checks in SCEN:
        for ver in ('1.0', '1.1'):
            schema = (xmlschema.XMLSchema11 if ver == '1.1' else xmlschema.XMLSchema10)(xsd)
            root = ET.XML(xml)
            assert schema.is_valid(root), 'scenario instance must be valid'
            for path, want, tname, not_t in checks:
                chk.evaluations += 1
                chk.count('attribute-scenario')
                desc = {'xsd': xsd, 'xml': xml, 'node': path, 'xsd_version': ver}
                kind = 'attribute' if '@' in path else 'element'
                try:
                    tv = select(root, f'data({path})', schema=schema.xpath_proxy, parser=XPath31Parser)
                    yes = select(root, f'{path} instance of {kind}(*, {tname})', schema=schema.xpath_proxy, parser=XPath31Parser)
                    no = select(root, f'{path} instance of {kind}(*, {not_t})', schema=schema.xpath_proxy, parser=XPath31Parser)
                except ElementPathError as ex:
                    chk.violation('impl-vs-spec', desc, 'raised ' + str(ex)[:200])
                    continue
                if (want is not None and (tv != [want] or type(tv[0]) is bool and want is not True and want is not False)) or yes is not True or no is not False:
                    chk.violation('impl-vs-spec', desc, {'typed value': repr(tv), 'expected': repr(want), f'instance of {kind}(*, {tname})': yes,
                                                         f'instance of {kind}(*, {not_t})': no})
                chk.nontrivial.add(xsd + path + ver)
    typed_scenario(chk)
    chk.rule = ('seeded random schemas (depth <= 3; anonymous and named complex types re-declaring child names a b v w x with different types; '
                'attributes with and without defaults; built-in atomic types, a restriction, a list, a union) with a valid instance each, XSD 1.0 '
                'and 1.1, + the fixed two-anonymous-types scenario; per element the assigned type; per simple-typed element / attribute the typed '
                'value, instance of element(*, T) / attribute(*, T) for base and non-base types, arithmetic; 18 structural paths with and '
                'without the schema; non-trivial = distinct (schema, instance)')
    chk.obligations.append({'name': 'correspondence:impl==model(types assigned by apply_schema)', 'ok': not chk.corr_fail,
                            'detail': f'{len(chk.corr_fail)} disagreements' + (': ' + repr(chk.corr_fail[0])[:600] if chk.corr_fail else '')})


def replay(rec):
    print(rec)
    return 0
