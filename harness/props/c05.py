"""C05 — evaluation is pure and repeatable; variable bindings are lexically scoped.

proof:  coq/theories/C05/{Model,Proofs,Properties}.v : the implementation discipline (shared mutable variables dict behind
        shallow context copies, a dict copy per for/let/some/every, iter_product writing loop variables in place) refines
        the lexically scoped semantics for every expression of the binding calculus, and leaves every pre-existing
        dictionary (the caller's) unchanged; repeatability after any earlier evaluations.
tie:    correspondence: generated programs of the calculus (nested / shadowing for, two-variable for, let, some, every)
        rendered to XPath and evaluated through select / iter_select / Selector / a reused token, against the model.
search: histories of one token / Selector over several documents, variable maps (with mutable xs:dateTime, durations,
        maps, arrays, untyped values) and implicit timezones; snapshots of the tree, the variables and the namespaces.
PARTIAL: the calculus covers the binding constructs over integer sequences; purity of the other ~300 functions and
        operators is observed on a fixed expression pool only (histories), not proved.
"""
import copy as _copy

import core

IMPORTS = 'From EP Require Import C05.Model C05.Run.'
NAMES = ['a', 'b', 'c']


# ---- programs
def gen(rng, depth, scope):
    """random expr as nested tuples; scope = names currently bound (bias towards them)"""
    r = rng.random()
    if depth <= 0 or r < 0.18:
        if rng.random() < 0.55:
            return ('var', rng.choice(scope) if scope and rng.random() < 0.9 else rng.randrange(3))
        return ('lit', [rng.randint(-2, 4) for _ in range(rng.choice([0, 1, 1, 1, 2, 3]))])
    k = rng.choice(['seq', 'add', 'for', 'for', 'for2', 'let', 'let2', 'quant', 'quant'])
    if k == 'seq':
        return ('seq', gen(rng, depth - 1, scope), gen(rng, depth - 1, scope))
    if k == 'add':
        return ('add', gen(rng, depth - 1, scope), gen(rng, depth - 1, scope))
    x = rng.randrange(3)
    if k == 'for':
        return ('for', x, gen_range(rng, depth - 1, scope, [x]), gen(rng, depth - 1, scope + [x]))
    if k == 'for2':
        y = rng.randrange(3)
        return ('for2', x, gen_range(rng, depth - 1, scope, [x]), y, gen_range(rng, depth - 1, scope + [x], [y]),
                gen(rng, depth - 1, scope + [x, y]))
    if k == 'let':
        return ('let', x, gen(rng, depth - 1, scope), gen(rng, depth - 1, scope + [x]))
    if k == 'let2':
        y = rng.randrange(3)
        return ('let2', x, gen(rng, depth - 1, scope), y, gen(rng, depth - 1, scope + [x]), gen(rng, depth - 1, scope + [x, y]))
    return ('quant', rng.random() < 0.5, x, gen_range(rng, depth - 1, scope, [x]), gen(rng, depth - 1, scope + [x]))


def mentions(e, z):
    if e[0] == 'var':
        return e[1] == z
    if e[0] == 'lit':
        return False
    # binder occurrences count too: the parser's check looks at every '$name' token of the range expression
    if e[0] in ('for', 'let') and e[1] == z or e[0] == 'quant' and e[2] == z or e[0] in ('for2', 'let2') and z in (e[1], e[3]):
        return True
    return any(mentions(s, z) for s in e[1:] if isinstance(s, tuple))


def gen_range(rng, depth, scope, banned):
    """range expressions: the parser rejects a range expression that mentions its own variable"""
    for _ in range(30):
        e = gen(rng, depth, [s for s in scope if s not in banned])
        if not any(mentions(e, z) for z in banned):
            return e
    return ('lit', [1, 2])


def to_coq(e):
    k = e[0]
    if k == 'lit':
        return f'(ELit {core.zlist(e[1])})'
    if k == 'var':
        return f'(EVar {e[1]})'
    if k == 'seq':
        return f'(ESeq {to_coq(e[1])} {to_coq(e[2])})'
    if k == 'add':
        return f'(EAdd {to_coq(e[1])} {to_coq(e[2])})'
    if k == 'for':
        return f'(EFor {e[1]} {to_coq(e[2])} {to_coq(e[3])})'
    if k == 'for2':
        return f'(EFor2 {e[1]} {to_coq(e[2])} {e[3]} {to_coq(e[4])} {to_coq(e[5])})'
    if k == 'let':
        return f'(ELet {e[1]} {to_coq(e[2])} {to_coq(e[3])})'
    if k == 'let2':
        return f'(ELet2 {e[1]} {to_coq(e[2])} {e[3]} {to_coq(e[4])} {to_coq(e[5])})'
    return f'(EQuant {"true" if e[1] else "false"} {e[2]} {to_coq(e[3])} {to_coq(e[4])})'


def to_xpath(e):
    k = e[0]
    n = lambda i: '$' + NAMES[i]
    if k == 'lit':
        return '(' + ', '.join(str(v) if v >= 0 else f'({v})' for v in e[1]) + ')'
    if k == 'var':
        return n(e[1])
    if k == 'seq':
        return f'({to_xpath(e[1])}, {to_xpath(e[2])})'
    if k == 'add':
        return f'({to_xpath(e[1])} + {to_xpath(e[2])})'
    if k == 'for':
        return f'(for {n(e[1])} in {to_xpath(e[2])} return {to_xpath(e[3])})'
    if k == 'for2':
        return f'(for {n(e[1])} in {to_xpath(e[2])}, {n(e[3])} in {to_xpath(e[4])} return {to_xpath(e[5])})'
    if k == 'let':
        return f'(let {n(e[1])} := {to_xpath(e[2])} return {to_xpath(e[3])})'
    if k == 'let2':
        return f'(let {n(e[1])} := {to_xpath(e[2])}, {n(e[3])} := {to_xpath(e[4])} return {to_xpath(e[5])})'
    q = 'some' if e[1] else 'every'
    return f'(if ({q} {n(e[2])} in {to_xpath(e[3])} satisfies {to_xpath(e[4])} > 0) then 1 else 0)'


def has_let(e):
    return e[0] in ('let', 'let2') or any(has_let(s) for s in e[1:] if isinstance(s, tuple))


def snapshot(v):
    """deep, identity-free description of a caller value (mutable atomic values included)"""
    if isinstance(v, (list, tuple)):
        return [snapshot(x) for x in v]
    if isinstance(v, dict):
        return sorted((repr(k), snapshot(x)) for k, x in v.items())
    d = {}
    for cls in type(v).__mro__:
        for s in getattr(cls, '__slots__', ()):
            if s == 'parser' or s.startswith('__'):
                continue
            try:
                x = getattr(v, s)
            except AttributeError:
                continue
            d[s] = repr(x) if not isinstance(x, (list, dict)) else snapshot(x)
    if hasattr(v, '__dict__'):
        for s, x in vars(v).items():
            if s not in ('parser', '_xsd_version'):
                d[s] = repr(x) if not isinstance(x, (list, dict)) else snapshot(x)
    return (type(v).__name__, repr(v), sorted(d.items()))


def run(chk):
    import xml.etree.ElementTree as ET
    import lxml.etree as LE
    from elementpath import select, iter_select, Selector, XPathContext, XPath2Parser, ElementPathError, get_node_tree
    from elementpath.xpath30 import XPath30Parser
    from elementpath.xpath31 import XPath31Parser
    from elementpath.datatypes import DateTime, Date, Time, DayTimeDuration, YearMonthDuration, UntypedAtomic, Timezone
    from elementpath.xpath_tokens import XPathMap, XPathArray
    rng = chk.rng
    quick = chk.tier == 'quick'
    chk.trusted += ['C05/Model.v impl is a hand model of select__for_expression / evaluate__quantified_expressions / select__let_expression / '
                    'XPathContext.iter_product (eager: generator laziness is covered by correspondence only)',
                    'harness rendering of calculus programs to XPath text',
                    'PARTIAL: purity of functions and operators outside the binding calculus is observed on histories, not proved']
    for f in ('elementpath/xpath2/_xpath2_operators.py', 'elementpath/xpath30/_xpath30_operators.py', 'elementpath/xpath_context.py',
              'elementpath/xpath_selectors.py', 'elementpath/xpath_tokens/base.py', 'elementpath/xpath30/_xpath30_functions.py'):
        chk.record_source(f)
    chk.forbidden_scan(['C05'])
    import sys as _sys
    _sys.path.insert(0, core.VERIF + '/harness')
    import gen_c05
    gen_c05.generate()          # T-data / source-shape facts regenerated from /repo on every run
    chk.trusted.append('harness/shape.py: AST lookup of the statements mirrored by the hand model (Gen/C05Shape.v)')
    proved = chk.prove(['theories/Gen/C05Shape.v', 'theories/C05/Model.v', 'theories/C05/Proofs.v', 'theories/C05/Run.v'], 'theories/C05/Properties.v')
    model_ok = True
    if not proved:
        try:
            core.coq_make(['theories/C05/Model.v', 'theories/C05/Run.v'])
        except core.CoqError as e:
            chk.notes.append('model does not build: ' + str(e))
            model_ok = False

    # ---------------- 1. the binding calculus: impl == model == lexical scoping
    progs = []
    fixed = [
        ('seq', ('for', 0, ('lit', [1, 2]), ('var', 0)), ('var', 0)),
        ('for', 1, ('for', 0, ('lit', [1, 2]), ('add', ('var', 0), ('var', 0))), ('add', ('var', 1), ('var', 0))),
        ('quant', True, 1, ('for', 0, ('lit', [1, 2, 3]), ('var', 0)), ('add', ('var', 1), ('var', 0))),
        ('quant', False, 1, ('for', 0, ('lit', [1, 2, 3]), ('var', 0)), ('add', ('var', 1), ('var', 0))),
        ('for2', 0, ('lit', [1, 2]), 1, ('seq', ('var', 0), ('var', 2)), ('add', ('var', 0), ('var', 1))),
        ('for2', 0, ('lit', [1, 2]), 0, ('lit', [3, 4]), ('var', 0)),
        ('let', 0, ('lit', [5]), ('seq', ('let', 0, ('lit', [6]), ('var', 0)), ('var', 0))),
        ('let2', 0, ('lit', [5]), 0, ('add', ('var', 0), ('lit', [1])), ('var', 0)),
        ('for', 0, ('let', 1, ('lit', [1, 2]), ('var', 1)), ('seq', ('var', 0), ('var', 1))),
        ('seq', ('quant', True, 0, ('lit', [0, 3]), ('var', 0)), ('var', 0)),
        ('for', 1, ('for2', 0, ('lit', [1, 2]), 2, ('lit', [3]), ('add', ('var', 0), ('var', 2))), ('seq', ('var', 0), ('seq', ('var', 1), ('var', 2)))),
    ]
    # a later variable of the same name must not leak into the (lazily evaluated) range of an earlier one:
    # for $c in ($a, $a), $a in (-2, -2, 4) return $a  with two items in the caller's $a
    leak = [('for2', 2, ('seq', ('var', 0), ('var', 0)), 0, ('lit', [-2, -2, 4]), ('var', 0)),
            ('for2', 2, ('seq', ('var', 0), ('var', 0)), 0, ('lit', [3]), ('seq', ('var', 2), ('var', 0))),
            ('quant', True, 2, ('seq', ('var', 0), ('var', 0)), ('for', 0, ('lit', [1]), ('var', 2)))]
    fixed += leak
    progs += fixed
    for _ in range(260 if quick else 6000):
        progs.append(gen(rng, rng.choice([2, 3, 3, 4]), []))
    envs = []
    for e in progs:
        env = {}
        for i in range(3):
            if rng.random() < 0.93:
                env[i] = [rng.randint(5, 9) * 10 + i for _ in range(rng.choice([1, 1, 1, 1, 2, 0]))]
        if e in leak:
            env[0] = [70, 80]
        envs.append(env)
    terms = []
    for e, env in zip(progs, envs):
        d = '[' + '; '.join(f'({i}%nat, {core.zlist(v)})' for i, v in env.items()) + ']'
        terms.append(f'run {to_coq(e)} {d}')
    model = core.run_coq_cases('C05', IMPORTS, terms, chunk=150, tag='calc') if model_ok else [None] * len(progs)
    root = ET.XML('<r><a>1</a><a>2</a></r>')
    tok_cache = {}
    for i, (e, env, mo) in enumerate(zip(progs, envs, model)):
        text = to_xpath(e)
        variables = {NAMES[k]: (v[0] if len(v) == 1 else list(v)) for k, v in env.items()}
        before = snapshot(variables)
        parsers = [XPath31Parser] + ([] if has_let(e) else [XPath2Parser])
        outs = {}
        for P in parsers:
            for mode in ('select', 'iter_select', 'Selector', 'Selector-again', 'token'):
                chk.evaluations += 1
                try:
                    if mode == 'select':
                        r = select(root, text, variables=variables, parser=P)
                    elif mode == 'iter_select':
                        r = list(iter_select(root, text, variables=variables, parser=P))
                    elif mode.startswith('Selector'):
                        key = (text, P)
                        sel = tok_cache.get(key) or tok_cache.setdefault(key, Selector(text, parser=P))
                        r = sel.select(root, variables=variables)
                    else:
                        r = P().parse(text).get_results(XPathContext(root, variables=variables))
                    r = ('val', list(r) if isinstance(r, list) else [r])
                except ElementPathError as ex:
                    r = ('err', (ex.code or '').split(':')[-1])
                except Exception as ex:
                    chk.violation('foreign-exception', {'expr': text, 'variables': repr(variables)}, repr(ex)[:300])
                    continue
                outs[(P.__name__, mode)] = r
        chk.count('calc:' + e[0])
        desc = {'expr': text, 'variables': repr(variables)}
        if snapshot(variables) != before:
            chk.violation('impl-vs-spec', desc, {'caller variables before': before, 'after': snapshot(variables)})
        # the entry points of one parser agree (2.0 and 3.1 are different languages: they may differ in which errors a
        # lazily evaluated subexpression gets to raise)
        for P in parsers:
            vals = {repr(v) for k, v in outs.items() if k[0] == P.__name__}
            if len(vals) > 1:
                chk.violation('impl-vs-spec', desc, {'entry points disagree': {f'{k[0]}/{k[1]}': repr(v) for k, v in outs.items() if k[0] == P.__name__}})
        if mo is None or not outs:
            continue
        mi, msp, wf = (mo[0], mo[1]), tuple(mo[2]), mo[3]       # Coq prints (((a, b), (c, d)), w) as (a, b, (c, d), w)
        if not wf:
            continue        # generator avoids these; parser rejects them
        for P in parsers:
            got = outs.get((P.__name__, 'select'))
            if got is None:
                continue
            gotn = (1, got[1]) if got[0] == 'val' else (0, [])
            if mi[0] == 0 or msp[0] == 0:
                # the eager model raises an error: XPath lets an implementation skip the failing subexpression (a quantifier
                # that already has its answer), so a value cannot be judged here; an error is the model's answer
                chk.count('calc:model-error')
                continue
            if gotn != (mi[0], list(mi[1])):
                chk.corr_fail.append((desc | {'parser': P.__name__}, got, mi))
            if gotn != (msp[0], list(msp[1])):
                chk.violation('impl-vs-spec', desc | {'parser': P.__name__}, {'impl': got, 'lexical scoping': msp, 'model': mi})
        chk.nontrivial.add(text + repr(sorted(variables)))
        if i % 53 == 0:
            chk.sample({'expr': text, 'variables': repr(variables), 'model': mi, 'spec': msp})

    # ---------------- 2. histories: one token / Selector over several documents, variable maps, timezones
    docs = [ET.XML('<r x="1"><a k="1">1</a><a k="2">2</a><b>t<c/>u</b></r>'),
            ET.XML('<r><a>5</a><b><a>6</a><a>7</a></b><!--c--></r>'),
            LE.XML('<r xmlns:p="urn:p"><p:a>3</p:a><a>4</a><a/></r>'),
            ET.XML('<a>9</a>')]

    def variables_for(k):
        v = {
            'n': k + 2, 's': [1, 2, 3, k], 'str': 'abc' + str(k),
            'd': DateTime.fromstring('2000-01-0%dT12:00:00' % (k + 1)), 'e': DateTime.fromstring('2000-01-01T00:00:00Z'),
            'dt': Date.fromstring('2001-02-03'), 't': Time.fromstring('10:00:00'),
            'dur': DayTimeDuration.fromstring('PT%dH' % (k + 1)), 'ym': YearMonthDuration.fromstring('P1Y2M'),
            'u': UntypedAtomic(str(k + 1)),
            'ds': [DateTime.fromstring('2000-01-01T00:00:00'), DateTime.fromstring('1999-01-01T00:00:00+02:00')],
        }
        return v
    pool20 = [
        '//a', 'count(//a)', '//a[. > $n]', '//a[position() = last()]', 'sum(//a) + $n', 'for $x in //a return $x + $n',
        'some $x in //a satisfies $x = $n', '$s[. > 1]', '($s, $n)', 'string-join(for $x in $s return string($x), "-")',
        '$d - $e', '$d lt $e', '$d = $e', 'max(($d, $e))', 'min($ds)', '$ds[1] lt $ds[2]', '$d + $dur', '$dt + $ym', '$t - $t', '$dt - $dt',
        'adjust-dateTime-to-timezone($d)', 'adjust-dateTime-to-timezone($d, $dur)', 'adjust-date-to-timezone($dt)', 'adjust-time-to-timezone($t)',
        'distinct-values($ds)', 'index-of($ds, $d)', 'deep-equal($ds, ($d, $e))', 'hours-from-dateTime($d)', 'timezone-from-dateTime($d)',
        'year-from-date($dt)', '$u + 1', '$u = "1"', 'string($d)', 'xs:string($dt)', 'current-dateTime() - current-dateTime()',
        'implicit-timezone()', '$dur * 2', '$dur div $dur', '//a/@k', 'name(//*[1])', '/r/b//text()', '//a/..', 'string(/)',
        'for $x in $s, $y in $s[. < $x] return $x * $y', 'every $x in $s satisfies $x < 10', '(//a)[1] is (//a)[1]', '//a | //b',
        '//a except //a[1]', 'if (//a) then $n else $s', '$s = $n', '$d eq $d', 'subsequence($ds, 1, 1)', 'reverse($ds)',
        'insert-before($ds, 1, $e)', 'remove($ds, 1)', 'dateTime($dt, $t)',
        # the namespaces of the selector / of select() reach the dynamic context (namespace nodes of xml.etree trees)
        'count(//namespace::*)', '(//a)[1]/namespace::*/name()', 'in-scope-prefixes(/*)', 'namespace-uri-for-prefix("p", /*)',
    ]
    pool30 = [
        'let $x := $n return ($x, $n)', 'for-each($s, function($x) { $x + $n })', 'filter($s, function($x) { $x > $n })',
        'fold-left($s, 0, function($a, $b) { $a + $b })', 'let $f := function($x) { $x + $n } return ($f(1), $f(2))',
        '$s ! (. + $n)', '//a ! string()', 'let $n := 100 return $n', '(let $n := 100 return $n, $n)', 'sort($ds)',
        'map { "a": $n, "b": $d }("b")', 'map:keys(map { 1: $d, 2: $e })', 'map:put(map { 1: $n }, 2, $d)(2)', '[ $d, $e ](1)',
        'array:append([ $n ], $d)', 'map:for-each(map { 1: $n }, function($k, $v) { $k + $v })', 'array:size(array { $s })',
        'map:merge((map { 1: $n }, map { 1: $d }))', 'let $m := map { "k": $s } return ($m("k"), $m?k)', '[1, 2, $n]?*',
        'for $x in $s return function() { $x }', 'function($a) { $a + $n }($n)', 'apply(function($a, $b) { $a + $b }, [ $n, 1 ])',
        'let $d := $d + $dur return $d', 'array:for-each([ $d ], function($x) { $x - $e })',
    ]
    # every expression of the pool at least once per parser that accepts it, then random extra histories
    plan = [(e, False) for e in pool20] + [(e, True) for e in pool20 + pool30]
    for _ in range(20 if quick else 1500):
        v31 = rng.random() < 0.5
        plan.append((rng.choice(pool20 + pool30 if v31 else pool20), v31))
    for hi, (expr, v31) in enumerate(plan):
        P = XPath31Parser if v31 else XPath2Parser
        namespaces = {'p': 'urn:p'}
        try:
            token = P(namespaces=namespaces).parse(expr)
            selector = Selector(expr, namespaces=namespaces, parser=P)
        except ElementPathError as ex:
            chk.violation('unexpected-error', {'expr': expr}, str(ex))
            continue
        steps = []
        for _ in range(rng.randint(2, 5)):
            steps.append((rng.randrange(len(docs)), rng.randrange(3), rng.choice([None, '+05:00', '-03:00', 'Z'])))
        steps.insert(rng.randrange(len(steps)), (rng.randrange(len(docs)), rng.randrange(3), rng.choice(['+05:00', '-03:00'])))
        for si, (di, vk, tz) in enumerate(steps):
            doc = docs[di]
            variables = variables_for(vk)
            before_vars = snapshot(variables)
            before_ns = dict(namespaces)
            before_xml = (ET.tostring(doc) if di != 2 else LE.tostring(doc))

            def norm(res):
                out = []
                for x in (res if isinstance(res, list) else [res]):
                    if hasattr(x, 'tag') or hasattr(x, 'getroot'):
                        out.append(('node', getattr(x, 'tag', None) if not callable(getattr(x, 'tag', None)) else 'fn', (x.text if hasattr(x, 'text') else None)))
                    elif callable(x) and not isinstance(x, (XPathMap, XPathArray)):
                        out.append(('function', getattr(x, 'arity', None)))
                    elif isinstance(x, XPathMap):
                        out.append(('map', [(snapshot(k), norm(v)) for k, v in x.items()]))
                    elif isinstance(x, XPathArray):
                        out.append(('array', [norm(v) for v in x.items()]))
                    else:
                        out.append(snapshot(x))
                return out

            def attempt(f):
                try:
                    return ('val', norm(f()))
                except ElementPathError as ex:
                    return ('err', (ex.code or '').split(':')[-1])
            volatile = 'current-dateTime' in expr
            outs = {
                'fresh': attempt(lambda: P(namespaces=dict(namespaces)).parse(expr).get_results(
                    XPathContext(doc, namespaces=dict(namespaces), variables=variables_for(vk), timezone=tz))),
                'token': attempt(lambda: token.get_results(XPathContext(doc, namespaces=namespaces, variables=variables, timezone=tz))),
                'Selector.select': attempt(lambda: selector.select(doc, variables=variables, timezone=tz)),
                'Selector.iter_select': attempt(lambda: list(selector.iter_select(doc, variables=variables, timezone=tz))),
                'select': attempt(lambda: select(doc, expr, namespaces=namespaces, parser=P, variables=variables, timezone=tz)),
                'token-again': attempt(lambda: token.get_results(XPathContext(doc, namespaces=namespaces, variables=variables, timezone=tz))),
            }
            chk.evaluations += len(outs)
            chk.count('history:' + ('3.1' if v31 else '2.0'))
            desc = {'expr': expr, 'parser': P.__name__, 'history': steps[:si + 1], 'step': si}
            if not volatile and len(set(map(repr, outs.values()))) > 1:
                chk.violation('impl-vs-spec', desc, {'results differ from a fresh parse on a fresh context': {k: repr(v)[:300] for k, v in outs.items()}})
            if snapshot(variables) != before_vars:
                a, b = before_vars, snapshot(variables)
                diff = [(x, y) for x, y in zip(a, b) if x != y]
                chk.violation('impl-vs-spec', desc, {'caller variables changed': repr(diff)[:600]})
            if namespaces != before_ns:
                chk.violation('impl-vs-spec', desc, {'caller namespaces changed': repr(namespaces)})
            after_xml = (ET.tostring(doc) if di != 2 else LE.tostring(doc))
            if after_xml != before_xml:
                chk.violation('impl-vs-spec', desc, {'input tree changed': after_xml.decode()[:300]})
            chk.nontrivial.add(repr((expr, v31, steps[:si + 1])))
    # ---------------- 3. schema objects: evaluation with a schema proxy leaves the schema as it found it
    schema_objects_section(chk)

    chk.rule = ('calculus: a fixed corpus of shadowing / nested-range programs + seeded random programs (depth <= 4, three names, caller '
                'bindings for a random subset) through select, iter_select, Selector (twice), token x {3.1, 2.0 when let-free}; histories: '
                'seeded sequences of 2-6 evaluations of one token and one Selector over 4 documents (xml.etree and lxml) x 3 variable maps '
                '(xs:dateTime without timezone, durations, untyped, sequences) x 4 implicit timezones, each compared with a fresh parse on '
                'fresh values, with snapshots of variables, namespaces and the serialized tree; non-trivial = distinct program / history prefix')
    chk.obligations.append({'name': 'correspondence:impl==model(binding calculus)', 'ok': not chk.corr_fail,
                            'detail': f'{len(chk.corr_fail)} disagreements' + (': ' + repr(chk.corr_fail[0])[:500] if chk.corr_fail else '')})
    if chk.corr_fail and not any(not v['no_failing_input'] for v in chk.violations):
        d0, got, mo = chk.corr_fail[0]
        chk.violation('correspondence-broken', d0, {'impl': got, 'model': mo}, no_input=True)


def schema_objects_section(chk):
    """Evaluations with a bound schema (the typed scenario of C20, parse + static evaluation + dynamic evaluation) must not
    change the schema: the content of its maps and components is compared from a cold start; after one warm-up pass (lazily
    cached properties of xmlschema / elementpath such as xpath_node are filled on first use) every attribute of the schema,
    of each of its components and of the proxy must keep its identity over a second pass."""
    import xml.etree.ElementTree as ET
    import xmlschema
    from elementpath import select, Selector, ElementPathError
    from elementpath.xpath31 import XPath31Parser
    from props import c20
    schema = xmlschema.XMLSchema10(c20.TYPED_XSD)
    proxy = schema.xpath_proxy
    root = ET.XML(c20.TYPED_XML)

    def content(sc):
        maps = {m: sorted(map(str, getattr(sc.maps, m).keys())) for m in ('types', 'elements', 'attributes', 'groups', 'attribute_groups', 'notations')
                if hasattr(sc.maps, m)}
        comps = [(type(c).__name__, str(getattr(c, 'name', None)), str(getattr(getattr(c, 'type', None), 'name', None)),
                  str(getattr(c, 'default', None)), str(getattr(c, 'min_occurs', None)), str(getattr(c, 'max_occurs', None)))
                 for c in sc.iter_components()]
        xsd = ET.tostring(sc.source.root if hasattr(sc.source, 'root') else sc.root, encoding='unicode')
        return maps, comps, xsd

    def identities(sc, px):
        out = [('schema', sorted((k, id(v)) for k, v in vars(sc).items())), ('proxy', sorted((k, id(v)) for k, v in vars(px).items()))]
        for c in sc.iter_components():
            if hasattr(c, '__dict__'):
                out.append((type(c).__name__ + ':' + str(getattr(c, 'name', None)), sorted((k, id(v)) for k, v in vars(c).items())))
        return out

    exprs = [e for e, _ in c20.TYPED_CASES] + ['//*', '//@*', 'data(//*[not(*)])', 'i + 1', 'for $x in //i return $x * 2', '//l instance of element(*, xs:anyType)',
                                               'sum(//l)', 'string-join(//u ! string(), ",")', 'i cast as xs:string', '/r/i = 42']

    def one_pass():
        n = 0
        for e in exprs:
            for how in ('select', 'selector'):
                chk.evaluations += 1
                chk.count('schema-objects:' + how)
                try:
                    if how == 'select':
                        select(root, e, schema=proxy, parser=XPath31Parser, namespaces={'p': 'urn:p'})
                    else:
                        Selector(e, schema=proxy, parser=XPath31Parser, namespaces={'p': 'urn:p'}).select(root)
                    n += 1
                except ElementPathError:
                    pass
                except Exception as ex:
                    chk.violation('foreign-exception', {'expr': e, 'schema': 'typed scenario'}, repr(ex)[:200])
        return n

    cold = content(schema)
    done = one_pass()
    warm_content, warm_ids = content(schema), identities(schema, proxy)
    one_pass()
    after_content, after_ids = content(schema), identities(schema, proxy)
    chk.nontrivial.add(('schema-objects', done))
    if cold != warm_content or cold != after_content:
        which = [k for k, (a, b) in zip(('maps', 'components', 'source'), zip(cold, after_content)) if a != b]
        chk.violation('impl-vs-spec', {'scenario': 'schema objects', 'expressions': len(exprs)}, {'schema content changed by evaluation': which})
    if warm_ids != after_ids:
        diff = [(a[0], sorted(set(a[1]) ^ set(b[1]))[:4]) for a, b in zip(warm_ids, after_ids) if a != b][:3]
        chk.violation('impl-vs-spec', {'scenario': 'schema objects', 'expressions': len(exprs)},
                      {'attributes of the schema / components / proxy rebound by a second pass of evaluations': repr(diff)[:400]})


def replay(rec):
    print(rec)
    return 0
