"""C15 — maps and arrays are immutable values obeying the XPath 3.1 map/array laws.

proof:  coq/theories/C15/{Model,Proofs,Properties}.v : finite-map laws on association lists (get/put, size, remove,
        key uniqueness, merge policies) and list laws for arrays (1-based get with FOAY0001, put, insert-before,
        subarray, reverse).
tie:    correspondence on operation sequences evaluated through select() with the operand bound to a variable and
        snapshotted before / after (immutability of the Python objects), XPath31Parser.
"""
import math

import core

IMPORTS = 'From EP Require Import C15.Model C15.Keys C15.Run.'
Z = core.zlit


def vlit(v):
    return core.zlist(v)


def mlit(m):
    return '[' + '; '.join(f'({Z(k)}, {vlit(v)})' for k, v in m) + ']'


def alit(a):
    return '[' + '; '.join(vlit(v) for v in a) + ']'


def xseq(v):
    return '(' + ', '.join(str(x) for x in v) + ')'


def xmap_expr(m):
    return 'map{' + ', '.join(f'{k}: {xseq(v)}' for k, v in m) + '}'


def xarr_expr(a):
    return '[' + ', '.join(xseq(v) for v in a) + ']'


def val(v):
    if v is None or v == []:
        return []
    return [int(x) for x in v] if isinstance(v, list) else [int(v)]


def map_rows(m):
    return [[int(k)] + val(v) for k, v in m.items()]


def arr_rows(a):
    return [val(v) for v in a.items()]


def run(chk):
    from elementpath import ElementPathError
    from elementpath.xpath31 import XPath31Parser
    from elementpath.xpath_tokens import XPathMap, XPathArray
    rng = chk.rng
    quick = chk.tier == 'quick'
    chk.trusted += ['the map / array laws are proved over integer keys (Python == / hash on ints is Z equality) and, for put / get / '
                    'contains / remove / size, over typed keys with the op:same-key relation (C15.Keys: keys of every atomic family '
                    'as (family, value code) with the codes assigned by the harness table KEYS; Python == on numbers, dates and '
                    'durations is modelled external as py_eq); map:merge on typed keys is modelled by tmerge (entry order of the dict is not '
                    'compared there), the map constructor by the same-key observation table',
                    'map entry order (dict insertion order) is compared literally with the model; the specification leaves it free']
    for f in ('elementpath/xpath_tokens/maps.py', 'elementpath/xpath_tokens/arrays.py', 'elementpath/xpath31/_xpath31_functions.py',
              'elementpath/xpath31/_xpath31_operators.py', 'elementpath/compare.py'):
        chk.record_source(f)
    chk.forbidden_scan(['C15'])
    import gen_c15
    gen_c15.generate()          # source-shape facts regenerated from /repo on every run
    chk.trusted.append('harness/shape.py: AST lookup of the statements mirrored by the hand model (Gen/C15Shape.v)')
    proved = chk.prove(['theories/Gen/C15Shape.v', 'theories/C15/Model.v', 'theories/C15/Proofs.v', 'theories/C15/Keys.v', 'theories/C15/KeysProofs.v',
                        'theories/C15/Run.v'], 'theories/C15/Properties.v')
    proved = chk.prove(['theories/C15/Keys.v', 'theories/C15/KeysProofs.v'], 'theories/C15/KeysProperties.v') and proved
    model_ok = True
    if not proved:
        try:
            core.coq_make(['theories/C15/Model.v', 'theories/C15/Keys.v', 'theories/C15/Run.v'])
        except core.CoqError as e:
            chk.notes.append('model does not build: ' + str(e))
            model_ok = False

    def rval(maxlen=3):
        return [rng.randint(0, 9) for _ in range(rng.randint(0, maxlen))]

    def rmap(n=None):
        ks = rng.sample(range(0, 7), rng.randint(0, 4) if n is None else n)
        return [(k, rval()) for k in ks]
    cases = []
    for _ in range(250 if quick else 15000):
        m = rmap()
        ops = []
        for _ in range(rng.randint(1, 5)):
            if rng.random() < 0.65:
                ops.append(('put', rng.randint(0, 7), rval()))
            else:
                ops.append(('remove', [rng.randint(0, 7) for _ in range(rng.randint(0, 3))]))
        cases.append(('mops', m, ops, list(range(0, 8))))
    for _ in range(150 if quick else 8000):
        ms = [rmap() for _ in range(rng.randint(1, 4))]
        cases.append(('merge', rng.randint(0, 3), ms))
    for pol in range(4):
        cases.append(('merge', pol, [[(1, [1, 2])], [(1, [3])], [(2, [4]), (1, [5])]]))
    arrs = [[], [[1]], [[1], [2, 3], []], [[5], [6], [7], [8]]]
    for a in arrs:
        for f in range(1, 13):
            for i in range(-1, 7):
                if f in (1, 2, 4, 6):
                    cases.append(('arr', f, a, i, 0, [9, 9], [], []))
                elif f == 7:
                    for j in range(-1, 5):
                        cases.append(('arr', f, a, i, j, [], [], []))
            if f in (3, 8, 9, 10, 12):
                cases.append(('arr', f, a, 0, 0, [4], [], []))
            if f == 5:
                for ps in ([], [1], [2, 2], [1, 3], [0], [9], [4, 1]):
                    cases.append(('arr', f, a, 0, 0, [], ps, []))
            if f == 11:
                cases.append(('arr', f, a, 0, 0, [], [], [[[7]], []]))
    for _ in range(150 if quick else 8000):
        a = [rval() for _ in range(rng.randint(0, 5))]
        f = rng.randint(1, 12)
        cases.append(('arr', f, a, rng.randint(-1, 7), rng.randint(-1, 5), rval(), [rng.randint(0, 6) for _ in range(rng.randint(0, 3))],
                      [[rval() for _ in range(rng.randint(0, 2))] for _ in range(rng.randint(0, 2))]))

    terms = []
    for c in cases:
        if c[0] == 'mops':
            _, m, ops, probes = c
            ol = '; '.join(f'MPut {Z(o[1])} {vlit(o[2])}' if o[0] == 'put' else f'MRemove {vlit(o[1])}' for o in ops)
            terms.append(f'(run_mops {mlit(m)} [{ol}] {vlit(probes)}, [[0]])')
        elif c[0] == 'merge':
            terms.append(f'(([[0]], [[0]]), run_merge {c[1]} [{"; ".join(mlit(m) for m in c[2])}])')
        else:
            _, f, a, i, j, v, ps, others = c
            terms.append(f'(([[0]], [[0]]), run_arr {f} {alit(a)} {Z(i)} {Z(j)} {vlit(v)} {vlit(ps)} [{"; ".join(alit(o) for o in others)}])')
    model = core.run_coq_cases('C15', IMPORTS, terms, chunk=400, tag='ops') if model_ok else [None] * len(cases)

    import xml.etree.ElementTree as ET
    from elementpath import XPathContext
    _root = ET.XML('<r/>')
    _parser = XPath31Parser()
    _cache = {}

    def select(_none, expr, variables=None, item=None, parser=None):
        """evaluate without the result normalisation of the public API (which flattens arrays)"""
        tok = _cache.get(expr)
        if tok is None:
            tok = _cache[expr] = XPath31Parser().parse(expr)
        return tok.evaluate(XPathContext(_root, variables=variables or {}))
    P = XPath31Parser
    AF = {1: 'array:get($a, $i)', 2: 'array:put($a, $i, $v)', 3: 'array:append($a, $v)', 4: 'array:insert-before($a, $i, $v)',
          5: 'array:remove($a, $ps)', 6: 'array:subarray($a, $i)', 7: 'array:subarray($a, $i, $j)', 8: 'array:head($a)', 9: 'array:tail($a)',
          10: 'array:reverse($a)', 11: 'array:join(($a, $o1, $o2))', 12: 'array:flatten($a)'}
    POL = ['use-first', 'use-last', 'reject', 'combine']
    for idx, c in enumerate(cases):
        chk.evaluations += 1
        chk.count(c[0] if c[0] != 'arr' else AF[c[1]].split('(')[0])
        try:
            if c[0] == 'mops':
                _, m, ops, probes = c
                cur = select(None, xmap_expr(m), item=1, parser=P)
                desc = {'map': xmap_expr(m), 'ops': ops}
                for o in ops:
                    before = map_rows(cur)
                    if o[0] == 'put':
                        nxt = select(None, 'map:put($m, $k, $v)', variables={'m': cur, 'k': o[1], 'v': o[2]}, item=1, parser=P)
                    else:
                        nxt = select(None, 'map:remove($m, $ks)', variables={'m': cur, 'ks': o[1]}, item=1, parser=P)
                    if map_rows(cur) != before:
                        chk.violation('operand-modified', desc | {'op': o}, {'before': before, 'after': map_rows(cur)})
                    cur = nxt
                got_map = map_rows(cur)
                got_probes = []
                for k in probes:
                    r = select(None, '(map:contains($m, $k), map:get($m, $k), $m($k), $m?*[1][false()])', variables={'m': cur, 'k': k}, item=1, parser=P)
                    r = r if isinstance(r, list) else [r]
                    cont = int(bool(r[0]))
                    vals = val(r[1:])
                    g = val(select(None, 'map:get($m, $k)', variables={'m': cur, 'k': k}, item=1, parser=P))
                    call = val(select(None, '$m($k)', variables={'m': cur, 'k': k}, item=1, parser=P))
                    lk = val(select(None, '$m?($k)', variables={'m': cur, 'k': k}, item=1, parser=P))
                    if not (g == call == lk):
                        chk.violation('impl-vs-spec', desc | {'key': k}, {'map:get': g, 'call': call, 'lookup': lk})
                    got_probes.append([cont] + g)
                got_probes.append([select(None, 'map:size($m)', variables={'m': cur}, item=1, parser=P)])
                if model[idx] is not None:
                    mm, mp, _ = model[idx]          # Coq prints ((a, b), c) as (a, b, c)
                    mm, mp = [list(x) for x in mm], [list(x) for x in mp]
                    if got_map != mm or got_probes != mp:
                        chk.corr_fail.append((desc, {'map': got_map, 'probes': got_probes}, {'map': mm, 'probes': mp}))
                        chk.violation('impl-vs-spec', desc, {'impl': {'map': got_map, 'probes': got_probes}, 'spec(model)': {'map': mm, 'probes': mp}})
                chk.nontrivial.add(repr(c))
            elif c[0] == 'merge':
                _, pol, ms = c
                objs = [select(None, xmap_expr(m), item=1, parser=P) for m in ms]
                before = [map_rows(o) for o in objs]
                desc = {'maps': [xmap_expr(m) for m in ms], 'duplicates': POL[pol]}
                try:
                    r = select(None, "map:merge($ms, map{'duplicates': $p})", variables={'ms': objs, 'p': POL[pol]}, item=1, parser=P)
                    flat = True
                    rows = []
                    for k, v in r.items():
                        vv = v if isinstance(v, list) else [v]
                        if any(isinstance(x, list) for x in vv):
                            flat = False
                        rows.append([int(k)] + [x for x in _flatten(vv)])
                    got = rows
                except ElementPathError as e:
                    got, flat = [[-9]], True
                if [map_rows(o) for o in objs] != before:
                    chk.violation('operand-modified', desc, {'before': before, 'after': [map_rows(o) for o in objs]})
                if model[idx] is not None:
                    mo = [list(x) for x in model[idx][2]]
                    keyset = lambda rows: sorted(rows)
                    if got != mo:
                        chk.corr_fail.append((desc, got, mo))
                        chk.violation('impl-vs-spec', desc, {'impl': got, 'spec(model)': mo})
                    elif not flat:
                        chk.corr_fail.append((desc, 'nested value', 'flat sequence'))
                        chk.violation('impl-vs-spec', desc, {'note': 'combined value is nested instead of concatenated', 'impl': repr(dict(r.items()))})
                if len(ms) > 1:
                    chk.nontrivial.add(repr(c))
            else:
                _, f, a, i, j, v, ps, others = c
                obj = XPathArray(_parser, items=[list(x) for x in a])
                o1 = XPathArray(_parser, items=[list(x) for x in (others[0] if others else [])])
                o2 = XPathArray(_parser, items=[list(x) for x in (others[1] if len(others) > 1 else [])])
                before = arr_rows(obj)
                desc = {'expr': AF[f], 'a': xarr_expr(a), 'i': i, 'j': j, 'v': v, 'ps': ps, 'others': [xarr_expr(o) for o in others]}
                try:
                    r = select(None, AF[f], variables={'a': obj, 'i': i, 'j': j, 'v': v, 'ps': ps, 'o1': o1, 'o2': o2}, item=1, parser=P)
                    if isinstance(r, XPathArray):
                        got = [[0]] + arr_rows(r)
                    else:
                        got = [[1], val(r)]
                except ElementPathError as e:
                    code = (e.code or '').split(':')[-1]
                    got = [[2, {'FOAY0001': 1, 'FOAY0002': 2}.get(code, 99)]]
                if arr_rows(obj) != before:
                    chk.violation('operand-modified', desc, {'before': before, 'after': arr_rows(obj)})
                if model[idx] is not None:
                    mo = [list(x) for x in model[idx][2]]
                    if f == 11 and len(others) < 2:
                        pass
                    if got != mo:
                        chk.corr_fail.append((desc, got, mo))
                        chk.violation('impl-vs-spec', desc, {'impl': got, 'spec(model)': mo})
                chk.nontrivial.add(repr(c))
        except Exception as e:
            chk.violation('impl-raised', {'case': repr(c)[:300]}, repr(e)[:300])
        if idx % 397 == 0:
            chk.sample({'case': repr(c)[:250], 'model': model[idx]})

    # ---- same-key relation over key types (F&O op:same-key), observed through map:put / map:contains / constructor
    SAME = [("1", "1.0", True), ("1", "1e0", True), ("1", "xs:float('1')", True), ("1.5", "1.5e0", True), ("xs:double('NaN')", "xs:float('NaN')", True),
            ("xs:double('NaN')", "xs:double('NaN')", True), ("'a'", "xs:anyURI('a')", True), ("'a'", "xs:untypedAtomic('a')", True),
            ("xs:untypedAtomic('1')", "1", False), ("'1'", "1", False), ("true()", "1", False), ("false()", "0", False), ("true()", "'true'", False),
            ("xs:double('INF')", "xs:float('INF')", True), ("xs:date('2000-01-01')", "xs:date('2000-01-01')", True),
            ("xs:hexBinary('0A')", "xs:base64Binary('Cg==')", False), ("0.1", "0.1e0", False), ("xs:duration('P1D')", "xs:dayTimeDuration('PT24H')", True)]
    for k1, k2, want in SAME + [(b, a, w) for a, b, w in SAME if a != b]:
        chk.evaluations += 1
        chk.count('same-key')
        desc = {'k1': k1, 'k2': k2, 'same_key_spec': want}
        try:
            size = select(None, f"map:size(map:put(map:entry({k1}, 1), {k2}, 2))", item=1, parser=P)
            cont = select(None, f"map:contains(map:entry({k1}, 1), {k2})", item=1, parser=P)
            try:
                select(None, f"map{{{k1}: 1, {k2}: 2}}", item=1, parser=P)
                ctor_dup = False
            except ElementPathError as e:
                ctor_dup = 'XQDY0137' in str(e.code)
            m12 = select(None, f"map:size(map:merge((map:entry({k1}, 1), map:entry({k2}, 2))))", item=1, parser=P)
            m21 = select(None, f"map:size(map:merge((map:entry({k2}, 1), map:entry({k1}, 2))))", item=1, parser=P)
            rem = select(None, f"map:size(map:remove(map:entry({k1}, 1), {k2}))", item=1, parser=P)
            got = {'put_same': size == 1, 'contains': bool(cont), 'constructor_rejects_as_duplicate': ctor_dup,
                   'merge_same': m12 == 1, 'merge_same_reversed': m21 == 1, 'remove_same': rem == 0}
        except Exception as e:
            chk.violation('impl-raised', desc, repr(e)[:200])
            continue
        exp = {'put_same': want, 'contains': want, 'constructor_rejects_as_duplicate': want, 'merge_same': want, 'merge_same_reversed': want,
               'remove_same': want}
        if got != exp:
            chk.violation('impl-vs-spec', desc, {'impl': got, 'spec': exp})
    # ---- typed keys: compare.same_key and map:put / remove / get / contains / size on maps keyed by every atomic family,
    #      against C15.Keys (same_key_impl = the code as written, same_key_spec = op:same-key)
    from elementpath.compare import same_key as impl_same_key
    KEYS = [  # (XPath expression, Coq key)
        ('0', 'KN TInteger (NFin 0 1)'), ('1', 'KN TInteger (NFin 1 1)'), ('2', 'KN TInteger (NFin 2 1)'),
        ('1.0', 'KN TDecimal (NFin 10 10)'), ('1.5', 'KN TDecimal (NFin 15 10)'), ('0.1', 'KN TDecimal (NFin 1 10)'),
        ('1e0', 'KN TDouble (NFin 1 1)'), ('1.5e0', 'KN TDouble (NFin 3 2)'),
        ('0.1e0', 'KN TDouble (NFin 3602879701896397 36028797018963968)'), ('0e0', 'KN TDouble (NFin 0 1)'),
        ("xs:double('NaN')", 'KN TDouble NNaN'), ("xs:double('INF')", 'KN TDouble NPInf'), ("xs:double('-INF')", 'KN TDouble NNInf'),
        ("xs:float('1')", 'KN TFloat (NFin 1 1)'), ("xs:float('1.5')", 'KN TFloat (NFin 3 2)'), ("xs:float('NaN')", 'KN TFloat NNaN'),
        ("xs:float('INF')", 'KN TFloat NPInf'),
        ("'a'", 'KS FString 1'), ("'1'", 'KS FString 2'), ("'true'", 'KS FString 3'), ("''", 'KS FString 4'),
        ("xs:anyURI('a')", 'KS FAnyURI 1'), ("xs:untypedAtomic('a')", 'KS FUntyped 1'), ("xs:untypedAtomic('1')", 'KS FUntyped 2'),
        ("xs:untypedAtomic('true')", 'KS FUntyped 3'),
        ('true()', 'KBool true'), ('false()', 'KBool false'),
        ("xs:QName('a')", 'KQName 1'), ("xs:QName('b')", 'KQName 2'),
        ("xs:hexBinary('0A')", 'KBin true 10'), ("xs:hexBinary('0a')", 'KBin true 10'), ("xs:base64Binary('Cg==')", 'KBin false 10'),
        ("xs:hexBinary('0B')", 'KBin true 11'),
        ("xs:date('2000-01-01')", 'KOther 1 1'), ("xs:date('2000-01-02')", 'KOther 1 2'), ("xs:dateTime('2000-01-01T00:00:00')", 'KOther 2 1'),
        ("xs:time('00:00:00')", 'KOther 3 1'), ("xs:duration('P1D')", 'KOther 4 1'), ("xs:dayTimeDuration('PT24H')", 'KOther 4 1'),
        ("xs:yearMonthDuration('P1Y')", 'KOther 4 2'), ("xs:duration('P12M')", 'KOther 4 2'), ("xs:gYear('2000')", 'KOther 5 1'),
        ("xs:gYearMonth('2000-01')", 'KOther 6 1'), ("xs:gMonthDay('--01-01')", 'KOther 7 1'), ("xs:gDay('---01')", 'KOther 8 1'),
        ("xs:gMonth('--01')", 'KOther 9 1'), ("xs:dateTime('2000-01-01T00:00:00Z')", 'KOther 2 2'), ("xs:dateTime('2000-01-01T01:00:00+01:00')", 'KOther 2 2'),
    ]

    kval = {}
    for e, _ in KEYS:
        try:
            kval[e] = select(None, e)
        except Exception as ex:
            chk.violation('impl-raised', {'key': e}, repr(ex)[:200])
    # (a) the relation itself, every ordered pair
    pairs = [(a, b) for a in KEYS for b in KEYS if a[0] in kval and b[0] in kval]
    rel = core.run_coq_cases('C15', IMPORTS, [f'run_same ({a[1]}) ({b[1]})' for a, b in pairs], chunk=600, tag='samekey') if model_ok else []
    for (a, b), mo in zip(pairs, rel):
        chk.evaluations += 1
        chk.count('typed:same-key pair')
        got = int(bool(impl_same_key(kval[a[0]], kval[b[0]])))
        desc = {'same_key': [a[0], b[0]]}
        if got != mo[0]:
            chk.corr_fail.append((desc, got, mo[0]))
        if got != mo[1]:
            chk.violation('impl-vs-spec', desc, {'impl': got, 'spec': mo[1], 'model': mo[0]})
        chk.nontrivial.add(repr(('samekey', a[0], b[0])))
    # (b) operation sequences over typed keys
    tcases = []
    for _ in range(150 if quick else 6000):
        pool = rng.sample(KEYS, rng.randint(2, 6))
        if rng.random() < 0.5:       # favour keys that are related to each other
            pool += [k for k in KEYS if k[1].split()[0] == pool[0][1].split()[0]][:4]
        ops = []
        for _ in range(rng.randint(1, 6)):
            if rng.random() < 0.7:
                ops.append(('put', rng.choice(pool), [rng.randint(1, 9) for _ in range(rng.randint(1, 2))]))
            else:
                ops.append(('remove', [rng.choice(pool) for _ in range(rng.randint(0, 2))]))
        tcases.append((ops, pool[:6]))
    def top_lit(o):
        if o[0] == 'put':
            return f'TPut ({o[1][1]}) {vlit(o[2])}'
        return 'TRemove [' + '; '.join(k[1] for k in o[1]) + ']'
    tmodel = core.run_coq_cases('C15', IMPORTS, [f"run_tops [{'; '.join(top_lit(o) for o in ops)}] [{'; '.join(k[1] for k in probes)}]"
                                                 for ops, probes in tcases], chunk=300, tag='tops') if model_ok else []
    for (ops, probes), mo in zip(tcases, tmodel):
        chk.evaluations += 1
        chk.count('typed:op sequence')
        expr = 'map{}'
        for o in ops:
            if o[0] == 'put':
                expr = f"map:put({expr}, {o[1][0]}, ({', '.join(map(str, o[2]))}))"
            else:
                expr = f"map:remove({expr}, ({', '.join(k[0] for k in o[1])}))"
        used = [o[1][0] for o in ops if o[0] == 'put'] + [k[0] for o in ops if o[0] == 'remove' for k in o[1]] + [k[0] for k in probes]
        desc = {'expr': expr, 'probes': [k[0] for k in probes]}
        try:
            m = select(None, expr)
            got = []
            for k in probes:
                c = select(None, 'map:contains($m, $k)', variables={'m': m, 'k': kval[k[0]]})
                g = select(None, 'map:get($m, $k)', variables={'m': m, 'k': kval[k[0]]})
                g2 = select(None, '$m($k)', variables={'m': m, 'k': kval[k[0]]})
                g = g if isinstance(g, list) else [g]
                g2 = g2 if isinstance(g2, list) else [g2]
                if g != g2:
                    chk.violation('impl-vs-spec', desc, {'key': k[0], 'map:get': repr(g), '$m($k)': repr(g2)})
                nf = select(None, 'array:size(map:find($m, $k))', variables={'m': m, 'k': kval[k[0]]})
                if nf != int(bool(c)):    # map:find on a flat map: one member per entry with the same key
                    chk.violation('impl-vs-spec', desc, {'key': k[0], 'map:contains': c, 'array:size(map:find($m, $k))': nf})
                got.append([int(bool(c))] + [int(x) for x in g])
            got.append([len(m)])
        except ElementPathError as e:
            got = [['error', str(e.code)]]
        except Exception as e:
            chk.violation('impl-raised', desc, repr(e)[:300])
            continue
        mi, ms = [list(x) for x in mo[0]], [list(x) for x in mo[1]]
        if got != mi:
            chk.corr_fail.append((desc, got, mi))
        if got != ms:
            chk.violation('impl-vs-spec', desc, {'impl': got, 'spec': ms, 'model': mi})
        chk.nontrivial.add(repr(('tops', expr, tuple(k[0] for k in probes))))
    # (c) map:merge and the map constructor over typed keys
    spec_same = {(a[0], b[0]): bool(mo[1]) for (a, b), mo in zip(pairs, rel)}
    mcases = []
    for _ in range(120 if quick else 5000):
        pool = rng.sample(KEYS, rng.randint(2, 5))
        if rng.random() < 0.6:
            pool += [k for k in KEYS if k[1].split()[0] == pool[0][1].split()[0]][:4]
        maps = []
        for _ in range(rng.randint(1, 3)):
            # the entries of one operand map have pairwise different keys (a map cannot hold two same keys)
            ent = []
            for k in rng.sample(pool, min(len(pool), rng.randint(0, 3))):
                if any(spec_same.get((k[0], k2[0]), True) for k2, _ in ent):
                    continue
                ent.append((k, [rng.randint(1, 9) for _ in range(rng.randint(1, 2))]))
            maps.append(ent)
        mcases.append((rng.randint(0, 3), maps, pool[:6]))
    def tmap_lit(ent):
        return '[' + '; '.join(f'(({k[1]}), {vlit(v)})' for k, v in ent) + ']'
    mmodel = core.run_coq_cases('C15', IMPORTS, [f"run_tmerge {p} [{'; '.join(tmap_lit(e) for e in maps)}] [{'; '.join(k[1] for k in probes)}]"
                                                 for p, maps, probes in mcases], chunk=300, tag='tmerge') if model_ok else []
    for (p, maps, probes), mo in zip(mcases, mmodel):
        chk.evaluations += 1
        chk.count('typed:merge')
        used = [k[0] for ent in maps for k, _ in ent] + [k[0] for k in probes]
        desc = {'policy': POL[p], 'maps': [[(k[0], v) for k, v in ent] for ent in maps], 'probes': [k[0] for k in probes]}
        try:
            objs = []
            operand_ok = True
            for ent in maps:
                e = 'map{}'
                for k, v in ent:
                    e = f"map:put({e}, {k[0]}, ({', '.join(map(str, v))}))"
                m1 = select(None, e)
                if len(m1) != len(ent):
                    operand_ok = False      # the operand itself conflates two keys (bool / number region)
                objs.append(m1)
            m = select(None, "map:merge($ms, map{'duplicates': $p})", variables={'ms': objs, 'p': POL[p]})
            got = []
            for k in probes:
                c = select(None, 'map:contains($m, $k)', variables={'m': m, 'k': kval[k[0]]})
                g = select(None, 'map:get($m, $k)', variables={'m': m, 'k': kval[k[0]]})
                g = g if isinstance(g, list) else [g]
                got.append([int(bool(c))] + [int(x) for x in _flatten(g)])
            got.append([len(m)])
        except ElementPathError as e:
            got = [[-9]] if 'FOJS0003' in str(e.code) else [['error', str(e.code)]]
        except Exception as e:
            chk.violation('impl-raised', desc, repr(e)[:300])
            continue
        mi, ms = [list(x) for x in mo[0]], [list(x) for x in mo[1]]
        if not operand_ok:
            chk.violation('impl-vs-spec', desc, {'note': 'an operand map built by map:put conflates two different keys'})
            continue
        if got != mi:
            chk.corr_fail.append((desc, got, mi))
        if got != ms:
            chk.violation('impl-vs-spec', desc, {'impl': got, 'spec': ms, 'model': mi})
        chk.nontrivial.add(repr(('tmerge', p, repr(desc['maps']), tuple(desc['probes']))))
    chk.rule = ('seeded operation sequences map:put / map:remove on integer-keyed maps with every key probed through map:get, $m($k), $m?($k), '
                'map:contains, map:size; map:merge over 1-4 maps x 4 duplicate policies; array functions over an index grid -1..6 and random '
                'arrays; operands bound to variables and snapshotted before/after every call; same-key table over key types; '
                'non-trivial = every case, distinct by case')
    chk.obligations.append({'name': 'correspondence:impl==model(map entries, probes, arrays)', 'ok': not chk.corr_fail,
                            'detail': f'{len(chk.corr_fail)} disagreements' + (': ' + repr(chk.corr_fail[0])[:500] if chk.corr_fail else '')})


def _flatten(v):
    for x in v:
        if isinstance(x, list):
            yield from _flatten(x)
        else:
            yield int(x)


def replay(rec):
    print(rec)
    return 0
