"""C17 — JSON and XML serialisation round-trip through their parsers.

proof:  coq/theories/C17/{Model,Proofs,Properties}.v : an RFC 8259 JSON codec over code points (serializer + fuelled
        recursive-descent parser with escapes, surrogate pairs, general numbers) with parse (print v) = Some v for every
        JSON value (any nesting, any scalar-value strings, any m*10^e numbers, duplicate keys).
tie:    the codec is the independent JSON parser / serializer of the correspondence: fn:serialize(v, json) text is parsed
        by the Coq parser and must denote v; Coq-printed (and re-spaced / re-escaped) texts go through fn:parse-json and
        xml-to-json(json-to-xml(.)) and must denote the same value; fn:parse-json(fn:serialize(v)) deep-equals v.
search: parse-xml(serialize(node)) against the node (canonical XML and fn:deep-equal) over generated trees.
PARTIAL: the JSON functions of the implementation delegate to CPython's json module (external); XML serialization is
        checked on the implementation only.
"""
import math
from fractions import Fraction

import core
import trees

IMPORTS = 'From EP Require Import C10.Model C17.Model C17.Run.'
CHARS = [0x61, 0x62, 0x20, 0x22, 0x5c, 0x2f, 0x0a, 0x09, 0x01, 0x1f, 0x7f, 0xe9, 0x3b1, 0x20ac, 0x1f600, 0x10000, 0x10ffff, 0xffff, 0x7b, 0x5d, 0x2c, 0x3a, 0x27, 0x3c, 0x26]


# ---- JSON values as Python: None | bool | ('num', Fraction | float | int) | str | list | [('obj'), (k, v)...]
def gen_value(rng, depth, xml_safe=False):
    r = rng.random()
    if depth <= 0 or r < 0.45:
        k = rng.choice(['null', 'bool', 'int', 'int', 'dbl', 'str', 'str'])
        if k == 'null':
            return None
        if k == 'bool':
            return rng.random() < 0.5
        if k == 'int':
            return rng.choice([0, 1, -1, 7, 10 ** 6, -123456789, 2 ** 53, 2 ** 53 + 1, 10 ** 20, rng.randint(-10 ** 9, 10 ** 9)])
        if k == 'dbl':
            return rng.choice([0.5, 0.1, 0.30000000000000004, 1.0000000000000002, 1e20, 1.5e300, 1e-7, 5e-324, -2.5, 1e21, 1e22, 123456.789, 2.220446049250313e-16,
                               -9007199254740991.0, 100.0, rng.uniform(-1, 1) * 10 ** rng.randint(-20, 20)])
        pool = [c for c in CHARS if not xml_safe or (c >= 0x20 or c in (9, 10)) and c not in (0xffff,)]
        return ''.join(chr(rng.choice(pool)) for _ in range(rng.randint(0, 5)))
    if r < 0.72:
        return [gen_value(rng, depth - 1, xml_safe) for _ in range(rng.randint(0, 3))]
    keys = []
    out = {'__obj__': []}
    for _ in range(rng.randint(0, 3)):
        pool = [c for c in CHARS if not xml_safe or (c >= 0x20 or c in (9, 10)) and c not in (0xffff,)]
        k = ''.join(chr(rng.choice(pool)) for _ in range(rng.randint(0, 3)))
        if k in keys:
            continue
        keys.append(k)
        out['__obj__'].append((k, gen_value(rng, depth - 1, xml_safe)))
    return out


def to_coq(v):
    if v is None:
        return 'JNull'
    if isinstance(v, bool):
        return f'(JBool {"true" if v else "false"})'
    if isinstance(v, int):
        return f'(JNum {core.zlit(v)} 0)'
    if isinstance(v, float):
        from decimal import Decimal
        sign, digits, exp = Decimal(repr(v)).as_tuple()
        m = int(''.join(map(str, digits)))
        return f'(JNum {core.zlit(-m if sign else m)} {core.zlit(exp)})'
    if isinstance(v, str):
        return f'(JStr {core.zlist([ord(c) for c in v])})'
    if isinstance(v, list):
        return '(JArr [' + '; '.join(to_coq(x) for x in v) + '])'
    return '(JObj [' + '; '.join(f'({core.zlist([ord(c) for c in k])}, {to_coq(x)})' for k, x in v['__obj__']) + '])'


def unflat(t, i=0):
    """decode Run.flat; numbers as Fraction"""
    k = t[i]
    if k == 0:
        return None, i + 1
    if k == 1:
        return bool(t[i + 1]), i + 2
    if k == 2:
        return ('num', Fraction(t[i + 1]) * Fraction(10) ** t[i + 2]), i + 3
    if k == 3:
        n = t[i + 1]
        return ''.join(map(chr, t[i + 2:i + 2 + n])), i + 2 + n
    if k == 4:
        n, i = t[i + 1], i + 2
        out = []
        for _ in range(n):
            x, i = unflat(t, i)
            out.append(x)
        return out, i
    n, i = t[i + 1], i + 2
    out = []
    for _ in range(n):
        key, i = unflat(t, i)
        x, i = unflat(t, i)
        out.append((key, x))
    return {'__obj__': out}, i


def same(a, b):
    """a: expected Python value; b: decoded Coq value (numbers ('num', Fraction))"""
    if isinstance(b, tuple) and b and b[0] == 'num':
        if isinstance(a, bool) or not isinstance(a, (int, float)):
            return False
        if isinstance(a, int):
            return Fraction(a) == b[1] or float(b[1]) == float(a) and abs(a) > 2 ** 53      # integers beyond 2^53 may be written as doubles
        return float(b[1]) == a
    if a is None or isinstance(a, (bool, str)):
        return type(a) is type(b) and a == b
    if isinstance(a, list):
        return isinstance(b, list) and len(a) == len(b) and all(same(x, y) for x, y in zip(a, b))
    if isinstance(a, dict):
        return isinstance(b, dict) and len(a['__obj__']) == len(b['__obj__']) and \
            all(k1 == k2 and same(x, y) for (k1, x), (k2, y) in zip(sorted(a['__obj__'], key=lambda p: p[0]), sorted(b['__obj__'], key=lambda p: p[0])))
    return False


def to_xdm(v, parser):
    from elementpath.xpath_tokens import XPathMap, XPathArray
    if v is None:
        return []
    if isinstance(v, list):
        return XPathArray(parser, [to_xdm(x, parser) for x in v])
    if isinstance(v, dict):
        return XPathMap(parser, [(k, to_xdm(x, parser)) for k, x in v['__obj__']])
    return v


def from_xdm(x):
    from elementpath.xpath_tokens import XPathMap, XPathArray
    if isinstance(x, XPathArray):
        return [from_xdm(i) for i in x.items()]
    if isinstance(x, XPathMap):
        return {'__obj__': [(k, from_xdm(i)) for k, i in x.items()]}
    if isinstance(x, list):
        if not x:
            return None
        return [from_xdm(i) for i in x] if len(x) > 1 else from_xdm(x[0])
    return x


def same_xdm(a, b):
    if isinstance(a, bool) or isinstance(b, bool) or a is None or b is None or isinstance(a, str):
        return type(a) is type(b) and a == b
    if isinstance(a, (int, float)):
        return isinstance(b, (int, float)) and float(a) == float(b)
    if isinstance(a, list):
        return isinstance(b, list) and len(a) == len(b) and all(same_xdm(x, y) for x, y in zip(a, b))
    return isinstance(b, dict) and sorted(k for k, _ in a['__obj__']) == sorted(k for k, _ in b['__obj__']) and \
        all(same_xdm(x, dict(b['__obj__'])[k]) for k, x in a['__obj__'])


def is_xml_char(c):
    o = ord(c)
    return o in (9, 10, 13) or 0x20 <= o <= 0xd7ff or 0xe000 <= o <= 0xfffd or 0x10000 <= o <= 0x10ffff


def xmlize(v):
    """fn:parse-json (escape=false, default fallback): characters that are not XML characters become U+FFFD"""
    if isinstance(v, str):
        return ''.join(c if is_xml_char(c) else '\ufffd' for c in v)
    if isinstance(v, list):
        return [xmlize(x) for x in v]
    if isinstance(v, dict):
        out, seen = [], set()
        for k, x in v['__obj__']:
            k2 = xmlize(k)
            if k2 in seen:
                continue        # keys that become equal after the replacement: duplicates, default policy use-first
            seen.add(k2)
            out.append((k2, xmlize(x)))
        return {'__obj__': out}
    return v


def respace(rng, text):
    """insert insignificant whitespace between tokens of a JSON text (outside strings)"""
    out, in_str, esc = [], False, False
    for ch in text:
        if in_str:
            out.append(ch)
            if esc:
                esc = False
            elif ch == '\\':
                esc = True
            elif ch == '"':
                in_str = False
            continue
        if ch == '"':
            in_str = True
        if ch in '[]{},:' and rng.random() < 0.4:
            out.append(rng.choice([' ', '\n', '\t', '  ']))
        out.append(ch)
        if ch in '[]{},:' and rng.random() < 0.3:
            out.append(' ')
    return ''.join(out)


def escape_solidus(rng, text):
    """write some of the solidus characters inside the strings of a JSON text as the escape \\/ (same meaning)"""
    out, in_str, esc = [], False, False
    for ch in text:
        if in_str:
            if esc:
                esc = False
            elif ch == '\\':
                esc = True
            elif ch == '"':
                in_str = False
            elif ch == '/' and rng.random() < 0.5:
                out.append('\\')
            out.append(ch)
            continue
        if ch == '"':
            in_str = True
        out.append(ch)
    return ''.join(out)


def run(chk):
    import xml.etree.ElementTree as ET
    from elementpath import select, ElementPathError, XPathContext
    from elementpath.xpath31 import XPath31Parser
    rng = chk.rng
    quick = chk.tier == 'quick'
    chk.trusted += ['C17/Model.v is an RFC 8259 codec written for this check (the independent JSON parser of the property); the JSON functions of '
                    "the implementation delegate to CPython's json module, reached only through fn:serialize / fn:parse-json / json-to-xml / xml-to-json",
                    'harness conversion between Python values, XDM maps / arrays and Coq terms; numbers compared as rationals (integers, '
                    'decimals) or by the double they denote',
                    'PARTIAL: XML serialization / parse-xml are compared on the implementation only (canonical XML by xml.etree)']
    for f in ('elementpath/serialization.py', 'elementpath/xpath31/_xpath31_functions.py', 'elementpath/xpath30/_xpath30_functions.py', 'elementpath/helpers.py'):
        chk.record_source(f)
    chk.forbidden_scan(['C17'])
    proved = chk.prove(['theories/C17/Model.v', 'theories/C17/Proofs.v', 'theories/C17/Run.v'], 'theories/C17/Properties.v')
    model_ok = True
    if not proved:
        try:
            core.coq_make(['theories/C17/Model.v', 'theories/C17/Run.v'])
        except core.CoqError as e:
            chk.notes.append('model does not build: ' + str(e))
            model_ok = False
    parser = XPath31Parser()

    def xp(expr, **variables):
        return parser.parse(expr).evaluate(XPathContext(ET.XML('<r/>'), variables=variables))

    # ---------------- 1. serialize(v, json): parsed by the Coq parser, and back through parse-json
    values = [None, True, 0, -1, 2 ** 53 + 1, 0.1, 1e20, 1.5e300, 1e-7, 0.30000000000000004, '', 'a"b\\c/d\n\t\x01é😀', [], {'__obj__': []},
              [None, [None], [[]]], {'__obj__': [('', ''), ('a', [1, 'x', True, None]), ('k"\\', {'__obj__': [('😀', 1.5)]})]}, '\U00010000\U0010ffff', '/', '\x7f', '<&>']
    for _ in range(120 if quick else 5000):
        values.append(gen_value(rng, rng.choice([1, 2, 3])))
    texts = []
    for v in values:
        try:
            texts.append(xp('serialize($v, map{"method":"json"})', v=to_xdm(v, parser)))
        except ElementPathError as ex:
            texts.append(('err', str(ex)))
    terms = [f'(run_parse {core.zlist([ord(c) for c in t])}, run_print {to_coq(v)})' if isinstance(t, str) else f'([0], run_print {to_coq(v)})' for v, t in zip(values, texts)]
    model = core.run_coq_cases('C17', IMPORTS, terms, chunk=60, tag='ser') if model_ok else [None] * len(values)
    for v, t, mo in zip(values, texts, model):
        chk.evaluations += 1
        chk.count('serialize:' + type(v).__name__)
        desc = {'value': ascii(v)[:300]}
        if not isinstance(t, str):
            chk.violation('impl-vs-spec', desc, 'serialize raised ' + t[1][:200])
            continue
        # (a) the text is JSON with the same meaning (Coq parser)
        if mo is not None:
            parsed, printed = mo
            if parsed[0] != 1:
                chk.violation('impl-vs-spec', desc, {'serialized text is not JSON (independent parser)': ascii(t)[:300]})
            else:
                got, _ = unflat(parsed, 1)
                if not same(v, got):
                    chk.violation('impl-vs-spec', desc, {'serialized': ascii(t)[:300], 'denotes': ascii(got)[:300]})
            # (b) the Coq-printed text through parse-json
            ctext = ''.join(map(chr, printed))
            for variant in (ctext, respace(rng, ctext)):
                try:
                    back = from_xdm(xp('parse-json($t)', t=variant))
                    if not same_xdm(xmlize(v), back):
                        chk.violation('impl-vs-spec', desc, {'json text': ascii(variant)[:300], 'parse-json gives': ascii(back)[:300]})
                except ElementPathError as ex:
                    # JSON strings may hold characters that are not XML characters: parse-json replaces / rejects them by its rules
                    if any(ord(c) < 0x20 and c not in '\t\n\r' or ord(c) in (0xffff, 0xfffe) for c in ascii_free(v)):
                        continue
                    chk.violation('impl-vs-spec', desc, {'json text': ascii(variant)[:300], 'parse-json raised': str(ex)[:200]})
        # (c) parse-json(serialize(v)) deep-equal v
        try:
            back = from_xdm(xp('parse-json($t)', t=t))
            if not same_xdm(xmlize(v), back):
                chk.violation('impl-vs-spec', desc, {'serialized': ascii(t)[:300], 'parse-json(serialize(v))': ascii(back)[:300]})
        except ElementPathError as ex:
            if not any(ord(c) < 0x20 and c not in '\t\n\r' or ord(c) in (0xffff, 0xfffe) for c in ascii_free(v)):
                chk.violation('impl-vs-spec', desc, {'serialized': ascii(t)[:300], 'parse-json raised': str(ex)[:200]})
        chk.nontrivial.add(ascii(v))
        if len(chk.samples) < 6:
            chk.sample({'value': ascii(v)[:120], 'serialized': ascii(t)[:120]})

    # ---------------- 2. xml-to-json(json-to-xml(t)) denotes the same JSON value as t (XML-safe characters)
    jvals = [gen_value(rng, rng.choice([1, 2, 3]), xml_safe=True) for _ in range(100 if quick else 4000)]
    jvals += [0.30000000000000004, 1.0000000000000002, 0.1234567890123456, 2.220446049250313e-16, -9007199254740991, 1e20, 1e-7, [1e21, 1e22, 5e-324],
              {'__obj__': [('a/b', '/'), ('', [])]}, '\U0001F600', 'é', [[], {'__obj__': []}, None, True, False]]
    pm = core.run_coq_cases('C17', IMPORTS, [f'run_print {to_coq(v)}' for v in jvals], chunk=80, tag='jx') if model_ok else [None] * len(jvals)
    outs = []
    for v, printed in zip(jvals, pm):
        if printed is None:
            outs.append(None)
            continue
        ctext = respace(rng, ''.join(map(chr, printed)))
        try:
            outs.append((ctext, xp('xml-to-json(json-to-xml($t))', t=ctext)))
        except ElementPathError as ex:
            outs.append((ctext, ('err', str(ex))))
    idx = [i for i, o in enumerate(outs) if o is not None and isinstance(o[1], str)]
    back = core.run_coq_cases('C17', IMPORTS, [f'run_parse {core.zlist([ord(c) for c in outs[i][1]])}' for i in idx], chunk=80, tag='jxb') if model_ok else []
    backmap = dict(zip(idx, back))
    for i, (v, o) in enumerate(zip(jvals, outs)):
        chk.evaluations += 1
        chk.count('json-to-xml-to-json')
        if o is None:
            continue
        desc = {'json text': ascii(o[0])[:300]}
        if not isinstance(o[1], str):
            chk.violation('impl-vs-spec', desc, 'raised ' + o[1][1][:200])
            continue
        parsed = backmap.get(i)
        if parsed is None or parsed[0] != 1:
            chk.violation('impl-vs-spec', desc, {'xml-to-json output is not JSON': ascii(o[1])[:300]})
            continue
        got, _ = unflat(parsed, 1)
        if not same(v, got):
            chk.violation('impl-vs-spec', desc, {'xml-to-json(json-to-xml(t))': ascii(o[1])[:300], 'denotes': ascii(got)[:200]})
        chk.nontrivial.add('jx' + ascii(v))

    # ---------------- 2b. the same round trip with the option escape=true (json-to-xml keeps the escapes and marks strings and
    # keys with escaped / escaped-key, xml-to-json must copy them): every character, solidus written as \\/ at random
    evals = [gen_value(rng, rng.choice([1, 2, 3])) for _ in range(100 if quick else 4000)]
    evals += ['\\"', '\\/', '\\n', 'a\\"b/', '\\\\"', {'__obj__': [('\\"', '\\"{{')]}, {'__obj__': [('\\', 1)]}, {'__obj__': [('a\nb', None), ('c"d', True), ('/', [])]}, 'A/', '\\/', '\x00\x1f', {'__obj__': [('k/\\', {'__obj__': [('\t', 'v/')]})]}]
    pm = core.run_coq_cases('C17', IMPORTS, [f'run_print {to_coq(v)}' for v in evals], chunk=80, tag='jxe') if model_ok else [None] * len(evals)
    outs = []
    for v, printed in zip(evals, pm):
        if printed is None:
            outs.append(None)
            continue
        ctext = escape_solidus(rng, respace(rng, ''.join(map(chr, printed))))
        try:
            outs.append((ctext, xp('xml-to-json(json-to-xml($t, map{"escape":true()}))', t=ctext)))
        except ElementPathError as ex:
            outs.append((ctext, ('err', str(ex))))
    idx = [i for i, o in enumerate(outs) if o is not None and isinstance(o[1], str)]
    back = core.run_coq_cases('C17', IMPORTS, [f'run_parse {core.zlist([ord(c) for c in outs[i][1]])}' for i in idx], chunk=80, tag='jxeb') if model_ok else []
    backmap = dict(zip(idx, back))
    for i, (v, o) in enumerate(zip(evals, outs)):
        chk.evaluations += 1
        chk.count('json-to-xml-to-json:escape')
        if o is None:
            continue
        desc = {'json text': ascii(o[0])[:300], 'options': 'escape=true'}
        if not isinstance(o[1], str):
            chk.violation('impl-vs-spec', desc, 'raised ' + o[1][1][:200])
            continue
        parsed = backmap.get(i)
        if parsed is None or parsed[0] != 1:
            chk.violation('impl-vs-spec', desc, {'xml-to-json output is not JSON': ascii(o[1])[:300]})
            continue
        got, _ = unflat(parsed, 1)
        if not same(v, got):
            chk.violation('impl-vs-spec', desc, {'xml-to-json(json-to-xml(t, escape))': ascii(o[1])[:300], 'denotes': ascii(got)[:200]})
        chk.nontrivial.add('jxe' + ascii(v))

    # ---------------- 3. parse-xml(serialize(node)) = node
    tlist = []
    for n in (1, 2, 3):
        for s in trees.all_shapes(n, names=('a', 'b')):
            tlist.append(trees.from_shape(s))
    for _ in range(40 if quick else 1500):
        t = trees.random_tree(rng, maxnodes=rng.choice([4, 9, 14]), names=('a', 'b', 'x'))
        t.tail = None
        tlist.append(t)
    for t in tlist:
        for lib in ('et', 'lxml'):
            chk.evaluations += 1
            chk.count('xml:' + lib)
            elem = trees.to_et(t) if lib == 'et' else trees.to_lxml(t)
            desc = {'lib': lib, 'tree': trees.serialize(t)[:300]}
            try:
                text = select(elem, 'serialize(.)', parser=XPath31Parser)
                text = text[0] if isinstance(text, list) else text
                eq = select(elem, 'deep-equal(parse-xml($s)/*, .)', variables={'s': text}, parser=XPath31Parser)
                want = ET.canonicalize(trees.serialize(t))
                got = ET.canonicalize(text)
            except ElementPathError as ex:
                chk.violation('impl-vs-spec', desc, 'raised ' + str(ex)[:200])
                continue
            except ET.ParseError as ex:
                chk.violation('impl-vs-spec', desc, {'serialized text is not XML': str(ex), 'text': text[:200]})
                continue
            if got != want or eq is not True:
                chk.violation('impl-vs-spec', desc, {'serialize': text[:300], 'canonical equal': got == want, 'deep-equal(parse-xml(serialize(.)), .)': eq})
            chk.nontrivial.add(lib + trees.serialize(t))
    # ---------------- 3b. trees with markup characters, white space characters (tab, LF, CR), non-ASCII text, namespaces
    # (prefixed, default, undeclared default inside) in names and attributes, built programmatically for both libraries
    import lxml.etree as LE
    PIECES = ['<', '&', '>', '"', "'", '\t', '\n', '\r', ' ', 'é', '\U0001F600', ']]>', 'a', '1', '\x85', '\u2028', '&amp;', '&#13;']
    URIS = [None, None, 'urn:p', 'urn:q', 'urn:d']

    def rich_text():
        return ''.join(rng.choice(PIECES) for _ in range(rng.randint(1, 4)))

    def rich_tree(depth, budget):
        budget[0] -= 1
        t = {'uri': rng.choice(URIS), 'name': rng.choice(['a', 'b', 'c']), 'attrs': [], 'text': None, 'children': [], 'tail': None}
        for k in range(rng.choice([0, 0, 1, 2])):
            t['attrs'].append((rng.choice([None, None, 'urn:p', 'urn:q']), 'k%d' % k, rich_text()))
        if rng.random() < 0.6:
            t['text'] = rich_text()
        while budget[0] > 0 and depth < 3 and rng.random() < 0.6:
            c = rich_tree(depth + 1, budget)
            if rng.random() < 0.5:
                c['tail'] = rich_text()
            t['children'].append(c)
        return t

    def q(uri, name):
        return name if uri is None else '{%s}%s' % (uri, name)

    def build(mod, t, parent=None):
        e = mod.Element(q(t['uri'], t['name'])) if parent is None else mod.SubElement(parent, q(t['uri'], t['name']))
        for u, k, v in t['attrs']:
            e.set(q(u, k), v)
        e.text = t['text']
        for c in t['children']:
            build(mod, c, e).tail = c['tail']
        return e

    def ref_text(t):
        # reference serialization: every markup and white space character escaped
        def esc_t(x):
            return (x or '').replace('&', '&amp;').replace('<', '&lt;').replace('>', '&gt;').replace('\r', '&#13;')

        def esc_a(x):
            return esc_t(x).replace('"', '&quot;').replace('\t', '&#9;').replace('\n', '&#10;')
        pfx = {'urn:p': 'p', 'urn:q': 'q', 'urn:d': 'd'}
        nsd = ''.join(' xmlns:%s="%s"' % (v, k) for k, v in pfx.items())
        name = t['name'] if t['uri'] is None else pfx[t['uri']] + ':' + t['name']
        attrs = ''.join(' %s="%s"' % (k if u is None else pfx[u] + ':' + k, esc_a(v)) for u, k, v in t['attrs'])
        return '<%s%s%s>%s%s</%s>%s' % (name, nsd, attrs, esc_t(t['text']), ''.join(ref_text(c) for c in t['children']), name, esc_t(t['tail']))

    for _ in range(60 if quick else 2500):
        t = rich_tree(0, [rng.choice([1, 3, 6])])
        want = ET.canonicalize(ref_text(t), rewrite_prefixes=True)
        for lib, mod in (('et', ET), ('lxml', LE)):
            chk.evaluations += 1
            chk.count('xml-rich:' + lib)
            elem = build(mod, t)
            desc = {'lib': lib, 'tree': ascii(ref_text(t))[:400]}
            try:
                text = select(elem, 'serialize(.)', parser=XPath31Parser)
                text = text[0] if isinstance(text, list) else text
                eq = select(elem, 'deep-equal(parse-xml($s)/*, .)', variables={'s': text}, parser=XPath31Parser)
                got = ET.canonicalize(text, rewrite_prefixes=True)
            except ElementPathError as ex:
                chk.violation('impl-vs-spec', desc, 'raised ' + str(ex)[:200])
                continue
            except ET.ParseError as ex:
                chk.violation('impl-vs-spec', desc, {'serialized text is not XML': str(ex), 'text': ascii(text)[:200]})
                continue
            if got != want or eq is not True:
                if lib == 'et' and '\r' in ''.join((x['text'] or '') + (x['tail'] or '') for x in walk(t)) and '\r' in text:
                    chk.known('C17-etree-carriage-return-in-text', desc | {'serialize': ascii(text)[:200]})
                    continue
                chk.violation('impl-vs-spec', desc, {'serialize': ascii(text)[:300], 'canonical equal': got == want, 'deep-equal(parse-xml(serialize(.)), .)': eq})
            chk.nontrivial.add(lib + ref_text(t))
            # every element of the tree on its own: the tail is a sibling text node and is not serialized
            nodes = list(walk(t))
            for k, sub in enumerate(nodes[1:], start=2):
                chk.evaluations += 1
                chk.count('xml-rich-descendant:' + lib)
                wsub = ET.canonicalize(ref_text(dict(sub, tail=None)), rewrite_prefixes=True)
                dsub = {'lib': lib, 'tree': ascii(ref_text(t))[:300], 'element (document order)': k}
                try:
                    text = select(elem, f'serialize((//*)[{k}])', parser=XPath31Parser)
                    text = text[0] if isinstance(text, list) else text
                    eq = select(elem, f'deep-equal(parse-xml($s)/*, (//*)[{k}])', variables={'s': text}, parser=XPath31Parser)
                    got = ET.canonicalize(text, rewrite_prefixes=True)
                except ElementPathError as ex:
                    chk.violation('impl-vs-spec', dsub, 'raised ' + str(ex)[:200])
                    continue
                except ET.ParseError as ex:
                    chk.violation('impl-vs-spec', dsub, {'serialized text is not XML': str(ex), 'text': ascii(text)[:200]})
                    continue
                if got != wsub or eq is not True:
                    if lib == 'et' and '\r' in text:
                        chk.known('C17-etree-carriage-return-in-text', dsub | {'serialize': ascii(text)[:200]})
                        continue
                    chk.violation('impl-vs-spec', dsub, {'serialize': ascii(text)[:300], 'canonical equal': got == wsub, 'deep-equal(parse-xml(serialize(.)), .)': eq})
    # ---------------- 3c. fn:deep-equal, the oracle of the XML round trip, on elements: equal to a rebuilt copy whatever the tail
    # of either element, different from a copy in which one text, tail or attribute value changed (white space included)
    import copy as _copy

    def mutate(t):
        m = _copy.deepcopy(t)
        nodes = list(walk(m))
        for _ in range(20):
            n = rng.choice(nodes)
            slot = rng.choice(['text', 'tail', 'attr'])
            if slot == 'tail' and n is m:
                continue
            if slot == 'attr':
                if not n['attrs']:
                    continue
                k = rng.randrange(len(n['attrs']))
                u, name, v = n['attrs'][k]
                n['attrs'][k] = (u, name, rng.choice([v + ' ', ' ' + v, v + 'x']))
                return m
            old_v = n[slot] or ''
            n[slot] = rng.choice([old_v + ' ', ' ' + old_v, old_v + 'x', '\n' + old_v])
            return m
        return None

    for _ in range(40 if quick else 1500):
        t = rich_tree(0, [rng.choice([1, 3, 6])])
        m = mutate(t)
        for lib, mod in (('et', ET), ('lxml', LE)):
            holder = mod.Element('holder')
            e1 = build(mod, t)
            e2 = build(mod, t, holder)
            e2.tail = rich_text()
            chk.evaluations += 1
            chk.count('deep-equal-nodes:' + lib)
            desc = {'lib': lib, 'tree': ascii(ref_text(t))[:300]}
            try:
                same_ = select(e1, 'deep-equal(., $o)', variables={'o': e2}, parser=XPath31Parser)
                diff_ = None if m is None else select(e1, 'deep-equal(., $o)', variables={'o': build(mod, m)}, parser=XPath31Parser)
            except ElementPathError as ex:
                chk.violation('impl-vs-spec', desc, 'raised ' + str(ex)[:200])
                continue
            if same_ is not True:
                chk.violation('impl-vs-spec', desc | {'second element has the tail': ascii(e2.tail)}, {'deep-equal of an element and its copy': same_})
            # comments and processing instructions are not compared: a copy with one inserted as first child of some element
            e3 = build(mod, t)
            target = rng.choice(list(e3.iter()))
            target.insert(0, mod.Comment('c') if rng.random() < 0.5 else mod.ProcessingInstruction('pi', 'd'))
            try:
                with_comment = select(e1, 'deep-equal(., $o)', variables={'o': e3}, parser=XPath31Parser)
            except ElementPathError as ex:
                with_comment = 'raised ' + str(ex)[:100]
            if with_comment is not True:
                chk.violation('impl-vs-spec', desc | {'copy': ascii(mod.tostring(e3))[:300]}, {'deep-equal of an element and a copy with a comment / processing instruction': with_comment})
            if m is not None and diff_ is not False:
                chk.violation('impl-vs-spec', desc | {'changed copy': ascii(ref_text(m))[:300]}, {'deep-equal of different elements': diff_})
            chk.nontrivial.add('de' + lib + ref_text(t))
    # ---------------- 3d. the XML character data model (C17/XmlText.v): (i) the text and attribute value written by fn:serialize
    # = esc_text / esc_attr of the model (xml.etree: raw CR, &#09;; lxml: &#13;, &#9;); (ii) the model reader = the parser behind
    # fn:parse-xml on texts with literal characters, entity and character references (valid and invalid)
    import gen_c17
    gen_c17.generate()
    proved_x = chk.prove(['theories/Gen/C17Shape.v', 'theories/C17/XmlText.v', 'theories/C17/XmlTextProofs.v'], 'theories/C17/XmlTextProperties.v')
    ALPH = [0x26, 0x3c, 0x3e, 0x22, 0x27, 9, 10, 13, 0x20, 0x61, 0x31, 0xe9, 0x1f600, 0x85, 0x2028, 0x3b, 0x23, 0x5d]
    strs = [[rng.choice(ALPH) for _ in range(rng.randint(0, 6))] for _ in range(80 if quick else 3000)]
    strs += [[13, 10], [13], [0x5d, 0x5d, 0x3e], [0x26, 0x23, 0x31, 0x33, 0x3b], [9, 10, 13, 0x20]]
    for lib, mod, cr_ref, pad in (('et', ET, 'false', 'true'), ('lxml', LE, 'true', 'false')):
        mo = core.run_coq_cases('C17', IMPORTS, [f'run_xml_esc {cr_ref} {pad} {core.zlist(x)}' for x in strs], chunk=200, tag='xesc' + lib) if model_ok else [None] * len(strs)
        for x, m in zip(strs, mo):
            chk.evaluations += 1
            chk.count('xml-escape:' + lib)
            if m is None:
                continue
            text = ''.join(map(chr, x))
            elem = mod.Element('a')
            elem.set('x', text)
            elem.text = text
            desc = {'lib': lib, 'string (code points)': x}
            try:
                out = select(elem, 'serialize(.)', parser=XPath31Parser)
                out = out[0] if isinstance(out, list) else out
            except ElementPathError as ex:
                chk.violation('impl-vs-model', desc, 'raised ' + str(ex)[:200])
                continue
            want_t, want_a = ''.join(map(chr, m[0])), ''.join(map(chr, m[1]))
            if not x:
                continue
            got_a = out[out.index('x="') + 3:out.index('"', out.index('x="') + 3)]
            got_t = out[out.index('>') + 1:out.rindex('</a>')]
            if (got_t, got_a) != (want_t, want_a):
                chk.corr_fail.append((desc, (got_t, got_a), (want_t, want_a)))
                chk.violation('impl-vs-model', desc, {'serialize': ascii(out)[:300], 'model text': ascii(want_t), 'model attribute': ascii(want_a)})
            chk.nontrivial.add('xesc' + lib + repr(x))
    # (ii) the reader
    REFS = ['&amp;', '&lt;', '&gt;', '&quot;', '&apos;', '&#13;', '&#10;', '&#9;', '&#09;', '&#x41;', '&#x1F600;', '&#xD;', '&#0;', '&#x0;', '&#1;', '&#xFFFE;',
            '&#55296;', '&#1114112;', '&#;', '&#x;', '&amp', '&foo;', '&', '&#12a;', '&#xg;', '&#65;', '&#x10FFFF;', '&#32;']
    LITS = ['a', '1', ' ', '\t', '\n', '\r', '\r\n', 'é', '\U0001F600', '>', "'", ';', '#', ']]', '\x85', '\u2028']
    texts = []
    for _ in range(150 if quick else 5000):
        texts.append(''.join(rng.choice(REFS if rng.random() < 0.4 else LITS) for _ in range(rng.randint(0, 5))))
    texts += ['<', 'a<b', '"', 'a"b', ']]>', '\r\n\r', '&#x26;#13;', '&amp;#13;']
    mo = core.run_coq_cases('C17', IMPORTS, [f'run_xml_read {core.zlist([ord(c) for c in x])}' for x in texts], chunk=200, tag='xread') if model_ok else [None] * len(texts)
    for x, m in zip(texts, mo):
        if m is None:
            continue
        for what, k, doc, expr in (('text', 0, f'<a>{x}</a>', 'string(parse-xml($d)/a)'), ('attribute', 1, f'<a x="{x}"/>', 'string(parse-xml($d)/a/@x)')):
            if what == 'text' and ']]>' in x:
                continue    # not allowed literally in content (the serializers never write it: > is escaped)
            chk.evaluations += 1
            chk.count('xml-read:' + what)
            desc = {'document': ascii(doc)}
            try:
                got = select(ET.XML('<r/>'), expr, variables={'d': doc}, parser=XPath31Parser)
                got = [1] + [ord(c) for c in got]
            except ElementPathError as ex:
                got = [0]
            want = list(m[k])
            if got != want:
                chk.corr_fail.append((desc, got, want))
                chk.violation('impl-vs-model', desc, {'parse-xml reads (1 :: code points, or 0 = not well formed)': got, 'model reader': want})
            chk.nontrivial.add('xread' + what + x)
    chk.rule = ('fixed + seeded random JSON values (depth <= 3; strings over quotes, backslash, slash, control, non-ASCII, astral and boundary code '
                'points; integers to 10^20; doubles needing 17 digits, tiny and huge) through fn:serialize -> Coq parser, Coq printer (plain and '
                're-spaced) -> fn:parse-json, parse-json(serialize(v)); XML-safe values through xml-to-json(json-to-xml(t)) -> Coq parser; all '
                'element shapes <= 3 nodes + seeded random trees x {xml.etree, lxml} through parse-xml(serialize(.)); trees with markup / white space / non-ASCII characters and namespaces, '
                'the root and every descendant element serialized on its own, against a reference serialization (canonical XML) and fn:deep-equal; the escape=true JSON round trip; non-trivial = distinct value / tree')
    chk.obligations.append({'name': 'correspondence:impl==JSON codec', 'ok': not any(v['kind'] == 'impl-vs-spec' for v in chk.violations), 'detail': 'see violations'})


def walk(t):
    yield t
    for c in t['children']:
        yield from walk(c)


def ascii_free(v):
    """all characters of the strings and keys of a value"""
    if isinstance(v, str):
        return v
    if isinstance(v, list):
        return ''.join(ascii_free(x) for x in v)
    if isinstance(v, dict):
        return ''.join(k + ascii_free(x) for k, x in v['__obj__'])
    return ''


def replay(rec):
    print(rec)
    return 0
