"""C16 — function items are first-class values: closures, partial application, higher-order functions.

proof:  coq/theories/C16/{HOF,Model,Proofs,Properties}.v : the loops of fold-left / fold-right / for-each / filter /
        for-each-pair equal the F&O definitional expansions (any item type, any function item that may fail); fn:sort is a
        stable, ordered permutation; function items created by one expression in a loop are independent (token-store model,
        refuted for the code before the fix); a dynamic call = direct evaluation of the body.
tie:    correspondence: typed random programs (closures created in for / let scopes, closure factories, calls in any order
        and number, partial application, the HOFs, sort with key functions) rendered to XPath 3.0 / 3.1 and evaluated by the
        implementation, against the executable reference semantics C16.Model.eval (vm_compute).
PARTIAL: the reference semantics is an executable specification (lexical closures), not a model of the token machinery of
        xpath_tokens/functions.py; named function references and collations of sort are observed only.
"""
import core

IMPORTS = 'From EP Require Import C16.HOF C16.Model C16.Run.'


class G:
    """typed program generator; scope: name index -> 'one' | 'seq' | ('fun', arity, returns_bool)"""

    def __init__(self, rng):
        self.rng = rng
        self.next = 0

    def fresh(self):
        self.next += 1
        return self.next - 1

    def names(self, scope, kind):
        return [k for k, v in scope.items() if v == kind]

    def single(self, d, scope):
        rng = self.rng
        r = rng.random()
        ones = self.names(scope, 'one')
        if d <= 0 or r < 0.3:
            if ones and rng.random() < 0.7:
                return ('var', rng.choice(ones))
            return ('lit', [rng.randint(-3, 9)])
        if r < 0.6:
            return (rng.choice(['add', 'mul', 'sub']), self.single(d - 1, scope), self.single(d - 1, scope))
        if r < 0.8:
            k = rng.choice([0, 1, 1, 2])
            return ('call', self.fun(k, d - 1, scope), [self.single(d - 1, scope) for _ in range(k)])
        if r < 0.9:
            x = self.fresh()
            return ('let', x, self.single(d - 1, scope), self.single(d - 1, {**scope, x: 'one'}))
        f = self.fresh()
        k = rng.choice([1, 1, 2])
        return ('let', f, self.fun(k, d - 1, scope), self.single(d - 1, {**scope, f: ('fun', k, False)}))

    def seq(self, d, scope):
        rng = self.rng
        r = rng.random()
        if d <= 0 or r < 0.15:
            seqs = self.names(scope, 'seq')
            if seqs and rng.random() < 0.5:
                return ('var', rng.choice(seqs))
            return ('lit', [rng.randint(-3, 9) for _ in range(rng.choice([0, 1, 2, 3, 3, 4]))])
        if r < 0.25:
            return self.single(d, scope)
        if r < 0.33:
            return ('seq', self.seq(d - 1, scope), self.seq(d - 1, scope))
        if r < 0.43:
            x = self.fresh()
            return ('for', x, self.seq(d - 1, scope), self.seq(d - 1, {**scope, x: 'one'}))
        if r < 0.50:
            x = self.fresh()
            if rng.random() < 0.5:
                return ('let', x, self.seq(d - 1, scope), self.seq(d - 1, {**scope, x: 'seq'}))
            k = rng.choice([0, 1, 2])
            return ('let', x, self.fun(k, d - 1, scope), self.seq(d - 1, {**scope, x: ('fun', k, False)}))
        if r < 0.62:
            # function items created in a loop, called afterwards
            x = self.fresh()
            k = rng.choice([0, 0, 1])
            return ('bang', ('for', x, self.seq(d - 1, scope), self.fun(k, d - 1, {**scope, x: 'one'})),
                    [self.single(d - 1, scope) for _ in range(k)])
        if r < 0.70:
            return ('foreach', self.seq(d - 1, scope), self.fun(1, d - 1, scope))
        if r < 0.76:
            return ('filter', self.seq(d - 1, scope), self.fun(1, d - 1, scope, boolean=True))
        if r < 0.83:
            return ('foldl', self.seq(d - 1, scope), self.single(d - 1, scope), self.fun(2, d - 1, scope))
        if r < 0.89:
            return ('foldr', self.seq(d - 1, scope), self.single(d - 1, scope), self.fun(2, d - 1, scope))
        if r < 0.94:
            return ('pair', self.seq(d - 1, scope), self.seq(d - 1, scope), self.fun(2, d - 1, scope))
        return ('sort', self.seq(d - 1, scope), self.fun(1, d - 1, scope))

    def fun(self, k, d, scope, boolean=False):
        rng = self.rng
        r = rng.random()
        funs = [n for n, v in scope.items() if v == ('fun', k, boolean)]
        if funs and r < 0.3:
            return ('var', rng.choice(funs))
        if d > 0 and r < 0.45 and not boolean:
            # closure factory: function($n) { function(...) { ... $n ... } }(value)
            p = self.fresh()
            return ('call', ('lam', [p], self.fun(k, d - 1, {**scope, p: 'one'})), [self.single(d - 1, scope)])
        if d > 0 and r < 0.6 and not boolean:
            # partial application of a function of larger arity
            j = rng.choice([1, 1, 2])
            base = self.fun(k + j, d - 1, scope)
            slots = [None] * k + ['fixed'] * j
            rng.shuffle(slots)
            return ('partial', base, [None if s is None else self.single(d - 1, scope) for s in slots])
        ps = [self.fresh() for _ in range(k)]
        inner = {**scope, **{p: 'one' for p in ps}}
        if boolean:
            return ('lam', ps, ('gt', self.single(max(d - 1, 0), inner), self.single(max(d - 1, 0), inner)))
        return ('lam', ps, self.single(max(d - 1, 0), inner))


def to_coq(e):
    k = e[0]
    c = to_coq
    lst = lambda xs: '[' + '; '.join(xs) + ']'
    if k == 'lit':
        return f'(ELit {core.zlist(e[1])})'
    if k == 'var':
        return f'(EVar {e[1]})'
    if k in ('seq', 'add', 'mul', 'sub', 'gt'):
        return f'({ {"seq": "ESeq", "add": "EAdd", "mul": "EMul", "sub": "ESub", "gt": "EGt"}[k]} {c(e[1])} {c(e[2])})'
    if k == 'for':
        return f'(EFor {e[1]} {c(e[2])} {c(e[3])})'
    if k == 'let':
        return f'(ELet {e[1]} {c(e[2])} {c(e[3])})'
    if k == 'lam':
        return f'(ELam {lst([str(p) + "%nat" for p in e[1]])} {c(e[2])})'
    if k == 'call':
        return f'(ECall {c(e[1])} {lst([c(a) for a in e[2]])})'
    if k == 'partial':
        return f'(EPartial {c(e[1])} {lst(["None" if a is None else "(Some " + c(a) + ")" for a in e[2]])})'
    if k == 'bang':
        return f'(EBang {c(e[1])} {lst([c(a) for a in e[2]])})'
    if k == 'foreach':
        return f'(EForEach {c(e[1])} {c(e[2])})'
    if k == 'filter':
        return f'(EFilter {c(e[1])} {c(e[2])})'
    if k == 'foldl':
        return f'(EFoldL {c(e[1])} {c(e[2])} {c(e[3])})'
    if k == 'foldr':
        return f'(EFoldR {c(e[1])} {c(e[2])} {c(e[3])})'
    if k == 'pair':
        return f'(EPair {c(e[1])} {c(e[2])} {c(e[3])})'
    return f'(ESort {c(e[1])} {c(e[2])})'


def to_xpath(e):
    k = e[0]
    x = to_xpath
    n = lambda i: f'$v{i}'
    if k == 'lit':
        return '(' + ', '.join(str(v) if v >= 0 else f'({v})' for v in e[1]) + ')'
    if k == 'var':
        return n(e[1])
    if k == 'seq':
        return f'({x(e[1])}, {x(e[2])})'
    if k in ('add', 'mul', 'sub', 'gt'):
        return f'({x(e[1])} { {"add": "+", "mul": "*", "sub": "-", "gt": "gt"}[k]} {x(e[2])})'
    if k == 'for':
        return f'(for {n(e[1])} in {x(e[2])} return {x(e[3])})'
    if k == 'let':
        return f'(let {n(e[1])} := {x(e[2])} return {x(e[3])})'
    if k == 'lam':
        return 'function(' + ', '.join(n(p) for p in e[1]) + ') { ' + x(e[2]) + ' }'
    if k == 'call':
        f = x(e[1])
        if e[1][0] != 'var':
            f = '(' + f + ')'
        return f + '(' + ', '.join(x(a) for a in e[2]) + ')'
    if k == 'partial':
        f = x(e[1])
        if e[1][0] != 'var':
            f = '(' + f + ')'
        return f + '(' + ', '.join('?' if a is None else x(a) for a in e[2]) + ')'
    if k == 'bang':
        return f'({x(e[1])} ! .(' + ', '.join(x(a) for a in e[2]) + '))'
    if k == 'foreach':
        return f'for-each({x(e[1])}, {x(e[2])})'
    if k == 'filter':
        return f'filter({x(e[1])}, {x(e[2])})'
    if k == 'foldl':
        return f'fold-left({x(e[1])}, {x(e[2])}, {x(e[3])})'
    if k == 'foldr':
        return f'fold-right({x(e[1])}, {x(e[2])}, {x(e[3])})'
    if k == 'pair':
        return f'for-each-pair({x(e[1])}, {x(e[2])}, {x(e[3])})'
    return f'sort({x(e[1])}, (), {x(e[2])})'


def has(e, kind):
    if not isinstance(e, tuple):
        return False
    if e[0] == kind:
        return True
    for s in e[1:]:
        if isinstance(s, tuple) and has(s, kind):
            return True
        if isinstance(s, list) and any(has(t, kind) for t in s if isinstance(t, tuple)):
            return True
    return False


def nodes(e):
    if isinstance(e, tuple):
        yield e
        for s in e[1:]:
            if isinstance(s, tuple):
                yield from nodes(s)
            elif isinstance(s, list):
                for t in s:
                    if isinstance(t, tuple):
                        yield from nodes(t)


FIXED = [
    # (for $i in (1, 2) return function() { $i }) ! .()
    ('bang', ('for', 0, ('lit', [1, 2]), ('lam', [], ('var', 0))), []),
    # let $mk := function($n) { function($x) { $x + $n } }, $a := $mk(1), $b := $mk(10) return ($a(0), $b(0), $a(0))
    ('let', 0, ('lam', [1], ('lam', [2], ('add', ('var', 2), ('var', 1)))),
     ('let', 3, ('call', ('var', 0), [('lit', [1])]), ('let', 4, ('call', ('var', 0), [('lit', [10])]),
      ('seq', ('call', ('var', 3), [('lit', [0])]), ('seq', ('call', ('var', 4), [('lit', [0])]), ('call', ('var', 3), [('lit', [0])])))))),
    # let $x := 1 return (function($x) { $x }(5), $x)
    ('let', 0, ('lit', [1]), ('seq', ('call', ('lam', [0], ('var', 0)), [('lit', [5])]), ('var', 0))),
    # let $a := 100 return (for-each((1, 2), function($a) { $a + 1 }), $a)
    ('let', 0, ('lit', [100]), ('seq', ('foreach', ('lit', [1, 2]), ('lam', [0], ('add', ('var', 0), ('lit', [1])))), ('var', 0))),
    # closure variable shadows a caller variable of the same name at call time
    ('let', 0, ('lit', [1]), ('let', 1, ('lam', [], ('var', 0)), ('let', 0, ('lit', [2]), ('seq', ('call', ('var', 1), []), ('var', 0))))),
    ('for', 0, ('lit', [1, 2]), ('let', 1, ('lam', [2], ('mul', ('var', 2), ('var', 0))), ('for', 0, ('lit', [10, 20]), ('call', ('var', 1), [('var', 0)])))),
    # recursion through a higher-order function: a function item called inside fold-left of another
    ('foldl', ('lit', [1, 2, 3]), ('lit', [0]), ('lam', [0, 1], ('add', ('var', 0), ('call', ('lam', [2], ('mul', ('var', 2), ('var', 2))), [('var', 1)])))),
    ('foldr', ('lit', [1, 2, 3]), ('lit', [0]), ('lam', [0, 1], ('sub', ('var', 0), ('var', 1)))),
    ('pair', ('lit', [1, 2, 3]), ('lit', [10, 20]), ('lam', [0, 1], ('sub', ('var', 1), ('var', 0)))),
    ('sort', ('lit', [3, -1, 2, 1, -2, -3]), ('lam', [0], ('mul', ('var', 0), ('var', 0)))),          # stable on equal keys
    ('sort', ('lit', [5, 15, 3, 13, 25]), ('lam', [0], ('sub', ('var', 0), ('mul', ('lit', [10]), ('lit', [0]))))),
    # partial application
    ('let', 0, ('lam', [1, 2], ('sub', ('var', 1), ('var', 2))),
     ('seq', ('call', ('partial', ('var', 0), [None, ('lit', [1])]), [('lit', [5])]), ('call', ('partial', ('var', 0), [('lit', [10]), None]), [('lit', [5])]))),
    ('let', 0, ('lam', [1, 2], ('sub', ('var', 1), ('var', 2))), ('let', 3, ('partial', ('var', 0), [None, ('lit', [1])]),
     ('seq', ('call', ('var', 3), [('lit', [5])]), ('call', ('var', 0), [('lit', [3]), ('lit', [2])])))),
    ('let', 0, ('lam', [1, 2], ('sub', ('var', 1), ('var', 2))),
     ('bang', ('for', 3, ('lit', [1, 2]), ('partial', ('var', 0), [None, ('var', 3)])), [('lit', [10])])),
]


def run(chk):
    from elementpath import select, ElementPathError, XPathContext
    from elementpath.xpath30 import XPath30Parser
    from elementpath.xpath31 import XPath31Parser
    from elementpath.xpath_tokens import XPathFunction
    rng = chk.rng
    quick = chk.tier == 'quick'
    chk.trusted += ['C16/Model.v eval is an executable specification (lexical closures, F&O expansions of the HOFs), not a model of the '
                    'token machinery; the HOF loops in HOF.v are hand transcriptions of _xpath30_functions.py (tied by correspondence)',
                    "Python's sorted() is a stable sort (modelled external: stable insertion sort)",
                    'harness rendering of programs to XPath text; function items are compared by arity only']
    for f in ('elementpath/xpath30/_xpath30_functions.py', 'elementpath/xpath30/_xpath30_operators.py', 'elementpath/xpath_tokens/functions.py',
              'elementpath/xpath31/_xpath31_functions.py', 'elementpath/xpath31/_xpath31_operators.py', 'elementpath/compare.py'):
        chk.record_source(f)
    chk.forbidden_scan(['C16'])
    import sys as _sys
    _sys.path.insert(0, core.VERIF + '/harness')
    import gen_c16
    gen_c16.generate()          # T-data / source-shape facts regenerated from /repo on every run
    chk.trusted.append('harness/shape.py: AST lookup of the statements mirrored by the hand model (Gen/C16Shape.v)')
    proved = chk.prove(['theories/Gen/C16Shape.v', 'theories/C16/HOF.v', 'theories/C16/Model.v', 'theories/C16/Proofs.v', 'theories/C16/Run.v'], 'theories/C16/Properties.v')
    proved = chk.prove(['theories/C15/Keys.v', 'theories/C08/Typed.v', 'theories/C16/TypedSort.v'], 'theories/C16/TypedSortProperties.v') and proved
    proved = chk.prove(['theories/C16/Equiv.v'], 'theories/C16/EquivProperties.v') and proved
    model_ok = True
    if not proved:
        try:
            core.coq_make(['theories/C16/Model.v', 'theories/C16/Run.v'])
        except core.CoqError as e:
            chk.notes.append('model does not build: ' + str(e))
            model_ok = False

    progs = list(FIXED)
    for _ in range(300 if quick else 8000):
        g = G(rng)
        progs.append(g.seq(rng.choice([2, 3, 3, 4]), {}))
    terms = [f'run {to_coq(e)} []' for e in progs]
    model = core.run_coq_cases('C16', IMPORTS, terms, chunk=120, tag='prog') if model_ok else [None] * len(progs)
    for i, (e, mo) in enumerate(zip(progs, model)):
        text = to_xpath(e)
        outs = {}
        for P in ((XPath31Parser,) if has(e, 'sort') else (XPath31Parser, XPath30Parser)):      # fn:sort is 3.1
            for rep in range(2):
                chk.evaluations += 1
                try:
                    tok = P().parse(text)
                    r = tok.evaluate(XPathContext(None, item=1)) if False else select(None, text, parser=P, item=1)
                    r = r if isinstance(r, list) else [r]
                    enc = []
                    for v in r:
                        if isinstance(v, bool):
                            enc.append((1, int(v)))
                        elif isinstance(v, int):
                            enc.append((0, v))
                        elif isinstance(v, XPathFunction):
                            enc.append((2, v.arity))
                        else:
                            enc.append(('other', repr(v)))
                    out = (1, enc)
                except ElementPathError as ex:
                    out = (0, [])
                    code = (ex.code or '').split(':')[-1]
                except RecursionError:
                    out = ('exc', 'RecursionError')
                except Exception as ex:
                    out = ('exc', repr(ex)[:200])
                outs[(P.__name__, rep)] = out
        desc = {'expr': text}
        chk.count('kind:' + e[0])
        for feature in ('partial', 'bang', 'sort', 'foldr', 'foldl', 'pair', 'filter', 'foreach'):
            if has(e, feature):
                chk.count('feature:' + feature)
        vals = set(map(repr, outs.values()))
        if mo is None:
            continue
        want = (mo[0], [tuple(x) for x in mo[1]])
        bad = {f'{k[0]}#{k[1]}': v for k, v in outs.items() if v != want}
        if bad:
            chk.violation('impl-vs-spec', desc, {'impl': {k: repr(v)[:300] for k, v in bad.items()}, 'spec (reference semantics)': repr(want)[:300]})
            chk.corr_fail.append((desc, bad, want))
        chk.nontrivial.add(text)
        if i % 41 == 0:
            chk.sample({'expr': text, 'reference': repr(want)[:200]})
    # ---- fn:sort / array:sort over items of several numeric types with type-sensitive key functions
    # (reference: Python stable sort by the key computed per item; the theorem is C16_sort_stable_ordered_permutation)
    from decimal import Decimal
    ITEMS = [('1', 1, 'i'), ('2', 2, 'i'), ('3', 3, 'i'), ('1.0e0', 1.0, 'd'), ('2.0e0', 2.0, 'd'), ('1.0', Decimal('1.0'), 'c'), ('3.0', Decimal('3.0'), 'c'),
             ('-1', -1, 'i'), ('-1.0e0', -1.0, 'd'), ('0', 0, 'i'), ('0.0e0', 0.0, 'd')]
    KEYS = [('function($x) { if ($x instance of xs:integer) then $x else -$x }', lambda v, t: v if t == 'i' else -v),
            ('function($x) { if ($x instance of xs:double) then 0 else $x }', lambda v, t: 0 if t == 'd' else v),
            ('function($x) { if ($x instance of xs:decimal and not($x instance of xs:integer)) then 100 else $x }', lambda v, t: 100 if t == 'c' else v),
            ('function($x) { $x * $x }', lambda v, t: v * v),
            ('function($x) { -$x }', lambda v, t: -v)]
    for _ in range(60 if quick else 3000):
        items = [rng.choice(ITEMS) for _ in range(rng.randint(2, 6))]
        ktext, kfun = rng.choice(KEYS)
        want = [(x[0], x[2]) for x in sorted(items, key=lambda x: kfun(x[1], x[2]))]
        for form in ('sort(({}), (), {})', 'array:sort([{}], (), {})?*'):
            text = form.format(', '.join(x[0] for x in items), ktext)
            chk.evaluations += 1
            chk.count('sort-mixed')
            try:
                r = select(None, text, parser=XPath31Parser, item=1)
                got = [(repr(v), 'i' if isinstance(v, int) else 'd' if isinstance(v, float) else 'c') for v in r]
                wantr = [(repr(next(i[1] for i in ITEMS if i[0] == lit)), t) for lit, t in want]
                if got != wantr:
                    chk.violation('impl-vs-spec', {'expr': text}, {'impl': got, 'stable sort by key': wantr})
            except ElementPathError as ex:
                chk.violation('impl-vs-spec', {'expr': text}, 'raised ' + str(ex))
            chk.nontrivial.add(text)
    # ---- fn:sort / array:sort on typed atomic values (C16/TypedSort.v over the values of C08/Typed.v)
    from props.c08_typed import TV
    import xml.etree.ElementTree as _ET
    from elementpath import XPathContext as _Ctx
    _root = _ET.XML('<r/>')
    tval = {e: XPath31Parser().parse(e).evaluate() for e, _, _ in TV}
    scases = []
    groups = sorted({t[2] for t in TV})
    for _ in range(150 if quick else 6000):
        r = rng.random()
        if r < 0.7:
            g = rng.choice(groups)
            pool = [t for t in TV if t[2] == g]
        elif r < 0.85:
            g = rng.sample(groups, 2)
            pool = [t for t in TV if t[2] in g]
        else:
            pool = TV
        scases.append([rng.choice(pool) for _ in range(rng.randint(2, 6))])
    for a in TV:
        for b in TV:
            scases.append([a, b])
    smodel = core.run_coq_cases('C16', 'From EP Require Import C15.Keys C08.Typed C16.TypedSort.',
                                ['run_sort [' + '; '.join(t[1] for t in sq) + ']' for sq in scases], chunk=400, tag='tsort') if model_ok else [None] * len(scases)
    stok = XPath31Parser().parse('sort($S)')
    atok = XPath31Parser().parse('array:sort(array { $S })?*')
    for sq, mo in zip(scases, smodel):
        vals = [tval[t[0]] for t in sq]
        for form, tok in (('sort', stok), ('array:sort', atok)):
            chk.evaluations += 1
            chk.count('sort-typed')
            desc = {'fn': form, 'S': [t[0] for t in sq]}
            try:
                r = tok.evaluate(_Ctx(_root, variables={'S': vals}))
                r = r if isinstance(r, list) else [r]
                got = []
                used = set()
                for item in r:      # positions of the result items in the input (identity first)
                    j = next((k for k, v in enumerate(vals) if v is item and k not in used), None)
                    if j is None:
                        j = next((k for k, v in enumerate(vals) if k not in used and type(v) is type(item) and str(v) == str(item)), -1)
                    used.add(j)
                    got.append(j)
            except ElementPathError as ex:
                got = [-9] if 'XPTY0004' in str(ex.code) else ['error ' + str(ex.code)]
            except Exception as ex:
                chk.violation('foreign-exception', desc, repr(ex)[:200])
                continue
            if mo is None:
                continue
            want = list(mo)
            if got != want:
                chk.corr_fail.append((desc, got, want))
                chk.violation('impl-vs-spec', desc, {'impl (input positions)': got, 'spec': want})
        if mo is not None and list(mo) != [-9]:
            chk.nontrivial.add(repr(('tsort', [t[0] for t in sq])))
    # ---- partial application of named functions (static f(a, ?), dynamic f#n(a, ?), partial of a partial), items created in
    # loops and called after the loop: every call must equal the direct call with the same arguments
    # (C16_partial_application_binds_as_direct_call: the parameters are bound to the same values)
    BUILTINS = [('concat', 3, ["'a'", "'b'", "'c'", "string($i)", "$s"]), ('substring', 3, ["'abcdefgh'", '2', '3', '$i', "$s"]),
                ('substring-after', 2, ["'x1y2z3'", "string($i)", "'y'", '$s']), ('string-join', 2, ["('p', 'q', 'r')", "'-'", "string($i)", '$s']),
                ('translate', 3, ["'abcabc'", "'ab'", "'xy'", '$s']), ('math:pow', 2, ['2', '3', '$i']), ('max', 1, ['(1, 5, 3)', '($i, 2)']),
                ('subsequence', 3, ['(10, 20, 30, 40)', '2', '$i']), ('index-of', 2, ['(1, 2, 3, 2)', '2', '$i']),
                ('xs:integer', 1, ["'12'", '$i']), ('contains', 2, ["'abc'", "'b'", '$s']), ('round', 2, ['12.345', '$i', '2'])]
    pcases = []
    for name, ar, pool in BUILTINS:
        for _ in range(12 if chk.tier == "quick" else 60):
            args = [rng.choice(pool) for _ in range(ar)]
            slots = [rng.random() < 0.5 for _ in range(ar)]
            if not any(slots):
                slots[rng.randrange(ar)] = True
            if all(slots) and ar > 1 and rng.random() < 0.7:
                slots[rng.randrange(ar)] = False
            pcases.append((name, ar, args, slots))
    for name, ar, args, slots in pcases:
        direct = f"{name}({', '.join(args)})"
        call_args = ', '.join(a for a, sl in zip(args, slots) if sl)
        part = ', '.join('?' if sl else a for a, sl in zip(args, slots))
        forms = {'static': f"{name}({part})", 'dynamic': f"{name}#{ar}({part})"}
        ph = [k for k, sl in enumerate(slots) if sl]
        if len(ph) >= 2:
            # partial of a partial: the first placeholder is filled by a second partial application
            first = args[ph[0]]
            forms['partial-of-partial'] = f"{name}({part})({', '.join([first] + ['?'] * (len(ph) - 1))})"
        for form, pexpr in forms.items():
            rest_args = call_args if form != 'partial-of-partial' else ', '.join(args[k] for k in ph[1:])
            progs = {
                'once': (f"for $i in 1 to 3, $s in ('u', 'v') return {pexpr}({rest_args})",
                         f"for $i in 1 to 3, $s in ('u', 'v') return {direct}"),
                # the items are created in the loop and called after it, in reverse order and twice
                'after': (f"let $gs := (for $i in 1 to 3, $s in ('u', 'v') return function() {{ {pexpr} }}) return "
                          f"(for $k in reverse(1 to 6) return (let $i := 9, $s := 'w' return $gs[$k]()({rest_args if '$' not in rest_args else 'SKIP'})))",
                          f"let $ds := (for $i in 1 to 3, $s in ('u', 'v') return function() {{ {direct} }}) return "
                          f"(for $k in reverse(1 to 6) return $ds[$k]())"),
                'twice': (f"for $i in 1 to 2, $s in ('u') return (let $g := {pexpr} return ($g({rest_args}), $g({rest_args})))",
                          f"for $i in 1 to 2, $s in ('u') return ({direct}, {direct})"),
            }
            for pk, (lhs, rhs) in progs.items():
                if 'SKIP' in lhs:
                    continue
                chk.evaluations += 1
                chk.count('partial-builtin:' + form)
                desc = {'partial': lhs, 'direct': rhs}
                res = []
                for text in (lhs, rhs):
                    try:
                        r = select(None, text, parser=XPath31Parser, item=1, namespaces={'math': 'http://www.w3.org/2005/xpath-functions/math'})
                        res.append(('ok', repr(r)))
                    except ElementPathError as ex:
                        res.append(('err', (ex.code or '').split(':')[-1]))
                    except Exception as ex:
                        res.append(('exc', repr(ex)[:200]))
                if res[0] != res[1]:
                    chk.corr_fail.append((desc, res[0], res[1]))
                    chk.violation('partial-vs-direct', desc, {'partial application': res[0], 'direct call': res[1]})
                elif res[0][0] == 'ok':
                    chk.nontrivial.add(lhs)
    # ---- fn:sort / array:sort on nodes: the default key is fn:data#1 (F&O 16.2.7): sort(S) = sort(S, (), data#1), elements are
    # ordered by their atomized value (untypedAtomic as strings), not by name or structure; the order is stable
    import xml.etree.ElementTree as _ET2
    NAMES = ['a', 'b', 'c', 'd']
    for _ in range(40 if chk.tier == 'quick' else 1500):
        k = rng.randint(1, 6)
        vals = [rng.choice(['1', '2', '10', '02', 'b', 'a', '', 'B', ' 1']) for _ in range(k)]
        # build programmatically instead (random names, the value as text, an attribute)
        root = _ET2.Element('r')
        for i, v in enumerate(vals):
            e = _ET2.SubElement(root, rng.choice(NAMES))
            e.text = v or None      # an empty text chunk is still a text node for the tree builders (C02): not generated
            e.set('k', rng.choice(vals))
            e.set('id', str(i))
        want = [str(i) for i, _ in sorted(enumerate(vals), key=lambda iv: iv[1])]     # stable sort by the string value (codepoint order)
        wanta = [str(i) for i, _ in sorted(enumerate(root), key=lambda ie: ie[1].get('k'))]
        for form, expr, w in (('sort', 'sort(/r/*) ! string(@id)', want), ('sort-data', 'sort(/r/*, (), data#1) ! string(@id)', want),
                              ('array:sort', 'array:sort(array{/r/*})?* ! string(@id)', want), ('sort-attributes', 'sort(/r/*/@k) ! string(../@id)', wanta),
                              ('sort-text', 'sort(/r/*/text()) ! string(../@id)', [x for x in want if vals[int(x)] != ''])):
            chk.evaluations += 1
            chk.count('sort-nodes:' + form)
            desc = {'fn': form, 'expr': expr, 'document': _ET2.tostring(root, encoding='unicode')[:300]}
            try:
                got = select(root, expr, parser=XPath31Parser)
                got = got if isinstance(got, list) else [got]
            except ElementPathError as ex:
                got = ['error ' + str(ex.code)]
            if got != w:
                chk.corr_fail.append((desc, got, w))
                chk.violation('impl-vs-spec', desc, {'impl (ids in result order)': got, 'stable sort by the atomized value': w})
            chk.nontrivial.add('sortnodes:' + form + repr(vals))
    # ---- maps and arrays as function items (XPath 3.1 2.8 / 17): arity 1, usable wherever a function of one argument is expected,
    # f(k) = lookup; checked against the direct lookup on generated arrays and maps
    NSM = {'map': 'http://www.w3.org/2005/xpath-functions/map', 'array': 'http://www.w3.org/2005/xpath-functions/array'}
    for _ in range(40 if chk.tier == 'quick' else 1500):
        n = rng.randint(0, 5)
        vals = [rng.randint(-9, 9) for _ in range(n)]
        arr = '[' + ', '.join(map(str, vals)) + ']'
        mp = 'map{' + ', '.join(f'{k}: {v}' for k, v in enumerate(vals, start=1)) + '}'
        keys = [rng.randint(1, max(n, 1)) for _ in range(rng.randint(0, 4))] if n else []
        ks = '(' + ', '.join(map(str, keys)) + ')'
        cases = [(f'function-arity({arr})', [1]), (f'function-arity({mp})', [1]),
                 (f'for-each({ks}, {arr})', [vals[k - 1] for k in keys]), (f'for-each({ks}, {mp})', [vals[k - 1] for k in keys]),
                 (f'{ks} ! {arr}(.)', [vals[k - 1] for k in keys]), (f'filter({ks}, function($k) {{ {mp}($k) gt 0 }})', [k for k in keys if vals[k - 1] > 0]),
                 (f'{arr} instance of function(xs:integer) as item()*', [True]), (f'{arr} instance of function(xs:integer, xs:integer) as item()*', [False]),
                 (f'for-each-pair({ks}, {ks}, {arr})', 'error'), (f'fold-left({ks}, 0, {mp})', 'error'),
                 (f'apply({arr}, [{keys[0]}])', [vals[keys[0] - 1]]) if keys else (f'array:size({arr})', [n])]
        for expr, want in cases:
            chk.evaluations += 1
            chk.count('maps-arrays-as-functions')
            try:
                got = select(None, expr, parser=XPath31Parser, namespaces=NSM, item=1)
                got = got if isinstance(got, list) else [got]
            except ElementPathError as ex:
                got = 'error'
            if got != want:
                chk.corr_fail.append(({'expr': expr}, got, want))
                chk.violation('impl-vs-spec', {'expr': expr}, {'impl': repr(got)[:200], 'spec': repr(want)})
            chk.nontrivial.add('mapfn:' + expr)
    # ---- named function references: every registered function of arity 1-2 called through f#n, a variable bound to f#n,
    # fn:apply and fn:function-lookup gives what the direct call gives (value and type, or an error on both sides), on typed
    # arguments including nodes, arrays, maps and function items
    import xml.etree.ElementTree as _ET3
    from elementpath import XPathContext as _XC
    NS3 = {'math': 'http://www.w3.org/2005/xpath-functions/math', 'map': 'http://www.w3.org/2005/xpath-functions/map', 'array': 'http://www.w3.org/2005/xpath-functions/array'}
    PRE3 = {'http://www.w3.org/2005/xpath-functions': 'fn:', NS3['math']: 'math:', NS3['map']: 'map:', NS3['array']: 'array:', 'http://www.w3.org/2001/XMLSchema': 'xs:'}
    SKIP3 = {'doc', 'collection', 'uri-collection', 'unparsed-text', 'unparsed-text-lines', 'json-doc', 'trace', 'error', 'environment-variable',
             'available-environment-variables', 'random-number-generator', 'load-xquery-module', 'transform', 'unparsed-text-available', 'doc-available',
             'current-dateTime', 'current-date', 'current-time', 'generate-id', 'parse-xml', 'parse-xml-fragment', 'json-to-xml', 'analyze-string'}
    ARGS3 = ["1", "-1.5", "'a'", "''", "xs:untypedAtomic('1')", "true()", "()", "(1, 2)", "('a', 'b')", "/r", "/r/n", "/r/@a", "xs:date('2000-01-01')",
             "xs:dayTimeDuration('PT1H')", "xs:QName('a')", "[1, 2]", "map{'a': 1}", "abs#1", "2.5", "xs:float('1.5')", "'en'", "xs:dateTime('2000-01-01T10:00:00Z')", "xs:time('10:00:00')"]
    p3 = XPath31Parser(namespaces=NS3)
    doc3 = _ET3.ElementTree(_ET3.XML('<r a="1">t<b>u</b><n>42</n></r>'))

    def run3(call):
        try:
            r = p3.parse(call).evaluate(_XC(doc3))
        except ElementPathError:
            return ('err',)
        except Exception as ex:
            return ('exc', type(ex).__name__)
        r = r if isinstance(r, list) else [r]
        return ('ok', [(type(x).__name__, 'node' if hasattr(x, 'elem') or hasattr(x, 'document') else str(x)) for x in r])
    calls3 = []
    seen3 = set()
    for (qname, arity), sig in sorted(p3.function_signatures.items(), key=lambda kv: (kv[0][0].namespace or '', kv[0][0].local_name, kv[0][1])):
        pre = PRE3.get(qname.namespace)
        if pre is None or qname.local_name in SKIP3 or arity not in (1, 2) or (qname, arity) in seen3:
            continue
        seen3.add((qname, arity))
        f = pre + qname.local_name
        for args in ([(a,) for a in ARGS3] if arity == 1 else [(a, b) for a in ARGS3[:14] for b in ARGS3[:8]]):
            calls3.append((f, arity, ', '.join(args)))
    if chk.tier == 'quick':
        calls3 = rng.sample(calls3, 700)
    # the repaired cases are always run
    calls3 += [('fn:namespace-uri', 1, '()'), ('fn:namespace-uri', 1, '/r/text()'), ('math:sin', 1, 'abs#1'), ('fn:reverse', 1, 'abs#1'), ('map:size', 1, 'abs#1'),
               ('fn:function-arity', 1, 'abs#1'), ('fn:for-each', 2, '(1, -2), abs#1'), ('fn:sum', 1, 'abs#1'), ('fn:one-or-more', 1, 'abs#1')]
    for f, arity, a in calls3:
        direct = run3(f'{f}({a})')
        for form, expr in (('ref', f'{f}#{arity}({a})'), ('let', f'let $g := {f}#{arity} return $g({a})'), ('apply', f'apply({f}#{arity}, [{a}])'),
                           ('lookup', f"function-lookup(xs:QName('{f}'), {arity})({a})")):
            chk.evaluations += 1
            chk.count('named-reference:' + form)
            got = run3(expr)
            if got[0] == 'exc':
                chk.violation('foreign-exception', {'expr': expr}, got[1])
            elif got != direct:
                chk.corr_fail.append(({'expr': expr}, got, direct))
                chk.violation('impl-vs-spec', {'expr': expr, 'direct call': f'{f}({a})'}, {'through the function item': repr(got)[:200], 'direct call': repr(direct)[:200]})
        if direct[0] == 'ok':
            chk.nontrivial.add(f'namedref:{f}({a})')
    for expr in ('for-each((1, -2), abs(5))', 'filter((1, 2), boolean(0))', 'fold-left((1, 2), 0, max((1, 2)))', 'for-each((1, 2), string(9))',
                 'function-arity(true())', 'function-name(abs(1))', 'for-each-pair((1, 2), (3, 4), concat("a", "b"))', 'fold-right((1, 2), 0, min((1, 2)))'):
        chk.evaluations += 1
        chk.count('call-expression-as-function-argument')
        got = run3(expr)
        if got != ('err',):
            chk.violation('impl-vs-spec', {'expr': expr}, {'impl': repr(got)[:200], 'spec': 'XPTY0004: the argument is the value of a call expression, not a function item'})
    chk.rule = ('fixed corpus (closures in loops, closure factories, shadowing at call time, HOFs, stable sort, partial application) + seeded '
                'typed random programs (depth <= 4) evaluated twice under the 3.1 and 3.0 parsers against C16.Model.eval; non-trivial = distinct program')
    chk.obligations.append({'name': 'correspondence:impl==reference semantics', 'ok': not chk.corr_fail,
                            'detail': f'{len(chk.corr_fail)} disagreements' + (': ' + repr(chk.corr_fail[0])[:500] if chk.corr_fail else '')})


def replay(rec):
    print(rec)
    return 0
