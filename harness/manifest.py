"""Regenerates /verif/MANIFEST.json from the per-property registry below (keeps it schema-valid)."""
import json
import os

VERIF = os.path.dirname(os.path.dirname(os.path.abspath(__file__)))

# pid -> (technique, level text, level_note, design_ref)
CLAIMED = {
 'C13': ('Coq proof (induction over operation sequences; verified range-list checkers by vm_compute over tables regenerated from source) + literal correspondence of the hand model with UnicodeSubset',
         'Theorems over a Gallina mirror of UnicodeSubset.add/discard/|=/-=/&=/^=/complement: every reachable state denotes the mathematical set and stays sorted/non-overlapping (all op sequences, all sizes); canonical lists are extensional; the merged-canonical-form claim is refuted by a kernel-checked witness (known finding). Category/block tables are regenerated from /repo and unicodedata each run and re-proved equal on all 0x110000 code points by verified checkers.',
         'Trusted: Coq kernel+vm_compute; gen_c13.py table dump and the unicodedata reference dump; the hand model is tied to the code by literal list comparison on exhaustive small scopes and random op sequences (update/iter_code_points are modelled and compared but carry no theorem yet). No axioms (Print Assumptions: closed).',
         'DESIGN.md §6 C13'),
 'C06': ('Coq proof over integer kernels re-translated from source each run (T-expr) + dispatch model; correspondence on typed operand grids',
         'idiv = truncated quotient, mod = remainder with the dividend\'s sign, a = (a idiv b)*b + (a mod b) for all finite operands of all four numeric types (exact values m*10^e, unbounded), division-by-zero table, fn:round = floor(x+1/2), floor/ceiling, round-half-to-even characterisation: proved for every input. The int kernels of mod/idiv are regenerated from /repo on every run, so an edit there breaks a proof obligation. Partial: finite double + - * div are hardware operations (not modelled); sign of zero from floor/ceiling and xs:float result type of div-by-zero are known findings.',
         'Trusted: Coq kernel; py2coq translator (Python int=Z, //=Z.div, %=Z.modulo); modelled-not-verified externals: Decimal // and % truncate, math.fmod exact, float // exact floor for |q|<2^52, Decimal.quantize, int->float / Decimal->float promotion done by the harness with Python float(). No axioms.',
         'DESIGN.md §6 C06'),
 'C09': ('Coq proof on strings as code-point lists (refinement of the slicing/find/translate-table algorithms to position/occurrence specifications) + correspondence under XPath 1.0/2.0 parsers, libxml2 cross-check',
         'fn:substring = positions round(start) <= p < round(start)+round(length) with half-up rounding and IEEE INF/NaN rules (all strings, all rational/special arguments); substring-before/after/contains/starts-with/ends-with characterised by first occurrence and concat law; translate = first-occurrence specification; normalize-space token theorem for any whitespace class; compare is a total order; regenerated is_xml_codepoint = XML Char production. Partial: upper/lower-case, non-codepoint collations and URI escaping are not modelled; normalize-space whitespace class is a known finding.',
         'Trusted: Coq kernel; py2coq translator; Python str primitives as mirrored in C09/Model.v (modelled, validated by correspondence only); round_number modelled by C06.round_md. No axioms.',
         'DESIGN.md §6 C09'),
 'C11': ('Coq proof (Rata-Die refinement: cycle decomposition soundness + uniqueness of (year, day-of-year) representation; finite month tables by vm_compute) over helpers re-translated from source each run (T-fun) + correspondence with the DateTime/Duration API',
         'todelta = proleptic Gregorian day number for every valid date (BCE, >9999 included); fromdelta o todelta = id and todelta o fromdelta = id on all of Z (instants in microseconds); d + dur - dur = d; d1 + (d2 - d1) = d2; instants injective (order = timeline order); yearMonthDuration addition moves the month count exactly in astronomical years and clamps the day; regenerated days_from_common_era / adjust_day proved against their specifications. Comparison with timezones and adjust-*-to-timezone are judged against instants by the harness (not theorems).',
         'Trusted: Coq kernel; py2coq translator; PyCalendar.v copies of calendar.isleap/leapdays; CPython datetime ordinal arithmetic for years 1..9999 and timedelta normalisation are modelled by the same formulas and validated by correspondence only. No axioms.',
         'DESIGN.md §6 C11'),
 'C04': ('Coq proof: generic Pratt parser correctness (pratt_correct, canon_img: EBNF-canonical trees are re-parsed exactly) + verified table checker run by vm_compute on the binding-power table probed from the loaded token classes each run; correspondence of parse trees',
         'For XPath 2.0/3.0/3.1 every tree derivable by the EBNF precedence/associativity rules over 30 binary operators, prefix +/- and parentheses is exactly what the Pratt loop returns for its token sequence (all trees, unbounded size); the table (lbp, led rbp, nud rbp, non-associativity conflicts) is re-probed from /repo on every run, so a changed binding power breaks table_okb. XPath 1.0 grouping and the completeness of the non-associativity checks are refuted by kernel-checked witnesses (known findings). Partial: lexer, whitespace/comments, .source round trip and hash-seed independence are checked by correspondence/observation (with the alternation-disjointness hypothesis measured), value equality is not modelled; path operators / and // belong to C01.',
         'Trusted: Coq kernel; gen_c04.py probing (stub parser.expression); C04/Spec.v transcription of the W3C EBNF levels. No axioms.',
         'DESIGN.md §6 C04'),
 'C03': ('Coq proof of the parser-instance state machine (try/finally reset, flag discipline) and of termination of the Pratt core and of the nested-comment loop; T-data ties the try/finally structure to the AST each run; history correspondence; foreign-exception and hang exploration in watchdogged sub-processes',
         'PARTIAL. Proved for all histories: after any parse (success or failure at any point) the cursor is fresh and the next parse behaves as on a fresh instance; parse_arguments is restored whatever fails inside a => operand; the Pratt loop never runs out of fuel (no hang) for any token list and table; nested comments are skipped exactly (Dyck words) and an unterminated one is an error. Not provable here: that no foreign exception escapes from the ~250 unmodelled function implementations - that half is exploration (token mutants, random strings, full typed-operand cross product, histories), with 7 known findings identified by exception type and raising function.',
         'Trusted: Coq kernel; gen_c03.py AST facts; the abstraction of instance state to the fields a later parse reads; sub-process watchdog. No axioms.',
         'DESIGN.md §6 C03'),
 'C02': ('Coq proof (structural induction with a nested list invariant) that the positions assigned by both tree builders and the lazy namespace/attribute nodes strictly increase in document order, over increments re-translated from source each run (T-expr); correspondence on (kind, position, parent) of every node',
         'For every input tree (any shape/size, attributes, text/tails, comments, PIs, namespaces mapping with or without xml, lxml in-scope nsmaps, document-level siblings) positions strictly increase along element -> namespace nodes -> attributes -> text/children/tails, parents precede children, positions are unique; the reserved gap is exactly element + namespace nodes + attributes. Order operators (is, <<, >>, union, intersect, except), string values and parent/children links are judged by the harness on real trees (not theorems); string-value order is a known finding pinned by an existing test.',
         'Trusted: Coq kernel; py2coq/gen_c02 translator; the builders\' deque loops are modelled by structural recursion (validated by correspondence on exhaustive shapes <=4 nodes and random trees for both libraries). No axioms.',
         'DESIGN.md §6 C02'),
 'C01': ('Coq proofs about the XDM path semantics (document order, no duplicates, step composition, canonicity, proximity positions) as an executable specification on the document-ordered node sequence; correspondence of node identities with root_token.select on 4 parsers x 2 tree libraries; libxml2 cross-check',
         'PARTIAL. Proved for every document, path of the grammar (13 axes, name/kind tests, positional/last()/existence/not() predicates, nested relative paths) and context: results are strictly increasing in document order (each node once), E1/E2 selects exactly the nodes E2 selects from the nodes of E1, [n] on a reverse axis counts backwards. The axes are an executable XDM specification, not a separate model of the context iterators: they are validated against the implementation exhaustively on trees <= 4 nodes x every axis x every context node and on random trees/paths (and against libxml2, 0 disagreements); three iterator deviations on non-element context nodes are modelled (axis_nodes_impl) and listed as a known finding. Functions inside predicates are outside the model.',
         'Trusted: Coq kernel; C01/Model.v as the reading of the XDM; harness tree construction and node identity mapping; lxml/libxml2 as cross-check only. No axioms.',
         'DESIGN.md §6 C01'),
 'C14': ('Coq proof on rose trees: the structured path of a node (own test + position among matching siblings) evaluates to exactly that node, and paths are injective; correspondence of node.path / fn:path / etree_iter_paths strings with the model and evaluation of every string back on the implementation',
         'For every tree and every element / text / comment / PI node: eval (path_of n) = [n] and distinct nodes have distinct paths (induction over the index path, k-th matching sibling lemma). The pre-fix counting rule is refuted by a kernel-checked witness (fixed in /repo). The string level (Q{ns}local[n] formatting, the 3.0/3.1 parser, attribute / namespace / document node paths, fragment prefix) is correspondence: every node of every generated tree, both libraries, document and element roots. PI targets that are keywords / pi cannot be parsed back: known finding.',
         'Trusted: Coq kernel; harness formatting of steps and node identity mapping; C01 for the meaning of child::test[n]. No axioms.',
         'DESIGN.md §6 C14'),
 'C19': ('Coq proof of the CollationManager lock / LC_COLLATE state machine with setlocale as an unconstrained oracle (sequential restoration, interleaving invariant: mutex, locale restored, no deadlock); fault-sequence correspondence in fresh watchdogged sub-processes',
         'PARTIAL. Proved for every oracle, collation argument, body outcome and sequence of blocks: afterwards the lock is free and LC_COLLATE is what it was; for every interleaving of N threads the lock is held iff exactly one thread is inside a locale block, LC_COLLATE is the initial one when none is, and some thread can always move. The pre-fix enter is refuted by a kernel-checked witness (fixed in /repo). Real scheduling, the C library locale, expat entity handling, os.environ and the decimal context are runtime: observed by fault sequences (all pairs of collation arguments + random sequences over 11 collation-using functions), entity inputs, environment-variable gating and threads-vs-sequential runs.',
         'Trusted: Coq kernel; measured availability oracle; harness mapping of collation URIs to (locale, fallback); sub-process watchdog. No axioms.',
         'DESIGN.md §6 C19'),
 'C08': ('Coq proof: the generator loops of the sequence functions refined to the F&O list definitions, every = not some not, multi-variable for = nested dependent for; correspondence through select() on integer sequences and expression templates',
         'For all integer sequences and arguments: insert-before / remove / index-of / distinct-values / min / sum equal their list-model definitions (positions clamped as specified), subsequence is the positional filter with IEEE INF/NaN rules, every = not(some not) and for with several (dependent) variables = nested for, proved by induction. Partial: iter_product is modelled as the dependent product it computes (not its index-stack loop), aggregates on doubles and collations are not modelled; reverse/head/tail/count/cardinality functions are thin wrappers checked by correspondence.',
         'Trusted: Coq kernel; harness encoding of sequences and rounding of subsequence arguments (exact floor(x+1/2)); decimal.Decimal division precision for avg. No axioms.',
         'DESIGN.md §6 C08'),
 'C15': ('Coq proof of finite-map laws on association lists (get/put, size, remove, key uniqueness, the four merge policies) and list laws for arrays (1-based get with FOAY0001 exactly outside 1..size, put, insert-before, subarray, reverse); correspondence on operation sequences with operand snapshots',
         'For all integer-keyed maps, values and keys: map:get(map:put(m,k,v),k) = v, other keys unchanged, size arithmetic, keys stay duplicate-free under put/remove, merge use-first/use-last/reject/combine per entry; for all arrays and indexes the array laws above. Immutability is immediate in Gallina; on the Python objects it is checked by snapshots around every call (three mutation defects and the NaN-key defect were fixed in /repo). Key identity across types (op:same-key) is an observation table with four known findings pinned to their exact deviation.',
         'Trusted: Coq kernel; integer keys stand for all keys on which Python ==/hash coincide with same-key; harness encoding of maps/arrays. No axioms.',
         'DESIGN.md §6 C15'),
 'C07': ('Coq proof that general comparison is exists-over-pairs, that EBV follows the F&O table, Boolean algebra of and/or/not, string order = code point order; the isinstance chain of the value-comparison operator as a decision table whose deviation from the F&O operator mapping is computed exactly by the kernel; correspondence on all 6x18x18 type cells, integer sequences and all item sequences of length <= 2',
         'For all sequences and any item comparison, A op B holds iff some pair satisfies it; for all item sequences the effective boolean value is the F&O one (error exactly for the undefined shapes); and/or/not laws. The value-comparison type table is a finite statement proved for all 1944 cells (C07_type_table_partial) with the 40 deviating cells listed (known finding); ordering inside each type is delegated to C06/C09/C11. Double eq tolerance is a known finding (observed, not modelled).',
         'Trusted: Coq kernel; vc_spec as transcription of the F&O operator mapping; representative values per type; harness table of untypedAtomic conversions. No axioms.',
         'DESIGN.md §6 C07'),
 'C05': ('Coq refinement proof: the store-passing model of the implementation (shared mutable variables dict behind shallow context copies, one dict copy per for/let/some/every, iter_product and update() writing loop variables in place) computes the lexically scoped semantics for every expression of the binding calculus and leaves every pre-existing dictionary unchanged; correspondence on generated programs through select / iter_select / Selector / token; histories over documents, variable maps and timezones with snapshots',
         'For all expressions of the calculus (literals, variables, sequence, +, one- and two-variable for, one- and two-variable let, some, every; any nesting and shadowing) accepted by the parser range-variable check, all heaps and caller dictionaries: value = lexical-scope value, caller dictionaries unchanged, same result after any earlier evaluations. PARTIAL for "any expression": purity and repeatability of the remaining functions / operators, of token caches, of the tree and of mutable atomic values are observed on histories over a fixed pool (timezone write-through was found there and fixed in /repo), not proved. Generator laziness is not modelled (eager model).',
         'Trusted: Coq kernel; hand model C05/Model.v impl (tied by correspondence); harness rendering of programs; snapshots by repr/slots. No axioms.',
         'DESIGN.md §6 C05'),
 'C16': ('Coq proofs that the generator loops of fold-left / fold-right / for-each / filter / for-each-pair equal the F&O definitional expansions (any item type, any failing function item), that fn:sort (stable insertion-sort model of sorted()) is a stable ordered permutation, that function items created by one expression are independent (token-store model; refuted for the pre-fix code), and that a dynamic call is the direct evaluation of the body; correspondence of typed random programs against the executable reference semantics (lexical closures, partial application, HOFs)',
         'HOF expansions and sort: for all sequences, keys and function items. Closures / calls / partial application: the reference semantics C16.Model.eval is an executable specification evaluated by vm_compute and compared with the implementation on generated programs (closures created in for/let scopes, factories, calls in any order and number) - PARTIAL: it is not a model of the token machinery (XPathFunction.__call__, to_partial_function), named function references and collations are observed only. Partial application of shared function items is a known finding; two closure defects were fixed in /repo.',
         'Trusted: Coq kernel; hand transcription of the HOF loops; Python sorted() stable; harness rendering. No axioms.',
         'DESIGN.md §6 C16'),
 'C12': ('Coq proofs: a derivative matcher decides the XSD set-of-strings semantics (all expressions, all strings); bounded quantifiers; the CharacterClass algebra of the code (positive / negated subsets, negated-escape intersection, complement, nested subtraction; UnicodeSubset operations = the proved C13 model) computes the denoted set for every class expression and code point, hence matching with the code-computed classes = XSD matching; analyze-string partition lemma. Correspondence: random expressions rendered to text -> translate_pattern -> Python re vs the Coq matcher',
         'Matcher, quantifiers, class algebra: for all inputs. C12_same_language is PARTIAL: proved under escapes_faithful - it is refuted for \\w \\W \\s \\S outside a class, which the code hands to Python re (known finding, pinned by two tests of the suite). What a translated text matches in Python re is observed, not proved. Validity (RegexError) is checked on corpora only; back-references, lazy quantifiers, flags i/m are outside the model. Six defects were fixed in /repo.',
         'Trusted: Coq kernel; Python re; Gen/C12Sets.v (unicodedata for \\d \\w \\s \\p{..}, implementation tables for \\i \\c, Python re probes for py_w py_s); harness rendering of expressions. No axioms.',
         'DESIGN.md §6 C12'),
 'C10': ('Coq proofs: the bounds declared by the 13 integer classes (T-data regenerated from the classes) are the XSD bounds; the integer constructor = lexical integer within bounds for every type and string; canonical integer strings re-parse to the same value; hexBinary and base64Binary codecs round-trip for all octet sequences. Correspondence of generated lexical forms through the class, is_valid, xs:T(), cast as, castable as and from xs:untypedAtomic against the Coq recognizers / make_int / codecs',
         'Integers, hexBinary, base64Binary: for all inputs of the model; recognizers for decimal / boolean / double / float are executable specifications compared by correspondence. PARTIAL: lexical spaces of date/time, duration, QName, URI and string-derived types are not modelled (agreement of the cast paths only); canonical form of doubles is a known finding (format only); CPython int()/float()/codecs are externals. Seven defects were fixed in /repo.',
         'Trusted: Coq kernel; Gen/C10Tables.v T-data; harness whitespace collapse; stdlib Decimal* lemmas (no axioms).',
         'DESIGN.md §6 C10'),
 'C17': ('Coq proof that an RFC 8259 JSON codec over code points (serializer + fuelled recursive-descent parser with escapes, surrogate pairs, general numbers) round-trips every JSON value: parse (print v) = Some v; this codec is the independent JSON parser / serializer of the correspondence with fn:serialize, fn:parse-json, json-to-xml / xml-to-json; parse-xml(serialize(node)) by canonical XML and fn:deep-equal on generated trees',
         'The round-trip theorem is about the codec written for this check (all values, all nesting depths, all scalar-value strings, all m*10^e numbers). The implementation side delegates to CPython json and is compared on generated values (strings over quotes, backslash, control, astral and boundary code points; integers to 10^20; doubles needing 17 digits): PARTIAL - observed, not proved. XML serialization is observed only. Seven defects were fixed in /repo.',
         'Trusted: Coq kernel; harness conversion between Python / XDM / Coq values; CPython json and xml.etree (canonicalize). No axioms.',
         'DESIGN.md §6 C17'),
 'C18': ('Coq proofs: the atomic hierarchy used by the code (issubclass matrix, T-data regenerated from the registered classes) is the XSD derivation hierarchy for all 46x46 pairs; occurrence indicators = cardinality sets; the subtype relation is reflexive, transitive and sound for matching (all values, all sequence types over atomic types and item()); treat as = instance of; the occurrence logic of is_sequence_type_restriction is sound, and refuted as incomplete (T* vs S?, S+: pinned by the suite). Correspondence through instance of / treat as / match_sequence_type / is_sequence_type_restriction',
         'Atomic item types and item(): for all inputs. PARTIAL: node kind tests, map / array / function tests and schema types are outside the Coq model (hand-written expectation table); function results vs declared return types are checked for ~170 calls with the implementation matcher. Seven defects were fixed in /repo; two known findings.',
         'Trusted: Coq kernel; Gen/C18Types.v T-data; transcription of the XSD derivation table; harness table of constructor literals. No axioms.',
         'DESIGN.md §6 C18'),
 'C20': ('Coq proof that the typing walk of apply_schema (instance and content models in lockstep, element matches cached per content-model identity) assigns to every element the type its parent content model declares, for every coherent schema, instance and truthful cache; cache irrelevance; erasing the types gives back the instance; refutation of a cache keyed by type name. Correspondence on generated schemas (xmlschema) with valid instances under XSD 1.0 and 1.1; typed values vs the schema processor decode; instance of element(*, T) / attribute(*, T); arithmetic; selection with and without the schema',
         'Typing walk: for all schemas / instances of the model (sequences of named children, anonymous and named complex types, simple types). PARTIAL: typed values, attributes, defaults, lists / unions / restrictions, kind tests with type arguments and selection invariance are compared on generated cases (not proved); xsi:type, wildcards, substitution groups, assertion-based and not fully valid schemas are not modelled. One defect fixed; two known findings (root element skipped by the wildcard with a schema-bound parser - pinned by a test; defaulted attributes selected).',
         'Trusted: Coq kernel; xmlschema 4.3.1 as the schema processor; harness schema generator and type-object mapping. No axioms.',
         'DESIGN.md §6 C20'),
}

NOT_YET = {}


def main():
    props = [json.loads(l) for l in open(os.path.join(VERIF, 'properties.jsonl'))]
    checks, na = [], []
    for p in props:
        pid = p['id']
        if pid in CLAIMED:
            tech, text, note, ref = CLAIMED[pid]
            checks.append({
                'property_id': pid,
                'quick_cmd': f'bin/check {pid} --tier quick',
                'thorough_cmd': f'bin/check {pid} --tier thorough',
                'evidence_file': f'/verif/evidence/{pid}.json',
                'replay_cmd_template': f'bin/check {pid} --replay {{path}}',
                'engine': 'coq-proof+correspondence',
                'level_claimed': {'category': 'proof', 'text': text, 'design_ref': ref},
                'level_note': note,
                'technique': tech,
            })
        else:
            na.append({'property_id': pid, 'reason': NOT_YET.get(pid, 'machinery for this property is not built yet in this development (see DESIGN.md §6); not claimed rather than claimed at a weaker technique')})
    m = {
        'version': 1,
        'setup_cmd': 'bin/setup',
        'hooks': {'guard': 'ELEMENTPATH_VERIF', 'enable': 'no instrumentation hooks are needed: every observation uses public API / module attributes; the guard is unused',
                  'baseline_off_cmd': 'bin/baseline', 'source_commits': [], 'add_only': True},
        'engines': [{'name': 'coq-proof+correspondence', 'path': '/verif/bin/check',
                     'serves_properties': sorted(CLAIMED),
                     'kind_free_text': 'Coq 8.16.1 development under /verif/coq (full .vo build, Print Assumptions per property theorem) + Python harness regenerating Gen/*.v from /repo and running model (cases.v + vm_compute) and implementation on the same inputs'}],
        'checks': checks,
        'notes': 'See DESIGN.md. known_findings.json lists recorded and fixed defects.',
        'not_applicable': na,
    }
    with open(os.path.join(VERIF, 'MANIFEST.json'), 'w') as f:
        json.dump(m, f, indent=1)


if __name__ == '__main__':
    main()
