"""Abstract XML trees shared by the C01 / C02 / C14 harnesses: one abstract tree drives an xml.etree tree (built
programmatically: ET.XML() drops comments and PIs) and an lxml tree (parsed from the serialised text)."""
import xml.etree.ElementTree as ET


class T:
    """kind: 'e' element, 'c' comment, 'p' processing instruction"""
    __slots__ = ('kind', 'name', 'attrs', 'nsdecl', 'text', 'children', 'tail', 'target')

    def __init__(self, kind, name=None, attrs=None, nsdecl=None, text=None, children=None, tail=None, target=None):
        self.kind, self.name, self.attrs, self.nsdecl = kind, name, attrs or [], nsdecl or []
        self.text, self.children, self.tail, self.target = text, children or [], tail, target

    def __repr__(self):
        if self.kind == 'e':
            return f"E({self.name},{self.attrs},{self.nsdecl},{self.text!r},{self.children},{self.tail!r})"
        return f"{self.kind.upper()}({self.target or ''},{self.text!r},{self.tail!r})"


def random_tree(rng, maxnodes=12, names=('a', 'b', 'x', 'y'), depth=0, budget=None, pis=True, ns=False):
    budget = budget if budget is not None else [maxnodes]
    budget[0] -= 1
    t = T('e', rng.choice(names))
    for k in range(rng.choice([0, 0, 1, 2, 3])):
        t.attrs.append(('k%d' % k, rng.choice(['1', '2', 'v'])))
    if ns and rng.random() < 0.35:
        for k in range(rng.randint(1, 2)):
            t.nsdecl.append(('p%d%d' % (depth, k), 'urn:n%d%d' % (depth, k)))
    if rng.random() < 0.5:
        t.text = rng.choice(['t', ' ', 'uv', '1'])
    while budget[0] > 0 and depth < 5 and rng.random() < (0.75 if depth < 2 else 0.45):
        r = rng.random()
        if r < 0.12:
            c = T('c', text=rng.choice(['k', 'cc']))
            budget[0] -= 1
        elif r < 0.24 and pis:
            c = T('p', target=rng.choice(['pi', 'x', 'y', 'alpha']), text=rng.choice(['d', 'e f']))
            budget[0] -= 1
        else:
            c = random_tree(rng, maxnodes, names, depth + 1, budget, pis, ns)
        if rng.random() < 0.4:
            c.tail = rng.choice(['w', ' ', 'z1'])
        t.children.append(c)
    return t


def all_shapes(n, names=('a', 'b')):
    """all element-only trees with exactly n nodes over the names (no text, no attributes)"""
    def forests(k):
        if k == 0:
            yield []
            return
        for first in range(1, k + 1):
            for t in trees(first):
                for rest in forests(k - first):
                    yield [t] + rest

    def trees(k):
        for nm in names:
            for ch in forests(k - 1):
                yield ('e', nm, ch)
    return list(trees(n))


def from_shape(s):
    return T('e', s[1], children=[from_shape(c) for c in s[2]])


def to_et(t):
    if t.kind == 'c':
        e = ET.Comment(t.text)
    elif t.kind == 'p':
        e = ET.ProcessingInstruction(t.target, t.text)
    else:
        e = ET.Element(t.name, dict(t.attrs))
        e.text = t.text
        for c in t.children:
            e.append(to_et(c))
    e.tail = t.tail
    return e


def esc(s):
    return s.replace('&', '&amp;').replace('<', '&lt;').replace('>', '&gt;')


def serialize(t):
    if t.kind == 'c':
        s = '<!--%s-->' % t.text
    elif t.kind == 'p':
        s = '<?%s %s?>' % (t.target, t.text)
    else:
        attrs = ''.join(' %s="%s"' % (k, v) for k, v in t.attrs)
        nsd = ''.join(' xmlns:%s="%s"' % (p, u) if p else ' xmlns="%s"' % u for p, u in t.nsdecl)
        inner = esc(t.text or '') + ''.join(serialize(c) for c in t.children)
        s = '<%s%s%s>%s</%s>' % (t.name, nsd, attrs, inner, t.name)
    return s + esc(t.tail or '')


def to_lxml(t, pre=(), post=()):
    import lxml.etree as LE
    text = ''.join(serialize(x) for x in pre) + serialize(t) + ''.join(serialize(x) for x in post)
    return LE.fromstring(text.encode())


def count_nodes(t):
    return 1 + sum(count_nodes(c) for c in t.children)
