"""T-data for C19: source-shape facts of the statements that the hand model mirrors (harness/shape.py)."""
import shape


def generate():
    return shape.generate('C19')
