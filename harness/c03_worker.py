"""Worker for C03: reads JSON tasks on stdin (one per line), prints one JSON result per line."""
import json
import sys
import traceback


def site_of(exc):
    tb = traceback.extract_tb(exc.__traceback__)
    for fr in reversed(tb):
        if '/elementpath/' in fr.filename:
            return fr.filename.split('/elementpath/')[-1] + ':' + fr.name
    return tb[-1].filename.split('/')[-1] + ':' + tb[-1].name if tb else '?'


def outcome(fn):
    import elementpath
    try:
        return ('ok', fn())
    except elementpath.ElementPathError as e:
        return ('err', str(e.code))
    except RecursionError as e:
        return ('exc', 'RecursionError', 'recursion')
    except Exception as e:
        return ('exc', type(e).__name__, site_of(e))


def snapshot(p):
    d = {}
    for k in ('source',):
        d[k] = getattr(p, k)
    d['token_is_start'] = p.token is p._start_token
    d['next_token_is_start'] = p.next_token is p._start_token
    d['next_match'] = p.next_match is None
    d['tokens_exhausted'] = next(p.tokens, None) is None
    # effective attribute values (an instance attribute that shadows an equal class attribute is not a difference)
    keys = set(getattr(p, '__dict__', {})) | {'parse_arguments', 'compatibility_mode', 'default_namespace', 'strict'}
    for k in sorted(keys):
        v = getattr(p, k, '<absent>')
        if isinstance(v, (bool, int, str, type(None), tuple)):
            d['attr:' + k] = repr(v)
        elif isinstance(v, dict):
            d['attr:' + k] = repr(sorted((str(a), str(b)) for a, b in v.items()))[:2000]
    return d


def main():
    import xml.etree.ElementTree as ET
    import elementpath
    from elementpath import XPath1Parser, XPath2Parser, XPathContext
    from elementpath.xpath30 import XPath30Parser
    from elementpath.xpath31 import XPath31Parser
    P = {'10': XPath1Parser, '20': XPath2Parser, '30': XPath30Parser, '31': XPath31Parser}
    root = ET.XML('<r a="1" b="x"><a>1</a><a>2</a><b c="3">t<c/>u</b><!--k--></r>')
    for line in sys.stdin:
        task = json.loads(line)
        cls = P[task['version']]
        if task['kind'] == 'history':
            shared = cls()
            res = []
            for s in task['sources']:
                o1 = outcome(lambda: shared.parse(s).tree)
                fresh = cls()
                o2 = outcome(lambda: fresh.parse(s).tree)
                s1, s2 = snapshot(shared), snapshot(fresh)
                res.append({'source': s, 'shared': o1, 'fresh': o2,
                            'state_diff': sorted(k for k in set(s1) | set(s2) if s1.get(k) != s2.get(k))})
            print(json.dumps({'id': task['id'], 'res': res}), flush=True)
        else:
            s = task['expr']
            p = cls()

            def run():
                tok = p.parse(s)
                ctx = XPathContext(root, variables={'v': 1, 's': 'ab', 'q': [1, 2, 3]})
                r = list(tok.select(ctx))
                return len(r)
            o = outcome(run)
            print(json.dumps({'id': task['id'], 'res': o}), flush=True)


if __name__ == '__main__':
    main()
