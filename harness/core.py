"""Shared machinery of the /verif checks: Coq build + obligation accounting, evaluation of the
Gallina model on generated cases (cases.v + vm_compute), known-findings handling, evidence.

Everything is rebuilt from /repo's current working tree: the implementation side imports
elementpath from /repo (sys.path forced), the generated Coq files (coq/theories/Gen) are
rewritten from /repo's sources on every run.
"""
import ast as pyast
import fcntl
import hashlib
import json
import os
import random
import re
import subprocess
import sys
import time
from concurrent.futures import ThreadPoolExecutor

VERIF = os.path.dirname(os.path.dirname(os.path.abspath(__file__)))
REPO = os.environ.get('VERIF_REPO', '/repo')
COQ = os.path.join(VERIF, 'coq')
THEORIES = os.path.join(COQ, 'theories')
GEN = os.path.join(THEORIES, 'Gen')
BUILD = os.path.join(VERIF, 'build')
NCPU = os.cpu_count() or 4

FORBIDDEN = re.compile(
    r'\b(Admitted|admit|Axiom|Axioms|Parameter|Parameters|Conjecture|Conjectures|bypass_check)\b'
    r'|Admit\s+Obligations|Unset\s+Guard|Unset\s+Positivity|Unset\s+Universe|type-in-type'
    r'|impredicative-set')

TRUSTED_BASE_COMMON = [
    "Coq 8.16.1 kernel incl. its vm_compute conversion (native_compute not used); coqchk re-check is a thorough-tier/manual step",
    "harness/core.py: generation of cases.v, parsing of Coq's printed results, comparison and canonicalisation",
    "CPython 3.12 running the implementation side from /repo's working tree",
]


def setup_impl_path():
    """Force the implementation under test to be /repo's working tree."""
    for p in (os.path.join(REPO, 'src'), REPO):
        if os.path.isdir(p) and p not in sys.path:
            sys.path.insert(0, p)
    import elementpath  # noqa
    assert os.path.realpath(os.path.dirname(elementpath.__file__)).startswith(os.path.realpath(REPO)), \
        elementpath.__file__


def strip_coq_comments(text):
    out, depth, i, n = [], 0, 0, len(text)
    while i < n:
        if text.startswith('(*', i):
            depth += 1; i += 2
        elif text.startswith('*)', i) and depth:
            depth -= 1; i += 2
        else:
            if not depth:
                out.append(text[i])
            i += 1
    return ''.join(out)


def write_if_changed(path, text):
    os.makedirs(os.path.dirname(path), exist_ok=True)
    try:
        with open(path) as f:
            if f.read() == text:
                return False
    except FileNotFoundError:
        pass
    with open(path, 'w') as f:
        f.write(text)
    return True


def sha(text):
    return hashlib.sha256(text.encode()).hexdigest()[:16]


class CoqError(Exception):
    def __init__(self, file, line, lemma, msg):
        super().__init__(f'{file}:{line}: {lemma}: {msg[:300]}')
        self.file, self.line, self.lemma, self.msg = file, line, lemma, msg


def enclosing_lemma(path, line):
    try:
        lines = open(path).read().split('\n')
    except OSError:
        return '?'
    pat = re.compile(r'^\s*(?:Local\s+|Global\s+)?(Lemma|Theorem|Corollary|Example|Definition|Fixpoint|Fact|Remark|Proposition)\s+([A-Za-z0-9_\']+)')
    for k in range(min(line, len(lines)) - 1, -1, -1):
        m = pat.match(lines[k])
        if m:
            return m.group(2)
    return '?'


def coq_lock():
    os.makedirs(BUILD, exist_ok=True)
    f = open(os.path.join(BUILD, '.coq.lock'), 'w')
    fcntl.flock(f, fcntl.LOCK_EX)
    return f


def all_v_files():
    res = []
    for d, _, fs in os.walk(THEORIES):
        for f in fs:
            if f.endswith('.v'):
                res.append(os.path.relpath(os.path.join(d, f), COQ))
    return sorted(res)


def coq_makefile():
    header = ("-Q theories EP\n"
              "-arg -w -arg -notation-overridden,-deprecated-hint-without-locality,"
              "-deprecated-instance-without-locality,-deprecated-syntactic-definition\n")
    text = header + '\n'.join(all_v_files()) + '\n'
    changed = write_if_changed(os.path.join(COQ, '_CoqProject.all'), text)
    if changed or not os.path.exists(os.path.join(COQ, 'Makefile')):
        subprocess.run(['coq_makefile', '-f', '_CoqProject.all', '-o', 'Makefile'], cwd=COQ, check=True,
                       stdout=subprocess.DEVNULL, stderr=subprocess.DEVNULL)


def coq_make(targets, timeout=1500):
    """Full .vo build of the given targets (relative .v paths). Raises CoqError on failure."""
    lock = coq_lock()
    try:
        coq_makefile()
        vos = [t[:-2] + '.vo' for t in targets]
        p = subprocess.run(['timeout', str(timeout), 'make', '-j', str(NCPU), '-k'] + vos, cwd=COQ,
                           stdout=subprocess.PIPE, stderr=subprocess.STDOUT, text=True)
        if p.returncode != 0:
            m = re.search(r'File "([^"]+)", line (\d+), characters [\d-]+:\n((?:.|\n)*?)(?:\nmake|\Z)', p.stdout)
            if m:
                f = os.path.join(COQ, m.group(1)) if not os.path.isabs(m.group(1)) else m.group(1)
                raise CoqError(m.group(1), int(m.group(2)), enclosing_lemma(f, int(m.group(2))), m.group(3).strip())
            raise CoqError('?', 0, '?', p.stdout[-2000:])
    finally:
        lock.close()


def coqc_output(relpath, timeout=600):
    p = subprocess.run(['timeout', str(timeout), 'coqc', '-Q', 'theories', 'EP', '-w',
                        '-notation-overridden,-deprecated-hint-without-locality,-deprecated-instance-without-locality,-deprecated-syntactic-definition',
                        relpath],
                       cwd=COQ, stdout=subprocess.PIPE, stderr=subprocess.STDOUT, text=True)
    return p.returncode, p.stdout


ALLOWED_ASSUMPTION_PREFIXES = (
    # kernel primitives of binary64 / 63-bit integers (not axioms of this development)
    'PrimFloat.', 'Uint63.', 'PrimInt63.', 'Float64', 'FloatOps.', 'float', 'int',
)


def parse_assumptions(output):
    """Split coqc output of a Properties.v into the successive Print Assumptions answers."""
    blocks = []
    cur = None
    for line in output.split('\n'):
        if line.startswith('Closed under the global context'):
            blocks.append([])
            cur = None
        elif line.startswith('Axioms:'):
            cur = []
            blocks.append(cur)
        elif cur is not None and line.strip():
            if re.match(r'^\S', line):
                cur.append(line.strip())
            elif cur:
                cur[-1] += ' ' + line.strip()
    return blocks


# --------------------------------------------------------------------------------------
# Coq result parsing: nested lists / tuples of Z and bool -> python
def parse_coq_value(text):
    t = text.strip()
    t = re.sub(r'%[A-Za-z_]+', '', t)
    t = t.replace(';', ',')
    t = re.sub(r'\btrue\b', 'True', t)
    t = re.sub(r'\bfalse\b', 'False', t)
    t = re.sub(r'\s+', ' ', t)
    return pyast.literal_eval(t)


def _run_case_file(args):
    k, path = args
    rel = os.path.relpath(path, COQ)
    rc, out = coqc_output(rel, timeout=1200)
    if rc != 0:
        raise RuntimeError(f'cases file {path} failed:\n{out[-3000:]}')
    m = re.search(r'^\s*= ((?:.|\n)*)\n\s*: ', out, re.M)
    if not m:
        raise RuntimeError(f'no result in output of {path}:\n{out[-2000:]}')
    return k, parse_coq_value(m.group(1))


def zlit(n):
    return f'({n})' if n < 0 else str(n)


def zlist(xs):
    return '[' + '; '.join(zlit(x) for x in xs) + ']'


def run_coq_cases(pid, imports, terms, chunk=250, tag='cases', preamble=''):
    """Evaluate the Coq terms (all of one type) with vm_compute, in parallel shards.
    Returns the list of python values, in order."""
    if not terms:
        return []
    d = os.path.join(BUILD, 'cases')
    os.makedirs(d, exist_ok=True)
    files = []
    for k in range(0, len(terms), chunk):
        name = f'{pid}_{tag}_{os.getpid()}_{k // chunk}'
        path = os.path.join(d, name + '.v')
        body = (imports + '\nFrom Coq Require Import ZArith List Bool.\nImport ListNotations.\nOpen Scope Z_scope.\n'
                + preamble + '\nDefinition cases := [\n  '
                + ';\n  '.join(terms[k:k + chunk]) + '\n].\nSet Printing Width 200.\nSet Printing Depth 10000000.\nEval vm_compute in cases.\n')
        with open(path, 'w') as f:
            f.write(body)
        files.append((k, path))
    results = {}
    try:
        with ThreadPoolExecutor(max_workers=NCPU) as ex:
            for k, vals in ex.map(_run_case_file, files):
                results[k] = vals
    finally:
        for _, path in files:
            base = path[:-2]
            for ext in ('.v', '.vo', '.vok', '.vos', '.glob'):
                try:
                    os.remove(base + ext)
                except OSError:
                    pass
            try:
                os.remove(os.path.join(d, '.' + os.path.basename(base) + '.aux'))
            except OSError:
                pass
    out = []
    for k, _ in files:
        out.extend(results[k])
    if len(out) != len(terms):
        raise RuntimeError(f'expected {len(terms)} results, got {len(out)}')
    return out


# --------------------------------------------------------------------------------------
class Check:
    def __init__(self, pid, tier, seed):
        self.pid, self.tier, self.seed = pid, tier, seed
        self.rng = random.Random(seed * 1000003 + int(pid[1:]))
        self.t0 = time.time()
        self.obligations = []          # dicts: name, ok, detail
        self.violations = []           # dicts written to replay files
        self.known_hits = {}           # finding id -> example
        self.evaluations = 0
        self.nontrivial = set()
        self.samples = []
        self.distribution = {}
        self.notes = []
        self.assumptions_seen = {}
        self.exhaustive = False
        self.trusted = list(TRUSTED_BASE_COMMON)
        self.rule = ''
        self.sources = {}
        self.findings = [f for f in json.load(open(os.path.join(VERIF, 'known_findings.json')))['findings']
                         if f['property'] == pid]
        self.known_ids = {f['id'] for f in self.findings if f['status'] == 'known'}
        self.corr_fail = []            # correspondence disagreements (impl vs model)

    # ---- accounting
    def count(self, key, n=1):
        self.distribution[key] = self.distribution.get(key, 0) + n

    def sample(self, s, cap=6):
        if len(self.samples) < cap:
            self.samples.append(s)

    def record_source(self, relpath, start=None, end=None):
        text = open(os.path.join(REPO, relpath)).read()
        if start is not None:
            text = '\n'.join(text.split('\n')[start - 1:end])
        self.sources[f'{relpath}:{start}-{end}' if start else relpath] = sha(text)

    # ---- Coq side
    def forbidden_scan(self, dirs):
        for d in dirs:
            full = os.path.join(THEORIES, d)
            for dd, _, fs in os.walk(full):
                for f in fs:
                    if f.endswith('.v'):
                        txt = strip_coq_comments(open(os.path.join(dd, f)).read())
                        m = FORBIDDEN.search(txt)
                        self.obligations.append({'name': f'no-admit-no-axiom:{d}/{f}', 'ok': not m,
                                                 'detail': m.group(0) if m else ''})

    def prove(self, targets, properties, allowed_axioms=()):
        """Build targets (.v relative to coq/), then re-run coqc on the properties file and account
        for each Theorem and its Print Assumptions answer. Returns True if everything discharged."""
        ok = True
        try:
            coq_make(targets + [properties])
        except CoqError as e:
            ok = False
            self.obligations.append({'name': f'build:{e.file}:{e.lemma}', 'ok': False, 'detail': str(e)})
            self.broken = e
            return False
        rc, out = coqc_output(properties)
        src = strip_coq_comments(open(os.path.join(COQ, properties)).read())
        names = re.findall(r'^\s*(?:Theorem|Example)\s+([A-Za-z0-9_\']+)', src, re.M)
        printed = re.findall(r'Print Assumptions\s+([A-Za-z0-9_\']+)', src)
        blocks = parse_assumptions(out)
        if rc != 0 or len(blocks) != len(printed):
            self.obligations.append({'name': f'properties:{properties}', 'ok': False,
                                     'detail': out[-1500:]})
            return False
        amap = dict(zip(printed, blocks))
        for n in names:
            ax = amap.get(n)
            if ax is None:
                # Examples (non-vacuity) are not followed by Print Assumptions
                self.obligations.append({'name': n, 'ok': True, 'detail': 'compiled'})
                continue
            bad = [a for a in ax if not a.startswith(ALLOWED_ASSUMPTION_PREFIXES)
                   and not any(a.startswith(x) for x in allowed_axioms)]
            self.assumptions_seen[n] = ax
            self.obligations.append({'name': n, 'ok': not bad,
                                     'detail': 'closed' if not ax else 'assumes: ' + '; '.join(ax)})
            ok = ok and not bad
        return ok

    # ---- deviations
    def violation(self, kind, case, detail, no_input=False):
        self.violations.append({'kind': kind, 'case': case, 'detail': detail, 'no_failing_input': no_input})

    def known(self, fid, example):
        if fid not in self.known_ids:
            raise KeyError(fid)
        self.known_hits.setdefault(fid, example)

    # ---- end of run
    def finish(self, level='proof', extra_cov=None, assumptions=()):
        os.makedirs(os.path.join(VERIF, 'evidence'), exist_ok=True)
        os.makedirs(os.path.join(VERIF, 'replay'), exist_ok=True)
        nobl = len(self.obligations)
        ndis = sum(1 for o in self.obligations if o['ok'])
        # a broken obligation with no concrete failing input is still a violation
        broken = [o for o in self.obligations if not o['ok']]
        have_input = any(not v['no_failing_input'] for v in self.violations)
        if broken and not have_input:
            self.violations.append({'kind': 'broken-obligation', 'case': None,
                                    'detail': broken, 'no_failing_input': True})
        lines = []
        for f in self.findings:
            if f['status'] == 'known':
                if f['id'] in self.known_hits:
                    lines.append(f"KNOWN-FINDING: property={self.pid} {f['id']}: {f['summary']} "
                                 f"[reproduced: {json.dumps(self.known_hits[f['id']], default=str)[:200]}]")
                else:
                    lines.append(f"KNOWN-FINDING: property={self.pid} {f['id']}: {f['summary']} [not reproduced in this run]")
        rc = 0
        shown = 0
        import glob
        for old in glob.glob(os.path.join(VERIF, 'replay', f'{self.pid}-*.json')):
            os.remove(old)
        # concrete failing inputs first; at most 5 replay files per run
        ordered = sorted(self.violations, key=lambda v: v['no_failing_input'])
        for i, v in enumerate(ordered[:5]):
            path = os.path.join(VERIF, 'replay', f'{self.pid}-{self.seed}-{i}.json')
            with open(path, 'w') as fo:
                json.dump({'property': self.pid, 'seed': self.seed, 'tier': self.tier, **v}, fo, indent=1, default=str)
            suffix = ' no-failing-input-found' if v['no_failing_input'] else ''
            lines.append(f'VIOLATION property={self.pid} replay={path}{suffix}')
        if self.violations:
            rc = 1
        cov = {
            'obligations': nobl, 'discharged': ndis,
            'checker_cmd': f'make -C {COQ} (coq_makefile, full .vo build) + coqc Properties.v with Print Assumptions; bin/check {self.pid}',
            'trusted_base': self.trusted,
            'evaluations': self.evaluations,
            'distinct_nontrivial': len(self.nontrivial),
            'rule': self.rule,
            'samples': self.samples or ['(none)'],
            'exhaustive': self.exhaustive,
            'obligation_list': self.obligations,
            'print_assumptions': self.assumptions_seen,
            'input_distribution': self.distribution,
            'known_findings_reproduced': sorted(self.known_hits),
            'source_fragments_sha256': self.sources,
            'notes': self.notes,
        }
        if extra_cov:
            cov.update(extra_cov)
        ev = {'property_id': self.pid, 'tier': self.tier, 'seed': self.seed, 'level': level,
              'coverage': cov, 'assumptions': list(assumptions), 'wall_s': round(time.time() - self.t0, 2),
              'violations': len(self.violations)}
        with open(os.path.join(VERIF, 'evidence', f'{self.pid}.json'), 'w') as fo:
            json.dump(ev, fo, indent=1, default=str)
        for ln in lines:
            print(ln)
        print(f'{self.pid} {self.tier}: obligations {ndis}/{nobl}, evaluations {self.evaluations}, '
              f'distinct non-trivial {len(self.nontrivial)}, violations {len(self.violations)}, '
              f'{time.time() - self.t0:.1f}s')
        return rc
