"""Source-shape facts (T-data) for hand-written models: the statements of /repo that a model mirrors are looked up in
the AST of the named function on every run and emitted as booleans into coq/theories/Gen/CnnShape.v; the property file
proves `shape_ok = true` by reflexivity, so a change of the mirrored statements breaks a proof obligation even before the
correspondence runs.  A fact is (name, file, function (Class.method or function), kind, snippet):
  kind 'has'     the normalised text of the function contains the normalised snippet
  kind 'lacks'   it does not
  kind 'order'   snippet is 'A ;; B': A occurs and B occurs after it
"""
import ast
import os

import core

FACTS = {
    'C05': [
        ('for_copies_context', 'elementpath/xpath2/_xpath2_operators.py', 'select__for_expression', 'order', 'context = copy(context) ;; context.variables = context.variables.copy()'),
        ('for_product_on_shared_dict', 'elementpath/xpath2/_xpath2_operators.py', 'select__for_expression', 'has', 'copy(context).iter_product(selectors, varnames)'),
        ('for_updates_then_body_on_copy', 'elementpath/xpath2/_xpath2_operators.py', 'select__for_expression', 'order', 'context.variables.update( ;; self[-1].select(copy(context))'),
        ('quantified_copies_dict', 'elementpath/xpath2/_xpath2_operators.py', 'evaluate__quantified_expressions', 'order', 'context = copy(context) ;; context.variables = context.variables.copy()'),
        ('let_copies_dict', 'elementpath/xpath30/_xpath30_operators.py', 'select__let_expression', 'order', 'context.variables = context.variables.copy() ;; context.variables[varname] = value'),
        ('let_value_in_new_scope', 'elementpath/xpath30/_xpath30_operators.py', 'select__let_expression', 'has', 'value = self[k + 1].evaluate(context)'),
        ('iter_product_writes_variable', 'elementpath/xpath_context.py', 'XPathContext.iter_product', 'has', 'self.variables[varnames[k]] = value'),
        ('iter_product_recreates_iterator', 'elementpath/xpath_context.py', 'XPathContext.iter_product', 'order', 'iterators[k] = start(k) ;; k -= 1'),
        ('iter_product_lazy_iterators', 'elementpath/xpath_context.py', 'XPathContext.iter_product', 'has', 'iterators = [start(k) for k in range(len(selectors))]'),
        ('iter_product_range_sees_a_snapshot', 'elementpath/xpath_context.py', 'XPathContext.iter_product', 'order', 'def start(index: int) -> Iterator[Any]: ;; context = copy(self) ;; context.variables = self.variables.copy() ;; yield from selectors[index](context)'),
        ('context_copy_shares_variables', 'elementpath/xpath_context.py', 'XPathContext.__copy__', 'has', 'obj.variables = self.variables'),
        ('inline_call_scope', 'elementpath/xpath30/_xpath30_functions.py', '_InlineFunction.__call__', 'order', 'context = copy(context) ;; context.variables = context.variables.copy()'),
        ('timezone_on_copies', 'elementpath/xpath_tokens/base.py', 'XPathToken.get_operands', 'order', 'op1 = copy(op1) ;; op1.tzinfo = context.timezone'),
    ],
    'C16': [
        ('closure_is_a_copy', 'elementpath/xpath30/_xpath30_functions.py', '_InlineFunction.evaluate', 'order', 'func = copy(self) ;; func.variables = context.variables.copy() ;; return func'),
        ('closure_not_on_token', 'elementpath/xpath30/_xpath30_functions.py', '_InlineFunction.evaluate', 'lacks', 'self.variables = context.variables.copy()'),
        ('call_overlays_closure', 'elementpath/xpath30/_xpath30_functions.py', '_InlineFunction.__call__', 'has', 'context.variables.update(self.variables)'),
        ('fold_left_loop', 'elementpath/xpath30/_xpath30_functions.py', 'select__fold_left', 'order', 'result = zero ;; for item in self[0].select(context): ;; result = func(result, item, context=context)'),
        ('fold_right_loop', 'elementpath/xpath30/_xpath30_functions.py', 'select__fold_right', 'order', 'for item in reversed(sequence): ;; result = func(item, result, context=context)'),
        ('for_each_pair_zip', 'elementpath/xpath30/_xpath30_functions.py', 'select__for_each_pair', 'has', 'zip(self[0].select(context), self[1].select(context))'),
        ('filter_loop', 'elementpath/xpath30/_xpath30_functions.py', 'select__filter', 'order', 'cond = func(item, context=context) ;; if cond: ;; yield item'),
        ('partial_fixed_arguments_evaluated', 'elementpath/xpath_tokens/functions.py', 'XPathFunction.bind_partial_function', 'has', 'ValueToken(self.parser, value=tk.evaluate(context))'),
        ('partial_is_a_copy_with_own_items', 'elementpath/xpath_tokens/functions.py', 'XPathFunction.bind_partial_function', 'order', 'func = copy(self) ;; func._items = [ ;; func.to_partial_function() ;; return func'),
        ('partial_fills_placeholders', 'elementpath/xpath_tokens/functions.py', 'XPathFunction.bind_partial_function', 'order', "if self.label in ('partial function', 'inline partial function') and tokens is not self._items: ;; args = iter(tokens)"),
        ('dynamic_partial_binds', 'elementpath/xpath30/_xpath30_operators.py', 'evaluate__parenthesized_expression', 'has', 'return func.bind_partial_function(tokens, context)'),
        ('sort_default_key_is_data', 'elementpath/xpath31/_xpath31_functions.py', 'evaluate__sort', 'order', 'items = [x for x in self[0].select(context)] ;; keys = [key_function([v for v in self.atomize_item(x)]) for x in items] ;; return xlist((items[k] for k in sorted(range(len(items)), key=keys.__getitem__)))'),
        ('sort_is_sorted_with_key', 'elementpath/xpath31/_xpath31_functions.py', 'evaluate__sort', 'has', 'sorted(self[0].select(context), key=key_function)'),
    ],
    'C12': [
        ('class_membership', 'elementpath/regex/character_classes.py', 'CharacterClass.__contains__', 'has', 'return item not in self.negative or item in self.positive'),
        ('complement_both_parts', 'elementpath/regex/character_classes.py', 'CharacterClass.complement', 'order', 'if self.positive and self.negative: ;; self.negative -= self.positive'),
        ('complement_swap', 'elementpath/regex/character_classes.py', 'CharacterClass.complement', 'has', 'self.positive, self.negative = (self.negative, self.positive)'),
        ('negated_escapes_intersect', 'elementpath/regex/character_classes.py', 'CharacterClass._add_negative', 'order', 'if not self.negative: ;; self.negative |= subset ;; self.negative -= self.negative - subset'),
        ('negated_escapes_empty_is_everything', 'elementpath/regex/character_classes.py', 'CharacterClass._add_negative', 'has', 'self.positive = UnicodeSubset([(0, maxunicode + 1)])'),
        ('subtraction_both_negated', 'elementpath/regex/character_classes.py', 'CharacterClass.__isub__', 'order', 'self.positive -= self.positive - other.negative ;; self.positive |= other.negative - self.negative ;; self.negative.clear()'),
        ('subtraction_negated_base', 'elementpath/regex/character_classes.py', 'CharacterClass.__isub__', 'has', 'self.negative |= other.positive'),
        ('subtraction_final_positive', 'elementpath/regex/character_classes.py', 'CharacterClass.__isub__', 'has', 'self.positive -= other.positive'),
        ('parse_negated_class', 'elementpath/regex/patterns.py', 'translate_pattern', 'order', 'char_class = CharacterClass(char_class_pattern, xsd_version, bool(flags & re.IGNORECASE)) ;; if negative: ;; char_class.complement()'),
        ('class_case_sensitive_under_i', 'elementpath/regex/patterns.py', 'translate_pattern', 'order', "elif flags & re.IGNORECASE: ;; regex.append('(?-i:%s)' % char_class_repr)"),
        ('literals_get_case_variants', 'elementpath/regex/character_classes.py', 'CharacterClass.add', 'order', 'self.positive.update(part) ;; if self.ignore_case and part: ;; self._add_case_variants(UnicodeSubset(part))'),
        ('case_variants_added_to_positive', 'elementpath/regex/character_classes.py', 'CharacterClass._add_case_variants', 'order', 'extra.update(sorted(variants)) ;; self.positive |= extra'),
        ('case_variants_by_lower_or_upper', 'elementpath/regex/character_classes.py', 'get_case_variants', 'has', 'variants = set(by_lower[lower]) | set(by_upper[upper])'),
        ('parse_subtraction', 'elementpath/regex/patterns.py', 'translate_pattern', 'has', 'char_class -= subtracted_class'),
    ],
    'C18': [
        ('restriction_exactly_one', 'elementpath/sequence_types.py', 'is_sequence_type_restriction', 'order', "if st1[-1] not in '?+*': ;; if st2[-1] in '?+*': ;; return False"),
        ('restriction_empty_sequence', 'elementpath/sequence_types.py', 'is_sequence_type_restriction', 'order', "elif st2 in ('empty-sequence()', 'none'): ;; return st1 in ('empty-sequence()', 'none') or st1.endswith(('?', '*'))"),
        ('restriction_star', 'elementpath/sequence_types.py', 'is_sequence_type_restriction', 'order', "elif st1[-1] == '*': ;; if st2[-1] in '?+': ;; return False"),
        ('restriction_same_name_first', 'elementpath/sequence_types.py', 'is_sequence_type_restriction', 'order', "if st1 == st2: ;; return True ;; return issubclass(builtin_atomic_types[st2], builtin_atomic_types[st1])"),
        ('instance_by_isinstance', 'elementpath/sequence_types.py', 'is_instance', 'has', 'return isinstance(obj, builtin_atomic_types[type_qname])'),
    ],
    'C11': [
        ('implicit_timezone_on_copies', 'elementpath/xpath_tokens/base.py', 'XPathToken.with_implicit_timezone', 'order', 'value = copy(value) ;; value.tzinfo = context.timezone ;; return value'),
        ('value_comparison_uses_implicit_timezone', 'elementpath/xpath2/_xpath2_operators.py', 'evaluate__value_comparison_operators', 'order', 'operands = [self.with_implicit_timezone(x, context) for x in operands] ;; return cast(bool, getattr(operator, self.symbol)(*operands))'),
        ('general_comparison_uses_implicit_timezone', 'elementpath/xpath_tokens/base.py', 'XPathToken.iter_comparison_data', 'has', 'yield (self.with_implicit_timezone(op1, context), self.with_implicit_timezone(op2, context))'),
        ('minus_uses_implicit_timezone', 'elementpath/xpath_tokens/base.py', 'XPathToken.get_operands', 'order', 'if op1.tzinfo is None: ;; op1 = copy(op1) ;; op1.tzinfo = context.timezone ;; if op2.tzinfo is None: ;; op2 = copy(op2) ;; op2.tzinfo = context.timezone'),
        ('compare_same_tzinfo_fields', 'elementpath/datatypes/datetime.py', 'AbstractDateTime._compare', 'order', 'elif self._dt.tzinfo is dt.tzinfo: ;; return op(self._dt, dt) ;; elif self.tzinfo is None: ;; return op(self._dt.replace(tzinfo=_UTC_TIMEZONE), dt)'),
        ('compare_out_of_range_years_as_instants', 'elementpath/datatypes/datetime.py', 'AbstractDateTime._compare', 'order', 'if self._year != year and (not (1 <= self._year <= 9999 and 1 <= year <= 9999)): ;; if isinstance(other, AbstractDateTime): ;; return op(self.todelta(), other.todelta())'),
        ('min_max_use_implicit_timezone', 'elementpath/xpath2/_xpath2_functions.py', 'evaluate__max_min_functions', 'has', 'return aggregate_func(values, key=lambda x: self.with_implicit_timezone(x, context))'),
        ('adjust_moves_by_offset_difference', 'elementpath/xpath_tokens/base.py', 'XPathToken.adjust_datetime', 'order', 'if isinstance(_tzinfo, Timezone) and isinstance(timezone, Timezone): ;; _item += timezone.offset - _tzinfo.offset ;; _item.tzinfo = timezone'),
        ('datetime_components_are_fields', 'elementpath/xpath2/_xpath2_functions.py', 'evaluate__from_datetime_functions', 'order', "if item.year > 0 or item.xsd_versions == '1.0': ;; return item.year ;; return item.year + 1 ;; return item.month ;; return item.day ;; return item.hour ;; return item.minute"),
        ('seconds_from_datetime_scaled', 'elementpath/xpath2/_xpath2_functions.py', 'evaluate__from_datetime_functions', 'order', "elif item.microsecond: ;; return item.second + item.microsecond / Decimal('1000000.0') ;; else: ;; return item.second"),
        ('seconds_from_datetime_no_concatenation', 'elementpath/xpath2/_xpath2_functions.py', 'evaluate__from_datetime_functions', 'lacks', '.format(item.second, item.microsecond)'),
        ('seconds_from_time_scaled', 'elementpath/xpath2/_xpath2_functions.py', 'evaluate__seconds_from_time', 'has', "return item.second + item.microsecond / Decimal('1000000.0')"),
        ('date_components_are_fields', 'elementpath/xpath2/_xpath2_functions.py', 'evaluate__from_date_functions', 'order', "if item.year > 0 or item.xsd_versions == '1.0': ;; return item.year ;; return item.year + 1 ;; return item.month ;; return item.day"),
        ('timezone_from_date_without_datetime', 'elementpath/xpath2/_xpath2_functions.py', 'evaluate__from_date_functions', 'lacks', 'datetime.datetime('),
        ('timezone_from_date_offset', 'elementpath/xpath2/_xpath2_functions.py', 'evaluate__from_date_functions', 'has', 'offset = item.tzinfo.utcoffset(None)'),
    ],
    'C17': [
        ('serialize_without_tail', 'elementpath/serialization.py', 'serialize_to_xml', 'order', 'if elem.tail: ;; elem = copy(elem) ;; elem.tail = None'),
        ('serialize_no_rstrip_of_tail', 'elementpath/serialization.py', 'serialize_to_xml', 'lacks', '.rstrip(elem.tail)'),
        ('deep_equal_content_items', 'elementpath/compare.py', 'deep_equal', 'order', 'if elem.text: ;; yield elem.text ;; for child in elem: ;; if not callable(child.tag): ;; yield child ;; if child.tail: ;; yield child.tail'),
        ('deep_equal_text_exact', 'elementpath/compare.py', 'deep_equal', 'lacks', '.strip()'),
        ('json_escape_no_sequential_replace', 'elementpath/helpers.py', 'escape_json_string', 'lacks', '.replace('),
        ('json_escape_keeps_sequences', 'elementpath/helpers.py', 'escape_json_string', 'order', 'if len(chunk) == 2: ;; return chunk'),
    ],
    'C20': [
        ('cache_keyed_by_content_identity', 'elementpath/xpath_nodes.py', 'EtreeElementNode.apply_schema', 'has', 'element_match_cache[id(content)]'),
        ('cache_filled_on_match', 'elementpath/xpath_nodes.py', 'EtreeElementNode.apply_schema', 'has', 'sub_cache[node.name] = xsd_element'),
        ('lookup_through_content_model', 'elementpath/xpath_nodes.py', 'EtreeElementNode.apply_schema', 'order', 'for xsd_element in content.iter_elements(): ;; if xsd_element.is_matching(node.name):'),
        ('undeclared_subtree_cleared', 'elementpath/xpath_nodes.py', 'EtreeElementNode.apply_schema', 'order', 'if xsd_type is None: ;; node.clear_types()'),
        ('children_walked_with_child_type', 'elementpath/xpath_nodes.py', 'EtreeElementNode.apply_schema', 'order', 'xsd_types.append(xsd_type) ;; iterators.append(children) ;; children = iter(node)'),
    ],
    'C13': [
        ('add_insert_before', 'elementpath/regex/unicode_subsets.py', 'UnicodeSubset.add', 'order', 'if end_cp < cp0: ;; code_points.insert(k, value) ;; elif start_cp > cp1: ;; continue ;; elif end_cp > cp1:'),
        ('add_extend_to_next', 'elementpath/regex/unicode_subsets.py', 'UnicodeSubset.add', 'order', 'if end_cp <= higher_bound: ;; code_points[k] = (min(cp0, start_cp), end_cp) ;; code_points[k] = (min(cp0, start_cp), higher_bound) ;; start_cp = higher_bound ;; continue'),
        ('add_extend_left', 'elementpath/regex/unicode_subsets.py', 'UnicodeSubset.add', 'order', 'elif start_cp < cp0: ;; code_points[k] = (start_cp, cp1) ;; break ;; self._codepoints.append(value)'),
        ('add_last_item', 'elementpath/regex/unicode_subsets.py', 'UnicodeSubset.add', 'order', 'if k == last_index: ;; code_points[k] = (min(cp0, start_cp), end_cp)'),
        ('discard_from_the_end', 'elementpath/regex/unicode_subsets.py', 'UnicodeSubset.discard', 'order', 'for k in reversed(range(len(codepoints))): ;; if start_cp >= cp1: ;; break'),
        ('discard_tail', 'elementpath/regex/unicode_subsets.py', 'UnicodeSubset.discard', 'order', 'elif end_cp >= cp1: ;; if start_cp <= cp0: ;; del codepoints[k] ;; elif start_cp - cp0 > 1: ;; codepoints[k] = (cp0, start_cp) ;; codepoints[k] = cp0'),
        ('discard_head_or_middle', 'elementpath/regex/unicode_subsets.py', 'UnicodeSubset.discard', 'order', 'elif end_cp > cp0: ;; if start_cp <= cp0: ;; codepoints[k] = (end_cp, cp1) ;; codepoints[k] = cp1 - 1 ;; codepoints.insert(k + 1, (end_cp, cp1)) ;; codepoints.insert(k + 1, cp1 - 1)'),
    ],
    'C19': [
        ('enter_acquires_then_saves', 'elementpath/collations.py', 'CollationManager.__enter__', 'order', '_locale_collate_lock.acquire() ;; self._current_lc_collate = locale.getlocale(locale.LC_COLLATE) ;; locale.setlocale(locale.LC_COLLATE, self.lc_collate)'),
        ('enter_fallback', 'elementpath/collations.py', 'CollationManager.__enter__', 'order', "except locale.Error: ;; if not self.fallback: ;; raise ;; locale.setlocale(locale.LC_COLLATE, 'en_US.UTF-8')"),
        ('enter_failure_releases', 'elementpath/collations.py', 'CollationManager.__enter__', 'order', 'except locale.Error: ;; self._current_lc_collate = None ;; _locale_collate_lock.release() ;; raise xpath_error('),
        ('exit_restores_and_releases', 'elementpath/collations.py', 'CollationManager.__exit__', 'order', 'if self._current_lc_collate is not None: ;; locale.setlocale(locale.LC_COLLATE, self._current_lc_collate) ;; self._current_lc_collate = None ;; _locale_collate_lock.release()'),
    ],
    'C01': [
        ('following_context_kinds', 'elementpath/xpath_context.py', 'XPathContext.iter_followings', 'has', 'if isinstance(self.item, (ElementNode, TextNode, CommentNode, ProcessingInstructionNode)):'),
        ('following_climbs_to_the_top', 'elementpath/xpath_context.py', 'XPathContext.iter_followings', 'order', 'while root.parent is not None and root is not self.root: ;; root = root.parent'),
        ('following_skips_own_subtree', 'elementpath/xpath_context.py', 'XPathContext.iter_followings', 'order', 'descendants = set(self.item.iter_descendants()) ;; position = self.item.position ;; if position < item.position and item not in descendants:'),
        ('preceding_from_owner_element', 'elementpath/xpath_context.py', 'XPathContext.iter_preceding', 'order', 'if isinstance(item, (AttributeNode, NamespaceNode)) and item.parent is not None: ;; item = item.parent'),
        ('preceding_skips_ancestors', 'elementpath/xpath_context.py', 'XPathContext.iter_preceding', 'order', 'for self.item in root.iter_descendants(): ;; if self.item is item: ;; break ;; if self.item not in ancestors: ;; yield self.item'),
        ('no_siblings_for_attributes', 'elementpath/xpath_context.py', 'XPathContext.iter_siblings', 'has', 'if item.parent is not None and (not isinstance(item, (AttributeNode, NamespaceNode))):'),
        ('reverse_axis_positions', 'elementpath/xpath_tokens/axes.py', 'XPathAxis.select_with_focus', 'order', 'if self.reverse_axis: ;; context.size = context.position = len(results) ;; for context.item in results: ;; yield context.item ;; context.position -= 1'),
    ],
    'C15': [
        ('same_key_strings_both_ways', 'elementpath/compare.py', 'same_key', 'order', 'if isinstance(k1, (str, AnyURI, UntypedAtomic)): ;; if not isinstance(k2, (str, AnyURI, UntypedAtomic)): ;; return False ;; return str(k1) == str(k2) ;; elif isinstance(k2, (str, AnyURI, UntypedAtomic)): ;; return False'),
        ('same_key_nan', 'elementpath/compare.py', 'same_key', 'order', 'elif isinstance(k1, float) and math.isnan(k1): ;; return isinstance(k2, float) and math.isnan(k2)'),
        ('same_key_qname', 'elementpath/compare.py', 'same_key', 'order', 'elif isinstance(k1, AbstractQName) ^ isinstance(k2, AbstractQName): ;; return False'),
        ('same_key_boolean', 'elementpath/compare.py', 'same_key', 'order', 'elif isinstance(k1, bool) ^ isinstance(k2, bool): ;; return False'),
        ('same_key_binary_types', 'elementpath/compare.py', 'same_key', 'order', 'elif isinstance(k1, AbstractBinary) and isinstance(k2, AbstractBinary) and (type(k1) is not type(k2)): ;; return False'),
        ('same_key_timezone', 'elementpath/compare.py', 'same_key', 'order', 'elif isinstance(k1, AbstractDateTime) and isinstance(k2, AbstractDateTime) and (k1.tzinfo is None) ^ (k2.tzinfo is None): ;; return False'),
        ('same_key_python_eq_last', 'elementpath/compare.py', 'same_key', 'order', 'try: ;; return True if k1 == k2 else False ;; except TypeError: ;; return False'),
        ('datetime_eq_same_type', 'elementpath/datatypes/datetime.py', 'AbstractDateTime._compare', 'order', 'if op is operator.eq and (not isinstance(other, type(self))) and (not isinstance(self, type(other))): ;; return False'),
        ('put_by_same_key', 'elementpath/xpath31/_xpath31_functions.py', 'evaluate__map_put', 'order', 'items = [(k, v) for k, v in map_.items(context) if not same_key(k, key)] ;; items.append((key, value))'),
        ('find_by_same_key', 'elementpath/xpath31/_xpath31_functions.py', 'evaluate__map_find', 'has', 'if same_key(k, key):'),
        ('merge_boolean_keys', 'elementpath/xpath31/_xpath31_functions.py', 'evaluate__map_merge', 'order', 'if isinstance(k1, bool): ;; k1 = BOOLEAN_KEYS[k1]'),
        ('map_boolean_keys_constructor', 'elementpath/xpath_tokens/maps.py', 'XPathMap._evaluate', 'order', 'elif isinstance(k, bool): ;; k = BOOLEAN_KEYS[k] ;; if k in _map:'),
        ('map_boolean_keys_items', 'elementpath/xpath_tokens/maps.py', 'XPathMap.__init__', 'order', 'elif isinstance(k, bool): ;; k = BOOLEAN_KEYS[k] ;; if k in _map:'),
        ('map_boolean_keys_lookup', 'elementpath/xpath_tokens/maps.py', 'XPathMap.__call__', 'order', 'elif isinstance(key, bool): ;; return _map[BOOLEAN_KEYS[key]]'),
        ('remove_by_same_key', 'elementpath/xpath31/_xpath31_functions.py', 'evaluate__map_remove', 'has', 'if not any((same_key(k, x) for x in keys))'),
        ('contains_by_same_key', 'elementpath/xpath31/_xpath31_functions.py', 'evaluate__map_contains', 'has', 'return any((same_key(k, key) for k in map_.keys(context)))'),
        ('merge_combine_concatenates', 'elementpath/xpath31/_xpath31_functions.py', 'evaluate__map_merge', 'has', '*(v if isinstance(v, list) else [v])]'),
        ('merge_use_last_moves_to_end', 'elementpath/xpath31/_xpath31_functions.py', 'evaluate__map_merge', 'order', "elif duplicates == 'use-last': ;; items.pop(k1) ;; items[k1] = v"),
        ('merge_reject', 'elementpath/xpath31/_xpath31_functions.py', 'evaluate__map_merge', 'order', "elif duplicates == 'reject': ;; raise self.error('FOJS0003')"),
    ],
    'C07': [
        ('vc_g_types_unordered', 'elementpath/xpath2/_xpath2_operators.py', 'evaluate__value_comparison_operators', 'order', "if self.symbol not in ('eq', 'ne') and any((isinstance(x, AbstractDateTime) and x.name.startswith('g') for x in operands)): ;; raise self.error('XPTY0004', msg)"),
        ('vc_same_class', 'elementpath/xpath2/_xpath2_operators.py', 'evaluate__value_comparison_operators', 'order', 'elif cls0 is cls1 and cls0 is not Duration: ;; pass ;; elif all((isinstance(x, float) for x in operands)): ;; pass ;; elif any((isinstance(x, bool) for x in operands)):'),
        ('vc_numeric_and_strings', 'elementpath/xpath2/_xpath2_operators.py', 'evaluate__value_comparison_operators', 'order', 'elif all((isinstance(x, (int, Decimal)) for x in operands)): ;; pass ;; elif all((isinstance(x, (str, UntypedAtomic, AnyURI)) for x in operands)): ;; pass ;; elif all((isinstance(x, (float, Decimal, int)) for x in operands)):'),
        ('vc_no_string_vs_qname', 'elementpath/xpath2/_xpath2_operators.py', 'evaluate__value_comparison_operators', 'lacks', '(str, UntypedAtomic, QName)'),
        ('vc_durations_and_subclasses', 'elementpath/xpath2/_xpath2_operators.py', 'evaluate__value_comparison_operators', 'order', "elif all((isinstance(x, Duration) for x in operands)) and self.symbol in ('eq', 'ne'): ;; pass ;; elif (issubclass(cls0, cls1) or issubclass(cls1, cls0)) and (not issubclass(cls0, Duration)): ;; pass ;; else:"),
        ('vc_exact_on_doubles', 'elementpath/xpath2/_xpath2_operators.py', 'evaluate__value_comparison_operators', 'lacks', 'numeric_equal'),
        ('vc_type_error_is_xpty0004', 'elementpath/xpath2/_xpath2_operators.py', 'evaluate__value_comparison_operators', 'order', "return cast(bool, getattr(operator, self.symbol)(*operands)) ;; except TypeError as err: ;; raise self.error('XPTY0004', err)"),
        ('gc_untyped_rules', 'elementpath/xpath_tokens/base.py', 'XPathToken.iter_comparison_data', 'order', 'if isinstance(op1, UntypedAtomic): ;; if isinstance(op2, UntypedAtomic): ;; yield (op1.value, op2.value) ;; elif not self.is_comparable(op2, op2, ordering): ;; raise TypeError ;; elif isinstance(op2, UntypedAtomic): ;; if not self.is_comparable(op1, op1, ordering): ;; elif not self.is_comparable(op1, op2, ordering): ;; raise TypeError'),
        ('gc_comparable_bool_numeric_string', 'elementpath/xpath_tokens/base.py', 'XPathToken.is_comparable', 'order', 'if isinstance(op1, bool) or isinstance(op2, bool): ;; return isinstance(op1, bool) and isinstance(op2, bool) ;; elif isinstance(op1, (int, float, decimal.Decimal)): ;; return isinstance(op2, (int, float, decimal.Decimal)) ;; elif isinstance(op1, (str, AnyURI)): ;; return isinstance(op2, (str, AnyURI))'),
        ('gc_comparable_qname_datetime', 'elementpath/xpath_tokens/base.py', 'XPathToken.is_comparable', 'order', "elif isinstance(op1, AbstractQName): ;; return isinstance(op2, AbstractQName) and (not ordering) ;; elif isinstance(op1, AbstractDateTime): ;; if not isinstance(op1, type(op2)) and (not isinstance(op2, type(op1))): ;; return False ;; return not ordering or not op1.name.startswith('g')"),
        ('gc_comparable_durations_rest', 'elementpath/xpath_tokens/base.py', 'XPathToken.is_comparable', 'order', 'elif isinstance(op1, Duration): ;; if not isinstance(op2, Duration): ;; return False ;; return not ordering or (type(op1) is type(op2) and type(op1) is not Duration) ;; return type(op1) is type(op2)'),
        ('gc_type_error_is_xpty0004', 'elementpath/xpath1/_xpath1_operators.py', 'evaluate__comparison_operators', 'order', "return any((op(x1, x2) for x1, x2 in self.iter_comparison_data(context))) ;; elif isinstance(err, TypeError): ;; raise self.error('XPTY0004', err)"),
        ('ebv_list', 'elementpath/xpath_tokens/base.py', 'XPathToken.boolean_value', 'order', "if not obj: ;; return False ;; elif isinstance(obj[0], XPathNode): ;; return True ;; elif len(obj) > 1: ;; raise self.error('FORG0006', message) ;; obj = obj[0]"),
        ('ebv_single', 'elementpath/xpath_tokens/base.py', 'XPathToken.boolean_value', 'order', "if isinstance(obj, (int, str, UntypedAtomic, AnyURI)): ;; return bool(obj) ;; elif isinstance(obj, (float, Decimal)): ;; return False if math.isnan(obj) else bool(obj) ;; elif obj is None: ;; return False ;; elif isinstance(obj, XPathNode): ;; return True ;; raise self.error('FORG0006', message)"),
    ],
    'C09': [
        ('normalize_space_xml_whitespace', 'elementpath/xpath1/_xpath1_functions.py', 'evaluate__normalize_space', 'has', "return ' '.join((x for x in re.split('[ \\t\\n\\r]+', arg) if x))"),
        ('normalize_space_no_unicode_split', 'elementpath/xpath1/_xpath1_functions.py', 'evaluate__normalize_space', 'lacks', '.split()'),
        ('translate_first_occurrence', 'elementpath/xpath1/_xpath1_functions.py', 'evaluate__translate', 'order', 'for k, char in enumerate(map_string): ;; if ord(char) not in table: ;; table[ord(char)] = trans_string[k] if k < len(trans_string) else None ;; return arg.translate(table)'),
        ('substring_start_rounded', 'elementpath/xpath1/_xpath1_functions.py', 'evaluate__substring', 'order', "if math.isnan(start) or start == math.inf: ;; return '' ;; start = int(round_number(start)) - 1"),
        ('substring_two_args', 'elementpath/xpath1/_xpath1_functions.py', 'evaluate__substring', 'order', 'if len(self) == 2: ;; return item[max(start, 0):]'),
        ('substring_length', 'elementpath/xpath1/_xpath1_functions.py', 'evaluate__substring', 'order', "if math.isnan(length) or length <= 0: ;; return '' ;; if math.isinf(length): ;; return item[max(start, 0):] ;; stop = start + int(round_number(length)) ;; return item[slice(max(start, 0), max(stop, 0))]"),
        ('substring_before_after', 'elementpath/xpath1/_xpath1_functions.py', 'evaluate__substring_before_or_after_functions', 'order', "index = arg1.find(arg2) ;; if index < 0: ;; return '' ;; return arg1[:index] ;; return arg1[index + len(arg2):]"),
        ('starts_with', 'elementpath/xpath1/_xpath1_functions.py', 'evaluate__starts_with', 'has', 'return arg1.startswith(arg2)'),
    ],
    'C10': [
        ('integer_checks_lexical', 'elementpath/datatypes/numeric.py', 'Integer.__new__', 'order', 'value = collapse_white_spaces(value) ;; if cls.pattern.match(value) is None:'),
        ('integer_lower_bound_inclusive', 'elementpath/datatypes/numeric.py', 'Integer.__init__', 'has', 'self < self._lower_bound'),
        ('integer_upper_bound_exclusive', 'elementpath/datatypes/numeric.py', 'Integer.__init__', 'has', 'self >= self._higher_bound'),
    ],
}


def find_function(tree, qual):
    parts = qual.split('.')
    nodes = [tree]
    for i, name in enumerate(parts):
        nxt = []
        for n in nodes:
            for c in ast.walk(n) if i == 0 else ast.iter_child_nodes(n):
                if isinstance(c, (ast.FunctionDef, ast.ClassDef)) and c.name == name:
                    nxt.append(c)
        nodes = nxt
        if not nodes:
            return None
    return nodes[0]


def norm(text):
    return ''.join(text.split())


def evaluate(pid):
    out = []
    cache = {}
    for name, rel, qual, kind, snippet in FACTS[pid]:
        path = os.path.join(core.REPO, rel)
        if path not in cache:
            cache[path] = ast.parse(open(path).read())
        fn = find_function(cache[path], qual)
        ok = False
        if fn is not None:
            text = norm(ast.unparse(fn))
            if kind == 'has':
                ok = norm(snippet) in text
            elif kind == 'lacks':
                ok = norm(snippet) not in text
            else:
                pos = 0
                ok = True
                for part in snippet.split(';;'):
                    k = text.find(norm(part), pos)
                    if k < 0:
                        ok = False
                        break
                    pos = k + len(norm(part))
        out.append((name, ok, f'{rel}::{qual} {kind} {snippet}'))
    return out


def generate(pid):
    facts = evaluate(pid)
    L = [f'(* GENERATED by harness/shape.py from the AST of /repo: the statements that the hand model of {pid} mirrors. Do not edit. *)',
         'From Coq Require Import Bool.']
    for name, ok, doc in facts:
        L.append('(* ' + doc.replace('(*', '( *').replace('*)', '* )').replace('"', "'") + ' *)')
        L.append(f'Definition {name} : bool := {"true" if ok else "false"}.')
    L.append('Definition shape_ok : bool :=\n  ' + ' && '.join(n for n, _, _ in facts) + '.')
    core.write_if_changed(os.path.join(core.GEN, f'{pid}Shape.v'), '\n'.join(L) + '\n')
    return {n: ok for n, ok, _ in facts}


if __name__ == '__main__':
    import sys
    core.setup_impl_path()
    for pid in (sys.argv[1:] or FACTS):
        print(pid, {k: v for k, v in evaluate(pid) and [(n, ok) for n, ok, _ in evaluate(pid)]})
