"""T-data for C15: source-shape facts of compare.same_key and the map functions that C15/Keys.v and C15/Model.v mirror."""
import shape


def generate():
    return shape.generate('C15')
