(* C09 - fn:encode-for-uri, fn:iri-to-uri, fn:escape-html-uri over code points.
   The code: urllib.parse.quote(value, safe=...) with the three `safe` strings of _xpath2_functions.py (T-data, Gen/C09UriSafe.v):
   a character is copied when it is in quote's always-safe set or in `safe`, otherwise every byte of its UTF-8 encoding is written
   as %HH with upper case digits.  The specification: the character classes of F&O 3.1 sections 6.1 - 6.3.  NO proofs here. *)
From Coq Require Import ZArith List Bool.
From EP Require Import Gen.C09UriSafe.
Import ListNotations.
Open Scope Z_scope.

Definition hexd (n : Z) : Z := if n <? 10 then 48 + n else 55 + n.
Definition pct (b : Z) : list Z := [37; hexd (b / 16); hexd (b mod 16)].
Definition utf8 (c : Z) : list Z :=
  if c <? 128 then [c]
  else if c <? 2048 then [192 + c / 64; 128 + c mod 64]
  else if c <? 65536 then [224 + c / 4096; 128 + (c / 64) mod 64; 128 + c mod 64]
  else [240 + c / 262144; 128 + (c / 4096) mod 64; 128 + (c / 64) mod 64; 128 + c mod 64].
Definition pct_char (c : Z) : list Z := flat_map pct (utf8 c).
Definition mem (c : Z) (l : list Z) : bool := existsb (Z.eqb c) l.

(* ---- the code: quote(s, safe) ---- *)
Definition quote_keeps (safe : list Z) (c : Z) : bool := mem c quote_always_safe || mem c safe.
Definition quote (safe s : list Z) : list Z := flat_map (fun c => if quote_keeps safe c then [c] else pct_char c) s.
Definition encode_for_uri_code := quote encode_for_uri_safe.
Definition iri_to_uri_code := quote iri_to_uri_safe.
Definition escape_html_uri_code := quote escape_html_uri_safe.

(* ---- the specification ---- *)
Definition alnum (c : Z) : bool := ((48 <=? c) && (c <=? 57)) || ((65 <=? c) && (c <=? 90)) || ((97 <=? c) && (c <=? 122)).
(* 6.1: everything is escaped except the unreserved characters A-Z a-z 0-9 - _ . ~ *)
Definition enc_kept (c : Z) : bool := alnum c || mem c [45; 95; 46; 126].
(* 6.2: escaped are the characters below 33 or above 126 and less-than, greater-than, quotation mark, braces, bar, backslash, circumflex, grave accent *)
Definition iri_kept (c : Z) : bool := (33 <=? c) && (c <=? 126) && negb (mem c [60; 62; 34; 123; 125; 124; 92; 94; 96]).
(* 6.3: escaped are the characters other than the printable ASCII characters 32 - 126 *)
Definition html_kept (c : Z) : bool := (32 <=? c) && (c <=? 126).
Definition escape_with (kept : Z -> bool) (s : list Z) : list Z := flat_map (fun c => if kept c then [c] else pct_char c) s.
Definition encode_for_uri := escape_with enc_kept.
Definition iri_to_uri := escape_with iri_kept.
Definition escape_html_uri := escape_with html_kept.

(* ---- reading a URI back: percent-decoding to bytes, UTF-8 decoding to code points ---- *)
Definition unhex (c : Z) : option Z :=
  if (48 <=? c) && (c <=? 57) then Some (c - 48) else if (65 <=? c) && (c <=? 70) then Some (c - 55)
  else if (97 <=? c) && (c <=? 102) then Some (c - 87) else None.
Fixpoint unpct (l : list Z) : option (list Z) :=
  match l with
  | [] => Some []
  | c :: r =>
    if c =? 37 then
      match r with
      | h :: r1 => match r1 with
                   | lo :: r2 => match unhex h, unhex lo, unpct r2 with
                                 | Some a, Some b, Some t => Some (16 * a + b :: t)
                                 | _, _, _ => None
                                 end
                   | [] => None
                   end
      | [] => None
      end
    else option_map (cons c) (unpct r)
  end.
Definition cont (b : Z) : option Z := if (128 <=? b) && (b <? 192) then Some (b - 128) else None.
Fixpoint utf8_decode (l : list Z) : option (list Z) :=
  match l with
  | [] => Some []
  | b0 :: r =>
    if b0 <? 128 then option_map (cons b0) (utf8_decode r)
    else if (192 <=? b0) && (b0 <? 224) then
      match r with
      | b1 :: r1 => match cont b1, utf8_decode r1 with Some x1, Some t => Some ((b0 - 192) * 64 + x1 :: t) | _, _ => None end
      | _ => None
      end
    else if (224 <=? b0) && (b0 <? 240) then
      match r with
      | b1 :: r1 => match r1 with
                    | b2 :: r2 => match cont b1, cont b2, utf8_decode r2 with
                                  | Some x1, Some x2, Some t => Some ((b0 - 224) * 4096 + x1 * 64 + x2 :: t) | _, _, _ => None end
                    | _ => None end
      | _ => None
      end
    else if (240 <=? b0) && (b0 <? 248) then
      match r with
      | b1 :: r1 => match r1 with
                    | b2 :: r2 => match r2 with
                                  | b3 :: r3 => match cont b1, cont b2, cont b3, utf8_decode r3 with
                                                | Some x1, Some x2, Some x3, Some t => Some ((b0 - 240) * 262144 + x1 * 4096 + x2 * 64 + x3 :: t)
                                                | _, _, _, _ => None end
                                  | _ => None end
                    | _ => None end
      | _ => None
      end
    else None
  end.
Definition uri_decode (l : list Z) : option (list Z) := match unpct l with Some bytes => utf8_decode bytes | None => None end.
Definition code_point (c : Z) : Prop := 0 <= c < 1114112.
