(* C09 - the HTML ASCII case-insensitive collation (F&O 3.1 5.3.5): strings are compared code point by code point after folding
   the ASCII letters A-Z onto a-z; no other character is folded (Unicode case folding is a different collation).  The code side:
   collations.py html_ascii_* functions.  NO proofs here. *)
From Coq Require Import ZArith List Bool.
From EP Require Import C06.Model C09.Model.
Import ListNotations.
Open Scope Z_scope.

Definition ascii_fold (c : Z) : Z := if (65 <=? c) && (c <=? 90) then c + 32 else c.
Definition fold_str (s : ustr) : ustr := map ascii_fold s.
Definition compare_ci (a b : ustr) : Z := compare_cp (fold_str a) (fold_str b).
Definition same_ci (a b : ustr) : bool := codepoint_equal (fold_str a) (fold_str b).
(* fn:contains / starts-with with the collation: on the folded strings *)
Definition contains_ci (s t : ustr) : bool := contains (fold_str s) (fold_str t).
Definition starts_with_ci (s t : ustr) : bool := starts_with (fold_str s) (fold_str t).
(* a casefold-like variant that also identifies two non-ASCII letters (what Python's str.casefold does, e.g. for the pair
   201 / 233): not this collation *)
Definition unicode_fold_example (c : Z) : Z := if c =? 201 then 233 else ascii_fold c.
Definition run_ci (a b : ustr) : list Z := [compare_ci a b; if same_ci a b then 1 else 0].
