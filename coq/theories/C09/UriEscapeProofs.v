From Coq Require Import ZArith List Bool Lia.
From EP Require Import Gen.C09UriSafe C09.UriEscape.
Import ListNotations.
Open Scope Z_scope.
Ltac Zify.zify_post_hook ::= Z.div_mod_to_equations.

Definition ascii_range : list Z := map Z.of_nat (seq 0 128).
Lemma ascii_all : forall (P : Z -> bool), forallb P ascii_range = true -> forall c, 0 <= c < 128 -> P c = true.
Proof.
  intros P H c Hc. rewrite forallb_forall in H. apply H. unfold ascii_range.
  rewrite <- (Z2Nat.id c) by lia. apply in_map. apply in_seq. lia.
Qed.
Lemma mem_out_of_range : forall l c, forallb (fun x => (0 <=? x) && (x <? 128)) l = true -> (c < 0 \/ 128 <= c) -> mem c l = false.
Proof.
  induction l as [|x l IH]; intros c H Hc; [reflexivity|]. cbn [forallb] in H. apply andb_prop in H as [Hx Hl].
  unfold mem in *. cbn [existsb]. rewrite (IH c Hl Hc), orb_false_r. apply Z.eqb_neq. lia.
Qed.

(* ---- the code decides the character classes of F&O ---- *)
Lemma keeps_spec : forall safe kept,
  forallb (fun x => (0 <=? x) && (x <? 128)) safe = true ->
  forallb (fun c => Bool.eqb (quote_keeps safe c) (kept c)) ascii_range = true ->
  (forall c, (c < 0 \/ 128 <= c) -> kept c = false) ->
  forall c, quote_keeps safe c = kept c.
Proof.
  intros safe kept Hs Ha Ho c. destruct (Z_lt_dec c 0) as [L|L]; [|destruct (Z_le_dec 128 c) as [G|G]].
  - unfold quote_keeps. rewrite !mem_out_of_range by (auto; reflexivity). rewrite Ho by lia. reflexivity.
  - unfold quote_keeps. rewrite !mem_out_of_range by (auto; reflexivity). rewrite Ho by lia. reflexivity.
  - apply eqb_prop. apply (ascii_all _ Ha). lia.
Qed.
Lemma enc_out : forall c, (c < 0 \/ 128 <= c) -> enc_kept c = false.
Proof. intros c H. unfold enc_kept, alnum, mem. cbn [existsb]. lia. Qed.
Lemma iri_out : forall c, (c < 0 \/ 128 <= c) -> iri_kept c = false.
Proof. intros c H. unfold iri_kept. lia. Qed.
Lemma html_out : forall c, (c < 0 \/ 128 <= c) -> html_kept c = false.
Proof. intros c H. unfold html_kept. lia. Qed.
Lemma enc_keeps : forall c, quote_keeps encode_for_uri_safe c = enc_kept c.
Proof. apply keeps_spec; [vm_compute; reflexivity|vm_compute; reflexivity|exact enc_out]. Qed.
Lemma iri_keeps : forall c, quote_keeps iri_to_uri_safe c = iri_kept c.
Proof. apply keeps_spec; [vm_compute; reflexivity|vm_compute; reflexivity|exact iri_out]. Qed.
Lemma html_keeps : forall c, quote_keeps escape_html_uri_safe c = html_kept c.
Proof. apply keeps_spec; [vm_compute; reflexivity|vm_compute; reflexivity|exact html_out]. Qed.

Lemma quote_spec : forall safe kept, (forall c, quote_keeps safe c = kept c) -> forall s, quote safe s = escape_with kept s.
Proof.
  intros safe kept H s. unfold quote, escape_with. induction s as [|c s IH]; [reflexivity|]. cbn [flat_map]. rewrite H, IH. reflexivity.
Qed.

(* ---- the classes are nested: what escape-html-uri escapes, iri-to-uri escapes; what iri-to-uri escapes, encode-for-uri escapes ---- *)
Lemma kept_nested : forall c, (enc_kept c = true -> iri_kept c = true) /\ (iri_kept c = true -> html_kept c = true).
Proof.
  intros c. destruct (Z_lt_dec c 0) as [L|L]; [|destruct (Z_le_dec 128 c) as [G|G]].
  - rewrite enc_out, iri_out by lia. split; discriminate.
  - rewrite enc_out, iri_out by lia. split; discriminate.
  - assert (A : (implb (enc_kept c) (iri_kept c) && implb (iri_kept c) (html_kept c)) = true).
    { apply (ascii_all (fun c => implb (enc_kept c) (iri_kept c) && implb (iri_kept c) (html_kept c))); [vm_compute; reflexivity|lia]. }
    apply andb_prop in A as [A1 A2]. split; intros H; rewrite H in *; cbn in *; assumption.
Qed.

(* ---- percent-encoding and UTF-8 are read back ---- *)
Lemma unhex_hexd : forall n, 0 <= n < 16 -> unhex (hexd n) = Some n.
Proof.
  intros n H. unfold hexd, unhex. destruct (n <? 10) eqn:E.
  - replace ((48 <=? 48 + n) && (48 + n <=? 57)) with true by lia. f_equal. lia.
  - replace ((48 <=? 55 + n) && (55 + n <=? 57)) with false by lia.
    replace ((65 <=? 55 + n) && (55 + n <=? 70)) with true by lia. f_equal. lia.
Qed.
Definition byte (b : Z) : Prop := 0 <= b < 256.
Lemma unpct_pct : forall b r, byte b -> unpct (pct b ++ r) = option_map (cons b) (unpct r).
Proof.
  intros b r H. unfold byte in H. unfold pct. cbn [app unpct]. change (37 =? 37) with true. cbv iota.
  assert (0 <= b / 16 < 16) by lia. assert (0 <= b mod 16 < 16) by lia.
  rewrite !unhex_hexd by assumption. destruct (unpct r); cbn [option_map]; [f_equal; f_equal; lia|reflexivity].
Qed.
Lemma unpct_bytes : forall bs r, Forall byte bs -> unpct (flat_map pct bs ++ r) = option_map (app bs) (unpct r).
Proof.
  induction bs as [|b bs IH]; intros r H; cbn [flat_map app].
  - destruct (unpct r); reflexivity.
  - inversion H as [|? ? Hb Hbs]; subst. rewrite <- app_assoc, unpct_pct by exact Hb. rewrite IH by exact Hbs.
    destruct (unpct r); reflexivity.
Qed.
Lemma utf8_bytes : forall c, code_point c -> Forall byte (utf8 c).
Proof.
  intros c H. unfold code_point in H. unfold utf8, byte.
  destruct (c <? 128) eqn:E1; [repeat constructor; lia|].
  destruct (c <? 2048) eqn:E2; [repeat constructor; lia|].
  destruct (c <? 65536) eqn:E3; repeat constructor; lia.
Qed.
Lemma utf8_decode_char : forall c r, code_point c -> utf8_decode (utf8 c ++ r) = option_map (cons c) (utf8_decode r).
Proof.
  intros c r H. unfold code_point in H. unfold utf8.
  destruct (c <? 128) eqn:E1.
  - cbn [app utf8_decode]. rewrite E1. reflexivity.
  - destruct (c <? 2048) eqn:E2.
    + cbn [app utf8_decode]. unfold cont.
      replace (192 + c / 64 <? 128) with false by lia.
      replace ((192 <=? 192 + c / 64) && (192 + c / 64 <? 224)) with true by lia.
      replace ((128 <=? 128 + c mod 64) && (128 + c mod 64 <? 192)) with true by lia.
      destruct (utf8_decode r); cbn [option_map]; [f_equal; f_equal; lia|reflexivity].
    + destruct (c <? 65536) eqn:E3.
      * cbn [app utf8_decode]. unfold cont.
        replace (224 + c / 4096 <? 128) with false by lia.
        replace ((192 <=? 224 + c / 4096) && (224 + c / 4096 <? 224)) with false by lia.
        replace ((224 <=? 224 + c / 4096) && (224 + c / 4096 <? 240)) with true by lia.
        replace ((128 <=? 128 + (c / 64) mod 64) && (128 + (c / 64) mod 64 <? 192)) with true by lia.
        replace ((128 <=? 128 + c mod 64) && (128 + c mod 64 <? 192)) with true by lia.
        destruct (utf8_decode r); cbn [option_map]; [f_equal; f_equal; lia|reflexivity].
      * cbn [app utf8_decode]. unfold cont.
        replace (240 + c / 262144 <? 128) with false by lia.
        replace ((192 <=? 240 + c / 262144) && (240 + c / 262144 <? 224)) with false by lia.
        replace ((224 <=? 240 + c / 262144) && (240 + c / 262144 <? 240)) with false by lia.
        replace ((240 <=? 240 + c / 262144) && (240 + c / 262144 <? 248)) with true by lia.
        replace ((128 <=? 128 + (c / 4096) mod 64) && (128 + (c / 4096) mod 64 <? 192)) with true by lia.
        replace ((128 <=? 128 + (c / 64) mod 64) && (128 + (c / 64) mod 64 <? 192)) with true by lia.
        replace ((128 <=? 128 + c mod 64) && (128 + c mod 64 <? 192)) with true by lia.
        destruct (utf8_decode r); cbn [option_map]; [f_equal; f_equal; lia|reflexivity].
Qed.
Lemma utf8_decode_all : forall s, Forall code_point s -> utf8_decode (flat_map utf8 s) = Some s.
Proof.
  induction s as [|c s IH]; intros H; [reflexivity|]. inversion H as [|? ? Hc Hs]; subst.
  cbn [flat_map]. rewrite utf8_decode_char by exact Hc. rewrite IH by exact Hs. reflexivity.
Qed.

(* a kept character of encode-for-uri is an ASCII character other than the percent sign *)
Lemma enc_kept_ascii : forall c, enc_kept c = true -> 0 <= c < 128 /\ c <> 37.
Proof.
  intros c H. destruct (Z_lt_dec c 0) as [L|L]; [rewrite enc_out in H by lia; discriminate|].
  destruct (Z_le_dec 128 c) as [G|G]; [rewrite enc_out in H by lia; discriminate|].
  split; [lia|]. intros ->. vm_compute in H. discriminate.
Qed.
Lemma unpct_keep : forall c r, c <> 37 -> unpct (c :: r) = option_map (cons c) (unpct r).
Proof. intros c r N. cbn [unpct]. replace (c =? 37) with false by lia. reflexivity. Qed.
Lemma encode_cons : forall c s, encode_for_uri (c :: s) = (if enc_kept c then [c] else pct_char c) ++ encode_for_uri s.
Proof. reflexivity. Qed.
Lemma unpct_encode : forall s, Forall code_point s -> unpct (encode_for_uri s) = Some (flat_map utf8 s).
Proof.
  induction s as [|c s IH]; intros H; [reflexivity|]. inversion H as [|? ? Hc Hs]; subst.
  rewrite encode_cons. cbn [flat_map]. destruct (enc_kept c) eqn:K.
  - destruct (enc_kept_ascii c K) as [R N]. change ([c] ++ encode_for_uri s) with (c :: encode_for_uri s).
    rewrite unpct_keep by exact N. rewrite IH by exact Hs. unfold utf8. replace (c <? 128) with true by lia. reflexivity.
  - unfold pct_char. rewrite unpct_bytes by (apply utf8_bytes; exact Hc). rewrite IH by exact Hs. reflexivity.
Qed.
Lemma encode_roundtrip : forall s, Forall code_point s -> uri_decode (encode_for_uri s) = Some s.
Proof. intros s H. unfold uri_decode. rewrite unpct_encode by exact H. apply utf8_decode_all. exact H. Qed.

(* ---- iri-to-uri and escape-html-uri are idempotent ---- *)
Lemma hexd_kept : forall n, 0 <= n < 16 -> iri_kept (hexd n) = true /\ html_kept (hexd n) = true.
Proof.
  intros n H. assert (A : forallb (fun n => iri_kept (hexd n) && html_kept (hexd n)) (map Z.of_nat (seq 0 16)) = true) by (vm_compute; reflexivity).
  rewrite forallb_forall in A. specialize (A n). rewrite andb_true_iff in A. apply A.
  rewrite <- (Z2Nat.id n) by lia. apply in_map. apply in_seq. lia.
Qed.
Lemma pct_char_kept : forall c, code_point c -> Forall (fun x => iri_kept x = true /\ html_kept x = true) (pct_char c).
Proof.
  intros c H. unfold pct_char. pose proof (utf8_bytes c H) as B. induction B as [|b bs Hb Hbs IH]; cbn [flat_map]; [constructor|].
  unfold byte in Hb. unfold pct. cbn [app]. constructor; [split; reflexivity|].
  constructor; [apply hexd_kept; lia|]. constructor; [apply hexd_kept; lia|]. exact IH.
Qed.
Lemma escape_kept_id : forall kept t, Forall (fun x => kept x = true) t -> escape_with kept t = t.
Proof.
  intros kept t H. unfold escape_with. induction H as [|x t Hx Ht IH]; [reflexivity|]. cbn [flat_map]. rewrite Hx, IH. reflexivity.
Qed.
Lemma escape_output_kept : forall kept (sel : forall x, iri_kept x = true /\ html_kept x = true -> kept x = true) s,
  Forall code_point s -> Forall (fun x => kept x = true) (escape_with kept s).
Proof.
  intros kept sel s H. unfold escape_with. induction H as [|c s Hc Hs IH]; cbn [flat_map]; [constructor|].
  apply Forall_app. split; [|exact IH]. destruct (kept c) eqn:K; [repeat constructor; exact K|].
  eapply Forall_impl; [|apply pct_char_kept; exact Hc]. exact sel.
Qed.
Lemma iri_idempotent : forall s, Forall code_point s -> iri_to_uri (iri_to_uri s) = iri_to_uri s.
Proof. intros s H. apply escape_kept_id. apply escape_output_kept; [tauto|exact H]. Qed.
Lemma html_idempotent : forall s, Forall code_point s -> escape_html_uri (escape_html_uri s) = escape_html_uri s.
Proof. intros s H. apply escape_kept_id. apply escape_output_kept; [tauto|exact H]. Qed.
