(* C09 property theorems on the URI escaping functions: the code (urllib.parse.quote with the `safe` strings read from the
   source on this run) computes the functions defined in F&O 3.1 sections 6.1 - 6.3, for every string of code points.
   Statements only; proofs in UriEscapeProofs.v. *)
From Coq Require Import ZArith List Bool.
From EP Require Import Gen.C09UriSafe C09.UriEscape C09.UriEscapeProofs.
Import ListNotations.
Open Scope Z_scope.

Theorem C09_encode_for_uri : forall s, encode_for_uri_code s = encode_for_uri s.
Proof. apply quote_spec. exact enc_keeps. Qed.
Print Assumptions C09_encode_for_uri.
Theorem C09_iri_to_uri : forall s, iri_to_uri_code s = iri_to_uri s.
Proof. apply quote_spec. exact iri_keeps. Qed.
Print Assumptions C09_iri_to_uri.
Theorem C09_escape_html_uri : forall s, escape_html_uri_code s = escape_html_uri s.
Proof. apply quote_spec. exact html_keeps. Qed.
Print Assumptions C09_escape_html_uri.

(* the escaped sets are nested: escape-html-uri escapes the least, encode-for-uri the most *)
Theorem C09_uri_escaping_nested : forall c,
  (enc_kept c = true -> iri_kept c = true) /\ (iri_kept c = true -> html_kept c = true).
Proof. exact kept_nested. Qed.
Print Assumptions C09_uri_escaping_nested.

(* encode-for-uri loses nothing: percent-decoding and UTF-8 decoding give the string back, for all code points
   (one to four bytes) *)
Theorem C09_encode_for_uri_decodes : forall s, Forall code_point s -> uri_decode (encode_for_uri s) = Some s.
Proof. exact encode_roundtrip. Qed.
Print Assumptions C09_encode_for_uri_decodes.

(* iri-to-uri and escape-html-uri are idempotent (F&O 6.2, 6.3) *)
Theorem C09_iri_to_uri_idempotent : forall s, Forall code_point s -> iri_to_uri (iri_to_uri s) = iri_to_uri s.
Proof. exact iri_idempotent. Qed.
Print Assumptions C09_iri_to_uri_idempotent.
Theorem C09_escape_html_uri_idempotent : forall s, Forall code_point s -> escape_html_uri (escape_html_uri s) = escape_html_uri s.
Proof. exact html_idempotent. Qed.
Print Assumptions C09_escape_html_uri_idempotent.

(* encode-for-uri("100% organic/é😀") = "100%25%20organic%2F%C3%A9%F0%9F%98%80" *)
Example C09_uri_nonvacuous :
  encode_for_uri_code [49; 48; 48; 37; 32; 111; 47; 233; 128512] =
    [49; 48; 48; 37; 50; 53; 37; 50; 48; 111; 37; 50; 70; 37; 67; 51; 37; 65; 57; 37; 70; 48; 37; 57; 70; 37; 57; 56; 37; 56; 48] /\
  iri_to_uri_code [47; 37; 32; 60; 233] = [47; 37; 37; 50; 48; 37; 51; 67; 37; 67; 51; 37; 65; 57] /\
  escape_html_uri_code [47; 32; 60; 233] = [47; 32; 60; 37; 67; 51; 37; 65; 57].
Proof. vm_compute. repeat split; reflexivity. Qed.
