(* C09 runner adaptors *)
From Coq Require Import ZArith List Bool.
From EP Require Import C06.Model C09.Model Gen.C09Helpers.
Import ListNotations.
Open Scope Z_scope.

Definition DA (c m d : Z) : darg := match c with 0 => DFin m d | 1 => DNaN | 2 => DPInf | _ => DNInf end.
Definition b2z (b : bool) : Z := if b then 1 else 0.
(* results are pairs (model, spec) of code-point lists (or one-element lists for booleans / integers) *)
Definition run_substring2 (s : ustr) (a : darg) := (substring s a None, substring_spec s a None).
Definition run_substring3 (s : ustr) (a b : darg) := (substring s a (Some b), substring_spec s a (Some b)).
Definition run_translate (s m t : ustr) := (translate s m t, translate_spec s m t).
Definition run_find (f : Z) (s t : ustr) : ustr * ustr :=
  let r := match f with
           | 0 => [b2z (contains s t)] | 1 => [b2z (starts_with s t)] | 2 => [b2z (ends_with s t)]
           | 3 => substring_before s t | _ => substring_after s t end in (r, r).
Definition run_normalize (s : ustr) := (normalize_space code_ws s, normalize_space xml_space s).
Definition run_compare (a b : ustr) := ([compare_cp a b; b2z (codepoint_equal a b)], [compare_cp a b; b2z (codepoint_equal a b)]).
Definition run_xmlchar (c : Z) := ([b2z (is_xml_codepoint c)], [b2z (is_xml_codepoint c)]).

(* ---- URI escaping (UriEscape.v): [code; specification] for fn 0 encode-for-uri, 1 iri-to-uri, 2 escape-html-uri ---- *)
From EP Require Import C09.UriEscape.
Definition run_uri (fn : Z) (s : list Z) : list Z * list Z :=
  if fn =? 0 then (encode_for_uri_code s, encode_for_uri s)
  else if fn =? 1 then (iri_to_uri_code s, iri_to_uri s) else (escape_html_uri_code s, escape_html_uri s).
