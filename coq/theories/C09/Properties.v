(* C09 property theorems *)
From Coq Require Import ZArith List Bool Lia ZifyBool.
From EP Require Import C06.Model C09.Model C09.Proofs Gen.C09Helpers.
From EP Require Gen.C09Shape.
Import ListNotations.
Open Scope Z_scope.

(* fn:substring = the characters at positions p with round(start) <= p < round(start)+round(length),
   rounding half up, IEEE rules for INF / NaN; all strings, all rational / special arguments *)
Theorem C09_substring : forall s start len, wf_darg start ->
  (match len with Some l => wf_darg l | None => True end) ->
  substring s start len = substring_spec s start len.
Proof. exact substring_eq_spec. Qed.
Print Assumptions C09_substring.

(* concat(substring-before(s,t), t, substring-after(s,t)) = s whenever contains(s,t); first occurrence *)
Theorem C09_before_after : forall s t, contains s t = true ->
  substring_before s t ++ t ++ substring_after s t = s.
Proof. exact before_after. Qed.
Print Assumptions C09_before_after.
Theorem C09_before_is_first_occurrence : forall s t a b, s = a ++ t ++ b ->
  (length (substring_before s t) <= length a)%nat.
Proof. exact before_is_first. Qed.
Print Assumptions C09_before_is_first_occurrence.
Theorem C09_contains : forall s t, contains s t = true <-> exists a b, s = a ++ t ++ b.
Proof. exact contains_iff. Qed.
Print Assumptions C09_contains.
Theorem C09_starts_ends_with : forall s t,
  (starts_with s t = true <-> exists r, s = t ++ r) /\ (ends_with s t = true <-> exists a, s = a ++ t).
Proof. intros s t. split; [exact (prefixb_spec t s)|exact (ends_with_spec s t)]. Qed.
Print Assumptions C09_starts_ends_with.

(* fn:translate: the first occurrence in the map string decides; unmatched tail of the map deletes *)
Theorem C09_translate : forall s map trans, translate s map trans = translate_spec s map trans.
Proof. exact translate_eq_spec. Qed.
Print Assumptions C09_translate.

(* normalize-space for any whitespace class containing U+0020: tokens are the maximal non-whitespace runs,
   joined by single spaces, nothing at the ends; idempotent *)
Theorem C09_normalize_space : forall ws, ws 32 = true -> forall s,
  (Forall (fun t => t <> [] /\ (forall c, In c t -> ws c = false)) (tokens ws s []) /\
   concat (tokens ws s []) = filter (fun c => negb (ws c)) s) /\
  tokens ws (normalize_space ws s) [] = tokens ws s [] /\
  normalize_space ws (normalize_space ws s) = normalize_space ws s.
Proof.
  intros ws W s. split.
  - exact (tokens_spec ws s [] (fun c (H : In c []) => match H with end)).
  - exact (normalize_space_idem ws W s).
Qed.
Print Assumptions C09_normalize_space.
(* the class the code splits on is the XML whitespace of the specification (S ::= (#x20 | #x9 | #xD | #xA)+) *)
Theorem C09_normalize_space_xml_whitespace : forall s,
  normalize_space code_ws s = normalize_space xml_space s /\ (forall c, code_ws c = true <-> c = 32 \/ c = 9 \/ c = 10 \/ c = 13).
Proof.
  intro s. split; [reflexivity|]. intro c. unfold code_ws. rewrite !orb_true_iff, !Z.eqb_eq. tauto.
Qed.
Print Assumptions C09_normalize_space_xml_whitespace.
(* splitting with str.split() (every Unicode space character: NBSP, U+2003, VT, FF, FS..US, NEL, ...), as the code did
   before the repair, is a different function *)
Theorem C09_normalize_space_unicode_split_refuted :
  exists s, normalize_space py_isspace s <> normalize_space xml_space s.
Proof. exists [97; 160; 98]. vm_compute. discriminate. Qed.
Print Assumptions C09_normalize_space_unicode_split_refuted.

(* compare(): total order on code-point sequences; codepoint-equal is equality *)
Theorem C09_compare_order : forall a b c,
  compare_cp a a = 0 /\ compare_cp b a = - compare_cp a b /\ (compare_cp a b = 0 <-> a = b) /\
  (compare_cp a b = -1 \/ compare_cp a b = 0 \/ compare_cp a b = 1) /\
  (compare_cp a b = -1 -> compare_cp b c = -1 -> compare_cp a c = -1) /\
  (codepoint_equal a b = true <-> a = b).
Proof.
  intros a b c. repeat split; try apply compare_cp_refl; try apply compare_cp_antisym;
    try apply compare_cp_eq; try apply compare_cp_range; try apply compare_cp_trans; try apply codepoint_equal_iff.
Qed.
Print Assumptions C09_compare_order.

(* regenerated helpers.is_xml_codepoint = the Char production of XML 1.0 *)
Theorem C09_is_xml_codepoint : forall cp, is_xml_codepoint cp = true <->
  (cp = 9 \/ cp = 10 \/ cp = 13 \/ 32 <= cp <= 55295 \/ 57344 <= cp <= 65533 \/ 65536 <= cp <= 1114111).
Proof. intros cp. unfold is_xml_codepoint. lia. Qed.
Print Assumptions C09_is_xml_codepoint.

Example C09_nonvacuous :
  substring [49;50;51;52;53] (DFin 5 2) None = [51;52;53] /\
  substring [49;50;51;52;53] (DFin 3 2) (Some (DFin 26 10)) = [50;51;52] /\
  substring [49;50;51;52;53] DNInf None = [49;50;51;52;53] /\
  translate [97;98;99;97;98;99] [97;97] [120;121] = [120;98;99;120;98;99] /\
  substring_before [116;97;116;116;111;111] [116;116] = [116;97] /\
  contains [1;2;3] [2;3] = true /\ wf_darg (DFin 5 2).
Proof. vm_compute. repeat split; reflexivity. Qed.

(* the statements of /repo that the hand model mirrors are present in the source as read on this run (T-data,
   harness/shape.py -> Gen/C09Shape.v) *)
Theorem C09_source_shape : Gen.C09Shape.shape_ok = true.
Proof. reflexivity. Qed.
Print Assumptions C09_source_shape.
