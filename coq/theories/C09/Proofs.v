From Coq Require Import ZArith List Bool Lia ZifyBool.
From EP Require Import C06.Model C06.Proofs C09.Model.
Import ListNotations.
Open Scope Z_scope.

(* ------------------------------------------------------------------ *)
(* positions                                                            *)
Lemma filter_pos_ext : forall s f g o, (forall p, o <= p -> f p = g p) ->
  filter_pos f o s = filter_pos g o s.
Proof.
  induction s as [|c r IH]; intros f g o H; cbn; auto.
  rewrite (H o) by lia. rewrite (IH f g (o + 1)) by (intros; apply H; lia). reflexivity.
Qed.
Lemma filter_pos_false : forall s f o, (forall p, o <= p -> f p = false) -> filter_pos f o s = [].
Proof.
  induction s as [|c r IH]; intros f o H; cbn; auto.
  rewrite (H o) by lia. apply IH. intros; apply H; lia.
Qed.
Lemma filter_pos_true : forall s f o, (forall p, o <= p -> f p = true) -> filter_pos f o s = s.
Proof.
  induction s as [|c r IH]; intros f o H; cbn; auto.
  rewrite (H o) by lia. f_equal. apply IH. intros; apply H; lia.
Qed.

Lemma slice_filter : forall s a n o,
  firstn n (skipn a s) =
  filter_pos (fun p => (o + Z.of_nat a <=? p) && (p <? o + Z.of_nat a + Z.of_nat n)) o s.
Proof.
  induction s as [|c r IH]; intros a n o.
  - destruct a, n; reflexivity.
  - destruct a as [|a'].
    + cbn [skipn]. destruct n as [|n'].
      * cbn [firstn]. symmetry. apply filter_pos_false. intros p Hp. lia.
      * cbn [firstn filter_pos].
        replace ((o + Z.of_nat 0 <=? o) && (o <? o + Z.of_nat 0 + Z.of_nat (S n'))) with true by lia.
        f_equal. rewrite <- (skipn_O r) at 1. rewrite (IH 0%nat n' (o + 1)).
        apply filter_pos_ext. intros p Hp. lia.
    + cbn [skipn filter_pos].
      replace ((o + Z.of_nat (S a') <=? o) && (o <? o + Z.of_nat (S a') + Z.of_nat n)) with false by lia.
      rewrite (IH a' n (o + 1)). apply filter_pos_ext. intros p Hp. lia.
Qed.
Lemma skipn_filter : forall s a o,
  skipn a s = filter_pos (fun p => o + Z.of_nat a <=? p) o s.
Proof.
  intros s a o. rewrite <- (firstn_all (skipn a s)).
  rewrite (slice_filter s a (length (skipn a s)) o).
  assert (H : forall s' f g o', (forall p, o' <= p < o' + Z.of_nat (length s') -> f p = g p) ->
               filter_pos f o' s' = filter_pos g o' s').
  { induction s' as [|c r IH]; intros f g o' H; cbn; auto.
    rewrite (H o') by (cbn [length]; lia). rewrite (IH f g (o' + 1)); auto.
    intros p Hp. apply H. cbn [length]. lia. }
  apply H. intros p Hp. rewrite skipn_length.
  destruct (o + Z.of_nat a <=? p) eqn:E; [|reflexivity]. cbn [andb]. lia.
Qed.

(* clamped indices *)
Lemma skipn_clamp : forall (s : ustr) a, skipn (clampn s a) s = skipn (Z.to_nat a) s.
Proof.
  intros s a. unfold clampn. destruct (Z.le_gt_cases a (Z.of_nat (length s))) as [H|H].
  - rewrite Z.min_l by lia. reflexivity.
  - rewrite Z.min_r by lia. rewrite Nat2Z.id, skipn_all. symmetry. apply skipn_all2. lia.
Qed.
Lemma firstn_clamp : forall (s t : ustr) a, (length t <= length s)%nat ->
  firstn (clampn s a) t = firstn (Z.to_nat a) t.
Proof.
  intros s t a Hl. unfold clampn. destruct (Z.le_gt_cases a (Z.of_nat (length s))) as [H|H].
  - rewrite Z.min_l by lia. reflexivity.
  - rewrite Z.min_r by lia. rewrite Nat2Z.id, !firstn_all2 by lia. reflexivity.
Qed.
Lemma py_from_eq : forall s a, py_from s a = skipn (Z.to_nat a) s.
Proof. intros. apply skipn_clamp. Qed.
Lemma py_slice_eq : forall s a b, py_slice s a b = firstn (Z.to_nat (b - a)) (skipn (Z.to_nat a) s).
Proof.
  intros. unfold py_slice. rewrite skipn_clamp. apply firstn_clamp. rewrite skipn_length. lia.
Qed.

(* ------------------------------------------------------------------ *)
(* substring                                                            *)
Definition wf_darg (a : darg) : Prop := match a with DFin _ d => 0 < d | _ => True end.

Lemma round_spec_nonpos : forall m d, 0 < d -> m <= 0 -> round_spec m d <= 0.
Proof.
  intros m d Hd Hm. unfold round_spec.
  assert ((2 * m + d) / (2 * d) < 1); [|lia].
  apply Z.div_lt_upper_bound; lia.
Qed.

Lemma substring_eq_spec : forall s start len, wf_darg start ->
  (match len with Some l => wf_darg l | None => True end) ->
  substring s start len = substring_spec s start len.
Proof.
  intros s start len Hs Hl. unfold substring, substring_spec.
  destruct start as [| | |m d]; cbn [ext_of wf_darg] in *.
  - destruct len; symmetry; apply filter_pos_false; reflexivity.
  - destruct len; symmetry; apply filter_pos_false; intros; reflexivity.
  - destruct len as [l|].
    + symmetry. apply filter_pos_false. intros p Hp. destruct l; reflexivity.
    + symmetry. apply filter_pos_true. reflexivity.
  - rewrite (round_md_spec m d Hs). set (rs := round_spec m d).
    destruct len as [[| | |lm ld]|]; cbn [ext_of ext_add ext_le ext_lt wf_darg] in *.
    + symmetry. apply filter_pos_false. intros. apply andb_false_r.
    + rewrite py_from_eq. rewrite (skipn_filter s _ 1). apply filter_pos_ext. intros p Hp. lia.
    + symmetry. apply filter_pos_false. intros. apply andb_false_r.
    + destruct (lm <=? 0) eqn:E.
      * symmetry. apply filter_pos_false. intros p Hp.
        pose proof (round_spec_nonpos lm ld Hl ltac:(lia)). lia.
      * rewrite (round_md_spec lm ld Hl). set (rl := round_spec lm ld).
        rewrite py_slice_eq. rewrite (slice_filter s _ _ 1). apply filter_pos_ext. intros p Hp. lia.
    + rewrite py_from_eq. rewrite (skipn_filter s _ 1). apply filter_pos_ext. intros p Hp. lia.
Qed.

(* ------------------------------------------------------------------ *)
(* prefix / find                                                        *)
Lemma prefixb_spec : forall t s, prefixb t s = true <-> exists r, s = t ++ r.
Proof.
  induction t as [|c t IH]; intros s; cbn.
  - split; [intros _; exists s; reflexivity|auto].
  - destruct s as [|d s'].
    + split; [discriminate|intros (r & H); discriminate].
    + rewrite andb_true_iff, IH. split.
      * intros (Hc & r & ->). exists r. f_equal. lia.
      * intros (r & H). injection H as -> ->. split; [lia|exists r; reflexivity].
Qed.

Lemma find_some : forall s t i, find s t = Some i ->
  s = firstn i s ++ t ++ skipn (i + length t) s /\
  forall j, (j < i)%nat -> prefixb t (skipn j s) = false.
Proof.
  induction s as [|c r IH]; intros t i H.
  - cbn [find] in H. destruct (prefixb t []) eqn:P; [|discriminate]. injection H as <-.
    apply prefixb_spec in P. destruct P as (x & Hx). destruct t; [|discriminate].
    split; [reflexivity|intros; lia].
  - cbn [find] in H. destruct (prefixb t (c :: r)) eqn:P.
    + injection H as <-. apply prefixb_spec in P. destruct P as (x & Hx). split; [|intros; lia].
      cbn [firstn app plus]. rewrite Hx at 2. rewrite skipn_app, Nat.sub_diag, skipn_all. cbn. exact Hx.
    + destruct (find r t) as [k|] eqn:F; [|discriminate]. injection H as <-.
      destruct (IH t k F) as (H1 & H2). split.
      * cbn [firstn plus skipn app]. f_equal. exact H1.
      * intros [|j] Hj; [exact P|]. cbn [skipn]. apply H2. lia.
Qed.

Lemma find_none : forall s t, find s t = None -> forall a b, s <> a ++ t ++ b.
Proof.
  induction s as [|c r IH]; intros t H a b E.
  - cbn [find] in H. destruct (prefixb t []) eqn:P; [discriminate|].
    destruct a; [|discriminate]. destruct t; [discriminate|discriminate].
  - cbn [find] in H. destruct (prefixb t (c :: r)) eqn:P; [discriminate|].
    destruct (find r t) eqn:F; [discriminate|].
    destruct a as [|x a'].
    + cbn in E. assert (prefixb t (c :: r) = true) by (apply prefixb_spec; exists b; exact E). congruence.
    + cbn in E. injection E as _ E. exact (IH t F a' b E).
Qed.

Lemma contains_iff : forall s t, contains s t = true <-> exists a b, s = a ++ t ++ b.
Proof.
  intros s t. unfold contains. destruct (find s t) as [i|] eqn:F.
  - split; auto. intros _. destruct (find_some s t i F) as (H & _). eauto.
  - split; [discriminate|]. intros (a & b & E). exfalso. exact (find_none s t F a b E).
Qed.

Lemma before_after : forall s t, contains s t = true ->
  substring_before s t ++ t ++ substring_after s t = s.
Proof.
  intros s t H. unfold contains, substring_before, substring_after in *.
  destruct (find s t) as [i|] eqn:F; [|discriminate].
  destruct (find_some s t i F) as (E & _). symmetry. exact E.
Qed.

Lemma before_is_first : forall s t a b, s = a ++ t ++ b ->
  (length (substring_before s t) <= length a)%nat.
Proof.
  intros s t a b E. unfold substring_before. destruct (find s t) as [i|] eqn:F.
  - destruct (find_some s t i F) as (_ & Hmin).
    destruct (Nat.le_gt_cases i (length a)) as [Hle|Hgt].
    + rewrite firstn_length. lia.
    + specialize (Hmin (length a) Hgt). subst s. rewrite skipn_app, Nat.sub_diag, skipn_all in Hmin.
      cbn in Hmin. assert (prefixb t (t ++ b) = true) by (apply prefixb_spec; eauto). congruence.
  - cbn. lia.
Qed.

Lemma ends_with_spec : forall s t, ends_with s t = true <-> exists a, s = a ++ t.
Proof.
  intros s t. unfold ends_with. rewrite prefixb_spec. split.
  - intros (r & H). exists (rev r). rewrite <- (rev_involutive s), H, rev_app_distr, rev_involutive. reflexivity.
  - intros (a & ->). exists (rev a). apply rev_app_distr.
Qed.

(* ------------------------------------------------------------------ *)
(* translate                                                            *)
Lemma lookup_app : forall tb c k v,
  lookup c (tb ++ [(k, v)]) = match lookup c tb with Some x => Some x | None => if k =? c then Some v else None end.
Proof.
  induction tb as [|[k' v'] r IH]; intros c k v; cbn; [reflexivity|].
  destruct (k' =? c); [reflexivity|apply IH].
Qed.

Lemma build_lookup : forall map trans tb c,
  lookup c (build_table map trans tb) =
  match lookup c tb with
  | Some v => Some v
  | None => match index_of c map with None => None | Some k => Some (nth_error trans k) end
  end.
Proof.
  induction map as [|x m IH]; intros trans tb c; cbn [build_table index_of].
  - destruct (lookup c tb); reflexivity.
  - rewrite IH. destruct (lookup x tb) eqn:Lx.
    + destruct (lookup c tb) eqn:Lc; [reflexivity|].
      destruct (x =? c) eqn:E; [assert (x = c) by lia; subst; congruence|].
      destruct (index_of c m); cbn [option_map]; [|reflexivity].
      destruct trans; cbn; [destruct n; reflexivity|reflexivity].
    + rewrite lookup_app. destruct (lookup c tb) eqn:Lc; [reflexivity|].
      destruct (x =? c) eqn:E.
      * destruct trans; reflexivity.
      * destruct (index_of c m); cbn [option_map]; [|reflexivity].
        destruct trans; cbn; [destruct n; reflexivity|reflexivity].
Qed.

Lemma translate_eq_spec : forall s map trans, translate s map trans = translate_spec s map trans.
Proof.
  intros s map trans. unfold translate, translate_spec, apply_table.
  induction s as [|c r IH]; cbn [flat_map]; [reflexivity|]. rewrite IH. f_equal.
  rewrite build_lookup. cbn [lookup]. destruct (index_of c map); [|reflexivity].
  destruct (nth_error trans n); reflexivity.
Qed.

(* ------------------------------------------------------------------ *)
(* normalize-space                                                      *)
Section NS.
Variable ws : Z -> bool.
Definition clean (t : ustr) : Prop := forall c, In c t -> ws c = false.

Lemma tokens_spec : forall s cur, clean cur ->
  Forall (fun t => t <> [] /\ clean t) (tokens ws s cur) /\
  concat (tokens ws s cur) = rev cur ++ filter (fun c => negb (ws c)) s.
Proof.
  induction s as [|c r IH]; intros cur Hc; cbn [tokens filter].
  - destruct cur as [|x cur'].
    + split; [constructor|reflexivity].
    + split.
      * constructor; [|constructor]. split.
        -- intros E. apply (f_equal (@length Z)) in E. rewrite rev_length in E. discriminate.
        -- intros y Hy. apply Hc. apply in_rev. exact Hy.
      * cbn. rewrite !app_nil_r. reflexivity.
  - destruct (ws c) eqn:W; cbn [negb].
    + destruct (IH [] ltac:(intros ? [])) as (H1 & H2). destruct cur as [|x cur'].
      * split; [exact H1|]. rewrite H2. reflexivity.
      * split.
        -- constructor; [|exact H1]. split.
           ++ intros E. apply (f_equal (@length Z)) in E. rewrite rev_length in E. discriminate.
           ++ intros y Hy. apply Hc. apply in_rev. exact Hy.
        -- cbn [concat]. rewrite H2. reflexivity.
    + assert (Hc' : clean (c :: cur)) by (intros y [<-|Hy]; auto).
      destruct (IH (c :: cur) Hc') as (H1 & H2). split; [exact H1|].
      rewrite H2. cbn [rev]. rewrite <- app_assoc. reflexivity.
Qed.

(* the joined result re-tokenises to the same tokens: single separators, none at the ends *)
Lemma tokens_app_clean : forall t s cur, clean t -> tokens ws (t ++ s) cur = tokens ws s (rev t ++ cur).
Proof.
  induction t as [|c t IH]; intros s cur Hc; cbn [app tokens rev]; [reflexivity|].
  rewrite (Hc c) by (cbn; auto). rewrite IH by (intros y Hy; apply Hc; cbn; auto).
  rewrite <- app_assoc. reflexivity.
Qed.

Lemma tokens_join : ws 32 = true -> forall ts, Forall (fun t => t <> [] /\ clean t) ts ->
  tokens ws (join_sp ts) [] = ts.
Proof.
  intros W. induction ts as [|t r IH]; intros H; [reflexivity|].
  inversion H as [|? ? (Hne & Hcl) Hr]; subst. destruct r as [|t' r'].
  - cbn [join_sp]. rewrite <- (app_nil_r t) at 1. rewrite tokens_app_clean by exact Hcl.
    cbn [tokens]. rewrite app_nil_r. destruct (rev t) eqn:E.
    + exfalso. apply Hne. rewrite <- (rev_involutive t), E. reflexivity.
    + rewrite <- E, rev_involutive. reflexivity.
  - change (join_sp (t :: t' :: r')) with (t ++ 32 :: join_sp (t' :: r')).
    rewrite tokens_app_clean by exact Hcl. cbn [tokens]. rewrite W, app_nil_r.
    destruct (rev t) eqn:E.
    + exfalso. apply Hne. rewrite <- (rev_involutive t), E. reflexivity.
    + rewrite <- E, rev_involutive. f_equal. apply IH. exact Hr.
Qed.

Lemma normalize_space_idem : ws 32 = true -> forall s,
  tokens ws (normalize_space ws s) [] = tokens ws s [] /\
  normalize_space ws (normalize_space ws s) = normalize_space ws s.
Proof.
  intros W s. unfold normalize_space.
  destruct (tokens_spec s [] ltac:(intros ? [])) as (H & _).
  rewrite (tokens_join W _ H). split; reflexivity.
Qed.
End NS.

(* ------------------------------------------------------------------ *)
(* compare                                                              *)
Lemma compare_cp_refl : forall a, compare_cp a a = 0.
Proof. induction a as [|x a IH]; cbn; auto. rewrite Z.ltb_irrefl. exact IH. Qed.
Lemma compare_cp_antisym : forall a b, compare_cp b a = - compare_cp a b.
Proof.
  induction a as [|x a IH]; intros [|y b]; cbn; auto.
  destruct (x <? y) eqn:E1, (y <? x) eqn:E2; try lia; try apply IH.
Qed.
Lemma compare_cp_eq : forall a b, compare_cp a b = 0 <-> a = b.
Proof.
  induction a as [|x a IH]; intros [|y b]; cbn; try (split; [discriminate|discriminate]); [tauto|].
  destruct (x <? y) eqn:E1; [split; [discriminate|intros H; injection H; lia]|].
  destruct (y <? x) eqn:E2; [split; [discriminate|intros H; injection H; lia]|].
  rewrite IH. split; [intros ->; f_equal; lia|intros H; injection H; auto].
Qed.
Lemma compare_cp_range : forall a b, compare_cp a b = -1 \/ compare_cp a b = 0 \/ compare_cp a b = 1.
Proof.
  induction a as [|x a IH]; intros [|y b]; cbn; auto.
  destruct (x <? y); auto. destruct (y <? x); auto.
Qed.
Lemma compare_cp_trans : forall a b c, compare_cp a b = -1 -> compare_cp b c = -1 -> compare_cp a c = -1.
Proof.
  induction a as [|x a IH]; intros [|y b] [|z c]; cbn; try discriminate; auto.
  destruct (x <? y) eqn:E1; destruct (y <? z) eqn:E2; destruct (x <? z) eqn:E3; intros H1 H2; try lia;
    destruct (y <? x) eqn:E4; destruct (z <? y) eqn:E5; destruct (z <? x) eqn:E6; try lia; try discriminate.
  eapply IH; eauto.
Qed.
Lemma codepoint_equal_iff : forall a b, codepoint_equal a b = true <-> a = b.
Proof.
  induction a as [|x a IH]; intros [|y b]; cbn; try (split; [discriminate|discriminate]); [tauto|].
  rewrite andb_true_iff, IH. split; [intros (H & ->); f_equal; lia|intros H; injection H; intros; subst; split; [lia|auto]].
Qed.
