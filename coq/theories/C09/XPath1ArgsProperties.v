(* C09 property theorems: XPath 1.0 string() of numbers and booleans *)
From Coq Require Import ZArith List Bool.
From EP Require Import C15.Keys C10.Model C10.Proofs C09.XPath1Args.
Import ListNotations.
Open Scope Z_scope.

(* the numeral of an integer is in the lexical space of xs:integer and reads back as the same integer: the string of a
   number converts back to the number *)
Theorem C09_xpath1_string_of_integer : forall z,
  string1 (ANum1 (NFin z 1)) = Some (print_int z) /\ lex_integer (print_int z) = true /\ int_value (print_int z) = Some z.
Proof.
  intros z. split.
  - cbn. unfold is_int. rewrite Z.mod_1_r. cbn. rewrite Z.div_1_r. reflexivity.
  - split; [apply print_int_lex|apply print_int_value].
Qed.
Print Assumptions C09_xpath1_string_of_integer.
(* FULL STATEMENT: forall a, string1_code a = string1 a.  False of the code for the two infinities (known finding
   C09-xpath1-infinity-string, pinned by tests/test_xpath_tokens.py) *)
Theorem C09_xpath1_string_refuted : exists a, string1_code a <> string1 a.
Proof. exists (ANum1 NPInf). discriminate. Qed.
Print Assumptions C09_xpath1_string_refuted.
Theorem C09_xpath1_string_partial : forall a, a <> ANum1 NPInf -> a <> ANum1 NNInf -> string1_code a = string1 a.
Proof. intros [b|[n d| | |]] H1 H2; try reflexivity; contradiction. Qed.
Print Assumptions C09_xpath1_string_partial.
