(* C09 property theorems on the HTML ASCII case-insensitive collation (short proofs). *)
From Coq Require Import ZArith List Bool Lia.
From EP Require Import C06.Model C09.Model C09.Proofs C09.Collation.
Import ListNotations.
Open Scope Z_scope.

Lemma ascii_fold_idem : forall c, ascii_fold (ascii_fold c) = ascii_fold c.
Proof. intros c. unfold ascii_fold. destruct ((65 <=? c) && (c <=? 90)) eqn:E; [|rewrite E; reflexivity]. replace ((65 <=? c + 32) && (c + 32 <=? 90)) with false by lia. reflexivity. Qed.

(* the collation is the code point order of the folded strings: an equivalence and a total order on them; only the 26 ASCII letter
   pairs are identified *)
Theorem C09_html_ascii_collation : forall a b c,
  compare_ci a a = 0 /\ compare_ci b a = - compare_ci a b /\ (compare_ci a b = 0 <-> fold_str a = fold_str b) /\
  (compare_ci a b = -1 -> compare_ci b c = -1 -> compare_ci a c = -1) /\
  (same_ci a b = true <-> compare_ci a b = 0).
Proof.
  intros a b c. unfold compare_ci, same_ci. repeat split.
  - apply compare_cp_refl.
  - apply compare_cp_antisym.
  - apply compare_cp_eq.
  - apply compare_cp_eq.
  - apply compare_cp_trans.
  - intros H. apply compare_cp_eq. apply codepoint_equal_iff. exact H.
  - intros H. apply codepoint_equal_iff. apply compare_cp_eq. exact H.
Qed.
Print Assumptions C09_html_ascii_collation.

Theorem C09_html_ascii_fold : forall x y,
  ascii_fold x = ascii_fold y <-> (x = y \/ (65 <= x <= 90 /\ y = x + 32) \/ (65 <= y <= 90 /\ x = y + 32)).
Proof. intros x y. unfold ascii_fold. destruct ((65 <=? x) && (x <=? 90)) eqn:E1; destruct ((65 <=? y) && (y <=? 90)) eqn:E2; lia. Qed.
Print Assumptions C09_html_ascii_fold.

(* folding beyond ASCII is refuted as a model of this collation: the letters 201 and 233 stay different *)
Theorem C09_unicode_folding_refuted : compare_ci [201] [233] <> 0 /\ compare_cp (map unicode_fold_example [201]) (map unicode_fold_example [233]) = 0.
Proof. split; [vm_compute; discriminate|reflexivity]. Qed.
Print Assumptions C09_unicode_folding_refuted.

Example C09_collation_nonvacuous :
  compare_ci [97; 66] [65; 98] = 0 /\ compare_ci [97] [66] = -1 /\ contains_ci [97; 75; 98] [107] = true /\ contains_ci [97; 8490; 98] [107] = false.
Proof. repeat split; reflexivity. Qed.
