(* C09 model: XPath string functions on Unicode strings = lists of code points (Z).
   Mirrors _xpath1_functions.py: substring (289-331), translate (262-281), substring-before/after (334-350,
   and _xpath2_functions.py 1145-1170 through CollationManager.find with the code-point collation =
   identity strxfrm), contains/starts-with/ends-with (collations.py 166-180), normalize-space (238-248),
   string-length, compare/codepoint-equal (976-1031), codepoints-to-string / string-to-codepoints (941-974).
   Rounding of the numeric arguments reuses C06.Model.round_md (helpers.round_number). NO proofs here. *)
From Coq Require Import ZArith List Bool.
From EP Require Import C06.Model.
Import ListNotations.
Open Scope Z_scope.

Definition ustr := list Z.

(* ---- Python slicing item[a:b] / item[a:] for a, b >= 0 ---- *)
(* indices are clamped to the length first (as CPython does), so that no huge nat is ever built *)
Definition clampn (s : ustr) (a : Z) : nat := Z.to_nat (Z.min a (Z.of_nat (length s))).
Definition py_slice (s : ustr) (a b : Z) : ustr := firstn (clampn s (b - a)) (skipn (clampn s a) s).
Definition py_from (s : ustr) (a : Z) : ustr := skipn (clampn s a) s.

(* numeric argument of substring: NaN / +INF / -INF / finite rational m/d (d > 0) *)
Inductive darg := DNaN | DPInf | DNInf | DFin (m d : Z).

(* ---- fn:substring as coded (after the fix: round_number = round half up, -INF start) ---- *)
Definition substring (s : ustr) (start : darg) (len : option darg) : ustr :=
  match start with
  | DNaN | DPInf => []
  | DNInf => match len with None => s | Some _ => [] end
  | DFin m d =>
    let st := round_md m d - 1 in                     (* start = int(round_number(start)) - 1 *)
    match len with
    | None => py_from s (Z.max st 0)                   (* item[max(start, 0):] *)
    | Some DNaN => []
    | Some DNInf => []                                 (* length <= 0 *)
    | Some DPInf => py_from s (Z.max st 0)
    | Some (DFin lm ld) =>
      if lm <=? 0 then []                              (* length <= 0 *)
      else let stop := st + round_md lm ld in
           py_slice s (Z.max st 0) (Z.max stop 0)
    end
  end.

(* ---- specification of fn:substring: positions p (1-based) with
        round(start) <= p < round(start) + round(length), in extended (IEEE) arithmetic ---- *)
Inductive ext := EFin (z : Z) | EPInf | ENInf | ENaN.
Definition ext_of (a : darg) : ext :=
  match a with DNaN => ENaN | DPInf => EPInf | DNInf => ENInf | DFin m d => EFin (round_spec m d) end.
Definition ext_add (a b : ext) : ext :=
  match a, b with
  | ENaN, _ | _, ENaN => ENaN
  | EPInf, ENInf | ENInf, EPInf => ENaN
  | EPInf, _ | _, EPInf => EPInf
  | ENInf, _ | _, ENInf => ENInf
  | EFin x, EFin y => EFin (x + y)
  end.
Definition ext_le (a b : ext) : bool :=
  match a, b with
  | ENaN, _ | _, ENaN => false
  | ENInf, _ | _, EPInf => true
  | EPInf, _ | _, ENInf => false
  | EFin x, EFin y => x <=? y
  end.
Definition ext_lt (a b : ext) : bool :=
  match a, b with
  | ENaN, _ | _, ENaN => false
  | EPInf, _ | _, ENInf => false
  | ENInf, _ | _, EPInf => true
  | EFin x, EFin y => x <? y
  end.
Fixpoint filter_pos (f : Z -> bool) (p : Z) (s : ustr) : ustr :=
  match s with [] => [] | c :: r => if f p then c :: filter_pos f (p + 1) r else filter_pos f (p + 1) r end.
Definition substring_spec (s : ustr) (start : darg) (len : option darg) : ustr :=
  let rs := ext_of start in
  match len with
  | None => filter_pos (fun p => ext_le rs (EFin p)) 1 s
  | Some l => filter_pos (fun p => ext_le rs (EFin p) && ext_lt (EFin p) (ext_add rs (ext_of l))) 1 s
  end.

(* ---- str.find / startswith / endswith / in ---- *)
Fixpoint prefixb (t s : ustr) : bool :=
  match t, s with
  | [], _ => true
  | c :: t', d :: s' => (c =? d) && prefixb t' s'
  | _ :: _, [] => false
  end.
Fixpoint find (s t : ustr) : option nat :=
  if prefixb t s then Some O
  else match s with [] => None | _ :: r => option_map S (find r t) end.
Definition contains (s t : ustr) : bool := match find s t with Some _ => true | None => false end.
Definition starts_with (s t : ustr) : bool := prefixb t s.
Definition ends_with (s t : ustr) : bool := prefixb (rev t) (rev s).
Definition substring_before (s t : ustr) : ustr :=
  match find s t with None => [] | Some i => firstn i s end.
Definition substring_after (s t : ustr) : ustr :=
  match find s t with None => [] | Some i => skipn (i + length t) s end.

(* ---- fn:translate as coded after the fix: table built left to right, first occurrence wins ---- *)
Fixpoint lookup (c : Z) (tb : list (Z * option Z)) : option (option Z) :=
  match tb with [] => None | (k, v) :: r => if k =? c then Some v else lookup c r end.
Fixpoint build_table (map trans : ustr) (tb : list (Z * option Z)) : list (Z * option Z) :=
  match map with
  | [] => tb
  | c :: m' =>
    let v := match trans with [] => None | x :: _ => Some x end in
    let tb' := match lookup c tb with Some _ => tb | None => tb ++ [(c, v)] end in
    build_table m' (tl trans) tb'
  end.
Definition apply_table (tb : list (Z * option Z)) (s : ustr) : ustr :=
  flat_map (fun c => match lookup c tb with None => [c] | Some None => [] | Some (Some r) => [r] end) s.
Definition translate (s map trans : ustr) : ustr := apply_table (build_table map trans []) s.

(* specification: the first occurrence of c in the map string decides *)
Fixpoint index_of (c : Z) (l : ustr) : option nat :=
  match l with [] => None | x :: r => if x =? c then Some O else option_map S (index_of c r) end.
Definition translate_spec (s map trans : ustr) : ustr :=
  flat_map (fun c => match index_of c map with
                     | None => [c]
                     | Some k => match nth_error trans k with Some r => [r] | None => [] end
                     end) s.

(* ---- normalize-space: ' '.join(x for x in re.split('[ \t\n\r]+', arg) if x): the non-empty pieces between maximal
   runs of whitespace, for a whitespace predicate ws ---- *)
Section NormalizeSpace.
Variable ws : Z -> bool.
(* split(): maximal runs of non-whitespace *)
Fixpoint tokens (s : ustr) (cur : ustr) : list ustr :=
  match s with
  | [] => match cur with [] => [] | _ => [rev cur] end
  | c :: r => if ws c then (match cur with [] => tokens r [] | _ => rev cur :: tokens r [] end)
              else tokens r (c :: cur)
  end.
Fixpoint join_sp (ts : list ustr) : ustr :=
  match ts with [] => [] | [t] => t | t :: r => t ++ 32 :: join_sp r end.
Definition normalize_space (s : ustr) : ustr := join_sp (tokens s []).
End NormalizeSpace.
(* the whitespace class of the code (the character class of its re.split pattern; source-shape fact
   normalize_space_xml_whitespace), str.isspace() of CPython 3.12 (the class of str.split(), used by the code before
   the repair), and the XML whitespace of the specification *)
Definition code_ws (c : Z) : bool := (c =? 32) || (c =? 9) || (c =? 10) || (c =? 13).
Definition py_isspace (c : Z) : bool :=
  ((9 <=? c) && (c <=? 13)) || ((28 <=? c) && (c <=? 32)) || (c =? 133) || (c =? 160) || (c =? 5760)
  || ((8192 <=? c) && (c <=? 8202)) || (c =? 8232) || (c =? 8233) || (c =? 8239) || (c =? 8287) || (c =? 12288).
Definition xml_space (c : Z) : bool := (c =? 32) || (c =? 9) || (c =? 10) || (c =? 13).

(* ---- compare / codepoint-equal: code-point lexicographic order ---- *)
Fixpoint compare_cp (a b : ustr) : Z :=
  match a, b with
  | [], [] => 0
  | [], _ => -1
  | _, [] => 1
  | x :: a', y :: b' => if x <? y then -1 else if y <? x then 1 else compare_cp a' b'
  end.
Fixpoint codepoint_equal (a b : ustr) : bool :=
  match a, b with
  | [], [] => true
  | x :: a', y :: b' => (x =? y) && codepoint_equal a' b'
  | _, _ => false
  end.
