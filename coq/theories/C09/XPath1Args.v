(* C09: the conversion of the arguments of the XPath 1.0 string functions (REC-xpath 4.2, function string()): a boolean
   is 'true' / 'false', NaN is 'NaN', both zeros are '0', the infinities are 'Infinity' / '-Infinity', an integer is its
   decimal numeral with a minus sign when negative (no decimal point, no exponent).  Fractional numbers are not modelled.
   string1_code is what the code does (xpath_tokens/base.py string_value: 'INF' / '-INF' for the infinities, pinned by
   tests/test_xpath_tokens.py).  Code points are listed as in C10.Model.print_int. *)
From Coq Require Import ZArith List Bool.
From EP Require Import C15.Keys C10.Model.
Import ListNotations.
Open Scope Z_scope.

Inductive arg1 := ABool1 (b : bool) | ANum1 (v : nval).
Definition is_int (n : Z) (d : positive) : bool := (n mod Zpos d =? 0).
Definition string1 (a : arg1) : option (list Z) :=
  match a with
  | ABool1 true => Some [116; 114; 117; 101]
  | ABool1 false => Some [102; 97; 108; 115; 101]
  | ANum1 NNaN => Some [78; 97; 78]
  | ANum1 NPInf => Some [73; 110; 102; 105; 110; 105; 116; 121]
  | ANum1 NNInf => Some [45; 73; 110; 102; 105; 110; 105; 116; 121]
  | ANum1 (NFin n d) => if is_int n d then Some (print_int (n / Zpos d)) else None
  end.
Definition string1_code (a : arg1) : option (list Z) :=
  match a with
  | ANum1 NPInf => Some [73; 78; 70]
  | ANum1 NNInf => Some [45; 73; 78; 70]
  | _ => string1 a
  end.
Definition enc_opt (o : option (list Z)) : list Z := match o with Some l => 1 :: l | None => [0] end.
Definition run_string1 (a : arg1) : list Z * list Z := (enc_opt (string1_code a), enc_opt (string1 a)).
