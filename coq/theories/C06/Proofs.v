From Coq Require Import ZArith List Bool Lia ZifyBool.
From EP Require Import Gen.C06Kernels C06.Model.
Ltac Zify.zify_post_hook ::= Z.to_euclidean_division_equations.
Open Scope Z_scope.

(* ---- the regenerated integer kernels ---- *)
Definition py_floordiv (a b : Z) (dec : bool) : Z := if dec then Z.quot a b else a / b.
Lemma idiv_patch_quot : forall a b dec1 dec2, b <> 0 ->
  idiv_patch a b (py_floordiv a b (dec1 || dec2)) dec1 dec2 = Z.quot a b.
Proof.
  intros a b dec1 dec2 Hb. unfold idiv_patch, py_floordiv.
  destruct dec1, dec2; cbn [orb]; rewrite ?orb_true_r; cbn [orb];
    try (destruct (Z.quot a b >=? 0); reflexivity).
  destruct (a / b >=? 0) eqn:E1; cbn [orb].
  - nia.
  - destruct (a mod b =? 0) eqn:E2; nia.
Qed.

Lemma mod_int_kernel_rem : forall a b, b <> 0 -> mod_int_kernel a b = Z.rem a b.
Proof.
  intros a b Hb. unfold mod_int_kernel. cbv zeta.
  assert (E : Z.abs a mod Z.abs b = Z.abs (Z.rem a b)).
  { rewrite <- Z.rem_abs by assumption. symmetry. apply Z.rem_mod_nonneg; lia. }
  rewrite E.
  pose proof (Z.rem_nonneg a b Hb). pose proof (Z.rem_nonpos a b Hb).
  destruct (a >=? 0) eqn:E1; lia.
Qed.

Lemma div_mod_identity : forall a b, b <> 0 ->
  a = idiv_patch a b (py_floordiv a b false) false false * b + mod_int_kernel a b.
Proof.
  intros a b Hb. pose proof (idiv_patch_quot a b false false Hb) as H. cbn [orb] in H.
  rewrite H, mod_int_kernel_rem by assumption.
  pose proof (Z.quot_rem' a b). lia.
Qed.

Lemma mod_sign : forall a b, b <> 0 -> (0 <= a -> 0 <= mod_int_kernel a b) /\ (a <= 0 -> mod_int_kernel a b <= 0)
  /\ Z.abs (mod_int_kernel a b) < Z.abs b.
Proof.
  intros a b Hb. rewrite mod_int_kernel_rem by assumption.
  pose proof (Z.rem_nonneg a b Hb). pose proof (Z.rem_nonpos a b Hb). pose proof (Z.rem_bound_abs a b Hb). lia.
Qed.

(* ---- rounding ---- *)
Lemma round_md_spec : forall m d, 0 < d -> round_md m d = round_spec m d.
Proof.
  intros m d Hd. unfold round_md, quantize_half, round_spec.
  pose proof (Z.div_mod (Z.abs m) d ltac:(lia)) as Hdm.
  pose proof (Z.mod_pos_bound (Z.abs m) d Hd) as Hr.
  remember (Z.abs m / d) as q. remember (Z.abs m mod d) as r.
  destruct (m >? 0) eqn:E0; destruct (m <? 0) eqn:E1; try lia.
  - assert (Z.abs m = m) by lia.
    destruct (2 * r >=? d) eqn:E2.
    + apply Z.div_unique with (r := 2 * r - d); lia.
    + apply Z.div_unique with (r := 2 * r + d); lia.
  - assert (Z.abs m = - m) by lia.
    destruct (2 * r >? d) eqn:E2.
    + apply Z.div_unique with (r := 3 * d - 2 * r); lia.
    + apply Z.div_unique with (r := d - 2 * r); lia.
  - assert (m = 0) by lia. subst m. cbn [Z.abs] in *.
    assert (q = 0) by (subst q; apply Z.div_0_l; lia).
    assert (r = 0) by (subst r; apply Z.mod_0_l; lia).
    replace q with 0. replace r with 0.
    destruct (2 * 0 >? d) eqn:E2; [lia|]. apply Z.div_unique with (r := d); lia.
Qed.

Lemma floor_md_spec : forall m d, 0 < d -> d * floor_md m d <= m < d * (floor_md m d + 1).
Proof. intros m d Hd. unfold floor_md. nia. Qed.
Lemma ceil_md_spec : forall m d, 0 < d -> d * (ceil_md m d - 1) < m <= d * ceil_md m d.
Proof. intros m d Hd. unfold ceil_md. nia. Qed.

(* nearest integer, ties to even *)
Lemma round_half_even_spec : forall m d, 0 < d ->
  let r := round_half_even_md m d in
  2 * Z.abs (r * d - m) <= d /\ (2 * Z.abs (r * d - m) = d -> Z.even r = true).
Proof.
  intros m d Hd. unfold round_half_even_md. cbv zeta.
  destruct (2 * (m mod d) <? d) eqn:E1; [split; nia|].
  destruct (2 * (m mod d) >? d) eqn:E2; [split; nia|].
  destruct (Z.even (m / d)) eqn:E3.
  - split; [nia|auto].
  - split; [nia|]. intros _. rewrite Z.even_add, E3. reflexivity.
Qed.

(* ---- model level ---- *)
Lemma pow10_pos : forall k, 0 <= k -> 0 < 10 ^ k.
Proof. intros. apply Z.pow_pos_nonneg; lia. Qed.
Lemma scaled_nonzero : forall a b, nm b <> 0 -> scaled b (scale_e a b) <> 0.
Proof.
  intros a b H. unfold scaled, scale_e.
  pose proof (pow10_pos (ne b - Z.min (ne a) (ne b)) ltac:(lia)). nia.
Qed.

Lemma idiv_finite : forall a b, nc a = Fin -> nc b = Fin -> nm b <> 0 ->
  idiv a b = int_val (Z.quot (scaled a (scale_e a b)) (scaled b (scale_e a b))).
Proof.
  intros a b Ha Hb Hz. unfold idiv, is_inf, is_nan, is_zero. rewrite Ha, Hb. cbn [orb].
  destruct (nm b =? 0) eqn:E; [lia|]. cbv zeta.
  set (fl := is_float (nk a) || is_float (nk b)).
  set (d1 := is_dec (nk a) && negb fl). set (d2 := is_dec (nk b) && negb fl).
  f_equal. apply (idiv_patch_quot _ _ d1 d2). apply scaled_nonzero. exact Hz.
Qed.

Lemma mod_finite : forall v1 a b, nc a = Fin -> nc b = Fin -> nm b <> 0 ->
  res_scaled (mod_ v1 a b) = Some (Z.rem (scaled a (scale_e a b)) (scaled b (scale_e a b))) /\
  (forall v, mod_ v1 a b = Val v -> nk v = promote (nk a) (nk b) /\ (nc v = Fin -> ne v = scale_e a b)).
Proof.
  intros v1 a b Ha Hb Hz. unfold mod_, is_inf, is_nan, is_zero. rewrite Ha, Hb.
  destruct (nm b =? 0) eqn:E; [lia|]. cbn [andb orb negb]. cbv zeta.
  pose proof (scaled_nonzero a b Hz) as Hs.
  destruct (is_float (promote (nk a) (nk b))) eqn:F.
  - destruct ((Z.rem (scaled a (scale_e a b)) (scaled b (scale_e a b)) =? 0) && negative a) eqn:G.
    + apply andb_true_iff in G. destruct G as (G & _). split.
      * cbn. f_equal. lia.
      * intros v Hv. injection Hv as <-. cbn. split; [reflexivity|discriminate].
    + split; [reflexivity|]. intros v Hv. injection Hv as <-. cbn. auto.
  - destruct (is_dec (promote (nk a) (nk b))) eqn:D.
    + split; [reflexivity|]. intros v Hv. injection Hv as <-. cbn. auto.
    + split.
      * cbn. rewrite mod_int_kernel_rem; auto.
      * intros v Hv. injection Hv as <-. cbn. split; auto.
        destruct (nk a), (nk b); cbn in *; try discriminate; reflexivity.
Qed.

Lemma div_zero_eq_spec : forall a b, div_zero a b = div_zero_spec a b.
Proof.
  intros a b. unfold div_zero, div_zero_spec.
  destruct (nk a), (nk b); cbn [andb promote]; try reflexivity;
    destruct (is_nan a), (is_zero a), (negative a), (negative b); reflexivity.
Qed.
Lemma div_zero_old_eq_spec : forall a b,
  res_cls (div_zero_old a b) = res_cls (div_zero_spec a b) /\ res_err (div_zero_old a b) = res_err (div_zero_spec a b) /\
  (promote (nk a) (nk b) <> KFlt -> div_zero_old a b = div_zero_spec a b).
Proof.
  intros a b. unfold div_zero_old, div_zero_spec.
  destruct (nk a), (nk b); cbn [andb promote]; try (repeat split; reflexivity);
    destruct (is_nan a), (is_zero a), (negative a), (negative b); cbn; repeat split; try reflexivity;
    intros H; try reflexivity; exfalso; apply H; reflexivity.
Qed.

Lemma quot_rem_scaled : forall x y, y <> 0 -> x = Z.quot x y * y + Z.rem x y.
Proof. intros. pose proof (Z.quot_rem' x y). lia. Qed.

(* ---- mod / idiv on special values and zero divisors (XPath 2.0+) ---- *)
(* operands as they can occur: only float / double carry a non-finite class *)
Definition wf_num (x : num) : bool := match nc x with Fin => true | _ => is_float (nk x) && (nm x =? 0) end.
Definition special_pair (a b : num) : bool :=
  negb (match nc a, nc b with Fin, Fin => true | _, _ => false end) || is_zero b.
Definition res_val (r : res) : option (Z * Z) :=
  match r with Val v => match nc v with Fin => Some (nm v, ne v) | _ => None end | Err _ => None end.
Definition res_kind (r : res) : option kind := match r with Val v => Some (nk v) | Err _ => None end.
Lemma mod_special_eq_spec : forall a b, wf_num a = true -> wf_num b = true -> special_pair a b = true ->
  res_cls (mod_ false a b) = res_cls (mod_special_spec a b) /\ res_err (mod_ false a b) = res_err (mod_special_spec a b) /\
  res_val (mod_ false a b) = res_val (mod_special_spec a b) /\ res_kind (mod_ false a b) = res_kind (mod_special_spec a b).
Proof.
  intros [ka ca ma ea] [kb cb mb eb] Wa Wb S.
  unfold wf_num, special_pair, mod_, mod_special_spec, is_zero, is_inf, is_nan, negative in *. cbn [nk nc nm ne] in *.
  destruct ka, kb, ca, cb; cbn in Wa, Wb, S |- *; try discriminate; auto;
    try (destruct (mb =? 0) eqn:E; cbn in S |- *; try discriminate; auto);
    try (destruct (ma =? 0) eqn:E2; cbn; auto; try discriminate);
    try (apply Z.eqb_eq in E2; subst ma; unfold scaled; cbn [nm]; rewrite Z.mul_0_l; cbn; auto).
Qed.
Lemma idiv_special_eq_spec : forall a b, wf_num a = true -> wf_num b = true -> special_pair a b = true ->
  match idiv_special_spec a b with
  | Some r => idiv a b = r
  | None => exists c, idiv a b = Err c
  end.
Proof.
  intros [ka ca ma ea] [kb cb mb eb] Wa Wb S.
  unfold wf_num, special_pair, idiv, idiv_special_spec, is_zero, is_inf, is_nan in *. cbn [nk nc nm ne] in *.
  destruct ka, kb, ca, cb; cbn in Wa, Wb, S |- *; try discriminate; eauto;
    try (destruct (mb =? 0) eqn:E; cbn in S |- *; try discriminate; eauto);
    try (apply Z.eqb_eq in Wa; subst ma; unfold scaled, idiv_patch; cbn [nm]; rewrite Z.mul_0_l; cbn; reflexivity).
Qed.
