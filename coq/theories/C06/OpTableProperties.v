(* C06 property theorems: the arithmetic operator mapping *)
From Coq Require Import ZArith List Bool.
From EP Require Import C06.OpTable.
Import ListNotations.

(* with a non-numeric operand the structured decision is exactly the table B.2, row by row *)
Theorem C06_operator_mapping_rows : forall o a b, (is_num a && is_num b) = false -> optype o a b = row_lookup o a b.
Proof. intros o a b. destruct o, a, b; intros H; try discriminate H; reflexivity. Qed.
Print Assumptions C06_operator_mapping_rows.
(* numeric operands: every operator is defined, the result type is the promoted type (idiv: xs:integer; div of two
   integers: xs:decimal), and promotion is symmetric *)
Theorem C06_operator_mapping_numeric : forall o a b, is_num a = true -> is_num b = true ->
  exists t, optype o a b = Some t /\ is_num t = true /\ optype o b a = Some t.
Proof.
  intros o a b Ha Hb. destruct o, a, b; try discriminate Ha; try discriminate Hb; eexists; repeat split; reflexivity.
Qed.
Print Assumptions C06_operator_mapping_numeric.
(* + and * are symmetric in the operand types *)
Theorem C06_operator_mapping_symmetry : forall a b, optype OAdd a b = optype OAdd b a /\ optype OMul a b = optype OMul b a.
Proof. intros a b. destruct a, b; split; reflexivity. Qed.
Print Assumptions C06_operator_mapping_symmetry.
(* booleans, strings, QNames, binaries, xs:gYear and xs:duration take part in no arithmetic *)
Theorem C06_operator_mapping_excluded : forall o a b,
  In a [AStr; AUri; ABool; AQName; AGYear; ADur; AHex; AB64] \/ In b [AStr; AUri; ABool; AQName; AGYear; ADur; AHex; AB64] ->
  optype o a b = None.
Proof.
  intros o a b [H|H]; cbn in H; repeat (destruct H as [<-|H]; [destruct o; try (destruct a); try (destruct b); reflexivity|]); destruct H.
Qed.
Print Assumptions C06_operator_mapping_excluded.
Example C06_optable_nonvacuous :
  optype OSub ADate ADate = Some ADT /\ optype OAdd ADT ADateTime = Some ADateTime /\ optype ODiv AInt AInt = Some ADec /\
  optype OIdiv ADbl AUnt = Some AInt /\ optype OMul AYM AFlt = Some AYM /\ optype OSub ADate ADateTime = None /\
  optype OIdiv ABool AInt = None.
Proof. repeat split; reflexivity. Qed.
