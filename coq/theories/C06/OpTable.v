(* C06: the arithmetic operator mapping of XPath 2.0+ (F&O B.2) over operand types: which of + - * div idiv mod is
   defined for a pair of atomic types, and the type of the result; everything else is XPTY0004.
   optype is the structured decision (numeric promotion, xs:untypedAtomic cast to xs:double, the date / time /
   duration rows); rows is the table of B.2 transcribed row by row for the non-numeric operands.  The implementation
   (the operator tokens plus the arithmetic dunder methods of the datatypes) is tied to optype by correspondence. *)
From Coq Require Import ZArith List Bool.
Import ListNotations.

Inductive aty := AInt | ADec | ADbl | AFlt | AUnt | AStr | AUri | ABool | AQName | ADate | ADateTime | ATime | AGYear
               | ADur | AYM | ADT | AHex | AB64.
Inductive aop := OAdd | OSub | OMul | ODiv | OIdiv | OMod.

Definition aty_eqb (a b : aty) : bool :=
  match a, b with
  | AInt, AInt | ADec, ADec | ADbl, ADbl | AFlt, AFlt | AUnt, AUnt | AStr, AStr | AUri, AUri | ABool, ABool | AQName, AQName
  | ADate, ADate | ADateTime, ADateTime | ATime, ATime | AGYear, AGYear | ADur, ADur | AYM, AYM | ADT, ADT | AHex, AHex
  | AB64, AB64 => true
  | _, _ => false
  end.
Definition aop_eqb (a b : aop) : bool :=
  match a, b with OAdd, OAdd | OSub, OSub | OMul, OMul | ODiv, ODiv | OIdiv, OIdiv | OMod, OMod => true | _, _ => false end.

(* numeric operands: xs:untypedAtomic is cast to xs:double *)
Definition nrank (a : aty) : option nat :=
  match a with AInt => Some 0 | ADec => Some 1 | AFlt => Some 2 | ADbl | AUnt => Some 3 | _ => None end.
Definition of_rank (n : nat) : aty := match n with 0 => AInt | 1 => ADec | 2 => AFlt | _ => ADbl end.
Definition numeric_result (o : aop) (a b : aty) : option aty :=
  match nrank a, nrank b with
  | Some x, Some y =>
    let t := of_rank (Nat.max x y) in
    Some (match o with
          | OIdiv => AInt
          | ODiv => match t with AInt => ADec | _ => t end
          | _ => t
          end)
  | _, _ => None
  end.
Definition is_num (a : aty) : bool := match nrank a with Some _ => true | None => false end.

Definition optype (o : aop) (a b : aty) : option aty :=
  if is_num a && is_num b then numeric_result o a b
  else match o, a, b with
       | OAdd, (ADate | ADateTime), (AYM | ADT) => Some a
       | OAdd, (AYM | ADT), (ADate | ADateTime) => Some b
       | OAdd, ATime, ADT => Some ATime
       | OAdd, ADT, ATime => Some ATime
       | OAdd, AYM, AYM => Some AYM
       | OAdd, ADT, ADT => Some ADT
       | OSub, (ADate | ADateTime), (AYM | ADT) => Some a
       | OSub, ATime, ADT => Some ATime
       | OSub, ADate, ADate | OSub, ADateTime, ADateTime | OSub, ATime, ATime => Some ADT
       | OSub, AYM, AYM => Some AYM
       | OSub, ADT, ADT => Some ADT
       | OMul, (AYM | ADT), _ => if is_num b then Some a else None
       | OMul, _, (AYM | ADT) => if is_num a then Some b else None
       | ODiv, AYM, AYM | ODiv, ADT, ADT => Some ADec
       | ODiv, (AYM | ADT), _ => if is_num b then Some a else None
       | _, _, _ => None
       end.

(* F&O B.2, the rows with a non-numeric operand; Num stands for the five numeric operand types *)
Definition nums : list aty := [AInt; ADec; ADbl; AFlt; AUnt].
Definition rows : list (aop * aty * aty * aty) :=
  [ (OAdd, ADate, AYM, ADate); (OAdd, AYM, ADate, ADate); (OAdd, ADate, ADT, ADate); (OAdd, ADT, ADate, ADate);
    (OAdd, ATime, ADT, ATime); (OAdd, ADT, ATime, ATime);
    (OAdd, ADateTime, AYM, ADateTime); (OAdd, AYM, ADateTime, ADateTime);
    (OAdd, ADateTime, ADT, ADateTime); (OAdd, ADT, ADateTime, ADateTime);
    (OAdd, AYM, AYM, AYM); (OAdd, ADT, ADT, ADT);
    (OSub, ADate, ADate, ADT); (OSub, ADate, AYM, ADate); (OSub, ADate, ADT, ADate);
    (OSub, ATime, ATime, ADT); (OSub, ATime, ADT, ATime);
    (OSub, ADateTime, ADateTime, ADT); (OSub, ADateTime, AYM, ADateTime); (OSub, ADateTime, ADT, ADateTime);
    (OSub, AYM, AYM, AYM); (OSub, ADT, ADT, ADT);
    (ODiv, AYM, AYM, ADec); (ODiv, ADT, ADT, ADec) ]
  ++ flat_map (fun n => [ (OMul, AYM, n, AYM); (OMul, n, AYM, AYM); (OMul, ADT, n, ADT); (OMul, n, ADT, ADT);
                          (ODiv, AYM, n, AYM); (ODiv, ADT, n, ADT) ]) nums.
Definition row_lookup (o : aop) (a b : aty) : option aty :=
  match filter (fun r => aop_eqb (fst (fst (fst r))) o && aty_eqb (snd (fst (fst r))) a && aty_eqb (snd (fst r)) b) rows with
  | r :: _ => Some (snd r)
  | [] => None
  end.
Definition all_aty : list aty := [AInt; ADec; ADbl; AFlt; AUnt; AStr; AUri; ABool; AQName; ADate; ADateTime; ATime; AGYear; ADur; AYM; ADT; AHex; AB64].
Definition all_aop : list aop := [OAdd; OSub; OMul; ODiv; OIdiv; OMod].

(* correspondence entry point: -1 = XPTY0004, otherwise the index of the result type in all_aty *)
Fixpoint aty_index (t : aty) (l : list aty) (k : Z) : Z :=
  match l with [] => -1 | x :: r => if aty_eqb x t then k else aty_index t r (k + 1) end.
Definition run_op (o a b : Z) : Z :=
  match optype (nth (Z.to_nat o) all_aop OAdd) (nth (Z.to_nat a) all_aty AInt) (nth (Z.to_nat b) all_aty AInt) with
  | None => -1
  | Some t => aty_index t all_aty 0
  end.
