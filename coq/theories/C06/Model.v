(* C06 model: numeric operators and rounding functions on exact values.
   A finite numeric value of any of the four types is an exact rational m * 10^e (for xs:double /
   xs:float the harness passes the exact decimal expansion of the binary value).
   Mirrors: _xpath1_operators.py evaluate__div_operator (170-205) / evaluate__mod_operator (208-236),
   _xpath2_operators.py evaluate__idiv_operator (641-668), _xpath1_functions.py floor/ceiling/round
   (465-532), _xpath2_functions.py round-half-to-even / abs (354-411), _xpath30_functions.py round (1787-),
   base.py get_operands promotions (586-635).  The integer kernels come from Gen/C06Kernels.v,
   re-translated from the source on every run.  NO proofs here. *)
From Coq Require Import ZArith List Bool.
From EP Require Import Gen.C06Kernels.
Import ListNotations.
Open Scope Z_scope.

Inductive kind := KInt | KDec | KFlt | KDbl.
(* special classes of float/double operands *)
Inductive cls := Fin | NaN | PInf | NInf | NegZero.
Record num := mk { nk : kind; nc : cls; nm : Z; ne : Z }.   (* Fin: value nm * 10^ne *)

Inductive err := FOAR0001 | FOAR0002.
Inductive res := Val (v : num) | Err (c : err).

Definition is_float (k : kind) : bool := match k with KFlt | KDbl => true | _ => false end.
Definition is_dec (k : kind) : bool := match k with KDec => true | _ => false end.

(* get_operands + Python operator dispatch: result type of a binary arithmetic operator *)
Definition promote (a b : kind) : kind :=
  match a, b with
  | KDbl, _ | _, KDbl => KDbl
  | KFlt, _ | _, KFlt => KFlt
  | KDec, _ | _, KDec => KDec
  | KInt, KInt => KInt
  end.

(* common scale: both operands as integers in units of 10^e *)
Definition scale_e (a b : num) : Z := Z.min (ne a) (ne b).
Definition scaled (x : num) (e : Z) : Z := nm x * 10 ^ (ne x - e).

Definition is_zero (x : num) : bool :=
  match nc x with Fin => nm x =? 0 | NegZero => true | _ => false end.
Definition is_inf (x : num) : bool := match nc x with PInf | NInf => true | _ => false end.
Definition is_nan (x : num) : bool := match nc x with NaN => true | _ => false end.
Definition special (k : kind) (c : cls) : res := Val (mk k c 0 0).
Definition int_val (z : Z) : res := Val (mk KInt Fin z 0).
Definition negative (x : num) : bool :=
  match nc x with Fin => nm x <? 0 | NInf | NegZero => true | _ => false end.

(* ---- idiv ---- *)
Definition idiv (a b : num) : res :=
  if is_inf a then Err (if is_zero b then FOAR0001 else FOAR0002)
  else if is_nan a || is_nan b then Err FOAR0002
  else if is_zero b then Err FOAR0001                       (* ZeroDivisionError / DivisionByZero *)
  else if is_inf b then int_val 0                            (* floor(-0.0)=-1.0 patched, or 0.0 *)
  else
    let e := scale_e a b in
    let x := scaled a e in let y := scaled b e in
    let fl := is_float (nk a) || is_float (nk b) in       (* get_operands turned Decimals into floats *)
    let dec1 := is_dec (nk a) && negb fl in let dec2 := is_dec (nk b) && negb fl in
    (* result = op1 // op2 : floor for int and float operands;
       modelled external: decimal.Decimal.__floordiv__ / __rfloordiv__ truncate *)
    let result := if dec1 || dec2 then Z.quot x y else x / y in
    int_val (idiv_patch x y result dec1 dec2).

(* ---- mod ---- *)
Definition mod_ (v1 : bool) (a b : num) : res :=
  let k := promote (nk a) (nk b) in
  (* get_operands has already turned a Decimal operand into a float when the other one is a float *)
  if is_zero b && (is_float (nk b) || is_float (nk a)) then special k NaN   (* Float(math.nan) or math.nan: the promoted kind *)
  else if is_inf b && negb (is_inf a) && negb (is_zero a) && negb (is_nan a)
       then (if v1 then special KDbl NaN
             else Val (mk k (nc a) (nm a) (ne a)))   (* "op1 = type(op2)(op1)": promoted to the result type *)
  else if is_nan a || is_nan b || is_inf a then special k NaN (* Python float % gives nan *)
  else if is_inf b then Val (mk k (nc a) (nm a) (ne a))        (* 0 % inf *)
  else if is_zero b then Err FOAR0001
  else
    let e := scale_e a b in
    let x := scaled a e in let y := scaled b e in
    if is_float k then
      (* math.fmod: exact remainder with the sign of the dividend; a zero result keeps that sign *)
      let r := Z.rem x y in
      if (r =? 0) && negative a then special k NegZero else Val (mk k Fin r e)
    else if is_dec k then Val (mk k Fin (Z.rem x y) e)   (* modelled external: Decimal.__mod__ *)
    else Val (mk KInt Fin (mod_int_kernel x y) e).

(* ---- div by zero (the "divisor == 0" arm of evaluate__div_operator), XPath 2.0+ ---- *)
(* the result is computed as a plain Python float and wrapped in Float when an operand is an xs:float and the other one
   is not a plain float: that is the promoted kind, which is a float kind here *)
Definition div_zero (a b : num) : res :=
  let exactk k := match k with KInt | KDec => true | _ => false end in
  let k := promote (nk a) (nk b) in
  if exactk (nk a) && exactk (nk b) then Err FOAR0001
  else if is_nan a then special k NaN
  else if is_zero a then special k NaN
  else if negb (negative a)
       then special k (if negative b then NInf else PInf)
       else special k (if negative b then PInf else NInf).
(* the arm as it was before the repair: always a plain Python float (xs:double) *)
Definition div_zero_old (a b : num) : res :=
  let exactk k := match k with KInt | KDec => true | _ => false end in
  if exactk (nk a) && exactk (nk b) then Err FOAR0001
  else if is_nan a then special KDbl NaN
  else if is_zero a then special KDbl NaN
  else if negb (negative a)
       then special KDbl (if negative b then NInf else PInf)
       else special KDbl (if negative b then PInf else NInf).

(* ---- exact + - * on int / decimal ---- *)
Definition arith (op : Z) (a b : num) : res :=
  let k := promote (nk a) (nk b) in
  let e := scale_e a b in
  let x := scaled a e in let y := scaled b e in
  match op with
  | 0 => Val (mk k Fin (x + y) e)
  | 1 => Val (mk k Fin (x - y) e)
  | _ => Val (mk k Fin (nm a * nm b) (ne a + ne b))
  end.

(* ---- rounding functions on a finite value m / d (d = 10^-e > 0 when e < 0) ---- *)
(* Decimal.quantize(Decimal('1'), ROUND_HALF_UP / ROUND_HALF_DOWN): round the magnitude, keep the sign *)
Definition quantize_half (up : bool) (m d : Z) : Z :=
  let q := Z.abs m / d in let r := Z.abs m mod d in
  let q' := if (if up then 2 * r >=? d else 2 * r >? d) then q + 1 else q in
  if m <? 0 then - q' else q'.
(* fn:round: "if number > 0: ROUND_HALF_UP else: ROUND_HALF_DOWN" *)
Definition round_md (m d : Z) : Z := quantize_half (m >? 0) m d.
(* round(x, 0) / Decimal ROUND_HALF_EVEN *)
Definition round_half_even_md (m d : Z) : Z :=
  let q := m / d in let r := m mod d in
  if 2 * r <? d then q else if 2 * r >? d then q + 1 else if Z.even q then q else q + 1.
Definition floor_md (m d : Z) : Z := m / d.          (* math.floor *)
Definition ceil_md (m d : Z) : Z := - ((- m) / d).   (* math.ceil *)

(* specification side *)
Definition round_spec (m d : Z) : Z := (2 * m + d) / (2 * d).   (* floor(x + 1/2) *)

(* F&O op:numeric-mod on special values / zero divisor (XPath 2.0+): NaN if either operand is NaN, the dividend is
   infinite or the divisor is zero (float / double after promotion); the dividend if the divisor is infinite;
   FOAR0001 for a zero divisor on exact operands *)
Definition mod_special_spec (a b : num) : res :=
  let k := promote (nk a) (nk b) in
  if is_float k then
    if is_nan a || is_nan b || is_inf a || is_zero b then special k NaN
    else Val (mk k (nc a) (nm a) (ne a))
  else Err FOAR0001.
(* F&O op:numeric-integer-divide: FOAR0001 for a zero divisor, FOAR0002 for NaN operands or an infinite dividend
   (both apply to INF idiv 0: either code is accepted, None), 0 for a finite dividend and an infinite divisor *)
Definition idiv_special_spec (a b : num) : option res :=
  let bad := is_nan a || is_nan b || is_inf a in
  if is_zero b then (if bad then None else Some (Err FOAR0001))
  else if bad then Some (Err FOAR0002) else Some (int_val 0).

(* F&O: division by zero *)
Definition div_zero_spec (a b : num) : res :=
  match nk a, nk b with
  | (KInt | KDec), (KInt | KDec) => Err FOAR0001
  | _, _ => let k := promote (nk a) (nk b) in
            if is_nan a || is_zero a then special k NaN
            else special k (if xorb (negative a) (negative b) then NInf else PInf)
  end.
Definition res_cls (r : res) : option cls := match r with Val v => Some (nc v) | Err _ => None end.
Definition res_err (r : res) : option err := match r with Val _ => None | Err c => Some c end.
(* the integer (in units of 10^e) carried by a finite result; negative zero counts as 0 *)
Definition res_scaled (r : res) : option Z :=
  match r with
  | Val v => match nc v with Fin => Some (nm v) | NegZero => Some 0 | _ => None end
  | Err _ => None
  end.
