(* C06 property theorems (statements only; proofs are `exact`/short compositions of Proofs.v lemmas). *)
From Coq Require Import ZArith List Bool.
From EP Require Import Gen.C06Kernels C06.Model C06.Proofs.
Open Scope Z_scope.

(* idiv truncates toward zero: all four numeric types, all finite operands (values m*10^e, any exponents) *)
Theorem C06_idiv_truncates : forall a b, nc a = Fin -> nc b = Fin -> nm b <> 0 ->
  idiv a b = int_val (Z.quot (scaled a (scale_e a b)) (scaled b (scale_e a b))).
Proof. exact idiv_finite. Qed.
Print Assumptions C06_idiv_truncates.

(* mod is the truncated-division remainder (sign of the dividend), of the promoted type *)
Theorem C06_mod_sign_of_dividend : forall v1 a b, nc a = Fin -> nc b = Fin -> nm b <> 0 ->
  res_scaled (mod_ v1 a b) = Some (Z.rem (scaled a (scale_e a b)) (scaled b (scale_e a b))) /\
  (forall v, mod_ v1 a b = Val v -> nk v = promote (nk a) (nk b) /\ (nc v = Fin -> ne v = scale_e a b)).
Proof. exact mod_finite. Qed.
Print Assumptions C06_mod_sign_of_dividend.

(* a = (a idiv b) * b + (a mod b), in units of the common scale 10^e *)
Theorem C06_div_mod_identity : forall v1 a b, nc a = Fin -> nc b = Fin -> nm b <> 0 ->
  exists q r, idiv a b = int_val q /\ res_scaled (mod_ v1 a b) = Some r /\
              scaled a (scale_e a b) = q * scaled b (scale_e a b) + r.
Proof.
  intros v1 a b Ha Hb Hz. eexists. eexists. split; [exact (idiv_finite a b Ha Hb Hz)|].
  split; [exact (proj1 (mod_finite v1 a b Ha Hb Hz))|].
  exact (quot_rem_scaled _ _ (scaled_nonzero a b Hz)).
Qed.
Print Assumptions C06_div_mod_identity.

(* the regenerated integer kernels themselves *)
Theorem C06_int_kernels : forall a b, b <> 0 ->
  idiv_patch a b (a / b) false false = Z.quot a b /\ mod_int_kernel a b = Z.rem a b.
Proof. intros a b Hb. split; [exact (idiv_patch_quot a b false false Hb)|exact (mod_int_kernel_rem a b Hb)]. Qed.
Print Assumptions C06_int_kernels.

(* division by zero: FOAR0001 for integer/decimal, +-INF / NaN by sign for float/double (incl. -0.0), in the promoted
   type (value AND result type) *)
Theorem C06_div_by_zero : forall a b, div_zero a b = div_zero_spec a b.
Proof. exact div_zero_eq_spec. Qed.
Print Assumptions C06_div_by_zero.
(* before the repair the code returned a plain Python float (xs:double) where F&O prescribes xs:float: same error /
   same special value always, same type unless the promoted type is xs:float *)
Theorem C06_div_by_zero_old_partial : forall a b,
  res_cls (div_zero_old a b) = res_cls (div_zero_spec a b) /\ res_err (div_zero_old a b) = res_err (div_zero_spec a b) /\
  (promote (nk a) (nk b) <> KFlt -> div_zero_old a b = div_zero_spec a b).
Proof. exact div_zero_old_eq_spec. Qed.
Print Assumptions C06_div_by_zero_old_partial.
Theorem C06_div_by_zero_old_type_refuted : exists a b, div_zero_old a b <> div_zero_spec a b.
Proof. exists (mk KFlt Fin 1 0), (mk KFlt Fin 0 0). vm_compute. discriminate. Qed.
Print Assumptions C06_div_by_zero_old_type_refuted.

(* fn:round(x) = floor(x + 1/2) for every rational m/d *)
Theorem C06_round : forall m d, 0 < d -> round_md m d = round_spec m d.
Proof. exact round_md_spec. Qed.
Print Assumptions C06_round.
Theorem C06_floor_ceiling : forall m d, 0 < d ->
  (d * floor_md m d <= m < d * (floor_md m d + 1)) /\ (d * (ceil_md m d - 1) < m <= d * ceil_md m d).
Proof. intros m d Hd. split; [exact (floor_md_spec m d Hd)|exact (ceil_md_spec m d Hd)]. Qed.
Print Assumptions C06_floor_ceiling.
Theorem C06_round_half_to_even : forall m d, 0 < d ->
  let r := round_half_even_md m d in
  2 * Z.abs (r * d - m) <= d /\ (2 * Z.abs (r * d - m) = d -> Z.even r = true).
Proof. exact round_half_even_spec. Qed.
Print Assumptions C06_round_half_to_even.

Example C06_nonvacuous :
  idiv (mk KInt Fin (-6) 0) (mk KInt Fin 2 0) = int_val (-3) /\
  idiv (mk KInt Fin 7 0) (mk KDec Fin (-25) (-1)) = int_val (-2) /\
  res_scaled (mod_ false (mk KDbl Fin (-65) (-1)) (mk KInt Fin 4 0)) = Some (-25) /\
  round_md (-25) 10 = -2 /\ round_md 25 10 = 3 /\ round_half_even_md 25 10 = 2.
Proof. vm_compute. repeat split; reflexivity. Qed.

(* mod and idiv on NaN / INF / -0.0 operands and zero divisors (XPath 2.0+): the F&O special-value rules: class, error,
   finite value and result type (the promoted type, xs:float NaN included) *)
Theorem C06_mod_special_values : forall a b, wf_num a = true -> wf_num b = true -> special_pair a b = true ->
  res_cls (mod_ false a b) = res_cls (mod_special_spec a b) /\ res_err (mod_ false a b) = res_err (mod_special_spec a b) /\
  res_val (mod_ false a b) = res_val (mod_special_spec a b) /\ res_kind (mod_ false a b) = res_kind (mod_special_spec a b).
Proof. exact mod_special_eq_spec. Qed.
Print Assumptions C06_mod_special_values.
Theorem C06_idiv_special_values : forall a b, wf_num a = true -> wf_num b = true -> special_pair a b = true ->
  match idiv_special_spec a b with Some r => idiv a b = r | None => exists c, idiv a b = Err c end.
Proof. exact idiv_special_eq_spec. Qed.
Print Assumptions C06_idiv_special_values.
