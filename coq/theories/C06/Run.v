(* C06 runner adaptors *)
From Coq Require Import ZArith List Bool.
From EP Require Import Gen.C06Kernels C06.Model.
Import ListNotations.
Open Scope Z_scope.

Definition kind_of (z : Z) : kind := match z with 0 => KInt | 1 => KDec | 2 => KFlt | _ => KDbl end.
Definition cls_of (z : Z) : cls := match z with 0 => Fin | 1 => NaN | 2 => PInf | 3 => NInf | _ => NegZero end.
Definition kind_z (k : kind) : Z := match k with KInt => 0 | KDec => 1 | KFlt => 2 | KDbl => 3 end.
Definition cls_z (c : cls) : Z := match c with Fin => 0 | NaN => 1 | PInf => 2 | NInf => 3 | NegZero => 4 end.
Definition NUM (k c m e : Z) : num := mk (kind_of k) (cls_of c) m e.
Definition enc (r : res) : list Z :=
  match r with
  | Val v => [0; kind_z (nk v); cls_z (nc v); nm v; ne v]
  | Err FOAR0001 => [1; 1]
  | Err FOAR0002 => [1; 2]
  end.

(* binary operators: 0 + | 1 - | 2 * | 3 idiv | 4 mod (2.0+) | 5 mod (1.0) | 6 div with zero divisor;
   second component: the specification's answer *)
Definition spec_bin (op : Z) (a b : num) : res :=
  let e := scale_e a b in
  match op with
  | 3 => int_val (Z.quot (scaled a e) (scaled b e))
  | 4 | 5 => let k := promote (nk a) (nk b) in let r := Z.rem (scaled a e) (scaled b e) in
             if is_float k && (r =? 0) && negative a then special k NegZero else Val (mk k Fin r e)
  | 6 => div_zero_spec a b
  | _ => arith op a b
  end.
Definition run_bin (op : Z) (a b : num) : list Z * list Z :=
  (enc (match op with
        | 3 => idiv a b | 4 => mod_ false a b | 5 => mod_ true a b | 6 => div_zero a b
        | _ => arith op a b end),
   (let special := negb (match nc a, nc b with Fin, Fin => true | _, _ => false end) || is_zero b in
    if special && (op =? 3) then match idiv_special_spec a b with Some r => enc r | None => [1; 3] end
    else if special && (op =? 4) then enc (mod_special_spec a b)
    else if special && (op =? 5) then [1; 9] (* XPath 1.0 on special values: not specified by F&O; ignored by the harness *)
    else enc (spec_bin op a b))).

(* unary functions on a finite value: 0 round | 1 floor | 2 ceiling | 3 abs | 4 round-half-to-even(p) | 5 round(p) *)
Definition md (a : num) (p : Z) : Z * Z :=          (* a * 10^p as a fraction m / d *)
  let e := ne a + p in if e <? 0 then (nm a, 10 ^ (- e)) else (nm a * 10 ^ e, 1).
Definition run_un (f : Z) (a : num) (p : Z) : list Z * list Z :=
  let '(m, d) := md a (if (f =? 4) || (f =? 5) then p else 0) in
  let model := match f with
               | 0 | 5 => round_md m d | 1 => floor_md m d | 2 => ceil_md m d
               | 3 => Z.abs m | _ => round_half_even_md m d end in
  let spec := match f with
              | 0 | 5 => round_spec m d | 1 => floor_md m d | 2 => ceil_md m d
              | 3 => Z.abs m | _ => round_half_even_md m d end in
  (* result value = model * 10^-p (abs keeps the fraction: model / d) *)
  (* third component: 1 when the result is the negative zero of xs:float / xs:double (math.copysign(result, arg) in
     floor / ceiling, the sign kept by round): a zero result of a negative argument, except for abs *)
  let nz := fun r => if is_float (nk a) && (r =? 0) && negative a && negb (f =? 3) then 1 else 0 in
  ([model; if f =? 3 then d else 1; nz model], [spec; if f =? 3 then d else 1; nz spec]).
