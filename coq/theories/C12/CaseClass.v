(* C12: character classes under the i flag (F&O 5.6.2): a character of the input matches a character of the pattern when
   the two are case variants of each other; category escapes and multi-character escapes are not affected.
   A class expression: a positive group of literal code points and of escape sets, a negative group, a subtraction.
   spec: the definition read on the input character; impl: what the code does - it closes the literal part of every group
   under the case variants, then works with plain sets.  NO proofs here. *)
From Coq Require Import ZArith List Bool.
Import ListNotations.
Open Scope Z_scope.

Definition mem (x : Z) (l : list Z) : bool := existsb (Z.eqb x) l.
Inductive cclass :=
| Group (lits : list Z) (escapes : list (list Z))     (* [abc\p{..}] : literal characters, sets of the escapes *)
| Neg (c : cclass)                                     (* [^...] *)
| Sub (c d : cclass).                                  (* [...-[...]] *)

Section WithVariants.
Variable variants : Z -> list Z.      (* the other code points with the same lower case or upper case mapping *)

(* F&O: the input character d matches a literal c if c = d or they are case variants *)
Fixpoint spec_i (c : cclass) (d : Z) : bool :=
  match c with
  | Group lits escapes => existsb (fun c => (c =? d) || mem d (variants c)) lits || existsb (mem d) escapes
  | Neg c => negb (spec_i c d)
  | Sub a b => spec_i a d && negb (spec_i b d)
  end.
(* the code: the set of a group is its literals, their variants, and the escape sets; then set operations *)
Definition closure (lits : list Z) : list Z := lits ++ flat_map variants lits.
Fixpoint impl_i (c : cclass) (d : Z) : bool :=
  match c with
  | Group lits escapes => mem d (closure lits) || existsb (mem d) escapes
  | Neg c => negb (impl_i c d)
  | Sub a b => impl_i a d && negb (impl_i b d)
  end.
(* before the repair: the whole class was matched case-insensitively by the regex engine - escapes included *)
Fixpoint old_i (c : cclass) (d : Z) : bool :=
  match c with
  | Group lits escapes => let all := lits ++ concat escapes in mem d (closure all)
  | Neg c => negb (old_i c d)
  | Sub a b => old_i a d && negb (old_i b d)
  end.
(* without the flag *)
Fixpoint plain (c : cclass) (d : Z) : bool :=
  match c with
  | Group lits escapes => mem d lits || existsb (mem d) escapes
  | Neg c => negb (plain c d)
  | Sub a b => plain a d && negb (plain b d)
  end.
End WithVariants.
