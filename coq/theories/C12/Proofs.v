From Coq Require Import ZArith List Bool Arith Lia.
From EP Require Import C13.Model C13.Proofs C12.Regex C12.Classes C12.Model.
Import ListNotations.
Open Scope Z_scope.

Lemma cls_impl_spec : forall c, cls_ok c ->
  WFcc (cls_impl c) /\ forall x, cp x -> mem (cls_impl c) x = cls_spec c x.
Proof.
  fix IH 1. intros [ng ps sb] (Hps & Hsb). cbn [cls_impl cls_spec].
  destruct (build_ok ps Hps) as (W0 & D0).
  assert (B : WFcc (if ng then complement_cc (build ps) else build ps) /\
              forall x, cp x -> mem (if ng then complement_cc (build ps) else build ps) x =
                                (if ng then negb (spec_mem ps x) else spec_mem ps x)).
  { destruct ng.
    - destruct (complement_ok (build ps) W0) as (W1 & D1). split; auto. intros x Hx. rewrite (D1 x Hx), (D0 x Hx). reflexivity.
    - split; auto. }
  destruct B as (W1 & D1). destruct sb as [s|].
  - destruct (IH s Hsb) as (W2 & D2). destruct (isub_cc_ok _ _ W1 W2) as (W3 & D3). split; auto.
    intros x Hx. rewrite (D3 x Hx), (D1 x Hx), (D2 x Hx). reflexivity.
  - split; auto.
Qed.

Lemma part_okb_ok : forall p, part_okb p = true -> part_ok p.
Proof.
  intros [l|l]; cbn; intros H.
  - apply wfb_WF. exact H.
  - apply andb_true_iff in H. destruct H as (H1 & H2). split; [apply wfb_WF; exact H1|]. destruct l; [discriminate|congruence].
Qed.
Lemma cls_okb_ok : forall c, cls_okb c = true -> cls_ok c.
Proof.
  fix IH 1. intros [ng ps sb] H. cbn in H. apply andb_true_iff in H. destruct H as (H1 & H2). cbn. split.
  - apply Forall_forall. intros p Hp. apply part_okb_ok. rewrite forallb_forall in H1. apply H1. exact Hp.
  - destruct sb as [s|]; [apply IH; exact H2|exact I].
Qed.
Lemma rx_okb_ok : forall r, rx_okb r = true -> rx_ok r.
Proof.
  induction r; cbn; intros H; auto.
  - apply cls_okb_ok. exact H.
  - apply andb_true_iff in H. destruct H. split; auto.
  - apply andb_true_iff in H. destruct H. split; auto.
Qed.

(* regular expressions whose character sets agree pointwise have the same language *)
Inductive sim : re -> re -> Prop :=
| SNul : sim Nul Nul | SEps : sim Eps Eps
| SChr : forall p q, (forall x, p x = q x) -> sim (Chr p) (Chr q)
| SAlt : forall a b a' b', sim a a' -> sim b b' -> sim (Alt a b) (Alt a' b')
| SCat : forall a b a' b', sim a a' -> sim b b' -> sim (Cat a b) (Cat a' b')
| SStar : forall a a', sim a a' -> sim (Star a) (Star a').
Lemma sim_lang : forall r r', sim r r' -> forall s, lang r s -> lang r' s.
Proof.
  intros r r' S s L. revert r' S. induction L; intros r' S; inversion S; subst;
    try solve [constructor; auto
              | apply LAltR; auto
              | constructor; match goal with H : forall x, _ = _ |- _ => rewrite <- H end; assumption
              | constructor; auto; apply IHL2; constructor; assumption].
Qed.
Lemma sim_sym : forall r r', sim r r' -> sim r' r.
Proof. induction 1; constructor; auto. Qed.
Lemma sim_rep_exact : forall r r' n, sim r r' -> sim (rep_exact r n) (rep_exact r' n).
Proof. intros r r' n S. induction n; cbn; constructor; auto. Qed.
Lemma sim_rep_upto : forall r r' n, sim r r' -> sim (rep_upto r n) (rep_upto r' n).
Proof. intros r r' n S. induction n; cbn; repeat constructor; auto. Qed.
Lemma sim_quant : forall r r' n m, sim r r' -> sim (quant r n m) (quant r' n m).
Proof.
  intros r r' n [m|] S; cbn; constructor; auto using sim_rep_exact, sim_rep_upto. constructor. exact S.
Qed.

Lemma to_re_sim : forall dotall r, rx_ok r -> escapes_faithful r ->
  sim (to_re true (fun c => mem (cls_impl c)) dotall r) (to_re false cls_spec dotall r).
Proof.
  intros dotall. induction r; cbn [to_re rx_ok escapes_faithful]; intros H F; try (constructor; auto; fail).
  - constructor. intros x. rewrite F. reflexivity.
  - constructor. intros x. unfold in_cp. destruct ((0 <=? x) && (x <=? maxunicode)) eqn:E; cbn; auto.
    apply andb_true_iff in E. destruct E as (E1 & E2). apply Z.leb_le in E1. apply Z.leb_le in E2.
    destruct (cls_impl_spec c H) as (_ & D). apply D. unfold cp. lia.
  - destruct H, F. constructor; auto.
  - destruct H, F. constructor; auto.
  - apply sim_quant. auto.
Qed.

Lemma matches_sim : forall r r' s, sim r r' -> matches r s = matches r' s.
Proof.
  intros r r' s S. destruct (matches r s) eqn:E1, (matches r' s) eqn:E2; auto.
  - apply matches_lang in E1. apply (sim_lang _ _ S) in E1. apply matches_lang in E1. congruence.
  - apply matches_lang in E2. apply (sim_lang _ _ (sim_sym _ _ S)) in E2. apply matches_lang in E2. congruence.
Qed.

Lemma impl_matches_xsd : forall dotall a z r s, rx_ok r -> escapes_faithful r ->
  impl_matches dotall a z r s = xsd_matches dotall a z r s.
Proof.
  intros dotall a z r s H F. unfold impl_matches, xsd_matches. apply matches_sim.
  assert (S := to_re_sim dotall r H F). unfold wrap.
  assert (A : sim anychar anychar) by (constructor; reflexivity).
  destruct a, z; repeat constructor; auto.
Qed.

(* analyze-string: the parts concatenate to the input *)
Fixpoint spans_ok (pos : nat) (spans : list (nat * nat)) : Prop :=
  match spans with [] => True | (a, b) :: r => (pos <= a <= b)%nat /\ spans_ok b r end.
Lemma skipn_add : forall (A : Type) (n m : nat) (l : list A), skipn n (skipn m l) = skipn (n + m) l.
Proof.
  intros A n m. revert n. induction m as [|m IH]; intros n l.
  - rewrite Nat.add_0_r. reflexivity.
  - destruct l as [|x l]; [rewrite !skipn_nil; reflexivity|]. rewrite Nat.add_succ_r. cbn [skipn]. apply IH.
Qed.
Lemma cut_concat : forall spans s pos, spans_ok pos spans -> concat (map snd (cut s pos spans)) = s.
Proof.
  induction spans as [|[a b] r IH]; intros s pos H; cbn [cut map concat snd].
  - apply app_nil_r.
  - destruct H as (Hab & Hr). rewrite (IH _ _ Hr).
    replace (b - pos)%nat with ((b - a) + (a - pos))%nat by lia. rewrite <- skipn_add.
    rewrite (firstn_skipn (b - a) (skipn (a - pos) s)). apply firstn_skipn.
Qed.
(* tokenize returns the non-match parts, replace with "$0" puts the match parts back: both are projections of cut *)
Definition non_match_parts (s : list Z) (spans : list (nat * nat)) : list (list Z) :=
  map snd (filter (fun p => negb (fst p)) (cut s 0 spans)).
Definition replace_with_match (s : list Z) (spans : list (nat * nat)) : list Z := concat (map snd (cut s 0 spans)).
