(* C12 property theorems: the q flag *)
From Coq Require Import ZArith List Bool.
From EP Require Import C12.Regex C12.Literal.
Import ListNotations.
Open Scope Z_scope.

(* a literal pattern matches exactly itself - whatever characters it is made of (metacharacters, white space, '#') - so
   with the q flag fn:matches is the substring test and the matcher decides it *)
Theorem C12_literal_pattern : forall s t,
  (lang (lit s) t <-> t = s) /\ (matches (lit s) t = true <-> t = s) /\
  (occurs (lit s) t <-> exists a b, t = a ++ s ++ b).
Proof.
  intros s t. split; [apply lit_lang|]. split.
  - rewrite matches_lang. apply lit_lang.
  - split.
    + intros (a & m & b & E & L). apply lit_lang in L. subst m. exists a, b. exact E.
    + intros (a & b & E). exists a, s, b. split; [exact E|apply lit_lang; reflexivity].
Qed.
Print Assumptions C12_literal_pattern.
Example C12_literal_nonvacuous : matches (lit [97; 32; 35; 46]) [97; 32; 35; 46] = true /\ matches (lit [46]) [120] = false.
Proof. vm_compute. split; reflexivity. Qed.
