(* C12 runner for classes under the i flag: the variants relation comes as a table for the probed alphabet *)
From Coq Require Import ZArith List Bool.
From EP Require Import C12.CaseClass.
Import ListNotations.
Open Scope Z_scope.
Definition vtable (t : list (Z * list Z)) (c : Z) : list Z :=
  match find (fun p => fst p =? c) t with Some p => snd p | None => [] end.
(* per probe: (the code, the F&O definition, without the flag) *)
Definition run_case (t : list (Z * list Z)) (c : cclass) (ds : list Z) : list (Z * Z * Z) :=
  map (fun d => ((if impl_i (vtable t) c d then 1 else 0), (if spec_i (vtable t) c d then 1 else 0), (if plain c d then 1 else 0))) ds.
