From Coq Require Import ZArith List Bool Lia.
From EP Require Import C12.CaseClass.
Import ListNotations.
Open Scope Z_scope.

Lemma mem_app : forall x a b, mem x (a ++ b) = mem x a || mem x b.
Proof. intros. unfold mem. apply existsb_app. Qed.
Lemma mem_flat_map : forall (f : Z -> list Z) x l, mem x (flat_map f l) = existsb (fun c => mem x (f c)) l.
Proof.
  intros f x l. induction l as [|c r IH]; [reflexivity|]. cbn [flat_map existsb]. rewrite mem_app, IH. reflexivity.
Qed.
Lemma existsb_orb : forall (A : Type) (f g : A -> bool) l, existsb (fun c => f c || g c) l = existsb f l || existsb g l.
Proof.
  intros A f g l. induction l as [|c r IH]; [reflexivity|]. cbn [existsb]. rewrite IH.
  destruct (f c), (g c), (existsb f r), (existsb g r); reflexivity.
Qed.
Lemma existsb_ext : forall (A : Type) (f g : A -> bool) l, (forall x, f x = g x) -> existsb f l = existsb g l.
Proof. intros A f g l H. induction l as [|c r IH]; [reflexivity|]. cbn [existsb]. rewrite H, IH. reflexivity. Qed.
Lemma mem_eqb_swap : forall d l, existsb (fun c => c =? d) l = mem d l.
Proof. intros d l. unfold mem. apply existsb_ext. intros c. apply Z.eqb_sym. Qed.

Lemma group_impl_spec : forall variants lits escapes d,
  impl_i variants (Group lits escapes) d = spec_i variants (Group lits escapes) d.
Proof.
  intros variants lits escapes d. cbn [impl_i spec_i]. unfold closure. rewrite mem_app, mem_flat_map.
  rewrite existsb_orb. rewrite mem_eqb_swap. reflexivity.
Qed.
Lemma impl_is_spec : forall variants c d, impl_i variants c d = spec_i variants c d.
Proof.
  intros variants c d. induction c as [lits escapes|c IH|a IHa b IHb].
  - apply group_impl_spec.
  - cbn [impl_i spec_i]. rewrite IH. reflexivity.
  - cbn [impl_i spec_i]. rewrite IHa, IHb. reflexivity.
Qed.
(* with a symmetric variants relation the definition can be read from the input character: d or one of its variants is a literal *)
Lemma spec_from_input : forall variants lits escapes d,
  (forall a b, mem a (variants b) = mem b (variants a)) ->
  spec_i variants (Group lits escapes) d = (mem d lits || existsb (fun v => mem v lits) (variants d)) || existsb (mem d) escapes.
Proof.
  intros variants lits escapes d Hs. cbn [spec_i]. f_equal. rewrite existsb_orb, mem_eqb_swap. f_equal.
  induction lits as [|c r IH].
  - cbn [existsb]. symmetry. induction (variants d) as [|v vs IHv]; [reflexivity|]. cbn [existsb]. exact IHv.
  - cbn [existsb]. rewrite IH. rewrite Hs.
    transitivity (existsb (fun v => (v =? c) || mem v r) (variants d)).
    + rewrite existsb_orb. f_equal. unfold mem. apply existsb_ext. intros v. apply Z.eqb_sym.
    + apply existsb_ext. intros v. unfold mem. cbn [existsb]. reflexivity.
Qed.
(* no variants: the flag changes nothing *)
Lemma no_variants_plain : forall c d, impl_i (fun _ => []) c d = plain c d.
Proof.
  intros c d. induction c as [lits escapes|c IH|a IHa b IHb]; cbn [impl_i plain].
  - unfold closure. rewrite mem_app. replace (flat_map (fun _ : Z => []) lits) with (@nil Z).
    + cbn. rewrite orb_false_r. reflexivity.
    + induction lits; [reflexivity|assumption].
  - rewrite IH. reflexivity.
  - rewrite IHa, IHb. reflexivity.
Qed.
