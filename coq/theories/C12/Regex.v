(* C12 — regular expressions over code points: denotational semantics (the XSD definition: sets of strings), a
   derivative matcher, and the proof that the matcher decides the semantics; bounded quantifiers by expansion. *)
From Coq Require Import ZArith List Bool Arith Lia.
Import ListNotations.

Inductive re :=
| Nul                                  (* no string *)
| Eps                                  (* the empty string *)
| Chr (p : Z -> bool)                  (* one code point of a set: normal char, ., class, escape *)
| Alt (a b : re)                       (* branches a|b *)
| Cat (a b : re)                       (* pieces ab *)
| Star (a : re).                       (* a* *)

Inductive lang : re -> list Z -> Prop :=
| LEps : lang Eps []
| LChr : forall p c, p c = true -> lang (Chr p) [c]
| LAltL : forall a b s, lang a s -> lang (Alt a b) s
| LAltR : forall a b s, lang b s -> lang (Alt a b) s
| LCat : forall a b s t, lang a s -> lang b t -> lang (Cat a b) (s ++ t)
| LStar0 : forall a, lang (Star a) []
| LStarS : forall a s t, lang a s -> lang (Star a) t -> lang (Star a) (s ++ t).

Fixpoint nullable (r : re) : bool :=
  match r with
  | Nul => false | Eps => true | Chr _ => false
  | Alt a b => nullable a || nullable b
  | Cat a b => nullable a && nullable b
  | Star _ => true
  end.
Fixpoint deriv (c : Z) (r : re) : re :=
  match r with
  | Nul => Nul | Eps => Nul
  | Chr p => if p c then Eps else Nul
  | Alt a b => Alt (deriv c a) (deriv c b)
  | Cat a b => Alt (Cat (deriv c a) b) (if nullable a then deriv c b else Nul)
  | Star a => Cat (deriv c a) (Star a)
  end.
Definition matches (r : re) (s : list Z) : bool := nullable (fold_left (fun r c => deriv c r) s r).

Lemma nullable_lang : forall r, nullable r = true <-> lang r [].
Proof.
  induction r as [| |p|a IHa b IHb|a IHa b IHb|a IHa]; cbn; split; intros H.
  - discriminate.
  - inversion H.
  - constructor.
  - reflexivity.
  - discriminate.
  - inversion H.
  - apply orb_true_iff in H. destruct H as [H|H]; [apply LAltL, IHa|apply LAltR, IHb]; exact H.
  - apply orb_true_iff. inversion H; subst; [left; apply IHa|right; apply IHb]; assumption.
  - apply andb_true_iff in H. destruct H as (H1 & H2). change (@nil Z) with (@nil Z ++ []). constructor; [apply IHa|apply IHb]; assumption.
  - inversion H as [| | | |? ? s t Hs Ht| |]; subst.
    match goal with E : _ ++ _ = [] |- _ => apply app_eq_nil in E; destruct E; subst end.
    apply andb_true_iff. split; [apply IHa|apply IHb]; assumption.
  - constructor.
  - reflexivity.
Qed.

Lemma star_cons : forall a c s, lang (Star a) (c :: s) ->
  exists s1 s2, s = s1 ++ s2 /\ lang a (c :: s1) /\ lang (Star a) s2.
Proof.
  intros a c0 s0 H. remember (Star a) as r eqn:Er. remember (c0 :: s0) as w eqn:Ew.
  revert c0 s0 Ew. induction H as [| | | | | |a' s1 t H1 _ H2 IH2]; intros c0 s0 Ew; try discriminate.
  injection Er as ->. destruct s1 as [|c1 s1'].
  - cbn in Ew. apply IH2; auto.
  - cbn in Ew. injection Ew as -> <-. exists s1', t. auto.
Qed.

Lemma deriv_lang : forall r c s, lang (deriv c r) s <-> lang r (c :: s).
Proof.
  induction r as [| |p|a IHa b IHb|a IHa b IHb|a IHa]; intros c s; cbn [deriv].
  - split; intros H; inversion H.
  - split; intros H; inversion H.
  - destruct (p c) eqn:E; split; intros H.
    + inversion H; subst. constructor. exact E.
    + inversion H; subst. constructor.
    + inversion H.
    + inversion H; subst. congruence.
  - split; intros H.
    + inversion H; subst; [apply LAltL, IHa|apply LAltR, IHb]; assumption.
    + inversion H; subst; [apply LAltL, IHa|apply LAltR, IHb]; assumption.
  - split; intros H.
    + inversion H as [| |? ? ? H1|? ? ? H1| | |]; subst.
      * inversion H1 as [| | | |? ? s1 t Hs Ht| |]; subst.
        change (c :: s1 ++ t) with ((c :: s1) ++ t). constructor; [apply IHa|]; assumption.
      * destruct (nullable a) eqn:N; [|inversion H1].
        change (c :: s) with ([] ++ c :: s). constructor; [apply nullable_lang; exact N|apply IHb; exact H1].
    + remember (c :: s) as w eqn:Ew. inversion H as [| | | |? ? s1 t Hs Ht| |]; subst. destruct s1 as [|c1 s1'].
      * match goal with E : [] ++ _ = _ |- _ => cbn in E; subst t end.
        apply LAltR. apply nullable_lang in Hs. rewrite Hs. apply IHb. exact Ht.
      * match goal with E : (_ :: _) ++ _ = _ |- _ => cbn in E; injection E as -> <- end.
        apply LAltL. constructor; [apply IHa|]; assumption.
  - split; intros H.
    + inversion H as [| | | |? ? s1 t Hs Ht| |]; subst.
      change (c :: s1 ++ t) with ((c :: s1) ++ t). constructor; [apply IHa|]; assumption.
    + apply star_cons in H. destruct H as (s1 & s2 & -> & H1 & H2). constructor; [apply IHa|]; assumption.
Qed.

Theorem matches_lang : forall s r, matches r s = true <-> lang r s.
Proof.
  unfold matches. induction s as [|c s IH]; intros r; cbn [fold_left].
  - apply nullable_lang.
  - rewrite IH. apply deriv_lang.
Qed.

(* ---- bounded quantifiers {n}, {n,}, {n,m}, ?, +, * by expansion ---- *)
Fixpoint rep_exact (r : re) (n : nat) : re := match n with O => Eps | S k => Cat r (rep_exact r k) end.
Fixpoint rep_upto (r : re) (n : nat) : re := match n with O => Eps | S k => Alt Eps (Cat r (rep_upto r k)) end.
Definition quant (r : re) (n : nat) (m : option nat) : re :=
  match m with
  | None => Cat (rep_exact r n) (Star r)
  | Some m => Cat (rep_exact r n) (rep_upto r (m - n))
  end.
(* k-fold concatenation *)
Inductive pow (r : re) : nat -> list Z -> Prop :=
| P0 : pow r 0 []
| PS : forall k s t, lang r s -> pow r k t -> pow r (S k) (s ++ t).

Lemma rep_exact_pow : forall r n s, lang (rep_exact r n) s <-> pow r n s.
Proof.
  intros r. induction n as [|k IH]; intros s; cbn; split; intros H.
  - inversion H. constructor.
  - inversion H. constructor.
  - inversion H; subst. constructor; [assumption|apply IH; assumption].
  - inversion H; subst. constructor; [assumption|apply IH; assumption].
Qed.
Lemma rep_upto_pow : forall r n s, lang (rep_upto r n) s <-> exists k, (k <= n)%nat /\ pow r k s.
Proof.
  intros r. induction n as [|n IH]; intros s; cbn; split; intros H.
  - inversion H. exists 0%nat. split; [lia|constructor].
  - destruct H as (k & Hk & P). assert (k = 0)%nat by lia. subst. inversion P. constructor.
  - inversion H as [| |? ? ? H1|? ? ? H1| | |]; subst.
    + inversion H1. exists 0%nat. split; [lia|constructor].
    + inversion H1 as [| | | |? ? s1 t Hs Ht| |]; subst. apply IH in Ht. destruct Ht as (k & Hk & P).
      exists (S k). split; [lia|constructor; assumption].
  - destruct H as (k & Hk & P). destruct k as [|k].
    + inversion P. apply LAltL. constructor.
    + inversion P; subst. apply LAltR. constructor; [assumption|]. apply IH. exists k. split; [lia|assumption].
Qed.
Lemma star_pow : forall r s, lang (Star r) s <-> exists k, pow r k s.
Proof.
  intros r s. split.
  - intros H. remember (Star r) as q eqn:E. induction H as [| | | | | |a s1 t H1 _ H2 IH2]; try discriminate.
    + exists 0%nat. constructor.
    + injection E as ->. destruct (IH2 eq_refl) as (k & P). exists (S k). constructor; assumption.
  - intros (k & P). induction P; constructor; assumption.
Qed.
Lemma pow_app : forall r a b s t, pow r a s -> pow r b t -> pow r (a + b) (s ++ t).
Proof. intros r a b s t Pa Pb. induction Pa; cbn; auto. rewrite <- app_assoc. constructor; assumption. Qed.
Lemma pow_split : forall r a b w, pow r (a + b) w -> exists s t, w = s ++ t /\ pow r a s /\ pow r b t.
Proof.
  intros r. induction a as [|a IH]; intros b w P; cbn in P.
  - exists [], w. repeat split; [constructor|assumption].
  - inversion P as [|k s1 t1 H1 P1]; subst. destruct (IH b t1 P1) as (s & t & -> & Ps & Pt).
    exists (s1 ++ s), t. rewrite app_assoc. repeat split; [constructor|]; assumption.
Qed.

Theorem quant_range : forall r n m s, (n <= m)%nat ->
  (lang (quant r n (Some m)) s <-> exists k, (n <= k <= m)%nat /\ pow r k s).
Proof.
  intros r n m s L. cbn. split.
  - intros H. inversion H as [| | | |? ? s1 t Hs Ht| |]; subst.
    apply rep_exact_pow in Hs. apply rep_upto_pow in Ht. destruct Ht as (k & Hk & P).
    exists (n + k)%nat. split; [lia|apply pow_app; assumption].
  - intros (k & Hk & P). replace k with (n + (k - n))%nat in P by lia.
    destruct (pow_split r n (k - n) s P) as (s1 & t & -> & P1 & P2).
    constructor; [apply rep_exact_pow; assumption|]. apply rep_upto_pow. exists (k - n)%nat. split; [lia|assumption].
Qed.
Theorem quant_unbounded : forall r n s,
  lang (quant r n None) s <-> exists k, (n <= k)%nat /\ pow r k s.
Proof.
  intros r n s. cbn. split.
  - intros H. inversion H as [| | | |? ? s1 t Hs Ht| |]; subst.
    apply rep_exact_pow in Hs. apply star_pow in Ht. destruct Ht as (k & P).
    exists (n + k)%nat. split; [lia|apply pow_app; assumption].
  - intros (k & Hk & P). replace k with (n + (k - n))%nat in P by lia.
    destruct (pow_split r n (k - n) s P) as (s1 & t & -> & P1 & P2).
    constructor; [apply rep_exact_pow; assumption|]. apply star_pow. exists (k - n)%nat. assumption.
Qed.
