From Coq Require Import ZArith List Bool.
From EP Require Import C13.Model Gen.C12Sets C12.Regex C12.Classes C12.Model.
Import ListNotations.
Open Scope Z_scope.
Definition b2z (b : bool) : Z := if b then 1 else 0.
(* per subject: (XSD semantics, semantics with the CharacterClass model); first: rx_okb *)
Definition run (dotall a z : bool) (r : rx) (subjects : list (list Z)) : Z * list (Z * Z) :=
  let rs := wrap a z (to_re false cls_spec dotall r) in
  let ri := wrap a z (to_re true (fun c => let ci := cls_impl c in fun x => mem ci x) dotall r) in     (* classes computed once *)
  (b2z (rx_okb r), map (fun s => (b2z (matches rs s), b2z (matches ri s))) subjects).
(* class membership only: (spec, model after the fixes, model before the fixes) per code point *)
Definition run_cls (c : cls) (xs : list Z) : Z * list (Z * Z * Z) :=
  let ci := cls_impl c in let co := cls_old c in
  (b2z (cls_okb c), map (fun x => (b2z (cls_spec c x), b2z (mem ci x), b2z (mem co x))) xs).
