(* C12 property theorems: character classes under the i flag *)
From Coq Require Import ZArith List Bool.
From EP Require Import C12.CaseClass C12.CaseClassProofs.
Import ListNotations.
Open Scope Z_scope.

(* closing the literal part of every group under the case variants and then working with plain sets (the code) is the
   F&O definition (an input character matches a pattern character that is a case variant of it; escapes are unaffected),
   for every class expression with negation and subtraction and every variants relation *)
Theorem C12_case_insensitive_classes : forall variants c d, impl_i variants c d = spec_i variants c d.
Proof. exact impl_is_spec. Qed.
Print Assumptions C12_case_insensitive_classes.
(* read from the input character when the variants relation is symmetric: d or one of its case variants is a literal of the
   group, or d is in one of the escape sets *)
Theorem C12_case_insensitive_group : forall variants lits escapes d,
  (forall a b, mem a (variants b) = mem b (variants a)) ->
  spec_i variants (Group lits escapes) d = (mem d lits || existsb (fun v => mem v lits) (variants d)) || existsb (mem d) escapes.
Proof. exact spec_from_input. Qed.
Print Assumptions C12_case_insensitive_group.
Theorem C12_case_flag_without_variants : forall c d, impl_i (fun _ => []) c d = plain c d.
Proof. exact no_variants_plain. Qed.
Print Assumptions C12_case_flag_without_variants.
(* before the repair the escape sets were matched case-insensitively too: [\p{Lu}] matched "a" *)
Theorem C12_case_old_refuted : exists variants c d, old_i variants c d <> spec_i variants c d.
Proof.
  exists (fun c => if c =? 65 then [97] else if c =? 97 then [65] else []), (Group [] [[65]]), 97.
  vm_compute. discriminate.
Qed.
Print Assumptions C12_case_old_refuted.
