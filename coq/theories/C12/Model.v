(* C12 — XSD regular expressions: abstract syntax, the XSD semantics (by translation to the verified matcher of
   Regex.v with specification character sets) and the same with the character classes computed by the model of
   CharacterClass (Classes.v). *)
From Coq Require Import ZArith List Bool Lia.
From EP Require Import C13.Model C12.Regex C12.Classes.
Import ListNotations.
Open Scope Z_scope.

(* character class expression [^parts-[sub]] *)
Inductive cls := Cls (negated : bool) (parts : list part) (sub : option cls).
Fixpoint cls_spec (c : cls) (x : Z) : bool :=
  match c with
  | Cls ng ps sb =>
      let b := if ng then negb (spec_mem ps x) else spec_mem ps x in
      match sb with None => b | Some s => b && negb (cls_spec s x) end
  end.
(* parse_character_class: CharacterClass(parts); if negative: complement(); if subtraction: char_class -= subtracted *)
Fixpoint cls_impl (c : cls) : cc :=
  match c with
  | Cls ng ps sb =>
      let b := if ng then complement_cc (build ps) else build ps in
      match sb with None => b | Some s => isub_cc b (cls_impl s) end
  end.
Fixpoint cls_old (c : cls) : cc :=
  match c with
  | Cls ng ps sb =>
      let b := if ng then complement_old (build_old ps) else build_old ps in
      match sb with None => b | Some s => isub_old b (cls_old s) end
  end.
Fixpoint cls_ok (c : cls) : Prop :=
  match c with Cls _ ps sb => Forall part_ok ps /\ match sb with None => True | Some s => cls_ok s end end.
Definition part_okb (p : part) : bool := match p with PPos l => wfb l | PNeg l => wfb l && negb (is_nil l) end.
Fixpoint cls_okb (c : cls) : bool :=
  match c with Cls _ ps sb => forallb part_okb ps && match sb with None => true | Some s => cls_okb s end end.

Inductive rx :=
| RChar (z : Z)
| RDot                                     (* . *)
| RSet (negated : bool) (l li : list item)  (* a multi-character escape outside a class: \d \D \p{L} ...; l: the XSD set,
                                               li: the set the translated text denotes (differs for \w \W \s \S,
                                               which are passed through to Python's re) *)
| RCls (c : cls)
| RCat (a b : rx) | RAlt (a b : rx) | REps
| RQuant (r : rx) (n : nat) (m : option nat).

Definition in_cp (x : Z) : bool := (0 <=? x) && (x <=? maxunicode).
(* classmem: how a class decides membership (specification sets or the CharacterClass model) *)
Fixpoint to_re (impl : bool) (classmem : cls -> Z -> bool) (dotall : bool) (r : rx) : re :=
  match r with
  | RChar z => Chr (Z.eqb z)
  | RDot => Chr (fun x => in_cp x && (dotall || negb ((x =? 10) || (x =? 13))))
  | RSet ng l li => let l' := if impl then li else l in Chr (fun x => in_cp x && (if ng then negb (den l' x) else den l' x))
  | RCls c => let m := classmem c in Chr (fun x => in_cp x && m x)      (* the class is computed once *)
  | RCat a b => Cat (to_re impl classmem dotall a) (to_re impl classmem dotall b)
  | RAlt a b => Alt (to_re impl classmem dotall a) (to_re impl classmem dotall b)
  | REps => Eps
  | RQuant a n m => quant (to_re impl classmem dotall a) n m
  end.
Definition anychar : re := Chr in_cp.
(* fn:matches semantics: the pattern matches some substring, unless anchored by ^ / $ *)
Definition wrap (anchor_start anchor_end : bool) (r : re) : re :=
  let r1 := if anchor_start then r else Cat (Star anychar) r in
  if anchor_end then r1 else Cat r1 (Star anychar).
Definition xsd_matches (dotall a_start a_end : bool) (r : rx) (s : list Z) : bool :=
  matches (wrap a_start a_end (to_re false cls_spec dotall r)) s.
Definition impl_matches (dotall a_start a_end : bool) (r : rx) (s : list Z) : bool :=
  matches (wrap a_start a_end (to_re true (fun c => let ci := cls_impl c in fun x => mem ci x) dotall r)) s.
(* escapes_faithful: every escape outside a class is translated to its XSD set (false for \w \W \s \S today) *)
Fixpoint escapes_faithful (r : rx) : Prop :=
  match r with
  | RSet _ l li => forall x, den li x = den l x
  | RCat a b | RAlt a b => escapes_faithful a /\ escapes_faithful b
  | RQuant a _ _ => escapes_faithful a
  | _ => True
  end.
Fixpoint rx_ok (r : rx) : Prop :=
  match r with
  | RCls c => cls_ok c
  | RCat a b | RAlt a b => rx_ok a /\ rx_ok b
  | RQuant a _ _ => rx_ok a
  | _ => True
  end.
Fixpoint rx_okb (r : rx) : bool :=
  match r with
  | RCls c => cls_okb c
  | RCat a b | RAlt a b => rx_okb a && rx_okb b
  | RQuant a _ _ => rx_okb a
  | _ => true
  end.

(* ---- analyze-string / tokenize / replace over a list of match spans (start, end), sorted and disjoint ---- *)
Fixpoint cut (s : list Z) (pos : nat) (spans : list (nat * nat)) : list (bool * list Z) :=
  match spans with
  | [] => [(false, s)]
  | (a, b) :: r => (false, firstn (a - pos) s) :: (true, firstn (b - a) (skipn (a - pos) s)) :: cut (skipn (b - pos) s) b r
  end.
