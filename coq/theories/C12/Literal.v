(* C12: the q flag - the pattern is a literal string.  lit s is the regular expression of the string s; its language is
   {s}, so searching it in an input is searching the substring s. *)
From Coq Require Import ZArith List Bool Arith Lia.
From EP Require Import C12.Regex.
Import ListNotations.
Open Scope Z_scope.

Definition lit (s : list Z) : re := fold_right (fun c r => Cat (Chr (Z.eqb c)) r) Eps s.
(* an occurrence of the pattern in the input (fn:matches searches) *)
Definition occurs (r : re) (t : list Z) : Prop := exists a m b, t = a ++ m ++ b /\ lang r m.

Lemma lit_lang : forall s t, lang (lit s) t <-> t = s.
Proof.
  induction s as [|c s IH]; intros t; cbn [lit fold_right].
  - split; intros H; [inversion H; reflexivity|subst; constructor].
  - split; intros H.
    + inversion H as [| | | |a b u v Hu Hv| |]; subst. inversion Hu as [|p d Hd| | | | |]; subst.
      apply Z.eqb_eq in Hd. subst d. apply IH in Hv. subst v. reflexivity.
    + subst t. change (c :: s) with ([c] ++ s). constructor; [constructor; apply Z.eqb_refl|apply IH; reflexivity].
Qed.
