(* C12 property theorems (statements only; proofs are `exact`/short compositions of Regex.v / Classes.v / Proofs.v). *)
From Coq Require Import ZArith List Bool Arith Lia.
From EP Require Import C13.Model Gen.C12Sets C12.Regex C12.Classes C12.Model C12.Proofs.
From EP Require Gen.C12Shape.
Import ListNotations.
Open Scope Z_scope.

(* the matcher used as the oracle decides the XSD semantics (sets of strings): all expressions, all strings *)
Theorem C12_matcher_decides_language : forall r s, matches r s = true <-> lang r s.
Proof. intros. apply matches_lang. Qed.
Print Assumptions C12_matcher_decides_language.

(* bounded and unbounded quantifiers {n,m} {n,} (and ? * + as {0,1} {0,} {1,}) mean "k repetitions, n <= k <= m" *)
Theorem C12_quantifiers : forall r n s,
  (forall m, (n <= m)%nat -> (lang (quant r n (Some m)) s <-> exists k, (n <= k <= m)%nat /\ pow r k s)) /\
  (lang (quant r n None) s <-> exists k, (n <= k)%nat /\ pow r k s).
Proof. intros r n s. split; [intros m H; apply quant_range; exact H|apply quant_unbounded]. Qed.
Print Assumptions C12_quantifiers.

(* the CharacterClass algebra of the code (positive / negated subsets, _add_negative, complement, subtraction) computes
   the set the class expression denotes: all class expressions (parts, negation, nested subtraction), all code points *)
Theorem C12_character_classes : forall c, cls_ok c -> forall x, 0 <= x <= maxunicode -> mem (cls_impl c) x = cls_spec c x.
Proof. intros c H x Hx. destruct (cls_impl_spec c H) as (_ & D). apply D. exact Hx. Qed.
Print Assumptions C12_character_classes.

(* hence matching with the classes as the code computes them is matching under the XSD semantics: all expressions,
   all subject strings, anchored or searched, with and without dot-all *)
(* FULL STATEMENT: forall r accepted, impl_matches = xsd_matches. Proved under escapes_faithful (every escape outside a
   class denotes its XSD set); it fails for \w \W \s \S outside a class, which the code passes through to Python's re. *)
Theorem C12_same_language_partial : forall dotall a z r s, rx_ok r -> escapes_faithful r ->
  impl_matches dotall a z r s = xsd_matches dotall a z r s.
Proof. exact impl_matches_xsd. Qed.
Print Assumptions C12_same_language_partial.
(* \w outside a class: Python's \w contains '_' (Pc) and not '^' (Sk); XSD \w is [^\p{P}\p{Z}\p{C}] *)
Theorem C12_toplevel_w_refuted :
  impl_matches false true true (RSet false Gen.C12Sets.esc_w Gen.C12Sets.py_w) [95] <> xsd_matches false true true (RSet false Gen.C12Sets.esc_w Gen.C12Sets.py_w) [95] /\
  impl_matches false true true (RSet false Gen.C12Sets.esc_s Gen.C12Sets.py_s) [160] <> xsd_matches false true true (RSet false Gen.C12Sets.esc_s Gen.C12Sets.py_s) [160].
Proof. vm_compute. split; discriminate. Qed.
Print Assumptions C12_toplevel_w_refuted.

(* the code before the fixes: [^a\D] contains 'b', [\D\S] does not contain '5', [a\S-[\D]] contains 'a' *)
Theorem C12_old_class_algebra_refuted :
  let d := [Range 48 58] in let s := [Single 32] in
  mem (cls_old (Cls true [PPos [Single 97]; PNeg d] None)) 98 <> cls_spec (Cls true [PPos [Single 97]; PNeg d] None) 98 /\
  mem (cls_old (Cls false [PNeg d; PNeg s] None)) 53 <> cls_spec (Cls false [PNeg d; PNeg s] None) 53 /\
  mem (cls_old (Cls false [PPos [Single 97]; PNeg s] (Some (Cls false [PNeg d] None)))) 97 <>
    cls_spec (Cls false [PPos [Single 97]; PNeg s] (Some (Cls false [PNeg d] None))) 97.
Proof. vm_compute. repeat split; discriminate. Qed.
Print Assumptions C12_old_class_algebra_refuted.

(* analyze-string: the match / non-match parts concatenate to the input, for every list of sorted disjoint spans *)
Theorem C12_analyze_string_partition : forall spans s, spans_ok 0 spans -> concat (map snd (cut s 0 spans)) = s.
Proof. intros. apply cut_concat. assumption. Qed.
Print Assumptions C12_analyze_string_partition.

Example C12_nonvacuous :
  let d := [Range 48 58] in
  let c := Cls true [PPos [Single 97]; PNeg d] (Some (Cls false [PPos [Single 53]] None)) in   (* [^a\D-[5]] *)
  cls_ok c /\ mem (cls_impl c) 54 = true /\ mem (cls_impl c) 53 = false /\ mem (cls_impl c) 98 = false /\
  xsd_matches false true true (RCat (RQuant (RCls c) 2%nat (Some 3%nat)) (RChar 120)) [54; 55; 120] = true /\
  xsd_matches false true true (RCat (RQuant (RCls c) 2%nat (Some 3%nat)) (RChar 120)) [54; 120] = false.
Proof. cbn zeta. split; [|vm_compute; repeat split; reflexivity]. apply cls_okb_ok. vm_compute. reflexivity. Qed.

(* the statements of /repo that the hand model mirrors are present in the source as read on this run (T-data,
   harness/shape.py -> Gen/C12Shape.v) *)
Theorem C12_source_shape : Gen.C12Shape.shape_ok = true.
Proof. reflexivity. Qed.
Print Assumptions C12_source_shape.
