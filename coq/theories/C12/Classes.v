(* C12 — character classes: model of regex/character_classes.py CharacterClass (a positive and a negated UnicodeSubset,
   membership "in positive or not in negated"), its add / complement / subtraction as in the code after the fixes, and
   the variants before the fixes. UnicodeSubset operations are those of the C13 model (proved there). *)
From Coq Require Import ZArith List Bool Lia.
From EP Require Import C13.Model C13.Proofs.
Import ListNotations.
Open Scope Z_scope.

Record cc := mkcc { pos : list item; neg : list item }.
(* __contains__: "if self.negative: return item not in self.negative or item in self.positive; return item in self.positive" *)
Definition mem (c : cc) (x : Z) : bool :=
  match neg c with [] => den (pos c) x | _ :: _ => den (pos c) x || negb (den (neg c) x) end.
Definition full : list item := [Range 0 (maxunicode + 1)].
Definition is_nil {A} (l : list A) : bool := match l with [] => true | _ => false end.

(* the parts of a character group after iterparse_character_subset / CHARACTER_ESCAPES: characters, ranges and
   positive escapes (\s \d \p{..}) are sets added to the positive subset; negated escapes (\S \D \P{..}) are sets whose
   complement is meant *)
Inductive part := PPos (l : list item) | PNeg (l : list item).

(* intersection by ranges, "s -= s - o" (the code's own &= enumerates code points; C13.iand_spec proves it denotes the
   same set, and only the denotation and the emptiness of a subset are observed here) *)
Definition iand2 (s o : list item) : list item := isub s (isub s o).
(* _add_negative (after the fix): ~a | ~b = ~(a & b) *)
Definition add_negative (c : cc) (l : list item) : cc :=
  match neg c with
  | [] => mkcc (pos c) (ior [] l)
  | _ :: _ => let n := iand2 (neg c) l in if is_nil n then mkcc full [] else mkcc (pos c) n
  end.
Definition add_part (c : cc) (p : part) : cc :=
  match p with PPos l => mkcc (ior (pos c) l) (neg c) | PNeg l => add_negative c l end.
Definition build (parts : list part) : cc := fold_left add_part parts (mkcc [] []).

Definition complement_cc (c : cc) : cc :=
  match pos c, neg c with
  | [], [] => mkcc full []
  | _ :: _, _ :: _ => mkcc (isub (neg c) (pos c)) []
  | _, _ => mkcc (neg c) (pos c)
  end.
Definition isub_cc (c o : cc) : cc :=
  let '(p, n) := match neg c, neg o with
                 | _ :: _, _ :: _ => (ior (iand2 (pos c) (neg o)) (isub (neg o) (neg c)), [])
                 | _ :: _, [] => (pos c, ior (neg c) (pos o))
                 | [], _ :: _ => (iand2 (pos c) (neg o), [])
                 | [], [] => (pos c, [])
                 end in
  mkcc (isub p (pos o)) n.

(* ---- the code before the fixes ---- *)
Definition add_part_old (c : cc) (p : part) : cc :=
  match p with PPos l => mkcc (ior (pos c) l) (neg c) | PNeg l => mkcc (pos c) (ior (neg c) l) end.
Definition build_old (parts : list part) : cc := fold_left add_part_old parts (mkcc [] []).
Definition complement_old (c : cc) : cc :=
  match pos c, neg c with [], [] => mkcc full [] | _, _ => mkcc (neg c) (pos c) end.
Definition isub_old (c o : cc) : cc :=
  let '(p, n) := match neg c, neg o with
                 | _ :: _, _ :: _ => (ior (pos c) (isub (neg o) (neg c)), ior [] (pos o))
                 | _ :: _, [] => (pos c, ior (neg c) (pos o))
                 | [], _ :: _ => (iand2 (pos c) (neg o), [])
                 | [], [] => (pos c, [])
                 end in
  mkcc (isub p (pos o)) n.

(* ---- specification: sets of code points ---- *)
Definition part_mem (p : part) (x : Z) : bool := match p with PPos l => den l x | PNeg l => negb (den l x) end.
Definition spec_mem (parts : list part) (x : Z) : bool := existsb (fun p => part_mem p x) parts.
Definition cp (x : Z) : Prop := 0 <= x <= maxunicode.

Definition WFcc (c : cc) : Prop := WF (pos c) /\ WF (neg c).
Definition part_ok (p : part) : Prop := match p with PPos l => WF l | PNeg l => WF l /\ l <> [] end.

(* ---- proofs ---- *)
Lemma WF_head_den : forall i r, WF (i :: r) -> den (i :: r) (lo i) = true.
Proof.
  intros i r (H & _). cbn [den]. unfold in_item. replace (lo i <=? lo i) with true by (symmetry; apply Z.leb_le; lia).
  replace (lo i <? hi i) with true by (symmetry; apply Z.ltb_lt; lia). reflexivity.
Qed.
Lemma den_nil_iff : forall l, WF l -> (l = [] <-> forall x, den l x = false).
Proof.
  intros l W. split; [intros ->; reflexivity|]. intros H. destruct l as [|i r]; auto.
  specialize (H (lo i)). rewrite (WF_head_den i r W) in H. discriminate.
Qed.
Lemma den_full : forall x, cp x -> den full x = true.
Proof.
  unfold cp, full, maxunicode. intros x H. cbn [den]. unfold in_item. cbn [lo hi].
  replace (0 <=? x) with true by (symmetry; apply Z.leb_le; lia).
  replace (x <? 1114111 + 1) with true by (symmetry; apply Z.ltb_lt; lia). reflexivity.
Qed.
Lemma WF_full : WF full.
Proof. unfold full, maxunicode. cbn. lia. Qed.

Lemma iand2_spec : forall s o, WF s -> WF o -> WF (iand2 s o) /\ forall x, den (iand2 s o) x = den s x && den o x.
Proof.
  intros s o Ws Wo. unfold iand2. destruct (isub_spec s o Ws Wo) as (W1 & D1). destruct (isub_spec s _ Ws W1) as (W2 & D2).
  split; auto. intros x. rewrite D2, D1. destruct (den s x), (den o x); reflexivity.
Qed.

Lemma add_negative_ok : forall c l, WFcc c -> WF l -> l <> [] ->
  WFcc (add_negative c l) /\ forall x, cp x -> mem (add_negative c l) x = mem c x || negb (den l x).
Proof.
  intros [P N] l (WP & WN) Wl Hl. unfold add_negative, mem, WFcc. cbn [pos neg] in *.
  destruct N as [|n0 nr].
  - destruct (ior_spec [] l I Wl) as (W1 & D1). cbn [pos neg].
    assert (NE : ior [] l <> []).
    { intros E. apply Hl. apply (den_nil_iff l Wl). intros x. specialize (D1 x). rewrite E in D1. cbn in D1. auto. }
    split; [split; assumption|]. intros x _. destruct (ior [] l) as [|a b] eqn:E; [congruence|].
    rewrite D1. reflexivity.
  - destruct (iand2_spec (n0 :: nr) l WN Wl) as (W1 & D1).
    destruct (iand2 (n0 :: nr) l) as [|a b] eqn:E; cbn [is_nil pos neg].
    + split; [split; [apply WF_full|exact I]|]. intros x Hx. rewrite (den_full x Hx).
      specialize (D1 x). change (den [] x) with false in D1. symmetry in D1. apply andb_false_iff in D1.
      destruct D1 as [D|D]; rewrite D; cbn; destruct (den P x); cbn; auto with bool; destruct (den (n0 :: nr) x); reflexivity.
    + split; [split; assumption|]. intros x _. rewrite D1.
      destruct (den P x), (den (n0 :: nr) x), (den l x); reflexivity.
Qed.

Lemma add_part_ok : forall c p, WFcc c -> part_ok p ->
  WFcc (add_part c p) /\ forall x, cp x -> mem (add_part c p) x = mem c x || part_mem p x.
Proof.
  intros c [l|l] Wc Hp; cbn [add_part part_mem part_ok] in *.
  - destruct c as [P N]. destruct Wc as (WP & WN). cbn [pos neg] in *.
    destruct (ior_spec P l WP Hp) as (W1 & D1). unfold WFcc, mem. cbn [pos neg].
    split; [split; assumption|]. intros x _. rewrite D1. destruct N; [reflexivity|].
    destruct (den P x), (den l x), (den (i :: N) x); reflexivity.
  - destruct Hp as (Wl & Hl). apply add_negative_ok; assumption.
Qed.

Lemma build_from : forall parts c seen, WFcc c -> Forall part_ok parts ->
  (forall x, cp x -> mem c x = spec_mem seen x) ->
  WFcc (fold_left add_part parts c) /\ forall x, cp x -> mem (fold_left add_part parts c) x = spec_mem (seen ++ parts) x.
Proof.
  induction parts as [|p r IH]; intros c seen Wc Hok Hm; cbn [fold_left].
  - rewrite app_nil_r. auto.
  - inversion Hok as [|? ? Hp Hr]; subst. destruct (add_part_ok c p Wc Hp) as (W1 & D1).
    replace (seen ++ p :: r) with ((seen ++ [p]) ++ r) by (rewrite <- app_assoc; reflexivity).
    apply IH; auto. intros x Hx. rewrite (D1 x Hx), (Hm x Hx). unfold spec_mem. rewrite existsb_app. cbn. rewrite orb_false_r. reflexivity.
Qed.
Lemma build_ok : forall parts, Forall part_ok parts ->
  WFcc (build parts) /\ forall x, cp x -> mem (build parts) x = spec_mem parts x.
Proof.
  intros parts H. apply (build_from parts (mkcc [] []) [] (conj I I) H). intros x _. reflexivity.
Qed.

Lemma complement_ok : forall c, WFcc c ->
  WFcc (complement_cc c) /\ forall x, cp x -> mem (complement_cc c) x = negb (mem c x).
Proof.
  intros [P N] (WP & WN). unfold complement_cc, mem, WFcc. cbn [pos neg] in *.
  destruct P as [|p0 pr], N as [|n0 nr]; cbn [pos neg].
  - split; [split; [apply WF_full|exact I]|]. intros x Hx. rewrite (den_full x Hx). reflexivity.
  - split; [split; assumption|]. intros x _. cbn [den]. destruct (in_item n0 x || den nr x); reflexivity.
  - split; [split; assumption|]. intros x _. cbn [den]. destruct (in_item p0 x || den pr x); reflexivity.
  - destruct (isub_spec (n0 :: nr) (p0 :: pr) WN WP) as (W1 & D1).
    split; [split; [assumption|exact I]|]. intros x _. rewrite D1.
    destruct (den (p0 :: pr) x), (den (n0 :: nr) x); reflexivity.
Qed.

Lemma isub_cc_ok : forall c o, WFcc c -> WFcc o ->
  WFcc (isub_cc c o) /\ forall x, cp x -> mem (isub_cc c o) x = mem c x && negb (mem o x).
Proof.
  intros [P1 N1] [P2 N2] (WP1 & WN1) (WP2 & WN2). unfold isub_cc, mem, WFcc. cbn [pos neg] in *.
  destruct N1 as [|a1 r1], N2 as [|a2 r2].
  - destruct (isub_spec P1 P2 WP1 WP2) as (W & D). cbn [pos neg]. split; [split; [assumption|exact I]|].
    intros x _. rewrite D. reflexivity.
  - destruct (iand2_spec P1 (a2 :: r2) WP1 WN2) as (W0 & D0).
    destruct (isub_spec _ P2 W0 WP2) as (W & D). cbn [pos neg]. split; [split; [assumption|exact I]|].
    intros x _. rewrite D, D0. destruct (den P1 x), (den (a2 :: r2) x), (den P2 x); reflexivity.
  - destruct (ior_spec (a1 :: r1) P2 WN1 WP2) as (W0 & D0).
    destruct (isub_spec P1 P2 WP1 WP2) as (W & D). cbn [pos neg]. split; [split; assumption|].
    intros x _.
    assert (NE : ior (a1 :: r1) P2 <> []).
    { intros E. assert (F := D0 (lo a1)). rewrite E, (WF_head_den a1 r1 WN1) in F. discriminate. }
    destruct (ior (a1 :: r1) P2) as [|u v] eqn:E; [congruence|]. rewrite D, D0.
    destruct (den P1 x), (den (a1 :: r1) x), (den P2 x); reflexivity.
  - destruct (iand2_spec P1 (a2 :: r2) WP1 WN2) as (W0 & D0).
    destruct (isub_spec (a2 :: r2) (a1 :: r1) WN2 WN1) as (W1 & D1).
    destruct (ior_spec _ _ W0 W1) as (W2 & D2).
    destruct (isub_spec _ P2 W2 WP2) as (W & D). cbn [pos neg]. split; [split; [assumption|exact I]|].
    intros x _. rewrite D, D2, D0, D1.
    destruct (den P1 x), (den (a1 :: r1) x), (den (a2 :: r2) x), (den P2 x); reflexivity.
Qed.
