From Coq Require Import ZArith List Bool Lia ZifyBool.
From EP Require Import C15.Model.
Import ListNotations.
Open Scope Z_scope.

Lemma lookup_app : forall m1 m2 k, lookup (m1 ++ m2) k = match lookup m1 k with Some v => Some v | None => lookup m2 k end.
Proof. induction m1 as [|[k' v] r IH]; intros; cbn; auto. destruct (k' =? k); auto. Qed.
Lemma lookup_filter_other : forall m k k', k <> k' -> lookup (filter (fun kv => negb (fst kv =? k)) m) k' = lookup m k'.
Proof.
  induction m as [|[a v] r IH]; intros k k' H; cbn; auto.
  destruct (a =? k) eqn:E; cbn.
  - rewrite IH by auto. destruct (a =? k') eqn:F; auto. lia.
  - destruct (a =? k'); auto.
Qed.
Lemma lookup_filter_same : forall m k, lookup (filter (fun kv => negb (fst kv =? k)) m) k = None.
Proof. induction m as [|[a v] r IH]; intros k; cbn; auto. destruct (a =? k) eqn:E; cbn; auto. rewrite E. auto. Qed.

(* map:get(map:put(m, k, v), k) = v ; other keys unchanged *)
Lemma get_put_same : forall m k v, map_get (map_put m k v) k = v.
Proof. intros. unfold map_get, map_put. rewrite lookup_app, lookup_filter_same. cbn. rewrite Z.eqb_refl. reflexivity. Qed.
Lemma get_put_other : forall m k k' v, k <> k' -> map_get (map_put m k v) k' = map_get m k'.
Proof.
  intros. unfold map_get, map_put. rewrite lookup_app, lookup_filter_other by auto.
  destruct (lookup m k'); auto. cbn. destruct (k =? k') eqn:E; auto. lia.
Qed.

(* keys stay duplicate-free *)
Definition wf (m : xmap) : Prop := NoDup (keys m).
Lemma in_keys_filter : forall m (f : Z * value -> bool) k, In k (keys (filter f m)) -> In k (keys m).
Proof.
  unfold keys. intros m f k H. apply in_map_iff in H. destruct H as (kv & E & Hin). apply filter_In in Hin.
  apply in_map_iff. exists kv. tauto.
Qed.
Lemma nodup_keys_filter : forall m f, wf m -> wf (filter f m).
Proof.
  unfold wf, keys. induction m as [|[k v] r IH]; intros f H; cbn; [constructor|].
  inversion H; subst. destruct (f (k, v)); cbn; auto. constructor; auto.
  intros Hin. apply H2. exact (in_keys_filter r f k Hin).
Qed.

Lemma lookup_none_notin : forall m k, lookup m k = None <-> ~ In k (keys m).
Proof.
  induction m as [|[a v] r IH]; intros k; cbn; [tauto|].
  destruct (a =? k) eqn:E.
  - split; [discriminate|]. intros H. exfalso. apply H. left. lia.
  - rewrite IH. split; intros H; [intros [F|F]; [lia|tauto]|tauto].
Qed.
Lemma nodup_snoc : forall (l : list Z) x, NoDup l -> ~ In x l -> NoDup (l ++ [x]).
Proof.
  induction l as [|y r IH]; intros x H Hn; cbn; [constructor; auto; constructor|].
  inversion H; subst. constructor.
  - rewrite in_app_iff. cbn. intros [F|[F|[]]]; [tauto|]. apply Hn. left. auto.
  - apply IH; auto. intros F. apply Hn. right. exact F.
Qed.
Lemma put_wf : forall m k v, wf m -> wf (map_put m k v).
Proof.
  intros m k v H. unfold map_put, wf, keys. rewrite map_app. cbn. apply nodup_snoc.
  - exact (nodup_keys_filter m _ H).
  - apply lookup_none_notin. apply lookup_filter_same.
Qed.
Lemma filter_notin : forall (r : xmap) k, ~ In k (keys r) -> filter (fun kv : Z * value => negb (fst kv =? k)) r = r.
Proof.
  induction r as [|[b x] r IH]; intros k Hn; cbn [filter fst]; auto. cbn in Hn.
  destruct (b =? k) eqn:E; [exfalso; apply Hn; left; lia|]. cbn [negb]. f_equal. apply IH. tauto.
Qed.
Lemma put_length : forall m k v, wf m ->
  length (map_put m k v) = if map_contains m k then length m else S (length m).
Proof.
  intros m k v H. unfold map_put, map_contains. rewrite app_length. cbn [length].
  induction m as [|[a w] r IH]; [reflexivity|].
  unfold wf, keys in H. cbn [map fst] in H. inversion H; subst.
  cbn [filter fst keys map existsb length].
  destruct (k =? a) eqn:E.
  - assert (a =? k = true) by lia. rewrite H0. cbn [negb orb].
    assert (Hn : ~ In k (keys r)) by (assert (k = a) by lia; subst; exact H2).
    rewrite (filter_notin r k Hn). lia.
  - assert (a =? k = false) by lia. rewrite H0. cbn [negb orb length]. specialize (IH H3).
    fold (keys r). destruct (existsb (Z.eqb k) (keys r)); lia.
Qed.
Lemma put_size : forall m k v, wf m ->
  map_size (map_put m k v) = if map_contains m k then map_size m else map_size m + 1.
Proof.
  intros m k v H. unfold map_size. rewrite (put_length m k v H). destruct (map_contains m k); lia.
Qed.
Lemma remove_contains : forall m ks k, In k ks -> map_contains (map_remove m ks) k = false.
Proof.
  intros m ks k Hin. unfold map_contains, map_remove. destruct (existsb (Z.eqb k) (keys (filter _ m))) eqn:E; auto.
  apply existsb_exists in E. destruct E as (x & Hx & Ex). assert (x = k) by lia. subst x.
  unfold keys in Hx. apply in_map_iff in Hx. destruct Hx as ((a & v) & Ea & Hf). cbn in Ea. subst a.
  apply filter_In in Hf. destruct Hf as (_ & Hf). cbn in Hf. rewrite forallb_forall in Hf. specialize (Hf k Hin). lia.
Qed.
Lemma remove_other : forall m ks k, ~ In k ks -> map_get (map_remove m ks) k = map_get m k.
Proof.
  intros m ks k Hn. unfold map_get, map_remove. induction m as [|[a v] r IH]; cbn; auto.
  destruct (forallb (fun x => negb (a =? x)) ks) eqn:F; cbn.
  - destruct (a =? k); auto.
  - destruct (a =? k) eqn:E; auto. exfalso. assert (a = k) by lia. subst a.
    assert (forallb (fun x => negb (k =? x)) ks = true); [|congruence].
    apply forallb_forall. intros x Hx. destruct (k =? x) eqn:G; auto. assert (k = x) by lia. subst. tauto.
Qed.

(* merge policies through lookup *)
Lemma merge_one_first : forall items k v, lookup items k <> None -> merge_one UseFirst items (k, v) = MOk items.
Proof. intros. cbn. destruct (lookup items k); [reflexivity|congruence]. Qed.
Lemma merge_one_new : forall p items k v, lookup items k = None -> merge_one p items (k, v) = MOk (items ++ [(k, v)]).
Proof. intros. cbn. rewrite H. reflexivity. Qed.
Lemma merge_one_reject : forall items k v, lookup items k <> None -> merge_one Reject items (k, v) = MErr.
Proof. intros. cbn. destruct (lookup items k); [reflexivity|congruence]. Qed.
Lemma merge_one_last_get : forall items k v old, lookup items k = Some old ->
  exists m, merge_one UseLast items (k, v) = MOk m /\ map_get m k = v /\ forall k', k' <> k -> map_get m k' = map_get items k'.
Proof.
  intros items k v old H. cbn. rewrite H. eexists. split; [reflexivity|]. split.
  - unfold map_get. rewrite lookup_app, lookup_filter_same. cbn. rewrite Z.eqb_refl. reflexivity.
  - intros k' Hk. unfold map_get. rewrite lookup_app, lookup_filter_other by auto. destruct (lookup items k'); auto.
    cbn. destruct (k =? k') eqn:E; auto. lia.
Qed.
Lemma replace_value_lookup : forall m k f k', lookup (replace_value m k f) k' =
  if k =? k' then option_map f (lookup m k') else lookup m k'.
Proof.
  induction m as [|[a v] r IH]; intros k f k'; cbn; [destruct (k =? k'); reflexivity|].
  destruct (a =? k) eqn:E; cbn.
  - destruct (a =? k') eqn:F.
    + assert (k =? k' = true) by lia. rewrite H. reflexivity.
    + assert (k =? k' = false) by lia. rewrite H. reflexivity.
  - destruct (a =? k') eqn:F.
    + assert (k =? k' = false) by lia. rewrite H. reflexivity.
    + apply IH.
Qed.
Lemma merge_one_combine : forall items k v old, lookup items k = Some old ->
  exists m, merge_one Combine items (k, v) = MOk m /\ map_get m k = old ++ v /\ forall k', k' <> k -> map_get m k' = map_get items k'.
Proof.
  intros items k v old H. cbn. rewrite H. eexists. split; [reflexivity|]. unfold map_get. split.
  - rewrite replace_value_lookup, Z.eqb_refl, H. reflexivity.
  - intros k' Hk. rewrite replace_value_lookup. destruct (k =? k') eqn:E; [lia|reflexivity].
Qed.

(* ---- arrays ---- *)
Lemma set_nth_length : forall a n v, length (set_nth a n v) = length a.
Proof. induction a; intros [|n] v; cbn; auto. Qed.
Lemma set_nth_nth : forall a n v d, (n < length a)%nat -> nth n (set_nth a n v) d = v.
Proof. induction a as [|x r IH]; intros [|n] v d H; cbn in *; try lia; auto. apply IH. lia. Qed.
Lemma set_nth_other : forall a n m v d, n <> m -> nth m (set_nth a n v) d = nth m a d.
Proof. induction a as [|x r IH]; intros [|n] [|m] v d H; cbn; auto; try lia. Qed.

Lemma array_get_put : forall a i v a', array_put a i v = AOk a' ->
  array_get a' i = AVal v /\ length a' = length a /\ forall j, j <> i -> array_get a' j = array_get a j.
Proof.
  intros a i v a' H. unfold array_put in H. destruct ((i <=? 0) || (Z.of_nat (length a) <? i)) eqn:E; [discriminate|].
  injection H as <-. unfold array_get. rewrite set_nth_length, E. split; [|split; auto].
  - f_equal. apply set_nth_nth. lia.
  - intros j Hj. destruct ((j <=? 0) || (Z.of_nat (length a) <? j)) eqn:F; auto. f_equal. apply set_nth_other. lia.
Qed.
Lemma array_get_bounds : forall a i, (exists v, array_get a i = AVal v) <-> 1 <= i <= Z.of_nat (length a).
Proof.
  intros a i. unfold array_get. destruct ((i <=? 0) || (Z.of_nat (length a) <? i)) eqn:E.
  - split; [intros (v & H); discriminate|lia].
  - split; [lia|eauto].
Qed.
Lemma array_reverse_involutive : forall a, match array_reverse a with AOk b => array_reverse b = AOk a | _ => False end.
Proof. intros. unfold array_reverse. rewrite rev_involutive. reflexivity. Qed.
Lemma array_subarray_spec : forall a start l b, array_subarray a start (Some l) = AOk b ->
  b = firstn (Z.to_nat l) (skipn (Z.to_nat (start - 1)) a) /\ length b = Z.to_nat l /\ 1 <= start /\ 0 <= l /\ start + l <= Z.of_nat (length a) + 1.
Proof.
  intros a start l b H. unfold array_subarray in H.
  destruct ((start <? 1) || (Z.of_nat (length a) + 1 <? start)) eqn:E1; [discriminate|].
  destruct (l <? 0) eqn:E2; [discriminate|]. destruct (Z.of_nat (length a) + 1 <? start + l) eqn:E3; [discriminate|].
  injection H as <-. split; auto. split; [|lia]. rewrite firstn_length, skipn_length. lia.
Qed.
Lemma array_insert_before_spec : forall a i v b, array_insert_before a i v = AOk b ->
  length b = S (length a) /\ array_get b i = AVal v.
Proof.
  intros a i v b H. unfold array_insert_before in H.
  destruct ((i <=? 0) || (Z.of_nat (length a) + 1 <? i)) eqn:E; [discriminate|]. injection H as <-.
  assert (Hl : length (firstn (Z.to_nat (i - 1)) a) = Z.to_nat (i - 1)) by (rewrite firstn_length; lia).
  split.
  - rewrite app_length. cbn [length]. rewrite Hl, skipn_length. lia.
  - unfold array_get. rewrite app_length. cbn [length]. rewrite Hl, skipn_length.
    destruct ((i <=? 0) || (Z.of_nat (Z.to_nat (i - 1) + S (length a - Z.to_nat (i - 1))) <? i)) eqn:F; [lia|].
    f_equal. rewrite app_nth2 by lia. rewrite Hl, Nat.sub_diag. reflexivity.
Qed.
