(* C15 property theorems, typed keys (C15/Keys.v) *)
From Coq Require Import ZArith List Bool.
From EP Require Import C15.Keys C15.KeysProofs.
Import ListNotations.
Open Scope Z_scope.

(* key identity: op:same-key is an equivalence relation on typed atomic keys (numeric keys across types compared
   exactly, NaN the same key as NaN, strings / anyURI / untypedAtomic by content, everything else within its type) *)
Theorem C15_same_key_equivalence : forall a b c,
  same_key_spec a a = true /\ same_key_spec a b = same_key_spec b a /\
  (same_key_spec a b = true -> same_key_spec b c = true -> same_key_spec a c = true).
Proof. intros a b c. split; [apply spec_refl|]. split; [apply spec_sym|apply spec_trans]. Qed.
Print Assumptions C15_same_key_equivalence.
(* compare.same_key as written decides it on all well-formed keys (after the repair of C15-key-boolean-integer) *)
Theorem C15_same_key_code : forall a b, wfk a = true -> wfk b = true ->
  same_key_impl a b = same_key_spec a b.
Proof. exact impl_eq_spec. Qed.
Print Assumptions C15_same_key_code.
(* before the repair Python's True == 1 made true() and 1 the same key *)
Theorem C15_same_key_old_boolean_number_refuted : exists a b, wfk a = true /\ wfk b = true /\ same_key_old_bool a b <> same_key_spec a b.
Proof. exists (KBool true), (KN TInteger (NFin 1 1)). repeat split; discriminate. Qed.
Print Assumptions C15_same_key_old_boolean_number_refuted.
(* before the repair hexBinary and base64Binary keys with the same octets were the same key *)
Theorem C15_same_key_old_binary_refuted : exists a b, same_key_old_bin a b <> same_key_spec a b.
Proof. exists (KBin true 10), (KBin false 10). discriminate. Qed.
Print Assumptions C15_same_key_old_binary_refuted.

(* the finite-map laws over typed keys, for maps built by put / remove with the same-key relation: get after put,
   contains after put, other keys unchanged, size arithmetic, remove, and no two entries with the same key *)
Theorem C15_typed_map_laws : forall (m : tmap key) k v k' ks,
  tget same_key_spec (tput same_key_spec m k v) k' = (if same_key_spec k k' then v else tget same_key_spec m k') /\
  tcontains same_key_spec (tput same_key_spec m k v) k' = (if same_key_spec k k' then true else tcontains same_key_spec m k') /\
  tget same_key_spec (tremove same_key_spec m ks) k' =
    (if existsb (fun x => same_key_spec x k') ks then [] else tget same_key_spec m k') /\
  (twf same_key_spec m ->
   twf same_key_spec (tput same_key_spec m k v) /\ twf same_key_spec (tremove same_key_spec m ks) /\
   tsize (tput same_key_spec m k v) = tsize m + (if tcontains same_key_spec m k then 0 else 1)).
Proof.
  intros m k v k' ks.
  split; [exact (tget_tput key same_key_spec spec_sym spec_trans m k v k')|].
  split; [exact (tcontains_tput key same_key_spec spec_sym spec_trans m k v k')|].
  split; [exact (tget_tremove key same_key_spec spec_sym spec_trans m ks k')|].
  intros W. split; [exact (twf_tput key same_key_spec m k v W)|].
  split; [exact (twf_tremove key same_key_spec m ks W)|].
  exact (tsize_tput key same_key_spec spec_sym spec_trans m k v W).
Qed.
Print Assumptions C15_typed_map_laws.
(* map:merge over typed keys: the result never holds two entries with the same key, and each entry of an operand is
   merged under the duplicates policy (0 use-first | 1 use-last | 2 reject = FOJS0003 | 3 combine = concatenation) *)
Theorem C15_typed_merge : forall p ms (m : tmap key) k v k',
  (tmerge same_key_spec p ms = Some m -> twf same_key_spec m) /\
  (twf same_key_spec m ->
   match tlookup same_key_spec m k with
   | None => exists m', tmerge_one same_key_spec p m (k, v) = Some m' /\
                        tget same_key_spec m' k' = if same_key_spec k k' then v else tget same_key_spec m k'
   | Some old =>
       if p =? 0 then tmerge_one same_key_spec p m (k, v) = Some m
       else if p =? 1 then exists m', tmerge_one same_key_spec p m (k, v) = Some m' /\
                                      tget same_key_spec m' k' = if same_key_spec k k' then v else tget same_key_spec m k'
       else if p =? 2 then tmerge_one same_key_spec p m (k, v) = None
       else exists m', tmerge_one same_key_spec p m (k, v) = Some m' /\
                       tget same_key_spec m' k' = if same_key_spec k k' then old ++ v else tget same_key_spec m k'
   end).
Proof.
  intros p ms m k v k'. split.
  - exact (tmerge_wf key same_key_spec p ms m).
  - exact (tmerge_one_spec key same_key_spec spec_sym spec_trans p m k v k').
Qed.
Print Assumptions C15_typed_merge.
Example C15_typed_nonvacuous :
  let m := tput same_key_spec (tput same_key_spec [] (KN TInteger (NFin 1 1)) [7]) (KS FUntyped 1) [8] in
  twf same_key_spec m /\ tget same_key_spec (tput same_key_spec m (KN TDouble (NFin 2 2)) [9]) (KN TDecimal (NFin 10 10)) = [9] /\
  tsize (tput same_key_spec m (KN TDouble (NFin 2 2)) [9]) = 2 /\ same_key_spec (KN TDouble NNaN) (KN TFloat NNaN) = true.
Proof. cbn. repeat split; intros kv H; repeat (destruct H as [<-|H]; [reflexivity|]); destruct H. Qed.

