(* C15 model: XPath 3.1 maps and arrays as immutable values.
   Maps: Python dicts (insertion ordered) with integer keys = association lists without duplicate keys; values are
   integer sequences.  Mirrors xpath31/_xpath31_functions.py map:* (101-312) and array:* (314-616), after the
   fixes (copy before update).  Arrays: lists of members (integer sequences).  NO proofs here. *)
From Coq Require Import ZArith List Bool.
Import ListNotations.
Open Scope Z_scope.

Definition value := list Z.
Definition xmap := list (Z * value).

Fixpoint lookup (m : xmap) (k : Z) : option value :=
  match m with [] => None | (k', v) :: r => if k' =? k then Some v else lookup r k end.
Definition keys (m : xmap) : list Z := map fst m.
Definition map_get (m : xmap) (k : Z) : value := match lookup m k with Some v => v | None => [] end.   (* KeyError -> [] *)
Definition map_contains (m : xmap) (k : Z) : bool := existsb (Z.eqb k) (keys m).
(* items = {k: v for k, v in map_.items() if not_equal(k, key)}; items[key] = value *)
Definition map_put (m : xmap) (k : Z) (v : value) : xmap := filter (fun kv => negb (fst kv =? k)) m ++ [(k, v)].
Definition map_remove (m : xmap) (ks : list Z) : xmap := filter (fun kv => forallb (fun x => negb (fst kv =? x)) ks) m.
Definition map_size (m : xmap) : Z := Z.of_nat (length m).
Definition map_entry (k : Z) (v : value) : xmap := [(k, v)].

Inductive policy := UseFirst | UseLast | Reject | Combine.
Inductive mres := MOk (m : xmap) | MErr.        (* FOJS0003 *)
(* dict update of one key under a policy *)
Fixpoint replace_value (m : xmap) (k : Z) (f : value -> value) : xmap :=
  match m with [] => [] | (k', v) :: r => if k' =? k then (k', f v) :: r else (k', v) :: replace_value r k f end.
Definition merge_one (p : policy) (items : xmap) (kv : Z * value) : mres :=
  let '(k, v) := kv in
  match lookup items k with
  | None => MOk (items ++ [(k, v)])
  | Some _ =>
    match p with
    | UseFirst => MOk items
    | Reject => MErr
    | UseLast => MOk (filter (fun x => negb (fst x =? k)) items ++ [(k, v)])   (* pop then set: moves to the end *)
    | Combine => MOk (replace_value items k (fun old => old ++ v))               (* sequence concatenation (F&O) *)
    end
  end.
Fixpoint merge_fold (p : policy) (items : xmap) (l : list (Z * value)) : mres :=
  match l with
  | [] => MOk items
  | kv :: r => match merge_one p items kv with MOk i' => merge_fold p i' r | MErr => MErr end
  end.
Definition map_merge (p : policy) (ms : list xmap) : mres := merge_fold p [] (concat ms).

(* ---- arrays ---- *)
Definition xarray := list value.
Inductive ares := AOk (a : xarray) | AVal (v : value) | AErr (code : Z).      (* 1 FOAY0001, 2 FOAY0002 *)
Definition array_get (a : xarray) (i : Z) : ares :=
  if (i <=? 0) || (Z.of_nat (length a) <? i) then AErr 1 else AVal (nth (Z.to_nat (i - 1)) a []).
Fixpoint set_nth (a : xarray) (n : nat) (v : value) : xarray :=
  match a, n with [], _ => [] | _ :: r, O => v :: r | x :: r, S n' => x :: set_nth r n' v end.
Definition array_put (a : xarray) (i : Z) (v : value) : ares :=
  if (i <=? 0) || (Z.of_nat (length a) <? i) then AErr 1 else AOk (set_nth a (Z.to_nat (i - 1)) v).
Definition array_append (a : xarray) (v : value) : ares := AOk (a ++ [v]).
Definition array_insert_before (a : xarray) (i : Z) (v : value) : ares :=
  if (i <=? 0) || (Z.of_nat (length a) + 1 <? i) then AErr 1
  else AOk (firstn (Z.to_nat (i - 1)) a ++ v :: skipn (Z.to_nat (i - 1)) a).
Fixpoint remove_positions (a : xarray) (k : Z) (ps : list Z) : xarray :=
  match a with [] => [] | x :: r => if existsb (Z.eqb k) ps then remove_positions r (k + 1) ps else x :: remove_positions r (k + 1) ps end.
Definition array_remove (a : xarray) (ps : list Z) : ares :=
  if forallb (fun p => (0 <? p) && (p <=? Z.of_nat (length a))) ps then AOk (remove_positions a 1 ps) else AErr 1.
Definition array_subarray (a : xarray) (start : Z) (len : option Z) : ares :=
  let n := Z.of_nat (length a) in
  if (start <? 1) || (n + 1 <? start) then AErr 1
  else match len with
       | None => AOk (skipn (Z.to_nat (start - 1)) a)
       | Some l => if l <? 0 then AErr 2 else if n + 1 <? start + l then AErr 1
                   else AOk (firstn (Z.to_nat l) (skipn (Z.to_nat (start - 1)) a))
       end.
Definition array_head (a : xarray) : ares := match a with [] => AErr 1 | x :: _ => AVal x end.
Definition array_tail (a : xarray) : ares := match a with [] => AErr 1 | _ :: r => AOk r end.
Definition array_reverse (a : xarray) : ares := AOk (rev a).
Definition array_join (l : list xarray) : ares := AOk (concat l).
Definition array_flatten (a : xarray) : value := concat a.
