From Coq Require Import ZArith List Bool.
From EP Require Import C15.Model C15.Keys.
Import ListNotations.
Open Scope Z_scope.
(* maps are encoded as lists of (key :: value) rows; [[-9]] = error *)
Definition enc_map (m : xmap) : list (list Z) := map (fun kv => fst kv :: snd kv) m.
Definition enc_mres (r : mres) : list (list Z) := match r with MOk m => enc_map m | MErr => [[-9]] end.
Definition enc_ares (r : ares) : list (list Z) := match r with AOk a => [0] :: a | AVal v => [[1]; v] | AErr c => [[2; c]] end.
Definition pol (z : Z) : policy := match z with 0 => UseFirst | 1 => UseLast | 2 => Reject | _ => Combine end.
(* map operation sequences: op codes 0 put k v | 1 remove ks ; result: final map, then probes get/contains/size *)
Inductive mop := MPut (k : Z) (v : value) | MRemove (ks : list Z).
Definition apply_mop (m : xmap) (o : mop) : xmap := match o with MPut k v => map_put m k v | MRemove ks => map_remove m ks end.
Definition run_mops (m : xmap) (ops : list mop) (probes : list Z) : list (list Z) * list (list Z) :=
  let r := fold_left apply_mop ops m in
  (enc_map r, map (fun k => (if map_contains r k then 1 else 0) :: map_get r k) probes ++ [[map_size r]]).
Definition run_merge (p : Z) (ms : list xmap) : list (list Z) := enc_mres (map_merge (pol p) ms).
(* arrays: f = 1 get | 2 put | 3 append | 4 insert-before | 5 remove | 6 subarray/2 | 7 subarray/3 | 8 head | 9 tail | 10 reverse | 11 join | 12 flatten *)
Definition run_arr (f : Z) (a : xarray) (i j : Z) (v : value) (ps : list Z) (others : list xarray) : list (list Z) :=
  match f with
  | 1 => enc_ares (array_get a i) | 2 => enc_ares (array_put a i v) | 3 => enc_ares (array_append a v)
  | 4 => enc_ares (array_insert_before a i v) | 5 => enc_ares (array_remove a ps) | 6 => enc_ares (array_subarray a i None)
  | 7 => enc_ares (array_subarray a i (Some j)) | 8 => enc_ares (array_head a) | 9 => enc_ares (array_tail a)
  | 10 => enc_ares (array_reverse a) | 11 => enc_ares (array_join (a :: others)) | _ => [[1]; array_flatten a]
  end.

(* typed keys: op sequences over maps keyed by the op:same-key relation (spec) and by compare.same_key (code) *)
Inductive top := TPut (k : key) (v : tvalue) | TRemove (ks : list key).
Definition apply_top (eqk : key -> key -> bool) (m : tmap key) (o : top) : tmap key :=
  match o with TPut k v => tput eqk m k v | TRemove ks => tremove eqk m ks end.
Definition run_tops_with (eqk : key -> key -> bool) (ops : list top) (probes : list key) : list (list Z) :=
  let r := fold_left (apply_top eqk) ops [] in
  map (fun k => (if tcontains eqk r k then 1 else 0) :: tget eqk r k) probes ++ [[tsize r]].
Definition run_tops (ops : list top) (probes : list key) : list (list Z) * list (list Z) :=
  (run_tops_with same_key_impl ops probes, run_tops_with same_key_spec ops probes).
Definition run_same (a b : key) : Z * Z :=
  ((if same_key_impl a b then 1 else 0), (if same_key_spec a b then 1 else 0)).
(* map:merge on typed keys: the merged map probed by get / contains / size; [[-9]] = FOJS0003 *)
Definition run_tmerge_with (eqk : key -> key -> bool) (p : Z) (ms : list (tmap key)) (probes : list key) : list (list Z) :=
  match tmerge eqk p ms with
  | None => [[-9]]
  | Some r => map (fun k => (if tcontains eqk r k then 1 else 0) :: tget eqk r k) probes ++ [[tsize r]]
  end.
Definition run_tmerge (p : Z) (ms : list (tmap key)) (probes : list key) : list (list Z) * list (list Z) :=
  (run_tmerge_with same_key_impl p ms probes, run_tmerge_with same_key_spec p ms probes).
