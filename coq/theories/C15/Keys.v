(* C15 key identity: the op:same-key relation of XPath 3.1 over typed atomic keys, and compare.same_key as written
   (elementpath/compare.py same_key, used by map:put / map:remove / map:contains / map:merge).
   Keys: strings / anyURI / untypedAtomic with a content code (equal codes = codepoint-equal contents), numerics as exact
   rationals or NaN / INF / -INF with their type, booleans, QNames, binaries (hex or base64, octets code), and the other
   atomic families (dates, times, durations, ...) as (family, value code).  NO proofs here. *)
From Coq Require Import ZArith List Bool.
Import ListNotations.
Open Scope Z_scope.

Inductive sfam := FString | FAnyURI | FUntyped.
Inductive ntype := TInteger | TDecimal | TDouble | TFloat.
Inductive nval := NFin (n : Z) (d : positive) | NNaN | NPInf | NNInf.
Inductive key :=
| KS (f : sfam) (s : Z)
| KN (t : ntype) (v : nval)
| KBool (b : bool)
| KQName (q : Z)
| KBin (hex : bool) (o : Z)
| KOther (fam : Z) (v : Z).

(* numeric equality on infinite-precision values; NaN is the same key as NaN *)
Definition nval_eq (a b : nval) : bool :=
  match a, b with
  | NFin n1 d1, NFin n2 d2 => n1 * Zpos d2 =? n2 * Zpos d1
  | NNaN, NNaN | NPInf, NPInf | NNInf, NNInf => true
  | _, _ => false
  end.

(* F&O 3.1 op:same-key *)
Definition same_key_spec (a b : key) : bool :=
  match a, b with
  | KS _ s1, KS _ s2 => s1 =? s2
  | KN _ v1, KN _ v2 => nval_eq v1 v2
  | KBool b1, KBool b2 => eqb b1 b2
  | KQName q1, KQName q2 => q1 =? q2
  | KBin h1 o1, KBin h2 o2 => eqb h1 h2 && (o1 =? o2)
  | KOther f1 v1, KOther f2 v2 => (f1 =? f2) && (v1 =? v2)
  | _, _ => false
  end.

(* ---- the code ---- *)
Definition is_s (k : key) : bool := match k with KS _ _ => true | _ => false end.
Definition is_q (k : key) : bool := match k with KQName _ => true | _ => false end.
Definition is_bin (k : key) : bool := match k with KBin _ _ => true | _ => false end.
Definition float_nan (k : key) : bool :=                 (* isinstance(k, float) and math.isnan(k) *)
  match k with KN (TDouble | TFloat) NNaN => true | _ => false end.
Definition content (k : key) : Z := match k with KS _ s => s | _ => 0 end.
Definition bin_hex (k : key) : bool := match k with KBin h _ => h | _ => false end.

(* Python == on two key values that are neither strings nor NaN (modelled external): numbers compare exactly across
   int / Decimal / float, bool is the integer 0 / 1, binaries compare their octets, the other families by value within
   a family (TypeError or False across families) *)
Definition py_num (k : key) : option nval :=
  match k with
  | KN _ v => Some v
  | KBool b => Some (NFin (if b then 1 else 0) 1)
  | _ => None
  end.
Definition py_eq (a b : key) : bool :=
  match py_num a, py_num b with
  | Some v1, Some v2 => match v1, v2 with NNaN, _ | _, NNaN => false | _, _ => nval_eq v1 v2 end
  | _, _ =>
    match a, b with
    | KQName q1, KQName q2 => q1 =? q2
    | KBin _ o1, KBin _ o2 => o1 =? o2
    | KOther f1 v1, KOther f2 v2 => (f1 =? f2) && (v1 =? v2)
    | _, _ => false
    end
  end.

Definition is_b (k : key) : bool := match k with KBool _ => true | _ => false end.
Definition same_key_impl (a b : key) : bool :=
  if is_s a then (if is_s b then content a =? content b else false)
  else if is_s b then false
  else if float_nan a then float_nan b
  else if xorb (is_q a) (is_q b) then false
  else if xorb (is_b a) (is_b b) then false
  else if is_bin a && is_bin b && negb (eqb (bin_hex a) (bin_hex b)) then false
  else py_eq a b.

(* before the repair of C15-key-boolean-integer: no test of the boolean type (Python True == 1) *)
Definition same_key_old_bool (a b : key) : bool :=
  if is_s a then (if is_s b then content a =? content b else false)
  else if is_s b then false
  else if float_nan a then float_nan b
  else if xorb (is_q a) (is_q b) then false
  else if is_bin a && is_bin b && negb (eqb (bin_hex a) (bin_hex b)) then false
  else py_eq a b.

(* before the repairs: no test of the second operand for strings, no test of the binary types *)
Definition same_key_old_bin (a b : key) : bool :=
  if is_s a then (if is_s b then content a =? content b else false)
  else if float_nan a then float_nan b
  else if xorb (is_q a) (is_q b) then false
  else py_eq a b.

Definition bool_vs_number (a b : key) : bool :=
  match a, b with KBool _, KN _ _ | KN _ _, KBool _ => true | _, _ => false end.
(* keys as they can occur: only xs:double / xs:float carry NaN and the infinities *)
Definition wfk (k : key) : bool :=
  match k with KN (TInteger | TDecimal) (NNaN | NPInf | NNInf) => false | _ => true end.

(* ---- maps over typed keys: association lists whose keys are pairwise different keys for a key relation eqk; the same
   definitions as C15.Model (dict comprehension + assignment) with the key test abstracted ---- *)
Section TMap.
Variable K : Type.
Variable eqk : K -> K -> bool.
Definition tvalue := list Z.
Definition tmap := list (K * tvalue).
Fixpoint tlookup (m : tmap) (k : K) : option tvalue :=
  match m with [] => None | (k', v) :: r => if eqk k' k then Some v else tlookup r k end.
Definition tget (m : tmap) (k : K) : tvalue := match tlookup m k with Some v => v | None => [] end.
Definition tcontains (m : tmap) (k : K) : bool := existsb (fun kv => eqk (fst kv) k) m.
Definition tput (m : tmap) (k : K) (v : tvalue) : tmap := filter (fun kv => negb (eqk (fst kv) k)) m ++ [(k, v)].
Definition tremove (m : tmap) (ks : list K) : tmap := filter (fun kv => negb (existsb (eqk (fst kv)) ks)) m.
Definition tsize (m : tmap) : Z := Z.of_nat (length m).
(* map:merge over the entries of the operand maps in order; policy 0 use-first | 1 use-last | 2 reject | 3 combine;
   None = FOJS0003 *)
Fixpoint treplace (m : tmap) (k : K) (f : tvalue -> tvalue) : tmap :=
  match m with [] => [] | (k', v) :: r => if eqk k' k then (k', f v) :: r else (k', v) :: treplace r k f end.
Definition tmerge_one (p : Z) (items : tmap) (kv : K * tvalue) : option tmap :=
  let '(k, v) := kv in
  match tlookup items k with
  | None => Some (items ++ [(k, v)])
  | Some _ =>
    if p =? 0 then Some items
    else if p =? 1 then Some (filter (fun x => negb (eqk (fst x) k)) items ++ [(k, v)])
    else if p =? 2 then None
    else Some (treplace items k (fun old => old ++ v))
  end.
Fixpoint tmerge_fold (p : Z) (items : tmap) (l : list (K * tvalue)) : option tmap :=
  match l with
  | [] => Some items
  | kv :: r => match tmerge_one p items kv with Some i' => tmerge_fold p i' r | None => None end
  end.
Definition tmerge (p : Z) (ms : list tmap) : option tmap := tmerge_fold p [] (concat ms).
(* no two entries have the same key *)
Fixpoint twf (m : tmap) : Prop :=
  match m with [] => True | (k, _) :: r => (forall kv, In kv r -> eqk k (fst kv) = false) /\ twf r end.
End TMap.
Arguments tlookup {K}. Arguments tget {K}. Arguments tcontains {K}. Arguments tput {K}. Arguments tremove {K}.
Arguments tsize {K}. Arguments twf {K}. Arguments tmerge {K}. Arguments tmerge_one {K}. Arguments tmerge_fold {K}. Arguments treplace {K}.
