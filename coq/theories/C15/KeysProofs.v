(* C15 key identity: proofs *)
From Coq Require Import ZArith List Bool Lia.
From EP Require Import C15.Keys.
Import ListNotations.
Open Scope Z_scope.

Lemma nval_eq_refl : forall v, nval_eq v v = true.
Proof. intros [n d| | |]; cbn; auto. apply Z.eqb_refl. Qed.
Lemma nval_eq_sym : forall a b, nval_eq a b = nval_eq b a.
Proof. intros [n1 d1| | |] [n2 d2| | |]; cbn; auto. apply Z.eqb_sym. Qed.
Lemma nval_eq_trans : forall a b c, nval_eq a b = true -> nval_eq b c = true -> nval_eq a c = true.
Proof.
  intros [n1 d1| | |] [n2 d2| | |] [n3 d3| | |]; cbn; intros H1 H2; try discriminate; auto.
  apply Z.eqb_eq in H1. apply Z.eqb_eq in H2. apply Z.eqb_eq. nia.
Qed.

Lemma spec_refl : forall a, same_key_spec a a = true.
Proof.
  intros [f s|t v|b|q|h o|f v]; cbn; try apply Z.eqb_refl; try apply nval_eq_refl.
  - destruct b; reflexivity.
  - rewrite Z.eqb_refl. destruct h; reflexivity.
  - rewrite !Z.eqb_refl. reflexivity.
Qed.
Lemma spec_sym : forall a b, same_key_spec a b = same_key_spec b a.
Proof.
  intros [f s|t v|b|q|h o|f v] [f' s'|t' v'|b'|q'|h' o'|f' v']; cbn; auto; try apply Z.eqb_sym; try apply nval_eq_sym.
  - destruct b, b'; reflexivity.
  - rewrite (Z.eqb_sym o o'). destruct h, h'; reflexivity.
  - rewrite (Z.eqb_sym f f'), (Z.eqb_sym v v'). reflexivity.
Qed.
Lemma spec_trans : forall a b c, same_key_spec a b = true -> same_key_spec b c = true -> same_key_spec a c = true.
Proof.
  intros [f s|t v|b|q|h o|f v] [f' s'|t' v'|b'|q'|h' o'|f' v'] [f2 s2|t2 v2|b2|q2|h2 o2|f2 v2]; cbn; intros H1 H2;
    try discriminate; auto.
  - apply Z.eqb_eq in H1. apply Z.eqb_eq in H2. apply Z.eqb_eq. congruence.
  - eapply nval_eq_trans; eauto.
  - destruct b, b', b2; auto.
  - apply Z.eqb_eq in H1. apply Z.eqb_eq in H2. apply Z.eqb_eq. congruence.
  - apply andb_true_iff in H1. apply andb_true_iff in H2. destruct H1 as (A & B). destruct H2 as (C & D).
    apply andb_true_iff. split; [destruct h, h', h2; auto|].
    apply Z.eqb_eq in B. apply Z.eqb_eq in D. apply Z.eqb_eq. congruence.
  - apply andb_true_iff in H1. apply andb_true_iff in H2. destruct H1 as (A & B). destruct H2 as (C & D).
    apply Z.eqb_eq in A. apply Z.eqb_eq in B. apply Z.eqb_eq in C. apply Z.eqb_eq in D.
    apply andb_true_iff. split; apply Z.eqb_eq; congruence.
Qed.

(* the code decides op:same-key on every pair of well-formed keys *)
Lemma impl_eq_spec : forall a b, wfk a = true -> wfk b = true ->
  same_key_impl a b = same_key_spec a b.
Proof.
  intros [f s|t v|b|q|h o|f v] [f' s'|t' v'|b'|q'|h' o'|f' v'] Wa Wb;
    unfold same_key_impl; cbn; auto;
    try (destruct t, v as [n d| | |]; cbn in *; try discriminate; auto; fail).
  - (* number, number *)
    destruct t, v as [n d| | |], t', v' as [n' d'| | |]; cbn in *; try discriminate; auto.
  - (* bool, bool *)
    destruct b, b'; reflexivity.
  - (* binaries *)
    destruct h, h'; cbn; auto.
Qed.

Lemma old_bool_number_differs : same_key_old_bool (KBool true) (KN TInteger (NFin 1 1)) = true /\
  same_key_spec (KBool true) (KN TInteger (NFin 1 1)) = false.
Proof. split; reflexivity. Qed.

(* ---- finite-map laws for any key equivalence ---- *)
Section TMapLaws.
Variable K : Type.
Variable eqk : K -> K -> bool.
Hypothesis eqk_refl : forall a, eqk a a = true.
Hypothesis eqk_sym : forall a b, eqk a b = eqk b a.
Hypothesis eqk_trans : forall a b c, eqk a b = true -> eqk b c = true -> eqk a c = true.

Lemma eqk_false_l : forall a b c, eqk a b = true -> eqk a c = false -> eqk b c = false.
Proof.
  intros a b c H1 H2. destruct (eqk b c) eqn:E; auto. rewrite (eqk_trans a b c H1 E) in H2. discriminate.
Qed.

Lemma tlookup_app : forall (m1 m2 : tmap K) k,
  tlookup eqk (m1 ++ m2) k = match tlookup eqk m1 k with Some v => Some v | None => tlookup eqk m2 k end.
Proof. induction m1 as [|[k' v] r IH]; intros m2 k; cbn; auto. destruct (eqk k' k); auto. Qed.
Lemma tlookup_filter_same : forall (m : tmap K) k k', eqk k k' = true ->
  tlookup eqk (filter (fun kv => negb (eqk (fst kv) k)) m) k' = None.
Proof.
  induction m as [|[k0 v0] r IH]; intros k k' E; cbn; auto.
  destruct (eqk k0 k) eqn:E0; cbn; auto.
  destruct (eqk k0 k') eqn:E1; auto.
  exfalso. rewrite eqk_sym in E. rewrite (eqk_trans k0 k' k E1 E) in E0. discriminate.
Qed.
Lemma tlookup_filter_other : forall (m : tmap K) k k', eqk k k' = false ->
  tlookup eqk (filter (fun kv => negb (eqk (fst kv) k)) m) k' = tlookup eqk m k'.
Proof.
  induction m as [|[k0 v0] r IH]; intros k k' E; cbn; auto.
  destruct (eqk k0 k) eqn:E0; cbn.
  - destruct (eqk k0 k') eqn:E1; auto.
    exfalso. rewrite eqk_sym in E0. rewrite (eqk_trans k k0 k' E0 E1) in E. discriminate.
  - destruct (eqk k0 k'); auto.
Qed.

(* map:get(map:put(m, k, v), k') = v when k' is the same key as k, unchanged otherwise *)
Lemma tget_tput : forall (m : tmap K) k v k',
  tget eqk (tput eqk m k v) k' = if eqk k k' then v else tget eqk m k'.
Proof.
  intros m k v k'. unfold tget, tput. rewrite tlookup_app. cbn.
  destruct (eqk k k') eqn:E.
  - rewrite tlookup_filter_same; auto.
  - rewrite tlookup_filter_other; auto. destruct (tlookup eqk m k'); auto.
Qed.

Lemma tcontains_lookup : forall (m : tmap K) k, tcontains eqk m k = match tlookup eqk m k with Some _ => true | None => false end.
Proof. induction m as [|[k0 v0] r IH]; intros k; cbn; auto. destruct (eqk k0 k); cbn; auto. apply IH. Qed.
Lemma tcontains_tput : forall (m : tmap K) k v k',
  tcontains eqk (tput eqk m k v) k' = if eqk k k' then true else tcontains eqk m k'.
Proof.
  intros m k v k'. rewrite !tcontains_lookup. unfold tput. rewrite tlookup_app. cbn.
  destruct (eqk k k') eqn:E.
  - rewrite tlookup_filter_same; auto.
  - rewrite tlookup_filter_other; auto. destruct (tlookup eqk m k'); auto.
Qed.

Lemma twf_filter : forall (m : tmap K) f, twf eqk m -> twf eqk (filter f m).
Proof.
  induction m as [|[k v] r IH]; intros f W; cbn in *; auto. destruct W as (W1 & W2).
  destruct (f (k, v)); cbn; auto. split; auto.
  intros kv H. apply filter_In in H. apply W1. tauto.
Qed.
Lemma twf_app_one : forall (m : tmap K) k v, twf eqk m -> (forall kv, In kv m -> eqk (fst kv) k = false) -> twf eqk (m ++ [(k, v)]).
Proof.
  induction m as [|[k0 v0] r IH]; intros k v W H; cbn in *; [split; [intros kv []|exact I]|].
  destruct W as (W1 & W2). split.
  - intros kv Hin. apply in_app_or in Hin. destruct Hin as [Hin|[<-|[]]]; [exact (W1 kv Hin)|].
    exact (H (k0, v0) (or_introl eq_refl)).
  - apply IH; [exact W2|]. intros kv Hin. apply H. right. exact Hin.
Qed.
Lemma twf_tput : forall (m : tmap K) k v, twf eqk m -> twf eqk (tput eqk m k v).
Proof.
  intros m k v W. unfold tput. apply twf_app_one.
  - apply twf_filter; auto.
  - intros kv H. apply filter_In in H. destruct H as (_ & H). destruct (eqk (fst kv) k); cbn in H; [discriminate|reflexivity].
Qed.
Lemma twf_tremove : forall (m : tmap K) ks, twf eqk m -> twf eqk (tremove eqk m ks).
Proof. intros. apply twf_filter; auto. Qed.

(* on a well-formed map at most one entry is filtered out by a put *)
Lemma filter_len_wf : forall (m : tmap K) k, twf eqk m ->
  length (filter (fun kv => negb (eqk (fst kv) k)) m) = (length m - (if tcontains eqk m k then 1 else 0))%nat.
Proof.
  induction m as [|[k0 v0] r IH]; intros k W; [reflexivity|]. cbn in W. destruct W as (W1 & W2).
  specialize (IH k W2). unfold tcontains in *. cbn [filter existsb fst length].
  destruct (eqk k0 k) eqn:E; cbn [negb orb length].
  - assert (Hr : existsb (fun kv => eqk (fst kv) k) r = false).
    { apply not_true_is_false. intros Hex. apply existsb_exists in Hex. destruct Hex as (kv & Hin & Hk).
      specialize (W1 kv Hin). rewrite eqk_sym in Hk.
      rewrite (eqk_trans k0 k (fst kv) E Hk) in W1. discriminate. }
    rewrite IH, Hr. lia.
  - rewrite IH. destruct (existsb (fun kv => eqk (fst kv) k) r) eqn:C; [|lia].
    destruct r; cbn in C |- *; [discriminate|lia].
Qed.
Lemma tsize_tput : forall (m : tmap K) k v, twf eqk m ->
  tsize (tput eqk m k v) = tsize m + (if tcontains eqk m k then 0 else 1).
Proof.
  intros m k v W. unfold tsize, tput. rewrite app_length, filter_len_wf; auto. cbn [length].
  destruct (tcontains eqk m k) eqn:C; [|lia].
  destruct m; [discriminate|cbn [length]; lia].
Qed.

Lemma tget_tremove : forall (m : tmap K) ks k,
  tget eqk (tremove eqk m ks) k = if existsb (fun x => eqk x k) ks then [] else tget eqk m k.
Proof.
  intros m ks k. unfold tget, tremove.
  induction m as [|[k0 v0] r IH]; cbn.
  - destruct (existsb _ ks); reflexivity.
  - destruct (existsb (eqk k0) ks) eqn:E0; cbn.
    + destruct (eqk k0 k) eqn:E1; auto.
      apply existsb_exists in E0. destruct E0 as (x & Hin & Hx).
      assert (Hk : existsb (fun x => eqk x k) ks = true).
      { apply existsb_exists. exists x. split; auto. rewrite eqk_sym in Hx. apply (eqk_trans x k0 k Hx E1). }
      rewrite Hk in IH |- *. exact IH.
    + destruct (eqk k0 k) eqn:E1; auto.
      assert (Hk : existsb (fun x => eqk x k) ks = false).
      { apply not_true_is_false. intros Hex. apply existsb_exists in Hex. destruct Hex as (x & Hin & Hx).
        assert (existsb (eqk k0) ks = true).
        { apply existsb_exists. exists x. split; auto. rewrite eqk_sym in Hx. apply (eqk_trans k0 k x E1 Hx). }
        congruence. }
      rewrite Hk. reflexivity.
Qed.

(* ---- map:merge ---- *)
Lemma treplace_keys : forall (m : tmap K) k f, map fst (treplace eqk m k f) = map fst m.
Proof. induction m as [|[k0 v0] r IH]; intros k f; cbn; auto. destruct (eqk k0 k); cbn; [reflexivity|rewrite IH; reflexivity]. Qed.
Lemma twf_keys : forall (m m' : tmap K), map fst m = map fst m' -> twf eqk m -> twf eqk m'.
Proof.
  induction m as [|[k v] r IH]; intros [|[k' v'] r'] E W; cbn in *; try discriminate; auto.
  injection E as -> E. destruct W as (W1 & W2). split; [|apply (IH r' E W2)].
  intros kv Hin. apply (in_map fst) in Hin. rewrite <- E in Hin. apply in_map_iff in Hin.
  destruct Hin as (kv0 & Hf & Hin0). rewrite <- Hf. apply W1. exact Hin0.
Qed.
Lemma tlookup_none_all : forall (m : tmap K) k, tlookup eqk m k = None -> forall kv, In kv m -> eqk (fst kv) k = false.
Proof.
  induction m as [|[k0 v0] r IH]; intros k H kv Hin; [destruct Hin|].
  cbn in H. destruct (eqk k0 k) eqn:E; [discriminate|]. destruct Hin as [<-|Hin]; [exact E|apply IH; auto].
Qed.
Lemma tmerge_one_wf : forall p (m m' : tmap K) kv, twf eqk m -> tmerge_one eqk p m kv = Some m' -> twf eqk m'.
Proof.
  intros p m m' [k v] W H. unfold tmerge_one in H. destruct (tlookup eqk m k) eqn:L.
  - destruct (p =? 0); [injection H as <-; exact W|].
    destruct (p =? 1); [injection H as <-; apply (twf_tput m k v W)|].
    destruct (p =? 2); [discriminate|]. injection H as <-.
    apply (twf_keys m); [symmetry; apply treplace_keys|exact W].
  - injection H as <-. apply twf_app_one; [exact W|]. apply tlookup_none_all. exact L.
Qed.
Lemma tmerge_fold_wf : forall p l (m m' : tmap K), twf eqk m -> tmerge_fold eqk p m l = Some m' -> twf eqk m'.
Proof.
  induction l as [|kv r IH]; intros m m' W H; cbn in H; [injection H as <-; exact W|].
  destruct (tmerge_one eqk p m kv) eqn:E; [|discriminate]. apply (IH t m'); auto. apply (tmerge_one_wf p m t kv W E).
Qed.
(* the merged map has no two entries with the same key, whatever the operands and the policy *)
Lemma tmerge_wf : forall p ms (m : tmap K), tmerge eqk p ms = Some m -> twf eqk m.
Proof. intros p ms m H. apply (tmerge_fold_wf p (concat ms) [] m); [exact I|exact H]. Qed.

Lemma tget_treplace : forall (m : tmap K) k f k', twf eqk m ->
  tget eqk (treplace eqk m k f) k' =
  match tlookup eqk m k with
  | Some old => if eqk k k' then f old else tget eqk m k'
  | None => tget eqk m k'
  end.
Proof.
  unfold tget. induction m as [|[k0 v0] r IH]; intros k f k' W; cbn; auto.
  cbn in W. destruct W as (W1 & W2).
  destruct (eqk k0 k) eqn:E; cbn.
  - destruct (eqk k0 k') eqn:E1.
    + rewrite eqk_sym in E. rewrite (eqk_trans k k0 k' E E1). reflexivity.
    + destruct (eqk k k') eqn:E2; [|reflexivity].
      rewrite (eqk_trans k0 k k' E E2) in E1. discriminate.
  - specialize (IH k f k' W2). destruct (eqk k0 k') eqn:E1.
    + destruct (tlookup eqk r k) eqn:L; [|reflexivity].
      destruct (eqk k k') eqn:E2; [|reflexivity].
      exfalso. rewrite eqk_sym in E2. rewrite (eqk_trans k0 k' k E1 E2) in E. discriminate.
    + exact IH.
Qed.
(* one entry merged into the accumulated map, per policy *)
Lemma tmerge_one_spec : forall p (m : tmap K) k v k', twf eqk m ->
  match tlookup eqk m k with
  | None => exists m', tmerge_one eqk p m (k, v) = Some m' /\ tget eqk m' k' = if eqk k k' then v else tget eqk m k'
  | Some old =>
      if p =? 0 then tmerge_one eqk p m (k, v) = Some m
      else if p =? 1 then exists m', tmerge_one eqk p m (k, v) = Some m' /\ tget eqk m' k' = if eqk k k' then v else tget eqk m k'
      else if p =? 2 then tmerge_one eqk p m (k, v) = None
      else exists m', tmerge_one eqk p m (k, v) = Some m' /\ tget eqk m' k' = if eqk k k' then old ++ v else tget eqk m k'
  end.
Proof.
  intros p m k v k' W. unfold tmerge_one. destruct (tlookup eqk m k) eqn:L.
  - destruct (p =? 0); [reflexivity|]. destruct (p =? 1).
    + eexists. split; [reflexivity|]. apply (tget_tput m k v k').
    + destruct (p =? 2); [reflexivity|]. eexists. split; [reflexivity|].
      rewrite (tget_treplace m k _ k' W), L. reflexivity.
  - eexists. split; [reflexivity|]. unfold tget. rewrite tlookup_app. cbn.
    destruct (tlookup eqk m k') eqn:L'.
    + destruct (eqk k k') eqn:E; [|reflexivity].
      exfalso. assert (tlookup eqk m k' = None) as N; [|congruence].
      clear L'. induction m as [|[k0 v0] r IH]; cbn in *; auto. destruct W as (W1 & W2).
      destruct (eqk k0 k) eqn:E0; [discriminate|]. destruct (eqk k0 k') eqn:E1; [|apply IH; auto].
      rewrite eqk_sym in E. rewrite (eqk_trans k0 k' k E1 E) in E0. discriminate.
    + destruct (eqk k k'); reflexivity.
Qed.
End TMapLaws.
