(* C15 property theorems *)
From Coq Require Import ZArith List Bool.
From EP Require Import C15.Model C15.Proofs C15.Keys C15.KeysProofs.
From EP Require Gen.C15Shape.
Import ListNotations.
Open Scope Z_scope.

Theorem C15_get_put : forall m k k' v, map_get (map_put m k v) k = v /\ (k <> k' -> map_get (map_put m k v) k' = map_get m k').
Proof. intros. split; [apply get_put_same|apply get_put_other]. Qed.
Print Assumptions C15_get_put.
Theorem C15_put_keeps_keys_unique_and_size : forall m k v, wf m ->
  wf (map_put m k v) /\ map_size (map_put m k v) = if map_contains m k then map_size m else map_size m + 1.
Proof. intros. split; [apply put_wf; auto|apply put_size; auto]. Qed.
Print Assumptions C15_put_keeps_keys_unique_and_size.
Theorem C15_remove : forall m ks k,
  (In k ks -> map_contains (map_remove m ks) k = false) /\ (~ In k ks -> map_get (map_remove m ks) k = map_get m k) /\
  (wf m -> wf (map_remove m ks)).
Proof. intros. split; [apply remove_contains|split; [apply remove_other|intros; apply nodup_keys_filter; auto]]. Qed.
Print Assumptions C15_remove.
(* map:merge duplicate policies, one entry at a time *)
Theorem C15_merge_policies : forall items k v old,
  (lookup items k = None -> forall p, merge_one p items (k, v) = MOk (items ++ [(k, v)])) /\
  (lookup items k = Some old ->
     merge_one UseFirst items (k, v) = MOk items /\ merge_one Reject items (k, v) = MErr /\
     (exists m, merge_one UseLast items (k, v) = MOk m /\ map_get m k = v /\ forall k', k' <> k -> map_get m k' = map_get items k') /\
     (exists m, merge_one Combine items (k, v) = MOk m /\ map_get m k = old ++ v /\ forall k', k' <> k -> map_get m k' = map_get items k')).
Proof.
  intros items k v old. split; [intros H p; apply merge_one_new; exact H|]. intros H.
  assert (Hn : lookup items k <> None) by congruence.
  split; [apply merge_one_first; exact Hn|]. split; [apply merge_one_reject; exact Hn|].
  split; [exact (merge_one_last_get items k v old H)|exact (merge_one_combine items k v old H)].
Qed.
Print Assumptions C15_merge_policies.

(* arrays: 1-based indexing, FOAY0001 exactly outside 1..size, put/get, insert-before, subarray, reverse *)
Theorem C15_array_laws : forall a i v,
  ((exists x, array_get a i = AVal x) <-> 1 <= i <= Z.of_nat (length a)) /\
  (forall a', array_put a i v = AOk a' -> array_get a' i = AVal v /\ length a' = length a /\ forall j, j <> i -> array_get a' j = array_get a j) /\
  (forall b, array_insert_before a i v = AOk b -> length b = S (length a) /\ array_get b i = AVal v) /\
  (forall l b, array_subarray a i (Some l) = AOk b ->
     b = firstn (Z.to_nat l) (skipn (Z.to_nat (i - 1)) a) /\ length b = Z.to_nat l /\ 1 <= i /\ 0 <= l /\ i + l <= Z.of_nat (length a) + 1) /\
  match array_reverse a with AOk b => array_reverse b = AOk a | _ => False end.
Proof.
  intros a i v. split; [apply array_get_bounds|]. split; [intros a'; apply array_get_put|].
  split; [intros b; apply array_insert_before_spec|]. split; [intros l b; apply array_subarray_spec|apply array_reverse_involutive].
Qed.
Print Assumptions C15_array_laws.

(* key identity: op:same-key is an equivalence relation on typed atomic keys (numeric keys across types compared
   exactly, NaN the same key as NaN, strings / anyURI / untypedAtomic by content, everything else within its type) *)
Theorem C15_same_key_equivalence : forall a b c,
  same_key_spec a a = true /\ same_key_spec a b = same_key_spec b a /\
  (same_key_spec a b = true -> same_key_spec b c = true -> same_key_spec a c = true).
Proof. intros a b c. split; [apply spec_refl|]. split; [apply spec_sym|apply spec_trans]. Qed.
Print Assumptions C15_same_key_equivalence.
(* compare.same_key as written decides it, except for a boolean against a number.
   FULL STATEMENT: forall a b, wfk a = true -> wfk b = true -> same_key_impl a b = same_key_spec a b. *)
Theorem C15_same_key_code_partial : forall a b, wfk a = true -> wfk b = true -> bool_vs_number a b = false ->
  same_key_impl a b = same_key_spec a b.
Proof. exact impl_eq_spec. Qed.
Print Assumptions C15_same_key_code_partial.
(* Python's True == 1: known finding C15-key-boolean-integer *)
Theorem C15_same_key_boolean_number_refuted : exists a b, wfk a = true /\ wfk b = true /\ same_key_impl a b <> same_key_spec a b.
Proof. exists (KBool true), (KN TInteger (NFin 1 1)). repeat split; discriminate. Qed.
Print Assumptions C15_same_key_boolean_number_refuted.
(* before the repair hexBinary and base64Binary keys with the same octets were the same key *)
Theorem C15_same_key_old_binary_refuted : exists a b, same_key_old_bin a b <> same_key_spec a b.
Proof. exists (KBin true 10), (KBin false 10). discriminate. Qed.
Print Assumptions C15_same_key_old_binary_refuted.

(* the finite-map laws over typed keys, for maps built by put / remove with the same-key relation: get after put,
   contains after put, other keys unchanged, size arithmetic, remove, and no two entries with the same key *)
Theorem C15_typed_map_laws : forall (m : tmap key) k v k' ks,
  tget same_key_spec (tput same_key_spec m k v) k' = (if same_key_spec k k' then v else tget same_key_spec m k') /\
  tcontains same_key_spec (tput same_key_spec m k v) k' = (if same_key_spec k k' then true else tcontains same_key_spec m k') /\
  tget same_key_spec (tremove same_key_spec m ks) k' =
    (if existsb (fun x => same_key_spec x k') ks then [] else tget same_key_spec m k') /\
  (twf same_key_spec m ->
   twf same_key_spec (tput same_key_spec m k v) /\ twf same_key_spec (tremove same_key_spec m ks) /\
   tsize (tput same_key_spec m k v) = tsize m + (if tcontains same_key_spec m k then 0 else 1)).
Proof.
  intros m k v k' ks.
  split; [exact (tget_tput key same_key_spec spec_sym spec_trans m k v k')|].
  split; [exact (tcontains_tput key same_key_spec spec_sym spec_trans m k v k')|].
  split; [exact (tget_tremove key same_key_spec spec_sym spec_trans m ks k')|].
  intros W. split; [exact (twf_tput key same_key_spec m k v W)|].
  split; [exact (twf_tremove key same_key_spec m ks W)|].
  exact (tsize_tput key same_key_spec spec_sym spec_trans m k v W).
Qed.
Print Assumptions C15_typed_map_laws.
(* map:merge over typed keys: the result never holds two entries with the same key, and each entry of an operand is
   merged under the duplicates policy (0 use-first | 1 use-last | 2 reject = FOJS0003 | 3 combine = concatenation) *)
Theorem C15_typed_merge : forall p ms (m : tmap key) k v k',
  (tmerge same_key_spec p ms = Some m -> twf same_key_spec m) /\
  (twf same_key_spec m ->
   match tlookup same_key_spec m k with
   | None => exists m', tmerge_one same_key_spec p m (k, v) = Some m' /\
                        tget same_key_spec m' k' = if same_key_spec k k' then v else tget same_key_spec m k'
   | Some old =>
       if p =? 0 then tmerge_one same_key_spec p m (k, v) = Some m
       else if p =? 1 then exists m', tmerge_one same_key_spec p m (k, v) = Some m' /\
                                      tget same_key_spec m' k' = if same_key_spec k k' then v else tget same_key_spec m k'
       else if p =? 2 then tmerge_one same_key_spec p m (k, v) = None
       else exists m', tmerge_one same_key_spec p m (k, v) = Some m' /\
                       tget same_key_spec m' k' = if same_key_spec k k' then old ++ v else tget same_key_spec m k'
   end).
Proof.
  intros p ms m k v k'. split.
  - exact (tmerge_wf key same_key_spec p ms m).
  - exact (tmerge_one_spec key same_key_spec spec_sym spec_trans p m k v k').
Qed.
Print Assumptions C15_typed_merge.
Example C15_typed_nonvacuous :
  let m := tput same_key_spec (tput same_key_spec [] (KN TInteger (NFin 1 1)) [7]) (KS FUntyped 1) [8] in
  twf same_key_spec m /\ tget same_key_spec (tput same_key_spec m (KN TDouble (NFin 2 2)) [9]) (KN TDecimal (NFin 10 10)) = [9] /\
  tsize (tput same_key_spec m (KN TDouble (NFin 2 2)) [9]) = 2 /\ same_key_spec (KN TDouble NNaN) (KN TFloat NNaN) = true.
Proof. cbn. repeat split; intros kv H; repeat (destruct H as [<-|H]; [reflexivity|]); destruct H. Qed.

(* no function modifies its operand: immediate in Gallina (values are immutable); the statement that matters is about the
   Python objects and is checked by operand snapshots in the correspondence (three mutation defects were fixed in /repo) *)

Example C15_nonvacuous :
  wf [(1, [10]); (2, [20; 21])] /\ map_put [(1, [10]); (2, [20])] 1 [7] = [(2, [20]); (1, [7])] /\
  map_merge Combine [[(1, [1; 2])]; [(1, [3])]] = MOk [(1, [1; 2; 3])] /\ array_get [[1]; [2]] 3 = AErr 1 /\
  array_subarray [[1]; [2]; [3]] 2 (Some 2) = AOk [[2]; [3]].
Proof. unfold wf. vm_compute. repeat split; repeat constructor; cbn; intuition discriminate. Qed.

(* the statements of /repo that C15/Keys.v (same_key) and C15/Model.v (put / remove / contains / merge) mirror are present
   in the source as read on this run (T-data, harness/shape.py -> Gen/C15Shape.v) *)
Theorem C15_source_shape : Gen.C15Shape.shape_ok = true.
Proof. reflexivity. Qed.
Print Assumptions C15_source_shape.
