(* C15 property theorems *)
From Coq Require Import ZArith List Bool.
From EP Require Import C15.Model C15.Proofs.
From EP Require Gen.C15Shape.
Import ListNotations.
Open Scope Z_scope.

Theorem C15_get_put : forall m k k' v, map_get (map_put m k v) k = v /\ (k <> k' -> map_get (map_put m k v) k' = map_get m k').
Proof. intros. split; [apply get_put_same|apply get_put_other]. Qed.
Print Assumptions C15_get_put.
Theorem C15_put_keeps_keys_unique_and_size : forall m k v, wf m ->
  wf (map_put m k v) /\ map_size (map_put m k v) = if map_contains m k then map_size m else map_size m + 1.
Proof. intros. split; [apply put_wf; auto|apply put_size; auto]. Qed.
Print Assumptions C15_put_keeps_keys_unique_and_size.
Theorem C15_remove : forall m ks k,
  (In k ks -> map_contains (map_remove m ks) k = false) /\ (~ In k ks -> map_get (map_remove m ks) k = map_get m k) /\
  (wf m -> wf (map_remove m ks)).
Proof. intros. split; [apply remove_contains|split; [apply remove_other|intros; apply nodup_keys_filter; auto]]. Qed.
Print Assumptions C15_remove.
(* map:merge duplicate policies, one entry at a time *)
Theorem C15_merge_policies : forall items k v old,
  (lookup items k = None -> forall p, merge_one p items (k, v) = MOk (items ++ [(k, v)])) /\
  (lookup items k = Some old ->
     merge_one UseFirst items (k, v) = MOk items /\ merge_one Reject items (k, v) = MErr /\
     (exists m, merge_one UseLast items (k, v) = MOk m /\ map_get m k = v /\ forall k', k' <> k -> map_get m k' = map_get items k') /\
     (exists m, merge_one Combine items (k, v) = MOk m /\ map_get m k = old ++ v /\ forall k', k' <> k -> map_get m k' = map_get items k')).
Proof.
  intros items k v old. split; [intros H p; apply merge_one_new; exact H|]. intros H.
  assert (Hn : lookup items k <> None) by congruence.
  split; [apply merge_one_first; exact Hn|]. split; [apply merge_one_reject; exact Hn|].
  split; [exact (merge_one_last_get items k v old H)|exact (merge_one_combine items k v old H)].
Qed.
Print Assumptions C15_merge_policies.

(* arrays: 1-based indexing, FOAY0001 exactly outside 1..size, put/get, insert-before, subarray, reverse *)
Theorem C15_array_laws : forall a i v,
  ((exists x, array_get a i = AVal x) <-> 1 <= i <= Z.of_nat (length a)) /\
  (forall a', array_put a i v = AOk a' -> array_get a' i = AVal v /\ length a' = length a /\ forall j, j <> i -> array_get a' j = array_get a j) /\
  (forall b, array_insert_before a i v = AOk b -> length b = S (length a) /\ array_get b i = AVal v) /\
  (forall l b, array_subarray a i (Some l) = AOk b ->
     b = firstn (Z.to_nat l) (skipn (Z.to_nat (i - 1)) a) /\ length b = Z.to_nat l /\ 1 <= i /\ 0 <= l /\ i + l <= Z.of_nat (length a) + 1) /\
  match array_reverse a with AOk b => array_reverse b = AOk a | _ => False end.
Proof.
  intros a i v. split; [apply array_get_bounds|]. split; [intros a'; apply array_get_put|].
  split; [intros b; apply array_insert_before_spec|]. split; [intros l b; apply array_subarray_spec|apply array_reverse_involutive].
Qed.
Print Assumptions C15_array_laws.

(* no function modifies its operand: immediate in Gallina (values are immutable); the statement that matters is about the
   Python objects and is checked by operand snapshots in the correspondence (three mutation defects were fixed in /repo) *)

Example C15_nonvacuous :
  wf [(1, [10]); (2, [20; 21])] /\ map_put [(1, [10]); (2, [20])] 1 [7] = [(2, [20]); (1, [7])] /\
  map_merge Combine [[(1, [1; 2])]; [(1, [3])]] = MOk [(1, [1; 2; 3])] /\ array_get [[1]; [2]] 3 = AErr 1 /\
  array_subarray [[1]; [2]; [3]] 2 (Some 2) = AOk [[2]; [3]].
Proof. unfold wf. vm_compute. repeat split; repeat constructor; cbn; intuition discriminate. Qed.

(* the statements of /repo that C15/Keys.v (same_key) and C15/Model.v (put / remove / contains / merge) mirror are present
   in the source as read on this run (T-data, harness/shape.py -> Gen/C15Shape.v) *)
Theorem C15_source_shape : Gen.C15Shape.shape_ok = true.
Proof. reflexivity. Qed.
Print Assumptions C15_source_shape.
