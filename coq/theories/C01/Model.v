(* C01: XPath path semantics on the XDM node sequence of a document.
   A document is the list of its nodes in document order (the order of positions, C02); node i has a kind, the
   index of its parent and a name code.  kinds: 0 document, 1 element, 2 namespace, 3 attribute, 4 text,
   5 comment, 6 processing instruction.
   sem is the XDM definition (XPath 1.0 section 2, 3.3; XPath 2.0 section 3.2): a step maps each context node through axis,
   node test and predicates (proximity positions in axis direction), '/' collects the results of its right
   operand over the nodes of its left operand, without duplicates, in document order.  After the fix of the
   '/' and '//' operators (sorted by position like the leading '//') this is also what the code computes:
   the model of the implementation is the specification, tied to the code by correspondence.  NO proofs here. *)
From Coq Require Import ZArith List Bool Arith.
Import ListNotations.

Record node := mknode { kind : Z; parent : Z; name : Z }.     (* parent = -1: none *)
Definition doc := list node.

Definition nth_node (d : doc) (i : nat) : node := nth i d (mknode (-1) (-1) (-1)).
Definition kind_of (d : doc) (i : nat) : Z := kind (nth_node d i).
Definition parent_of (d : doc) (i : nat) : option nat :=
  let p := parent (nth_node d i) in if (p <? 0)%Z then None else Some (Z.to_nat p).
Definition is_attr_or_ns (d : doc) (i : nat) : bool := (kind_of d i =? 2)%Z || (kind_of d i =? 3)%Z.
Definition indices (d : doc) : list nat := seq 0 (length d).

(* ancestors, nearest first *)
Fixpoint ancestors_from (fuel : nat) (d : doc) (i : nat) : list nat :=
  match fuel with
  | O => []
  | S f => match parent_of d i with None => [] | Some p => p :: ancestors_from f d p end
  end.
Definition ancestors (d : doc) (i : nat) : list nat := ancestors_from (length d) d i.
Definition is_ancestor (d : doc) (a i : nat) : bool := existsb (Nat.eqb a) (ancestors d i).

Inductive axis := Self | Child | Descendant | DescendantOrSelf | Parent | Ancestor | AncestorOrSelf
                | FollowingSibling | PrecedingSibling | Following | Preceding | Attribute | Namespace.
Definition reverse_axis (a : axis) : bool :=
  match a with Parent | Ancestor | AncestorOrSelf | PrecedingSibling | Preceding => true | _ => false end.

(* the nodes of an axis, in document order *)
Definition axis_nodes (d : doc) (a : axis) (i : nat) : list nat :=
  let content j := negb (is_attr_or_ns d j) in
  match a with
  | Self => [i]
  | Child => filter (fun j => content j && match parent_of d j with Some p => p =? i | None => false end) (indices d)
  | Descendant => filter (fun j => content j && is_ancestor d i j) (indices d)
  | DescendantOrSelf => filter (fun j => (j =? i) || (content j && is_ancestor d i j)) (indices d)
  | Parent => match parent_of d i with Some p => [p] | None => [] end
  | Ancestor => rev (ancestors d i)
  | AncestorOrSelf => rev (ancestors d i) ++ [i]
  | FollowingSibling =>
      if is_attr_or_ns d i then [] else
      filter (fun j => content j && (i <? j) && match parent_of d j, parent_of d i with Some p, Some q => p =? q | _, _ => false end) (indices d)
  | PrecedingSibling =>
      if is_attr_or_ns d i then [] else
      filter (fun j => content j && (j <? i) && match parent_of d j, parent_of d i with Some p, Some q => p =? q | _, _ => false end) (indices d)
  | Following => filter (fun j => content j && (i <? j) && negb (is_ancestor d i j)) (indices d)
  | Preceding => filter (fun j => content j && (j <? i) && negb (is_ancestor d j i)) (indices d)
  | Attribute => filter (fun j => (kind_of d j =? 3)%Z && match parent_of d j with Some p => p =? i | None => false end) (indices d)
  | Namespace => filter (fun j => (kind_of d j =? 2)%Z && match parent_of d j with Some p => p =? i | None => false end) (indices d)
  end.

(* the context iterators of the code (xpath_context.py iter_siblings / iter_preceding / iter_followings): after the
   repairs they deviate from the XDM only for following:: from an attribute or a namespace node, which selects nothing
   (known finding C01-following-from-attribute-or-namespace; tests/test_xpath_context.py test_iter_following asserts it) *)
Definition axis_nodes_impl (d : doc) (a : axis) (i : nat) : list nat :=
  match a with
  | Following => if is_attr_or_ns d i then [] else axis_nodes d a i
  | _ => axis_nodes d a i
  end.
(* the iterators before the repairs: iter_followings only served element context nodes, iter_preceding from an
   attribute / namespace node never met the node among the descendants of the root (it yielded every non-ancestor
   content node), iter_siblings likewise yielded every child of the owner element for preceding-sibling:: *)
Definition axis_nodes_old (d : doc) (a : axis) (i : nat) : list nat :=
  match a with
  | Following => if (kind_of d i =? 1)%Z then axis_nodes d a i else []
  | Preceding => if is_attr_or_ns d i
                 then (if match parent_of d i with Some _ => true | None => false end
                       then filter (fun j => negb (is_attr_or_ns d j) && negb (is_ancestor d j i)) (indices d) else [])
                 else axis_nodes d a i
  | PrecedingSibling =>
      if is_attr_or_ns d i
      then match parent_of d i with
           | Some q => filter (fun j => negb (is_attr_or_ns d j) && match parent_of d j with Some p => p =? q | None => false end) (indices d)
           | None => [] end
      else axis_nodes d a i
  | _ => axis_nodes d a i
  end.

Inductive test := TName (c : Z) | TAny | TNode | TText | TComment | TPI | TPIName (c : Z).
Definition principal (a : axis) : Z := match a with Attribute => 3 | Namespace => 2 | _ => 1 end.
Definition matches (d : doc) (a : axis) (t : test) (j : nat) : bool :=
  match t with
  | TName c => (kind_of d j =? principal a)%Z && (name (nth_node d j) =? c)%Z
  | TAny => (kind_of d j =? principal a)%Z
  | TNode => true
  | TText => (kind_of d j =? 4)%Z
  | TComment => (kind_of d j =? 5)%Z
  | TPI => (kind_of d j =? 6)%Z
  | TPIName c => (kind_of d j =? 6)%Z && (name (nth_node d j) =? c)%Z
  end.

(* strictly increasing lists of indices: document order without duplicates *)
Fixpoint insert_sorted (x : nat) (l : list nat) : list nat :=
  match l with
  | [] => [x]
  | y :: r => if x <? y then x :: l else if x =? y then l else y :: insert_sorted x r
  end.
Definition sort_dedupe (l : list nat) : list nat := fold_right insert_sorted [] l.

Inductive pred :=
| PPos (n : nat)                 (* [n] *)
| PLast                          (* [last()] *)
| PPosLe (n : nat)               (* [position() <= n] *)
| PPosGt (n : nat)               (* [position() > n] *)
| PHas (p : list step)           (* [relative path] : non-empty *)
| PNotHas (p : list step)        (* [not(relative path)] *)
with step := Step (a : axis) (t : test) (ps : list pred).

(* a step maps a context node to the nodes it selects from it; predicates see the candidates in AXIS order
   (reverse axes: nearest first) with proximity positions 1..size.  Structural recursion over the path. *)
Section Sem.
Variable d : doc.
Variable ax : doc -> axis -> nat -> list nat.     (* the axis function: axis_nodes (XDM) or axis_nodes_impl (code) *)

Fixpoint number_from (k : nat) (l : list nat) : list (nat * nat) :=
  match l with [] => [] | x :: r => (x, k) :: number_from (S k) r end.
Definition is_nil (l : list nat) : bool := match l with [] => true | _ => false end.

Fixpoint sem_step (s : step) (i : nat) : list nat :=
  match s with
  | Step a t ps =>
    let cand := filter (matches d a t) (ax d a i) in
    let ordered := if reverse_axis a then rev cand else cand in
    (fix apply (l : list pred) (cur : list nat) : list nat :=
       match l with
       | [] => cur
       | p :: r => apply r (map fst (filter (fun xp => holds p (fst xp) (snd xp) (length cur)) (number_from 1 cur)))
       end) ps ordered
  end
with holds (p : pred) (x pos size : nat) : bool :=
  match p with
  | PPos n => pos =? n
  | PLast => pos =? size
  | PPosLe n => pos <=? n
  | PPosGt n => n <? pos
  | PHas q => negb (is_nil ((fix run (l : list step) (ctx : list nat) : list nat :=
                               match l with [] => ctx | s :: r => run r (sort_dedupe (flat_map (sem_step s) ctx)) end) q [x]))
  | PNotHas q => is_nil ((fix run (l : list step) (ctx : list nat) : list nat :=
                            match l with [] => ctx | s :: r => run r (sort_dedupe (flat_map (sem_step s) ctx)) end) q [x])
  end.

(* E1/E2/...: each step is applied to every node of the previous result; the union is in document order *)
Fixpoint sem (steps : list step) (ctx : list nat) : list nat :=
  match steps with [] => ctx | s :: r => sem r (sort_dedupe (flat_map (sem_step s) ctx)) end.
End Sem.

(* a path expression: where it starts, then steps; (E)[n] filters are expressed with FilterPath *)
Inductive start := FromContext | FromRoot.
Definition root_of (d : doc) (i : nat) : nat := match rev (ancestors d i) with r :: _ => r | [] => i end.
Definition sem_path (ax : doc -> axis -> nat -> list nat) (d : doc) (s : start) (steps : list step) (i : nat) : list nat :=
  sem d ax steps (match s with FromContext => [i] | FromRoot => [root_of d i] end).
(* (E)[n] : the n-th node of E in document order, then more steps *)
Definition sem_filter (ax : doc -> axis -> nat -> list nat) (d : doc) (s : start) (steps : list step) (n : nat) (more : list step) (i : nat) : list nat :=
  sem d ax more (match nth_error (sem_path ax d s steps i) (Nat.pred n) with Some x => if n =? 0 then [] else [x] | None => [] end).
