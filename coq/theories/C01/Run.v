From Coq Require Import ZArith List Bool Arith.
From EP Require Import C01.Model.
Import ListNotations.
Definition zs (l : list nat) : list Z := map Z.of_nat l.
(* all context nodes at once: (model of the code, XDM specification) *)
Definition run_all (d : doc) (s : start) (steps : list step) : list (list Z * list Z) :=
  map (fun i => (zs (sem_path axis_nodes_impl d s steps i), zs (sem_path axis_nodes d s steps i))) (indices d).
