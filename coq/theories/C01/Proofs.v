From Coq Require Import ZArith List Bool Arith Lia.
From EP Require Import C01.Model.
Import ListNotations.

(* strictly increasing = document order without duplicates *)
Fixpoint strict_from (lo : nat) (l : list nat) : Prop :=
  match l with [] => True | x :: r => lo <= x /\ strict_from (S x) r end.
Definition strict (l : list nat) : Prop := strict_from 0 l.

Lemma strict_weak : forall l a b, strict_from a l -> b <= a -> strict_from b l.
Proof. destruct l; cbn; intros; auto. destruct H. split; auto; lia. Qed.

Lemma insert_strict : forall l lo x, strict_from lo l -> lo <= x -> strict_from lo (insert_sorted x l).
Proof.
  induction l as [|y r IH]; intros lo x H Hx; cbn [insert_sorted].
  - cbn. auto.
  - cbn in H. destruct H as (H1 & H2). destruct (x <? y) eqn:E1.
    + apply Nat.ltb_lt in E1. cbn [strict_from]. split; [exact Hx|]. split; [lia|]. exact H2.
    + destruct (x =? y) eqn:E2; [cbn [strict_from]; auto|].
      apply Nat.ltb_ge in E1. apply Nat.eqb_neq in E2. cbn [strict_from]. split; auto. apply IH; auto. lia.
Qed.
Lemma insert_in : forall l x y, In y (insert_sorted x l) <-> y = x \/ In y l.
Proof.
  induction l as [|z r IH]; intros x y; cbn [insert_sorted].
  - cbn. intuition.
  - destruct (x <? z) eqn:E1; [cbn; intuition|]. destruct (x =? z) eqn:E2.
    + apply Nat.eqb_eq in E2. subst. cbn. intuition.
    + cbn. rewrite IH. intuition.
Qed.
Lemma sort_dedupe_strict : forall l, strict (sort_dedupe l).
Proof. induction l as [|x r IH]; cbn; auto. apply insert_strict; auto. lia. Qed.
Lemma sort_dedupe_in : forall l y, In y (sort_dedupe l) <-> In y l.
Proof. induction l as [|x r IH]; intros y; cbn; [tauto|]. rewrite insert_in, IH. intuition. Qed.

Lemma strict_nodup : forall l lo, strict_from lo l -> NoDup l /\ forall x, In x l -> lo <= x.
Proof.
  induction l as [|x r IH]; intros lo H; cbn; [split; [constructor|tauto]|].
  destruct H as (H1 & H2). destruct (IH _ H2) as (A & B). split.
  - constructor; auto. intros Hin. apply B in Hin. lia.
  - intros y [<-|Hy]; auto. apply B in Hy. lia.
Qed.
(* a strictly increasing list is determined by its elements: document order leaves no freedom *)
Lemma strict_ext : forall l1 l2 lo, strict_from lo l1 -> strict_from lo l2 ->
  (forall x, In x l1 <-> In x l2) -> l1 = l2.
Proof.
  induction l1 as [|x r IH]; intros [|y s] lo H1 H2 E; auto.
  - exfalso. apply (E y). cbn. auto.
  - exfalso. apply (E x). cbn. auto.
  - cbn in H1, H2. destruct H1 as (A1 & B1). destruct H2 as (A2 & B2).
    destruct (strict_nodup _ _ B1) as (_ & Lr). destruct (strict_nodup _ _ B2) as (_ & Ls).
    assert (x = y).
    { destruct (proj1 (E x) (or_introl eq_refl)) as [Hx|Hx]; auto.
      destruct (proj2 (E y) (or_introl eq_refl)) as [Hy|Hy]; auto.
      apply Ls in Hx. apply Lr in Hy. lia. }
    subst y. f_equal. apply (IH s (S x)); auto.
    intros z. split; intros Hz.
    + destruct (proj1 (E z) (or_intror Hz)) as [->|H]; auto. apply Lr in Hz. lia.
    + destruct (proj2 (E z) (or_intror Hz)) as [->|H]; auto. apply Ls in Hz. lia.
Qed.

Section Sem.
Variable d : doc.
Variable ax : doc -> axis -> nat -> list nat.

(* every non-empty path yields its nodes once and in document order *)
Lemma sem_strict : forall steps ctx, strict ctx -> strict (sem d ax steps ctx).
Proof.
  induction steps as [|s r IH]; intros ctx H; cbn [sem]; auto.
  apply IH. apply sort_dedupe_strict.
Qed.

(* E1/E2: x is selected iff E2 selects it from some node selected by E1 *)
Lemma sem_app : forall s1 s2 ctx, sem d ax (s1 ++ s2) ctx = sem d ax s2 (sem d ax s1 ctx).
Proof. induction s1 as [|s r IH]; intros s2 ctx; cbn [app sem]; auto. Qed.
Lemma sem_last_step : forall s1 s ctx x,
  In x (sem d ax (s1 ++ [s]) ctx) <-> exists c, In c (sem d ax s1 ctx) /\ In x (sem_step d ax s c).
Proof.
  intros s1 s ctx x. rewrite sem_app. cbn [sem]. rewrite sort_dedupe_in, in_flat_map. tauto.
Qed.

(* the result only depends on the SET of context nodes *)
Lemma sem_step_ctx_set : forall s c1 c2, (forall x, In x c1 <-> In x c2) ->
  sort_dedupe (flat_map (sem_step d ax s) c1) = sort_dedupe (flat_map (sem_step d ax s) c2).
Proof.
  intros s c1 c2 E. apply (strict_ext _ _ 0); try apply sort_dedupe_strict.
  intros x. rewrite !sort_dedupe_in, !in_flat_map. split; intros (c & Hc & Hx); exists c; split; auto; apply E; auto.
Qed.

(* proximity positions: numbering *)
Lemma number_from_fst : forall l k, map fst (number_from k l) = l.
Proof. induction l; intros; cbn; auto. f_equal. auto. Qed.
Lemma number_from_nth : forall l k n x, nth_error l n = Some x -> In (x, k + n) (number_from k l).
Proof.
  induction l as [|y r IH]; intros k n x H; destruct n; cbn in *; try discriminate.
  - injection H as ->. left. f_equal. lia.
  - right. replace (k + S n) with (S k + n) by lia. apply IH. exact H.
Qed.
Lemma number_from_in : forall l k x p, In (x, p) (number_from k l) -> k <= p /\ nth_error l (p - k) = Some x.
Proof.
  induction l as [|y r IH]; intros k x p H; cbn in H; [tauto|]. destruct H as [H|H].
  - injection H as -> ->. split; auto. rewrite Nat.sub_diag. reflexivity.
  - apply IH in H. destruct H as (H1 & H2). split; [lia|].
    replace (p - k) with (S (p - S k)) by lia. exact H2.
Qed.

(* E[n] on a step: the n-th candidate in AXIS order; for a reverse axis that is the n-th counted backwards in
   document order (select_with_focus numbers reverse axes from the far end) *)
Lemma step_position : forall a t n i,
  sem_step d ax (Step a t [PPos n]) i =
  match nth_error (let cand := filter (matches d a t) (ax d a i) in if reverse_axis a then rev cand else cand) (n - 1) with
  | Some x => if n =? 0 then [] else [x]
  | None => []
  end.
Proof.
  intros a t n i. cbn [sem_step holds].
  set (l := let cand := filter (matches d a t) (ax d a i) in if reverse_axis a then rev cand else cand).
  change (map fst (filter (fun xp => snd xp =? n) (number_from 1 l)) =
          match nth_error l (n - 1) with Some x => if n =? 0 then [] else [x] | None => [] end).
  assert (G : forall l k, map fst (filter (fun xp : nat * nat => snd xp =? n) (number_from k l)) =
                          if n <? k then [] else match nth_error l (n - k) with Some x => [x] | None => [] end).
  { clear l. induction l as [|y r IH]; intros k; cbn [number_from filter map].
    - destruct (n <? k); auto. destruct (n - k); reflexivity.
    - cbn [snd]. destruct (k =? n) eqn:E.
      + apply Nat.eqb_eq in E. subst k. cbn [map fst]. rewrite IH.
        replace (n <? n) with false by (symmetry; apply Nat.ltb_ge; lia).
        replace (n <? S n) with true by (symmetry; apply Nat.ltb_lt; lia). rewrite Nat.sub_diag. reflexivity.
      + apply Nat.eqb_neq in E. rewrite IH. destruct (n <? k) eqn:F.
        * apply Nat.ltb_lt in F. replace (n <? S k) with true by (symmetry; apply Nat.ltb_lt; lia). reflexivity.
        * apply Nat.ltb_ge in F. replace (n <? S k) with false by (symmetry; apply Nat.ltb_ge; lia).
          replace (n - k) with (S (n - S k)) by lia. reflexivity. }
  rewrite (G l 1). destruct n as [|n]; [cbn; destruct l; reflexivity|].
  replace (S n <? 1) with false by (symmetry; apply Nat.ltb_ge; lia). cbn [Nat.eqb]. reflexivity.
Qed.
End Sem.
