(* C01 property theorems *)
From Coq Require Import ZArith List Bool Arith.
From EP Require Import C01.Model C01.Proofs.
Import ListNotations.

(* every path expression returns each selected node once, in document order - for every document, every path of the
   grammar (13 axes, name/kind tests, positional / existence predicates, nested relative paths), every context *)
Theorem C01_doc_order : forall d ax steps ctx, strict ctx -> strict (sem d ax steps ctx).
Proof. exact sem_strict. Qed.
Print Assumptions C01_doc_order.
Theorem C01_no_duplicates : forall d ax steps ctx, strict ctx -> NoDup (sem d ax steps ctx).
Proof. intros d ax steps ctx H. exact (proj1 (strict_nodup _ 0 (sem_strict d ax steps ctx H))). Qed.
Print Assumptions C01_no_duplicates.

(* exactly the XDM nodes: E1/E2 selects x iff E2 selects x from some node selected by E1 *)
Theorem C01_step_composition : forall d ax s1 s ctx x,
  In x (sem d ax (s1 ++ [s]) ctx) <-> exists c, In c (sem d ax s1 ctx) /\ In x (sem_step d ax s c).
Proof. exact sem_last_step. Qed.
Print Assumptions C01_step_composition.
Theorem C01_path_composition : forall d ax s1 s2 ctx, sem d ax (s1 ++ s2) ctx = sem d ax s2 (sem d ax s1 ctx).
Proof. exact sem_app. Qed.
Print Assumptions C01_path_composition.

(* document order leaves no freedom: two duplicate-free document-ordered results with the same nodes are equal *)
Theorem C01_order_is_canonical : forall l1 l2, strict l1 -> strict l2 -> (forall x, In x l1 <-> In x l2) -> l1 = l2.
Proof. intros l1 l2. exact (strict_ext l1 l2 0). Qed.
Print Assumptions C01_order_is_canonical.

(* [n] counts in axis direction: for a reverse axis it is the n-th node counted backwards in document order *)
Theorem C01_proximity_position : forall d ax a t n i,
  sem_step d ax (Step a t [PPos n]) i =
  match nth_error (let cand := filter (matches d a t) (ax d a i) in if reverse_axis a then rev cand else cand) (n - 1) with
  | Some x => if n =? 0 then [] else [x]
  | None => []
  end.
Proof. exact step_position. Qed.
Print Assumptions C01_proximity_position.

(* FULL STATEMENT for the axes: forall d a i, axis_nodes_impl d a i = axis_nodes d a i.  False of the pinned code for
   following:: from a non-element context node and preceding:: from an attribute / namespace node (known finding). *)
Theorem C01_axes_refuted : exists d a i, axis_nodes_impl d a i <> axis_nodes d a i.
Proof.
  (* <a k="1">t<b/></a> : following:: from the text node is [b] *)
  exists [mknode 1 (-1) 1; mknode 3 0 5; mknode 4 0 0; mknode 1 0 2], Following, 2. vm_compute. discriminate.
Qed.
Print Assumptions C01_axes_refuted.
(* on element context nodes the two coincide for every axis except preceding from attribute/namespace: *)
Theorem C01_axes_element_context : forall d a i, kind_of d i = 1%Z -> axis_nodes_impl d a i = axis_nodes d a i.
Proof.
  intros d a i H. unfold axis_nodes_impl. destruct a; auto.
  - unfold is_attr_or_ns. rewrite H. reflexivity.
  - rewrite H. reflexivity.
  - unfold is_attr_or_ns. rewrite H. reflexivity.
Qed.
Print Assumptions C01_axes_element_context.

(* <a><x><x><y/></x><y/></x><y/><x><y/></x></a> : //x/following::y  (indices in document order) *)
Example C01_nonvacuous :
  let d := [mknode 1 (-1) 1; mknode 1 0 2; mknode 1 1 2; mknode 1 2 3; mknode 1 1 3; mknode 1 0 3; mknode 1 0 2; mknode 1 6 3] in
  sem d axis_nodes [Step DescendantOrSelf TNode []; Step Child (TName 2) []; Step Following (TName 3) []] [0] = [4; 5; 7] /\
  sem d axis_nodes [Step Descendant (TName 3) []; Step Ancestor (TName 2) [PPos 1]] [0] = [1; 2; 6] /\
  strict [0].
Proof. vm_compute. repeat split; auto. Qed.
