(* C01 property theorems *)
From Coq Require Import ZArith List Bool Arith.
From EP Require Import C01.Model C01.Proofs.
From EP Require Gen.C01Shape.
Import ListNotations.

(* every path expression returns each selected node once, in document order - for every document, every path of the
   grammar (13 axes, name/kind tests, positional / existence predicates, nested relative paths), every context *)
Theorem C01_doc_order : forall d ax steps ctx, strict ctx -> strict (sem d ax steps ctx).
Proof. exact sem_strict. Qed.
Print Assumptions C01_doc_order.
Theorem C01_no_duplicates : forall d ax steps ctx, strict ctx -> NoDup (sem d ax steps ctx).
Proof. intros d ax steps ctx H. exact (proj1 (strict_nodup _ 0 (sem_strict d ax steps ctx H))). Qed.
Print Assumptions C01_no_duplicates.

(* exactly the XDM nodes: E1/E2 selects x iff E2 selects x from some node selected by E1 *)
Theorem C01_step_composition : forall d ax s1 s ctx x,
  In x (sem d ax (s1 ++ [s]) ctx) <-> exists c, In c (sem d ax s1 ctx) /\ In x (sem_step d ax s c).
Proof. exact sem_last_step. Qed.
Print Assumptions C01_step_composition.
Theorem C01_path_composition : forall d ax s1 s2 ctx, sem d ax (s1 ++ s2) ctx = sem d ax s2 (sem d ax s1 ctx).
Proof. exact sem_app. Qed.
Print Assumptions C01_path_composition.

(* document order leaves no freedom: two duplicate-free document-ordered results with the same nodes are equal *)
Theorem C01_order_is_canonical : forall l1 l2, strict l1 -> strict l2 -> (forall x, In x l1 <-> In x l2) -> l1 = l2.
Proof. intros l1 l2. exact (strict_ext l1 l2 0). Qed.
Print Assumptions C01_order_is_canonical.

(* [n] counts in axis direction: for a reverse axis it is the n-th node counted backwards in document order *)
Theorem C01_proximity_position : forall d ax a t n i,
  sem_step d ax (Step a t [PPos n]) i =
  match nth_error (let cand := filter (matches d a t) (ax d a i) in if reverse_axis a then rev cand else cand) (n - 1) with
  | Some x => if n =? 0 then [] else [x]
  | None => []
  end.
Proof. exact step_position. Qed.
Print Assumptions C01_proximity_position.

(* FULL STATEMENT for the axes: forall d a i, axis_nodes_impl d a i = axis_nodes d a i.  False of the code only for
   following:: from an attribute / namespace node (known finding, enshrined by a pinned test). *)
Theorem C01_axes_refuted : exists d a i, axis_nodes_impl d a i <> axis_nodes d a i.
Proof.
  (* <a k="1">t<b/></a> : following:: from the attribute node is [t; b] *)
  exists [mknode 1 (-1) 1; mknode 3 0 5; mknode 4 0 0; mknode 1 0 2], Following, 1. vm_compute. discriminate.
Qed.
Print Assumptions C01_axes_refuted.
(* every axis from every element, document, text, comment and processing-instruction context node, and every axis
   but following:: from attribute and namespace nodes, is the XDM axis *)
Theorem C01_axes_partial : forall d a i, (is_attr_or_ns d i = false \/ a <> Following) -> axis_nodes_impl d a i = axis_nodes d a i.
Proof.
  intros d a i H. unfold axis_nodes_impl. destruct a; auto.
  destruct H as [H|H]; [rewrite H; reflexivity|congruence].
Qed.
Print Assumptions C01_axes_partial.
(* the iterators before the repairs deviated on text / comment / PI context nodes for following:: and on attribute /
   namespace nodes for preceding:: and preceding-sibling:: *)
Theorem C01_axes_old_refuted :
  (exists d i, axis_nodes_old d Following i <> axis_nodes d Following i /\ is_attr_or_ns d i = false) /\
  (exists d i, axis_nodes_old d Preceding i <> axis_nodes d Preceding i) /\
  (exists d i, axis_nodes_old d PrecedingSibling i <> axis_nodes d PrecedingSibling i).
Proof.
  split; [|split].
  - exists [mknode 1 (-1) 1; mknode 3 0 5; mknode 4 0 0; mknode 1 0 2], 2. vm_compute. split; [discriminate|reflexivity].
  - exists [mknode 1 (-1) 1; mknode 3 0 5; mknode 4 0 0; mknode 1 0 2], 1. vm_compute. discriminate.
  - exists [mknode 1 (-1) 1; mknode 3 0 5; mknode 4 0 0; mknode 1 0 2], 1. vm_compute. discriminate.
Qed.
Print Assumptions C01_axes_old_refuted.

(* <a><x><x><y/></x><y/></x><y/><x><y/></x></a> : //x/following::y  (indices in document order) *)
Example C01_nonvacuous :
  let d := [mknode 1 (-1) 1; mknode 1 0 2; mknode 1 1 2; mknode 1 2 3; mknode 1 1 3; mknode 1 0 3; mknode 1 0 2; mknode 1 6 3] in
  sem d axis_nodes [Step DescendantOrSelf TNode []; Step Child (TName 2) []; Step Following (TName 3) []] [0] = [4; 5; 7] /\
  sem d axis_nodes [Step Descendant (TName 3) []; Step Ancestor (TName 2) [PPos 1]] [0] = [1; 2; 6] /\
  strict [0].
Proof. vm_compute. repeat split; auto. Qed.

(* the statements of /repo that axis_nodes_impl and the proximity positions mirror are present in the source as read on
   this run (T-data, harness/shape.py -> Gen/C01Shape.v) *)
Theorem C01_source_shape : Gen.C01Shape.shape_ok = true.
Proof. reflexivity. Qed.
Print Assumptions C01_source_shape.
