(* Generic Pratt (top-down operator precedence) parser, mirroring Parser.expression (tdop.py 613-627):
     left = nud();  while rbp < next.lbp: left = led(left)
   over a table (lbp, rbp of led, rbp of nud, led's non-associativity check), and the proof that it
   re-parses exactly the trees the EBNF precedence / associativity rules derive. *)
From Coq Require Import Arith List Bool Lia.
Import ListNotations.

(* outcome of the parser: a result, a syntax error (the code raises XPST0003), or fuel exhaustion of the model
   (proved impossible with the fuel parse uses: expr_total) *)
Inductive res (A : Type) := Ok (a : A) | Reject | OutOfFuel.
Arguments Ok {A} a. Arguments Reject {A}. Arguments OutOfFuel {A}.

Section Pratt.
Variable op : Type.
Variable lbp : op -> nat.                (* left binding power of the infix role *)
Variable rbpL : op -> nat.               (* rbp passed by led() to its recursive expression() call *)
Variable nudR : op -> option nat.        (* Some b: the symbol also has a prefix role calling expression(b) *)
Variable conflict : op -> option op -> bool.   (* led() of o rejects a left operand whose root symbol is o' *)

Inductive tok := TAtom (n : nat) | TOp (o : op) | TL | TR.
Inductive tree := Atom (n : nat) | Paren (t : tree) | Pre (o : op) (t : tree) | Bin (o : op) (l r : tree).

Fixpoint lin (t : tree) : list tok :=
  match t with
  | Atom n => [TAtom n]
  | Paren t => TL :: lin t ++ [TR]
  | Pre o t => TOp o :: lin t
  | Bin o l r => lin l ++ TOp o :: lin r
  end.

Definition root (t : tree) : option op :=
  match t with Bin o _ _ => Some o | Pre o _ => Some o | _ => None end.

Fixpoint expr (fuel rbp : nat) (ts : list tok) : res (tree * list tok) :=
  match fuel with 0 => OutOfFuel | S f =>
    match ts with
    | TAtom n :: r => loop f rbp (Atom n) r
    | TL :: r => match expr f 0 r with
                 | Ok (t, TR :: r') => loop f rbp (Paren t) r'
                 | Ok _ => Reject
                 | Reject => Reject
                 | OutOfFuel => OutOfFuel end
    | TOp o :: r => match nudR o with
                    | Some b => match expr f b r with
                                | Ok (t, r') => loop f rbp (Pre o t) r'
                                | Reject => Reject
                                | OutOfFuel => OutOfFuel end
                    | None => Reject end
    | _ => Reject
    end
  end
with loop (fuel rbp : nat) (left : tree) (ts : list tok) : res (tree * list tok) :=
  match fuel with 0 => OutOfFuel | S f =>
    match ts with
    | TOp o :: r => if rbp <? lbp o
                    then (if conflict o (root left) then Reject
                          else match expr f (rbpL o) r with
                               | Ok (rt, r') => loop f rbp (Bin o left rt) r'
                               | Reject => Reject
                               | OutOfFuel => OutOfFuel end)
                    else Ok (left, ts)
    | _ => Ok (left, ts)
    end
  end.

Definition parse (ts : list tok) : option tree :=
  match expr (2 * length ts + 2) 0 ts with Ok (t, []) => Some t | _ => None end.

(* next token does not continue a loop running at power b *)
Definition halts (b : nat) (ts : list tok) : Prop :=
  match ts with TOp o :: _ => lbp o <= b | _ => True end.

(* every expression() call still open at the right edge of t halts in front of ts *)
Fixpoint edge (t : tree) (ts : list tok) : Prop :=
  match t with
  | Atom _ | Paren _ => True
  | Pre o t' => match nudR o with Some b => halts b ts /\ edge t' ts | None => False end
  | Bin o _ r => halts (rbpL o) ts /\ edge r ts
  end.

(* shape of the trees that expression(b) can return *)
Fixpoint img (b : nat) (t : tree) : Prop :=
  match t with
  | Atom _ => True
  | Paren t' => img 0 t'
  | Pre o t' => match nudR o with Some c => img c t' | None => False end
  | Bin o l r => b < lbp o /\ conflict o (root l) = false /\ img b l /\ edge l [TOp o] /\ img (rbpL o) r
  end.

Fixpoint size (t : tree) : nat :=
  match t with Atom _ => 1 | Paren t => 2 + size t | Pre _ t => 1 + size t | Bin _ l r => 1 + size l + size r end.

Lemma lin_length : forall t, length (lin t) = size t.
Proof.
  induction t; cbn [lin size length]; rewrite ?app_length; cbn [length]; rewrite ?app_length; cbn [length]; lia.
Qed.

Lemma edge_ext : forall t ts ts', (forall b, halts b ts -> halts b ts') -> edge t ts -> edge t ts'.
Proof.
  induction t as [n|t IH|o t IH|o l IHl r IHr]; cbn; intros ts ts' H H0; auto.
  - destruct (nudR o); [|tauto]. destruct H0. split; eauto.
  - destruct H0. split; eauto.
Qed.
Lemma loop_halts : forall f b t ts, halts b ts -> loop (S f) b t ts = Ok (t, ts).
Proof.
  intros f b t ts H. cbn [loop]. destruct ts as [|[n|o| |] r]; auto.
  cbn in H. destruct (Nat.ltb_spec b (lbp o)); [lia|reflexivity].
Qed.
Lemma halts_head : forall b t r r', halts b (t :: r) -> halts b (t :: r').
Proof. intros b [n|o| |] r r'; cbn; auto. Qed.
Lemma edge_head : forall t x r r', edge t (x :: r) -> edge t (x :: r').
Proof. intros t x r r'. apply edge_ext. intros b. apply halts_head. Qed.
Lemma edge_TR : forall t b r, img b t -> edge t (TR :: r).
Proof.
  induction t as [n|t IH|o t IH|o l IHl r0 IHr]; intros b r Himg; cbn in *; auto.
  - destruct (nudR o); [|tauto]. split; eauto.
  - destruct Himg as (_ & _ & _ & _ & Hr). split; eauto.
Qed.
Lemma edge_nil : forall t b, img b t -> edge t [].
Proof.
  induction t as [n|t IH|o t IH|o l IHl r0 IHr]; intros b Himg; cbn in *; auto.
  - destruct (nudR o); [|tauto]. split; eauto.
  - destruct Himg as (_ & _ & _ & _ & Hr). split; eauto.
Qed.

(* continuation-passing form: once lin t has been consumed the parser is in "loop b t rest";
   whatever that returns, expr returns *)
Lemma pratt_cps : forall t b rest res f0,
  img b t -> edge t rest ->
  (forall f, f >= f0 -> loop f b t rest = Ok res) ->
  forall f, f >= f0 + 2 * size t -> expr f b (lin t ++ rest) = Ok res.
Proof.
  induction t as [n|t IH|o t IH|o l IHl r IHr]; intros b rest res f0 Himg Hedge Hk f Hf.
  - destruct f as [|f]; [cbn in Hf; lia|]. cbn. apply Hk. cbn in Hf. lia.
  - destruct f as [|f]; [cbn in Hf; lia|]. cbn [lin size app] in *.
    rewrite <- app_assoc. cbn [app]. cbn [expr].
    rewrite (IH 0 (TR :: rest) (t, TR :: rest) 1); auto.
    + apply Hk. lia.
    + eapply edge_TR; eauto.
    + intros f' Hf'. destruct f' as [|f']; [lia|]. apply loop_halts. exact I.
    + lia.
  - destruct f as [|f]; [cbn in Hf; lia|]. cbn [lin size app] in *. cbn [expr].
    cbn [img edge] in *. destruct (nudR o) as [c|]; [|tauto]. destruct Hedge as [Hh He].
    rewrite (IH c rest (t, rest) 1); auto.
    + apply Hk. lia.
    + intros f' Hf'. destruct f' as [|f']; [lia|]. apply loop_halts. exact Hh.
    + lia.
  - cbn [lin size] in *. rewrite <- app_assoc. cbn [app].
    cbn [img edge] in *. destruct Himg as (Hb & Hc & Hil & Hel & Hir). destruct Hedge as [Hh Her].
    apply (IHl b (TOp o :: lin r ++ rest) res (f0 + 2 * size r + 2)); auto.
    + eapply edge_head; eauto.
    + intros f' Hf'. destruct f' as [|f']; [lia|]. cbn [loop].
      destruct (Nat.ltb_spec b (lbp o)); [|lia]. rewrite Hc.
      rewrite (IHr (rbpL o) rest (r, rest) 1); auto.
      * apply Hk. lia.
      * intros f'' Hf''. destruct f'' as [|f'']; [lia|]. apply loop_halts. exact Hh.
      * lia.
    + lia.
Qed.

Theorem pratt_correct : forall t b rest fuel,
  img b t -> edge t rest -> halts b rest -> fuel >= 2 * size t + 1 ->
  expr fuel b (lin t ++ rest) = Ok (t, rest).
Proof.
  intros t b rest fuel Hi He Hh Hf.
  apply (pratt_cps t b rest (t, rest) 1); auto.
  - intros f Hf'. destruct f as [|f]; [lia|]. apply loop_halts. exact Hh.
  - lia.
Qed.

Corollary parse_lin : forall t, img 0 t -> parse (lin t) = Some t.
Proof.
  intros t Hi. unfold parse.
  pose proof (pratt_correct t 0 [] (2 * length (lin t) + 2) Hi (edge_nil t 0 Hi) I) as H.
  rewrite app_nil_r in H. rewrite H; [reflexivity|]. rewrite lin_length. lia.
Qed.

(* the parser core always terminates: with fuel > 2 * |tokens| neither expr nor loop runs out of fuel, and
   every successful call of expr consumes at least one token *)
Lemma expr_loop_total : forall fuel,
  (forall b ts, 2 * length ts < fuel -> expr fuel b ts <> OutOfFuel /\
     forall t r, expr fuel b ts = Ok (t, r) -> length r < length ts) /\
  (forall b l ts, 2 * length ts < fuel -> loop fuel b l ts <> OutOfFuel /\
     forall t r, loop fuel b l ts = Ok (t, r) -> length r <= length ts).
Proof.
  induction fuel as [|f IH]; [split; intros; lia|]. destruct IH as (IHe & IHl). split.
  - intros b ts Hf. cbn [expr]. destruct ts as [|[n|o| |] r]; cbn [length] in *.
    + split; [discriminate|intros; discriminate].
    + destruct (IHl b (Atom n) r ltac:(lia)) as (H1 & H2). split; [exact H1|].
      intros t r' E. specialize (H2 _ _ E). lia.
    + destruct (nudR o) as [c|]; [|split; [discriminate|intros; discriminate]].
      destruct (IHe c r ltac:(lia)) as (H1 & H2).
      destruct (expr f c r) as [[t' r']| |] eqn:E; [|split; [discriminate|intros; discriminate]|congruence].
      specialize (H2 _ _ eq_refl). destruct (IHl b (Pre o t') r' ltac:(lia)) as (H3 & H4). split; [exact H3|].
      intros t r'' E'. specialize (H4 _ _ E'). lia.
    + destruct (IHe 0 r ltac:(lia)) as (H1 & H2).
      destruct (expr f 0 r) as [[t' r']| |] eqn:E; [|split; [discriminate|intros; discriminate]|congruence].
      specialize (H2 _ _ eq_refl).
      destruct r' as [|[n|o| |] r'']; try (split; [discriminate|intros; discriminate]).
      cbn [length] in H2. destruct (IHl b (Paren t') r'' ltac:(lia)) as (H3 & H4). split; [exact H3|].
      intros t r3 E'. specialize (H4 _ _ E'). lia.
    + split; [discriminate|intros; discriminate].
  - intros b l ts Hf. cbn [loop]. destruct ts as [|[n|o| |] r]; cbn [length] in *;
      try (split; [discriminate|intros t r' E; injection E as <- <-; cbn [length]; lia]).
    destruct (b <? lbp o); [|split; [discriminate|intros t r' E; injection E as <- <-; cbn [length]; lia]].
    destruct (conflict o (root l)); [split; [discriminate|intros; discriminate]|].
    destruct (IHe (rbpL o) r ltac:(lia)) as (H1 & H2).
    destruct (expr f (rbpL o) r) as [[rt r']| |] eqn:E; [|split; [discriminate|intros; discriminate]|congruence].
    specialize (H2 _ _ eq_refl). destruct (IHl b (Bin o l rt) r' ltac:(lia)) as (H3 & H4). split; [exact H3|].
    intros t r'' E'. specialize (H4 _ _ E'). lia.
Qed.
Theorem expr_total : forall ts, expr (2 * length ts + 2) 0 ts <> OutOfFuel.
Proof. intros ts. apply (proj1 (expr_loop_total (2 * length ts + 2))). lia. Qed.

(* ------------------------------------------------------------------ *)
(* The EBNF side: operators have a grammar level (higher = binds tighter) and are left-associative
   or non-associative; prefix operators live at level ulevel.                                      *)
Variable slevel : op -> nat.
Variable nonassoc : op -> bool.
Variable ulevel : nat.

(* t is derivable from the nonterminal of level k *)
Fixpoint canon (k : nat) (t : tree) : Prop :=
  match t with
  | Atom _ => True
  | Paren t' => canon 0 t'
  | Pre o t' => nudR o <> None /\ k <= ulevel /\ canon ulevel t'
  | Bin o l r => k <= slevel o /\ canon (if nonassoc o then S (slevel o) else slevel o) l /\ canon (S (slevel o)) r
  end.

(* what the binding-power table must satisfy to realise the grammar *)
Record table_ok : Prop := {
  ok_order : forall o o', slevel o <= slevel o' <-> lbp o <= lbp o';
  ok_rbp : forall o, rbpL o = lbp o;
  ok_conflict_sound : forall o o', conflict o (Some o') = true -> nonassoc o = true /\ slevel o' <= slevel o;
  ok_conflict_none : forall o, conflict o None = false;
  ok_prefix : forall o p o', nudR o = Some p -> (slevel o' <= ulevel <-> lbp o' <= p);
  ok_prefix_conflict : forall o o', conflict o (Some o') = true -> nudR o' = None;
  ok_pos : forall o, 0 < lbp o;
  ok_ulevel_free : forall o, slevel o <> ulevel      (* no binary operator at the level of the prefix operators *)
}.

Hypothesis OK : table_ok.

Lemma canon_weaken : forall t k k', canon k t -> k' <= k -> canon k' t.
Proof. destruct t; cbn; intros; auto; intuition lia. Qed.

(* a tree of level >= slevel o stops in front of the operator o *)
Lemma canon_edge : forall t k o, canon k t -> slevel o <= k -> edge t [TOp o].
Proof.
  induction t as [n|t IH|o1 t IH|o1 l IHl r IHr]; intros k o Hc Hk; cbn [edge]; auto.
  - cbn [canon] in Hc. destruct Hc as (Hn & Hu & Hc). destruct (nudR o1) as [p|] eqn:E; [|congruence].
    split.
    + cbn. apply (ok_prefix OK o1 p o E). lia.
    + eapply IH; eauto. lia.
  - cbn [canon] in Hc. destruct Hc as (H1 & H2 & H3). split.
    + cbn. rewrite (ok_rbp OK). apply (ok_order OK). lia.
    + eapply IHr; eauto. lia.
Qed.

Lemma root_level : forall t k o, canon k t -> root t = Some o -> k <= slevel o \/ (nudR o <> None /\ k <= ulevel).
Proof.
  destruct t; cbn; intros k o' Hc Hr; try discriminate; injection Hr as <-.
  - right. tauto.
  - left. tauto.
Qed.

Lemma canon_img : forall t k b, canon k t -> (forall o, k <= slevel o -> b < lbp o) -> img b t.
Proof.
  induction t as [n|t IH|o t IH|o l IHl r IHr]; intros k b Hc Hb; cbn [img]; auto.
  - cbn [canon] in Hc. eapply IH; eauto. intros o _. exact (ok_pos OK o).
  - cbn [canon] in Hc. destruct Hc as (Hn & Hu & Hc). destruct (nudR o) as [p|] eqn:E; [|congruence].
    eapply IH; eauto. intros o' Ho'.
    destruct (Nat.lt_ge_cases p (lbp o')) as [H|H]; auto.
    apply (ok_prefix OK o p o' E) in H. pose proof (ok_ulevel_free OK o'). lia.
  - cbn [canon] in Hc. destruct Hc as (H1 & H2 & H3).
    assert (Hlb : b < lbp o) by (apply Hb; exact H1).
    split; [exact Hlb|]. split.
    + destruct (root l) as [o'|] eqn:R; [|apply (ok_conflict_none OK)].
      destruct (conflict o (Some o')) eqn:C; auto. exfalso.
      destruct (ok_conflict_sound OK o o' C) as (Hna & Hle). rewrite Hna in H2.
      destruct (root_level l _ o' H2 R) as [Hr|(Hr1 & Hr2)]; [lia|].
      apply Hr1. exact (ok_prefix_conflict OK o o' C).
    + split; [|split].
      * eapply IHl; eauto. intros o' Ho'. apply Hb. destruct (nonassoc o); lia.
      * eapply canon_edge; eauto. destruct (nonassoc o); lia.
      * eapply IHr; eauto. intros o' Ho'. rewrite (ok_rbp OK).
        destruct (Nat.lt_ge_cases (lbp o) (lbp o')) as [H|H]; auto.
        apply (ok_order OK) in H. lia.
Qed.
End Pratt.

(* ------------------------------------------------------------------ *)
(* A boolean checker for table_ok over a finite, complete enumeration of the operators.            *)
Section Checker.
Variable op : Type.
Variable lbp rbpL : op -> nat.
Variable nudR : op -> option nat.
Variable conflict : op -> option op -> bool.
Variable slevel : op -> nat.
Variable nonassoc : op -> bool.
Variable ulevel : nat.
Variable all : list op.
Hypothesis all_complete : forall o, In o all.

Definition is_none {A} (x : option A) : bool := match x with None => true | Some _ => false end.

Definition table_okb : bool :=
  forallb (fun o => forallb (fun o' => Bool.eqb (slevel o <=? slevel o') (lbp o <=? lbp o')) all) all
  && forallb (fun o => rbpL o =? lbp o) all
  && forallb (fun o => forallb (fun o' => implb (conflict o (Some o'))
                                               (nonassoc o && (slevel o' <=? slevel o) && is_none (nudR o'))) all) all
  && forallb (fun o => negb (conflict o None)) all
  && forallb (fun o => match nudR o with
                       | Some p => forallb (fun o' => Bool.eqb (slevel o' <=? ulevel) (lbp o' <=? p)) all
                       | None => true end) all
  && forallb (fun o => 0 <? lbp o) all
  && forallb (fun o => negb (slevel o =? ulevel)) all.

(* non-associative operators reject every same-level operator as left operand's root (completeness of the check) *)
Definition nonassoc_completeb : bool :=
  forallb (fun o => forallb (fun o' => implb (nonassoc o && (slevel o' =? slevel o)) (conflict o (Some o'))) all) all.

Lemma fa : forall (f : op -> bool), forallb f all = true -> forall o, f o = true.
Proof. intros f H o. rewrite forallb_forall in H. apply H. apply all_complete. Qed.

Lemma table_okb_sound : table_okb = true -> table_ok op lbp rbpL nudR conflict slevel nonassoc ulevel.
Proof.
  unfold table_okb. rewrite !andb_true_iff. intros ((((((H1 & H2) & H3) & H4) & H5) & H6) & H7).
  constructor.
  - intros o o'. pose proof (fa _ (fa _ H1 o) o') as H. cbv beta in H. apply Bool.eqb_prop in H.
    rewrite <- !Nat.leb_le. rewrite H. tauto.
  - intros o. pose proof (fa _ H2 o) as H. cbv beta in H. apply Nat.eqb_eq in H. exact H.
  - intros o o' C. pose proof (fa _ (fa _ H3 o) o') as H. cbv beta in H. rewrite C in H. cbn in H.
    rewrite !andb_true_iff in H. destruct H as ((Ha & Hb) & _). split; auto. apply Nat.leb_le. exact Hb.
  - intros o. pose proof (fa _ H4 o) as H. cbv beta in H. destruct (conflict o None); [discriminate|reflexivity].
  - intros o p o' E. pose proof (fa _ H5 o) as H. cbv beta in H. rewrite E in H. pose proof (fa _ H o') as H'. cbv beta in H'.
    apply Bool.eqb_prop in H'. rewrite <- !Nat.leb_le. rewrite H'. tauto.
  - intros o o' C. pose proof (fa _ (fa _ H3 o) o') as H. cbv beta in H. rewrite C in H. cbn in H.
    rewrite !andb_true_iff in H. destruct H as (_ & Hn). destruct (nudR o'); [discriminate|reflexivity].
  - intros o. pose proof (fa _ H6 o) as H. cbv beta in H. apply Nat.ltb_lt. exact H.
  - intros o. pose proof (fa _ H7 o) as H. cbv beta in H. intros E. rewrite E, Nat.eqb_refl in H. discriminate.
Qed.

Theorem grouping : table_okb = true ->
  forall t, canon op nudR slevel nonassoc ulevel 0 t -> parse op lbp rbpL nudR conflict (lin op t) = Some t.
Proof.
  intros H t Hc. apply parse_lin.
  apply (canon_img op lbp rbpL nudR conflict slevel nonassoc ulevel (table_okb_sound H) t 0 0 Hc).
  intros o _. exact (ok_pos _ _ _ _ _ _ _ _ (table_okb_sound H) o).
Qed.
End Checker.
