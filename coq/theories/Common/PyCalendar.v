(* Gallina copies of the CPython `calendar` one-liners used by elementpath.helpers (modelled external),
   and the summation combinator the translator emits for  sum(T[m] for m in range(a, b)). *)
From Coq Require Import ZArith List Bool.
Import ListNotations.
Open Scope Z_scope.

(* calendar.isleap(year): year % 4 == 0 and (year % 100 != 0 or year % 400 == 0) *)
Definition isleap (year : Z) : bool :=
  (year mod 4 =? 0) && (negb (year mod 100 =? 0) || (year mod 400 =? 0)).
(* calendar.leapdays(y1, y2): y1 -= 1; y2 -= 1; (y2//4 - y1//4) - (y2//100 - y1//100) + (y2//400 - y1//400) *)
Definition leapdays (y1 y2 : Z) : Z :=
  let y1 := y1 - 1 in let y2 := y2 - 1 in
  (y2 / 4 - y1 / 4) - (y2 / 100 - y1 / 100) + (y2 / 400 - y1 / 400).

(* sum(f(m) for m in range(a, b)) *)
Fixpoint sum_from (f : Z -> Z) (a : Z) (n : nat) : Z :=
  match n with O => 0 | S n' => f a + sum_from f (a + 1) n' end.
Definition sum_range (f : Z -> Z) (a b : Z) : Z := sum_from f a (Z.to_nat (b - a)).
