(* C04 runner adaptors: token lists as Z codes. atom n = 1000+n, op = its global code, ( = -1, ) = -2.
   Result trees are printed in a flat fully-bracketed form: atom 1000+n | -1 t -2 (parenthesised) |
   -3 code t -4 (prefix) | -5 code l r -6 (binary); [-9] = rejected. *)
From Coq Require Import ZArith Arith List Bool.
From EP Require Import Common.Pratt C04.Spec Gen.C04Tables C04.Model.
Import ListNotations.

Section RunV.
Variable op : Type.
Variable code : op -> nat.
Variable all : list op.
Variable lbp rbpL : op -> nat.
Variable nudR : op -> option nat.
Variable conflict : op -> option op -> bool.
Variable slevel : nat -> nat.
Variable nonassoc : nat -> bool.
Variable ulevel : nat.

Fixpoint dec (zs : list Z) : option (list (tok op)) :=
  match zs with
  | [] => Some []
  | z :: r =>
    match dec r with
    | None => None
    | Some ts =>
      if (z =? -1)%Z then Some (TL op :: ts) else if (z =? -2)%Z then Some (TR op :: ts)
      else if (1000 <=? z)%Z then Some (TAtom op (Z.to_nat (z - 1000)) :: ts)
      else match find_op code all (Z.to_nat z) with Some o => Some (TOp op o :: ts) | None => None end
    end
  end.
Fixpoint enc (t : tree op) : list Z :=
  match t with
  | Atom _ n => [(1000 + Z.of_nat n)%Z]
  | Paren _ t' => (-1)%Z :: enc t' ++ [(-2)%Z]
  | Pre _ o t' => (-3)%Z :: Z.of_nat (code o) :: enc t' ++ [(-4)%Z]
  | Bin _ o l r => (-5)%Z :: Z.of_nat (code o) :: enc l ++ enc r ++ [(-6)%Z]
  end.
Definition enc_res (r : option (tree op)) : list Z := match r with Some t => enc t | None => [(-9)%Z] end.

(* the specification's parser: the same Pratt loop driven by the EBNF levels themselves *)
Definition spec_conflict (o : op) (l : option op) : bool :=
  match l with
  | Some o' => nonassoc (code o) && (slevel (code o') =? slevel (code o)) && is_none (nudR o')
  | None => false
  end.
Definition run (zs : list Z) : list Z * list Z :=
  match dec zs with
  | None => ([(-8)%Z], [(-8)%Z])
  | Some ts =>
    (enc_res (parse op lbp rbpL nudR conflict ts),
     enc_res (parse op (fun o => slevel (code o)) (fun o => slevel (code o))
                    (fun o => match nudR o with Some _ => Some ulevel | None => None end) spec_conflict ts))
  end.
End RunV.

Definition run10 := run op10 code_10 all_10 lbp_10 rbpL_10 nudR_10 conflict_10 level1 nonassoc1 ulevel1.
Definition run20 := run op20 code_20 all_20 lbp_20 rbpL_20 nudR_20 conflict_20 level2 nonassoc2 ulevel2.
Definition run30 := run op30 code_30 all_30 lbp_30 rbpL_30 nudR_30 conflict_30 level2 nonassoc2 ulevel2.
Definition run31 := run op31 code_31 all_31 lbp_31 rbpL_31 nudR_31 conflict_31 level2 nonassoc2 ulevel2.
