(* C04 specification: the operator levels of the W3C XPath EBNF (higher level = binds tighter), keyed by the
   global operator codes used by the generator:
   0 or,1 and,2 =,3 !=,4 <,5 <=,6 >,7 >=,8 eq,9 ne,10 lt,11 le,12 gt,13 ge,14 is,15 <<,16 >>,17 ||,18 to,
   19 +,20 -,21 *,22 div,23 idiv,24 mod,25 |,26 union,27 intersect,28 except,29 ! *)
From Coq Require Import Arith List Bool.

(* XPath 2.0 / 3.0 / 3.1:  OrExpr 1 < AndExpr 2 < ComparisonExpr 3 (non-assoc) < StringConcatExpr 4 < RangeExpr 5
   (non-assoc) < AdditiveExpr 6 < MultiplicativeExpr 7 < UnionExpr 8 < IntersectExceptExpr 9 < [instance of 10,
   treat 11, castable 12, cast 13, => 14] < UnaryExpr 15 < SimpleMapExpr 16 < PathExpr *)
Definition level2 (code : nat) : nat :=
  match code with
  | 0 => 1 | 1 => 2
  | 17 => 4 | 18 => 5 | 19 | 20 => 6 | 21 | 22 | 23 | 24 => 7 | 25 | 26 => 8 | 27 | 28 => 9 | 29 => 16
  | _ => 3
  end.
Definition nonassoc2 (code : nat) : bool := ((2 <=? code) && (code <=? 16)) || (code =? 18).
Definition ulevel2 : nat := 15.

(* XPath 1.0:  OrExpr 1 < AndExpr 2 < EqualityExpr 3 < RelationalExpr 4 < AdditiveExpr 5 < MultiplicativeExpr 6
   < UnaryExpr 7 < UnionExpr 8 < PathExpr; every binary operator is left-associative *)
Definition level1 (code : nat) : nat :=
  match code with
  | 0 => 1 | 1 => 2 | 2 | 3 => 3 | 4 | 5 | 6 | 7 => 4 | 19 | 20 => 5 | 21 | 22 | 24 => 6 | 25 => 8 | _ => 0
  end.
Definition nonassoc1 (code : nat) : bool := false.
Definition ulevel1 : nat := 7.
