(* C04 model: the generic Pratt parser (Common/Pratt.v = Parser.expression) instantiated with the binding-power
   tables probed from the loaded parsers of /repo (Gen/C04Tables.v, regenerated on every run). *)
From Coq Require Import Arith List Bool.
From EP Require Import Common.Pratt C04.Spec Gen.C04Tables.
Import ListNotations.

Definition parse10 := parse op10 lbp_10 rbpL_10 nudR_10 conflict_10.
Definition parse20 := parse op20 lbp_20 rbpL_20 nudR_20 conflict_20.
Definition parse30 := parse op30 lbp_30 rbpL_30 nudR_30 conflict_30.
Definition parse31 := parse op31 lbp_31 rbpL_31 nudR_31 conflict_31.

Definition canon10 := canon op10 nudR_10 (fun o => level1 (code_10 o)) (fun o => nonassoc1 (code_10 o)) ulevel1.
Definition canon20 := canon op20 nudR_20 (fun o => level2 (code_20 o)) (fun o => nonassoc2 (code_20 o)) ulevel2.
Definition canon30 := canon op30 nudR_30 (fun o => level2 (code_30 o)) (fun o => nonassoc2 (code_30 o)) ulevel2.
Definition canon31 := canon op31 nudR_31 (fun o => level2 (code_31 o)) (fun o => nonassoc2 (code_31 o)) ulevel2.

Definition ok10 := table_okb op10 lbp_10 rbpL_10 nudR_10 conflict_10 (fun o => level1 (code_10 o)) (fun o => nonassoc1 (code_10 o)) ulevel1 all_10.
Definition ok20 := table_okb op20 lbp_20 rbpL_20 nudR_20 conflict_20 (fun o => level2 (code_20 o)) (fun o => nonassoc2 (code_20 o)) ulevel2 all_20.
Definition ok30 := table_okb op30 lbp_30 rbpL_30 nudR_30 conflict_30 (fun o => level2 (code_30 o)) (fun o => nonassoc2 (code_30 o)) ulevel2 all_30.
Definition ok31 := table_okb op31 lbp_31 rbpL_31 nudR_31 conflict_31 (fun o => level2 (code_31 o)) (fun o => nonassoc2 (code_31 o)) ulevel2 all_31.

Definition complete20 := nonassoc_completeb op20 conflict_20 (fun o => level2 (code_20 o)) (fun o => nonassoc2 (code_20 o)) all_20.
Definition complete30 := nonassoc_completeb op30 conflict_30 (fun o => level2 (code_30 o)) (fun o => nonassoc2 (code_30 o)) all_30.
Definition complete31 := nonassoc_completeb op31 conflict_31 (fun o => level2 (code_31 o)) (fun o => nonassoc2 (code_31 o)) all_31.

(* operator lookup by global code, for the runner *)
Definition find_op {A} (code : A -> nat) (all : list A) (c : nat) : option A := find (fun o => code o =? c) all.
