(* C04 property theorems *)
From Coq Require Import Arith List Bool.
From EP Require Import Common.Pratt C04.Spec Gen.C04Tables C04.Model.
Import ListNotations.

(* the generic statement: the Pratt loop re-parses every tree in the image shape of expression(b) *)
Theorem C04_pratt_correct : forall (op : Type) lbp rbpL nudR conflict (t : tree op) b rest fuel,
  img op lbp rbpL nudR conflict b t -> edge op lbp rbpL nudR t rest -> halts op lbp b rest ->
  fuel >= 2 * size op t + 1 ->
  expr op lbp rbpL nudR conflict fuel b (lin op t ++ rest) = Ok (t, rest).
Proof. exact pratt_correct. Qed.
Print Assumptions C04_pratt_correct.

(* XPath 2.0 / 3.0 / 3.1: every tree the EBNF derives (precedence levels, left- / non-associativity, prefix
   operators, parentheses) is what the parser returns for its token sequence; the table is the one probed from
   the loaded parser on this run *)
Theorem C04_grouping_v20 : forall t, canon20 0 t -> parse20 (lin op20 t) = Some t.
Proof. exact (grouping op20 _ _ _ _ _ _ _ all_20 all_20_complete (eq_refl : ok20 = true)). Qed.
Print Assumptions C04_grouping_v20.
Theorem C04_grouping_v30 : forall t, canon30 0 t -> parse30 (lin op30 t) = Some t.
Proof. exact (grouping op30 _ _ _ _ _ _ _ all_30 all_30_complete (eq_refl : ok30 = true)). Qed.
Print Assumptions C04_grouping_v30.
Theorem C04_grouping_v31 : forall t, canon31 0 t -> parse31 (lin op31 t) = Some t.
Proof. exact (grouping op31 _ _ _ _ _ _ _ all_31 all_31_complete (eq_refl : ok31 = true)). Qed.
Print Assumptions C04_grouping_v31.

(* FULL STATEMENT for XPath 1.0: forall t, canon10 0 t -> parse10 (lin op10 t) = Some t.
   False of the pinned code: the 1.0 grammar makes = != and < <= > >= two left-associative levels, the parser uses
   the 2.0 rules (known finding C04-xpath1-comparison-chains; the unary minus below '|' of the 1.0 grammar is repaired). *)
Theorem C04_table_v10_refuted : ok10 = false.
Proof. vm_compute. reflexivity. Qed.
Print Assumptions C04_table_v10_refuted.
Theorem C04_grouping_v10_refuted : exists t, canon10 0 t /\ parse10 (lin op10 t) <> Some t.
Proof.
  (* (1 < 2) < 3 : valid in the XPath 1.0 grammar (RelationalExpr is left recursive), rejected by the parser *)
  exists (Bin op10 O_lt__10 (Bin op10 O_lt__10 (Atom op10 1) (Atom op10 2)) (Atom op10 3)).
  split; [cbn; repeat split; auto with arith|vm_compute; discriminate].
Qed.
Print Assumptions C04_grouping_v10_refuted.

(* non-associativity is enforced: every operator of a non-associative level rejects, as its left operand, every
   operator of that level (for comparisons: all fifteen general / value / node comparison operators) - decided on the
   conflict tables regenerated from the led methods of /repo *)
Theorem C04_nonassoc_enforced : complete20 = true /\ complete30 = true /\ complete31 = true.
Proof. vm_compute. repeat split; reflexivity. Qed.
Print Assumptions C04_nonassoc_enforced.

Example C04_nonvacuous :
  canon31 0 (Bin op31 O_or_31 (Atom op31 1)
              (Bin op31 O_plus_31 (Pre op31 O_minus_31 (Bin op31 O_bang_31 (Atom op31 2) (Atom op31 3)))
                                  (Bin op31 O_times_31 (Paren op31 (Bin op31 O_to_31 (Atom op31 4) (Atom op31 5))) (Atom op31 6)))).
Proof. cbn. repeat split; try discriminate; repeat constructor. Qed.
