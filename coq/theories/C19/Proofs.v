From Coq Require Import Arith List Bool Lia.
From EP Require Import C19.Model.
Import ListNotations.

Section Collation.
Variable avail : nat -> bool.

(* one block, entered with the lock free: lock free and locale restored afterwards, whatever setlocale does and
   whatever the body does *)
Lemma block_restores : forall c s, locked s = false -> block (enter avail) c s = s.
Proof.
  intros c [lk l] H. cbn in H. subst lk. unfold block, enter. destruct c as [|n fb]; cbn; [reflexivity|].
  destruct (avail n); cbn; [reflexivity|]. destruct (fb && avail EN_US); cbn; reflexivity.
Qed.
Lemma blocks_restore : forall cs s, locked s = false -> fold_left (fun st c => block (enter avail) c st) cs s = s.
Proof.
  induction cs as [|c r IH]; intros s H; cbn; auto. rewrite block_restores by exact H. apply IH. exact H.
Qed.
(* the code before the fix: unavailable language, fallback requested, fallback locale unavailable *)
Lemma prefix_leaves_lock : avail 1 = false -> avail EN_US = false ->
  locked (block (enter_prefix avail) (Loc 1 true) (mkg false 7)) = true.
Proof. intros H1 H0. unfold block, enter_prefix. rewrite H1, H0. reflexivity. Qed.

(* ---- interleavings ---- *)
(* invariant: the lock is held iff exactly one thread is inside a locale block; when none is, LC_COLLATE is the
   initial locale; a thread inside remembers the initial locale *)
Definition count_inside (ts : list tstate) : nat := length (filter inside ts).
Definition remembers (init : nat) (t : tstate) : Prop :=
  match t with Inside (Some old) _ => old = init | _ => True end.
Definition inv (init : nat) (w : world) : Prop :=
  let '(s, ts) := w in
  (locked s = true -> count_inside ts = 1) /\ (locked s = false -> count_inside ts = 0 /\ lc s = init) /\
  Forall (remembers init) ts.

Lemma tstep_inv : forall init s t s' t', tstep avail s t = Some (s', t') -> remembers init t ->
  (locked s = false -> lc s = init) ->
  remembers init t' /\
  (* effect on the lock / inside count *)
  ((inside t = false /\ inside t' = false /\ s' = s) \/
   (inside t = false /\ inside t' = true /\ locked s = false /\ locked s' = true) \/
   (inside t = true /\ inside t' = false /\ locked s' = false /\ lc s' = init) \/
   (inside t = false /\ inside t' = false /\ locked s = false /\ locked s' = false /\ lc s' = lc s)).
Proof.
  intros init s t s' t' H Hr Hl. destruct t as [[|[|l fb] r]|saved r]; cbn in H; try discriminate.
  - injection H as <- <-. split; [exact I|]. left. auto.
  - destruct (locked s) eqn:L; [discriminate|]. unfold enter in H.
    destruct (avail l).
    + injection H as <- <-. cbn. split; [apply Hl; reflexivity|]. right. left. auto.
    + destruct (fb && avail EN_US).
      * injection H as <- <-. cbn. split; [apply Hl; reflexivity|]. right. left. auto.
      * injection H as <- <-. cbn. split; [exact I|]. right. right. right. auto.
  - injection H as <- <-. destruct saved as [old|]; cbn in *.
    + split; [exact I|]. right. right. left. subst. auto.
    + split; [exact I|]. left. auto.
Qed.

Lemma count_inside_cons : forall t r, count_inside (t :: r) = (if inside t then 1 else 0) + count_inside r.
Proof. intros. unfold count_inside. cbn. destruct (inside t); reflexivity. Qed.

Lemma count_inside_app : forall a b, count_inside (a ++ b) = count_inside a + count_inside b.
Proof. intros. unfold count_inside. rewrite filter_app, app_length. reflexivity. Qed.

Lemma step_at_split : forall ts i s s' ts', step_at avail i s ts = Some (s', ts') ->
  exists pre t t' post, ts = pre ++ t :: post /\ ts' = pre ++ t' :: post /\ tstep avail s t = Some (s', t').
Proof.
  induction ts as [|x r IH]; intros i s s' ts' H; [destruct i; discriminate|].
  destruct i as [|j]; cbn in H.
  - destruct (tstep avail s x) as [[s1 t1]|] eqn:E; [|discriminate]. injection H as <- <-.
    exists [], x, t1, r. auto.
  - destruct (step_at avail j s r) as [[s1 r1]|] eqn:E; [|discriminate]. injection H as <- <-.
    destruct (IH j s s1 r1 E) as (pre & t & t' & post & -> & -> & Ht).
    exists (x :: pre), t, t', post. auto.
Qed.

Lemma step_at_inv : forall init i s ts s' ts', step_at avail i s ts = Some (s', ts') -> inv init (s, ts) -> inv init (s', ts').
Proof.
  intros init i s ts s' ts' H (A & B & C).
  destruct (step_at_split ts i s s' ts' H) as (pre & t & t' & post & -> & -> & Ht).
  apply Forall_app in C. destruct C as (Cpre & Cpost). inversion Cpost as [|? ? Rt Cpost']; subst.
  assert (Hl : locked s = false -> lc s = init) by (intros L; exact (proj2 (B L))).
  destruct (tstep_inv init s t s' t' Ht Rt Hl) as (R & Cases).
  rewrite count_inside_app, count_inside_cons in A, B.
  unfold inv. rewrite count_inside_app, count_inside_cons.
  assert (F : Forall (remembers init) (pre ++ t' :: post)) by (apply Forall_app; split; auto).
  destruct Cases as [(I1 & I2 & ->)|[(I1 & I2 & L1 & L2)|[(I1 & I2 & L2 & L3)|(I1 & I2 & L1 & L2 & L3)]]];
    rewrite I1 in *; rewrite I2.
  - split; [intros L; exact (A L)|]. split; [intros L; exact (B L)|exact F].
  - destruct (B L1) as (B1 & B2). split; [intros _; lia|]. split; [intros L; congruence|exact F].
  - destruct (locked s) eqn:L.
    + specialize (A eq_refl). split; [intros L'; congruence|]. split; [intros _; split; [lia|exact L3]|exact F].
    + destruct (B eq_refl) as (B1 & _). lia.
  - destruct (B L1) as (B1 & B2). split; [intros L; congruence|]. split; [intros _; split; [lia|congruence]|exact F].
Qed.

Lemma run_inv : forall init sched w, inv init w -> inv init (run avail sched w).
Proof.
  induction sched as [|i r IH]; intros [s ts] H; cbn [run]; auto. cbn [fst snd].
  destruct (step_at avail i s ts) as [[s' ts']|] eqn:E; apply IH; auto. eapply step_at_inv; eauto.
Qed.

(* no deadlock: while some thread is unfinished, some thread can move *)
Lemma progress : forall init s ts, inv init (s, ts) -> existsb (fun t => negb (finished t)) ts = true ->
  exists i w', step_at avail i s ts = Some w'.
Proof.
  intros init s ts (A & B & C) Hunf.
  destruct (locked s) eqn:L.
  - (* the lock is held: the thread inside can always leave *)
    specialize (A eq_refl). clear B Hunf C.
    assert (G : forall ts, count_inside ts >= 1 -> exists i w', step_at avail i s ts = Some w').
    { induction ts0 as [|x r IH]; intros Hc; [cbn in Hc; lia|]. rewrite count_inside_cons in Hc.
      destruct x as [todo|saved todo].
      - cbn in Hc. destruct (IH Hc) as (i & w' & Hw). exists (S i). cbn. rewrite Hw. destruct w'. eauto.
      - exists 0. cbn. eauto. }
    apply G. lia.
  - (* the lock is free: any unfinished thread can move *)
    clear A B C. induction ts as [|x r IH]; [discriminate|]. cbn in Hunf.
    destruct (negb (finished x)) eqn:F.
    + exists 0. cbn [step_at]. destruct x as [[|[|l fb] q]|saved q]; cbn in F; try discriminate.
      * cbn. eauto.
      * cbn [tstep]. rewrite L. destruct (enter avail (Loc l fb) s) as ([saved|] & s1); eauto.
      * cbn. eauto.
    + cbn in Hunf. destruct (IH Hunf) as (i & w' & Hw). exists (S i). cbn. rewrite Hw. destruct w'. eauto.
Qed.
(* concurrent = sequential: what a block observes does not depend on the interleaving.
   (1) when the lock is free in a reachable world the global state IS the initial one, so __enter__ takes the same
       decision and installs the same locale as in a sequential run from the initial state;
   (2) while a thread is inside a locale block no step of another thread changes the global state. *)
Lemma free_state_is_initial : forall init s ts, inv init (s, ts) -> locked s = false -> s = mkg false init.
Proof. intros init [lk l] ts (_ & B & _) L. cbn in L. subst lk. destruct (B eq_refl) as (_ & E). cbn in E. subst l. reflexivity. Qed.
Lemma enter_as_sequential : forall init s ts c, inv init (s, ts) -> locked s = false ->
  enter avail c s = enter avail c (mkg false init).
Proof. intros init s ts c H L. rewrite (free_state_is_initial init s ts H L). reflexivity. Qed.
Lemma others_do_not_disturb : forall s t s' t', tstep avail s t = Some (s', t') -> locked s = true -> inside t = false -> s' = s.
Proof.
  intros s t s' t' H L I. destruct t as [[|[|l fb] r]|[old|] r]; cbn in H, I; try discriminate.
  - injection H as <- <-. reflexivity.
  - rewrite L in H. discriminate.
  - injection H as <- <-. reflexivity.
Qed.
(* when every thread has finished nobody is inside, the lock is free and LC_COLLATE is the initial locale *)
Lemma all_finished_count : forall ts, forallb finished ts = true -> count_inside ts = 0.
Proof.
  induction ts as [|t r IH]; intros H; [reflexivity|]. cbn [forallb] in H. apply andb_prop in H. destruct H as (Ht & Hr).
  rewrite count_inside_cons, (IH Hr). destruct t as [[|c q]|saved q]; cbn in Ht; try discriminate. reflexivity.
Qed.
Lemma quiescent_is_initial : forall init s ts, inv init (s, ts) -> forallb finished ts = true -> s = mkg false init.
Proof.
  intros init s ts H F. destruct (locked s) eqn:L.
  - destruct H as (A & _). specialize (A L). rewrite (all_finished_count ts F) in A. discriminate.
  - eapply free_state_is_initial; eauto.
Qed.
End Collation.
