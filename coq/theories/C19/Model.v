(* C19 model: the process-global collation state of CollationManager (collations.py 72-163, after the fix):
   one non-reentrant lock and the LC_COLLATE locale.  setlocale's success is an oracle (avail), no assumption on it.
   A `with CollationManager(c) as m: body` block = enter; body (may raise, does not touch this state); __exit__ runs
   iff __enter__ returned.  NO proofs here. *)
From Coq Require Import Arith List Bool.
Import ListNotations.

Section Collation.
Variable avail : nat -> bool.          (* locale.setlocale(LC_COLLATE, name) succeeds *)
Definition EN_US : nat := 0.           (* the fallback 'en_US.UTF-8' *)

Record gstate := mkg { locked : bool; lc : nat }.
(* lc_collate is None (code-point / html-ascii / caseblind collations) or a locale name with the fallback flag *)
Inductive coll := NoLocale | Loc (l : nat) (fallback : bool).

Inductive entered := Entered (saved : option nat) | Raised.   (* Raised: FOCH0002, __exit__ does not run *)

(* __enter__ with the lock free (sequential use, or after acquire() returned) *)
Definition enter (c : coll) (s : gstate) : entered * gstate :=
  match c with
  | NoLocale => (Entered None, s)
  | Loc l fb =>
    let saved := lc s in                        (* acquire(); _current_lc_collate = getlocale() *)
    if avail l then (Entered (Some saved), mkg true l)
    else if fb && avail EN_US then (Entered (Some saved), mkg true EN_US)
    else (Raised, mkg false (lc s))             (* _current_lc_collate = None; release(); raise FOCH0002 *)
  end.
(* the code before the fix: the fallback setlocale is outside the try: bare locale.Error with the lock held *)
Definition enter_prefix (c : coll) (s : gstate) : entered * gstate :=
  match c with
  | NoLocale => (Entered None, s)
  | Loc l fb =>
    let saved := lc s in
    if avail l then (Entered (Some saved), mkg true l)
    else if fb then (if avail EN_US then (Entered (Some saved), mkg true EN_US) else (Raised, mkg true (lc s)))
    else (Raised, mkg false (lc s))
  end.
Definition exit_ (saved : option nat) (s : gstate) : gstate :=
  match saved with Some old => mkg false old | None => s end.

Definition block (ent : coll -> gstate -> entered * gstate) (c : coll) (s : gstate) : gstate :=
  match ent c s with
  | (Entered saved, s') => exit_ saved s'         (* body runs; __exit__ always follows, also on exceptions *)
  | (Raised, s') => s'
  end.

(* ---- threads: each runs a list of blocks; interleaving small-step semantics over the one lock ---- *)
Inductive tstate := Idle (todo : list coll) | Inside (saved : option nat) (todo : list coll).
Definition world := (gstate * list tstate)%type.

(* thread-local step given the global state; None = the thread cannot move (finished, or blocked on the lock) *)
Definition tstep (s : gstate) (t : tstate) : option (gstate * tstate) :=
  match t with
  | Idle [] => None
  | Idle (NoLocale :: r) => Some (s, Idle r)              (* enter, body and exit touch nothing global *)
  | Idle (Loc l fb :: r) =>
      if locked s then None                                (* acquire() blocks *)
      else match enter (Loc l fb) s with
           | (Entered saved, s') => Some (s', Inside saved r)
           | (Raised, s') => Some (s', Idle r)
           end
  | Inside saved r => Some (exit_ saved s, Idle r)
  end.
Fixpoint step_at (i : nat) (s : gstate) (ts : list tstate) : option (gstate * list tstate) :=
  match ts, i with
  | [], _ => None
  | t :: r, O => match tstep s t with Some (s', t') => Some (s', t' :: r) | None => None end
  | t :: r, S j => match step_at j s r with Some (s', r') => Some (s', t :: r') | None => None end
  end.
(* a schedule is the list of thread indices chosen at each step; a choice that cannot move is skipped *)
Fixpoint run (sched : list nat) (w : world) : world :=
  match sched with
  | [] => w
  | i :: r => match step_at i (fst w) (snd w) with Some w' => run r w' | None => run r w end
  end.
Definition inside (t : tstate) : bool := match t with Inside (Some _) _ => true | _ => false end.
Definition finished (t : tstate) : bool := match t with Idle [] => true | _ => false end.
End Collation.
