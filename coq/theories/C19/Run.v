From Coq Require Import ZArith Arith List Bool.
From EP Require Import C19.Model.
Import ListNotations.
(* a fault sequence: collations as (kind 0 NoLocale | 1 Loc, locale id, fallback), availability as a list of ids;
   result per step: (raised?, locked afterwards, LC_COLLATE afterwards) *)
Definition mk (k l fb : nat) : coll := match k with 0 => NoLocale | _ => Loc l (Nat.eqb fb 1) end.
Fixpoint steps (avail : nat -> bool) (cs : list coll) (s : gstate) : list (list Z) :=
  match cs with
  | [] => []
  | c :: r =>
    let raised := match enter avail c s with (Raised, _) => 1%Z | _ => 0%Z end in
    let s' := block (enter avail) c s in
    [raised; if locked s' then 1%Z else 0%Z; Z.of_nat (lc s')] :: steps avail r s'
  end.
Definition run_seq (avail_ids : list nat) (cs : list (nat * nat * nat)) (init : nat) : list (list Z) :=
  steps (fun l => existsb (Nat.eqb l) avail_ids) (map (fun c => mk (fst (fst c)) (snd (fst c)) (snd c)) cs) (mkg false init).
