(* C19 property theorems *)
From Coq Require Import Arith List Bool.
From EP Require Import C19.Model C19.Proofs.
From EP Require Gen.C19Shape.
Import ListNotations.

(* every collation block leaves the lock free and LC_COLLATE as it found it: any setlocale oracle, any collation
   argument, any body outcome; and so does every sequence of blocks *)
Theorem C19_lock_locale_restored : forall (avail : nat -> bool) cs s, locked s = false ->
  fold_left (fun st c => block (enter avail) c st) cs s = s.
Proof. exact blocks_restore. Qed.
Print Assumptions C19_lock_locale_restored.

(* FULL STATEMENT held for the pinned code only with enter := enter_prefix; it was false: with an unavailable language,
   fallback requested and no en_US.UTF-8 the lock stayed held (fixed in /repo) *)
Theorem C19_prefix_refuted : forall avail, avail 1 = false -> avail EN_US = false ->
  locked (block (enter_prefix avail) (Loc 1 true) (mkg false 7)) = true.
Proof. exact prefix_leaves_lock. Qed.
Print Assumptions C19_prefix_refuted.

(* threads: in every interleaving the lock is held iff exactly one thread is inside a locale block, LC_COLLATE is the
   initial locale whenever no thread is inside ... *)
Theorem C19_mutex : forall avail init sched ts, Forall (fun t => match t with Idle _ => True | _ => False end) ts ->
  inv init (run avail sched (mkg false init, ts)).
Proof.
  intros avail init sched ts H. apply run_inv. unfold inv. cbn [locked lc].
  assert (C0 : count_inside ts = 0).
  { induction ts as [|t r IH]; auto. inversion H; subst. rewrite count_inside_cons. destruct t; [|tauto]. cbn. auto. }
  split; [discriminate|]. split; [auto|]. apply Forall_forall. intros t Ht. rewrite Forall_forall in H. specialize (H t Ht).
  destruct t; [exact I|tauto].
Qed.
Print Assumptions C19_mutex.
(* ... and there is no deadlock: while a thread is unfinished some thread can move *)
Theorem C19_no_deadlock : forall avail init s ts, inv init (s, ts) -> existsb (fun t => negb (finished t)) ts = true ->
  exists i w', step_at avail i s ts = Some w'.
Proof. exact progress. Qed.
Print Assumptions C19_no_deadlock.

(* concurrent = sequential: in every reachable world with the lock free the global state is the initial one, so the
   __enter__ of any thread decides and installs exactly what it does in a sequential run; and while a thread is inside
   its locale block no step of any other thread changes the lock or LC_COLLATE: the body of a block sees the same
   locale in every interleaving *)
Theorem C19_concurrent_as_sequential : forall avail init sched ts0 c,
  Forall (fun t => match t with Idle _ => True | _ => False end) ts0 ->
  forall w, w = run avail sched (mkg false init, ts0) ->
  (locked (fst w) = false -> enter avail c (fst w) = enter avail c (mkg false init)) /\
  (forall t s' t', In t (snd w) -> tstep avail (fst w) t = Some (s', t') -> locked (fst w) = true -> inside t = false -> s' = fst w).
Proof.
  intros avail init sched ts0 c H w Hw. pose proof (C19_mutex avail init sched ts0 H) as I. rewrite <- Hw in I. destruct w as [s ts]. cbn [fst snd].
  split.
  - intros L. eapply enter_as_sequential; eauto.
  - intros t s' t' _ Ht L In_. eapply others_do_not_disturb; eauto.
Qed.
Print Assumptions C19_concurrent_as_sequential.

(* ... and when all threads have finished, in whatever order they ran, the process-global state is exactly the one
   found at the start: lock free, LC_COLLATE restored *)
Theorem C19_quiescent_state_initial : forall avail init sched ts0,
  Forall (fun t => match t with Idle _ => True | _ => False end) ts0 ->
  forall w, w = run avail sched (mkg false init, ts0) -> forallb finished (snd w) = true -> fst w = mkg false init.
Proof.
  intros avail init sched ts0 H w Hw F. pose proof (C19_mutex avail init sched ts0 H) as I. rewrite <- Hw in I.
  destruct w as [s ts]. cbn [fst snd] in *. eapply quiescent_is_initial; eauto.
Qed.
Print Assumptions C19_quiescent_state_initial.

Example C19_nonvacuous :
  let avail := fun l => Nat.eqb l 3 in
  run avail [0; 1; 1; 0; 0; 1; 1; 0; 1] (mkg false 9, [Idle [Loc 3 false; Loc 5 true]; Idle [NoLocale; Loc 3 true]])
  = (mkg false 9, [Idle []; Idle []]).
Proof. vm_compute. reflexivity. Qed.

(* the statements of /repo that the hand model mirrors are present in the source as read on this run (T-data,
   harness/shape.py -> Gen/C19Shape.v) *)
Theorem C19_source_shape : Gen.C19Shape.shape_ok = true.
Proof. reflexivity. Qed.
Print Assumptions C19_source_shape.
