From Coq Require Import ZArith List Bool Lia Decimal DecimalZ DecimalPos ZifyBool.
From EP Require Import C10.Model C10.Proofs C17.Model.
Import ListNotations.
Open Scope Z_scope.
Ltac Zify.zify_post_hook ::= Z.to_euclidean_division_equations.

(* code points that a JSON text carries: Unicode scalar values (no surrogates) *)
Definition scalar (c : Z) : Prop := 0 <= c <= 1114111 /\ ~ (55296 <= c <= 57343).

Lemma hex4_val_hex4 : forall n, 0 <= n < 32 ->
  hex4_val (hexd (n / 4096)) (hexd ((n / 256) mod 16)) (hexd ((n / 16) mod 16)) (hexd (n mod 16)) = Some n.
Proof. intros n H. unfold hex4_val. rewrite !hexv_hexd by lia. f_equal. lia. Qed.

Lemma parse_body_esc : forall s n rest, Forall scalar s -> (length (flat_map esc_char s ++ 34%Z :: rest) < n)%nat ->
  parse_string_body n (flat_map esc_char s ++ 34 :: rest) = Some (s, rest).
Proof.
  induction s as [|c s IH]; intros n rest Hs Hn.
  - destruct n; [cbn in Hn; lia|]. reflexivity.
  - inversion Hs as [|? ? Hc Hs']; subst. destruct Hc as (Hr & Hsur).
    cbn [flat_map] in *. rewrite <- app_assoc in *.
    destruct (c =? 34) eqn:E34.
    { assert (c = 34) by lia. subst c. change (esc_char 34) with [92; 34] in *.
      destruct n; [cbn in Hn; lia|]. cbn [parse_string_body]. simpl in Hn. cbv zeta. simpl (_ ++ _).
      change (92 =? 34) with false. change (92 =? 92) with true. change (34 =? 34) with true. cbn iota.
      rewrite IH; auto. lia. }
    destruct (c =? 92) eqn:E92.
    { assert (c = 92) by lia. subst c. change (esc_char 92) with [92; 92] in *.
      destruct n; [cbn in Hn; lia|]. cbn [parse_string_body]. simpl in Hn. cbv zeta. simpl (_ ++ _).
      change (92 =? 34) with false. change (92 =? 92) with true. cbn iota. rewrite IH; auto. lia. }
    destruct (c <? 32) eqn:E32.
    + assert (Hd : esc_char c = 92 :: 117 :: hex4 c) by (unfold esc_char; rewrite E34, E92, E32; reflexivity).
      rewrite Hd in *. destruct n; [cbn in Hn; lia|]. unfold hex4 in *. cbn [parse_string_body]. simpl length in Hn. cbv zeta. simpl (_ ++ _).
      change (92 =? 34) with false. change (92 =? 92) with true.
      change (117 =? 34) with false. change (117 =? 92) with false. change (117 =? 47) with false. change (117 =? 98) with false.
      change (117 =? 102) with false. change (117 =? 110) with false. change (117 =? 114) with false. change (117 =? 116) with false.
      change (117 =? 117) with true. cbn iota.
      rewrite hex4_val_hex4 by lia.
      replace ((55296 <=? c) && (c <=? 56319)) with false by lia. rewrite IH; auto. lia.
    + assert (Hd : esc_char c = [c]) by (unfold esc_char; rewrite E34, E92, E32; reflexivity).
      rewrite Hd in *. destruct n; [cbn in Hn; lia|]. simpl in Hn. cbn [parse_string_body]. simpl (_ ++ _). cbn iota.
      rewrite E34, E92, E32. rewrite IH; auto. lia.
Qed.

Lemma string_roundtrip : forall s rest, Forall scalar s -> parse_string (print_string s ++ rest) = Some (s, rest).
Proof.
  intros s rest H. unfold print_string, parse_string.
  change ((34 :: flat_map esc_char s ++ [34]) ++ rest) with (34 :: (flat_map esc_char s ++ [34]) ++ rest).
  change (34 =? 34) with true. cbn iota.
  replace ((flat_map esc_char s ++ [34]) ++ rest) with (flat_map esc_char s ++ 34 :: rest) by (rewrite <- app_assoc; reflexivity).
  apply parse_body_esc; auto.
Qed.

(* ---- numbers ---- *)
Definition no_num_char (rest : str) : Prop :=
  match rest with [] => True | c :: _ => is_digit c = false /\ c <> 46 /\ c <> 101 /\ c <> 69 end.

Lemma take_digits_uint : forall u rest, (match rest with [] => True | c :: _ => is_digit c = false end) ->
  take_digits (uint_chars u ++ rest) = (uint_chars u, rest).
Proof.
  induction u; intros rest H; simpl uint_chars; simpl app.
  - destruct rest as [|c r]; [reflexivity|]. simpl. rewrite H. reflexivity.
  - simpl take_digits. rewrite IHu by exact H. reflexivity.
  - simpl take_digits. rewrite IHu by exact H. reflexivity.
  - simpl take_digits. rewrite IHu by exact H. reflexivity.
  - simpl take_digits. rewrite IHu by exact H. reflexivity.
  - simpl take_digits. rewrite IHu by exact H. reflexivity.
  - simpl take_digits. rewrite IHu by exact H. reflexivity.
  - simpl take_digits. rewrite IHu by exact H. reflexivity.
  - simpl take_digits. rewrite IHu by exact H. reflexivity.
  - simpl take_digits. rewrite IHu by exact H. reflexivity.
  - simpl take_digits. rewrite IHu by exact H. reflexivity.
Qed.
Lemma uint_val_chars : forall u, uint_val (uint_chars u) = Some (Z.of_uint u).
Proof. intros u. unfold uint_val. rewrite chars_uint_chars. reflexivity. Qed.
Lemma uint_chars_nonempty : forall u, u <> Nil -> exists c r, uint_chars u = c :: r /\ is_digit c = true.
Proof. intros u H. destruct u; try congruence; cbn; eauto. Qed.

(* parsing the digits of |z| *)
Lemma print_int_cases : forall z, exists u, u <> Nil /\ Z.of_uint u = Z.abs z /\
  print_int z = (if z <? 0 then 45 :: uint_chars u else uint_chars u).
Proof.
  intros z. unfold print_int. assert (N := to_int_nonnil z). assert (E := DecimalZ.of_to z).
  destruct (Z.to_int z) as [u|u] eqn:T; exists u; (split; [exact N|]).
  - cbn in E. assert (0 <= z) by (rewrite <- E; unfold Z.of_uint; lia).
    replace (z <? 0) with false by lia. split; [lia|reflexivity].
  - cbn in E. assert (P : 0 <= Z.of_uint u) by (unfold Z.of_uint; lia).
    destruct z as [|p|p]; cbn in T; try discriminate. split; [lia|reflexivity].
Qed.

Lemma num_sign_print : forall m u tail, print_int m = (if m <? 0 then 45 :: uint_chars u else uint_chars u) -> u <> Nil ->
  num_sign (print_int m ++ tail) = (m <? 0, uint_chars u ++ tail).
Proof.
  intros m u tail P N. rewrite P. destruct (m <? 0); unfold num_sign.
  - rewrite <- app_comm_cons. change (45 =? 45) with true. reflexivity.
  - destruct (uint_chars_nonempty u N) as (c & r & E & D). rewrite E. rewrite <- !app_comm_cons.
    replace (c =? 45) with false by (unfold is_digit in D; lia). reflexivity.
Qed.
Lemma num_exp_print : forall e rest, no_num_char rest ->
  num_exp ((if e =? 0 then [] else 101 :: print_int e) ++ rest) = Some (e, rest).
Proof.
  intros e rest Hr. destruct (e =? 0) eqn:E0; [rewrite app_nil_l|rewrite <- app_comm_cons].
  - assert (e = 0) by lia. subst e. unfold num_exp. destruct rest as [|c r]; [reflexivity|].
    destruct Hr as (H1 & H2 & H3 & H4). replace ((c =? 101) || (c =? 69)) with false by lia. reflexivity.
  - unfold num_exp. change ((101 =? 101) || (101 =? 69)) with true. cbn iota.
    destruct (print_int_cases e) as (ue & Nue & Vue & Pue). rewrite Pue.
    assert (Tr : match rest with [] => True | c :: _ => is_digit c = false end) by (destruct rest; [exact I|apply Hr]).
    destruct (e <? 0) eqn:Ne.
    + rewrite <- app_comm_cons. change (45 =? 45) with true. cbn iota. rewrite (take_digits_uint ue rest Tr).
      destruct (uint_chars_nonempty ue Nue) as (c & r & E & D). rewrite E. rewrite <- E. rewrite uint_val_chars. f_equal. f_equal. lia.
    + destruct (uint_chars_nonempty ue Nue) as (c & r & E & D). rewrite E. rewrite <- !app_comm_cons.
      replace (c =? 45) with false by (unfold is_digit in D; lia). replace (c =? 43) with false by (unfold is_digit in D; lia).
      change (c :: r ++ rest) with ((c :: r) ++ rest). rewrite <- E. rewrite (take_digits_uint ue rest Tr).
      rewrite E. rewrite <- E. rewrite uint_val_chars. f_equal. f_equal. lia.
Qed.

Lemma number_roundtrip : forall m e rest, no_num_char rest -> parse_number (print_num m e ++ rest) = Some (JNum m e, rest).
Proof.
  intros m e rest Hr. unfold print_num. rewrite <- app_assoc.
  destruct (print_int_cases m) as (u & Nu & Vu & Pu).
  set (tail := (if e =? 0 then [] else 101 :: print_int e) ++ rest).
  assert (Tl : match tail with [] => True | c :: _ => is_digit c = false end).
  { unfold tail. destruct (e =? 0); [rewrite app_nil_l|rewrite <- app_comm_cons; reflexivity]. destruct rest as [|c r]; [exact I|]. apply Hr. }
  assert (Tf : num_frac tail = Some ([], tail)).
  { unfold tail. destruct (e =? 0); [rewrite app_nil_l|rewrite <- app_comm_cons; reflexivity]. unfold num_frac. destruct rest as [|c r]; [reflexivity|].
    destruct Hr as (H1 & H2 & H3 & H4). replace (c =? 46) with false by lia. reflexivity. }
  unfold parse_number. rewrite (num_sign_print m u tail Pu Nu). rewrite (take_digits_uint u tail Tl).
  destruct (uint_chars_nonempty u Nu) as (c & r & E & D). rewrite E. rewrite <- E.
  rewrite Tf. unfold tail. rewrite (num_exp_print e rest Hr). rewrite app_nil_r, uint_val_chars.
  simpl length. rewrite Z.sub_0_r. f_equal. f_equal. f_equal. destruct (m <? 0) eqn:N; lia.
Qed.

(* ---- values ---- *)
Fixpoint height (v : json) : nat :=
  match v with
  | JArr l => S (fold_right (fun x n => Nat.max (height x) n) O l)
  | JObj l => S (fold_right (fun p n => Nat.max (height (snd p)) n) O l)
  | _ => 1
  end.
Fixpoint wfj (v : json) : Prop :=
  match v with
  | JStr s => Forall scalar s
  | JArr l => (fix all (l : list json) : Prop := match l with [] => True | x :: r => wfj x /\ all r end) l
  | JObj l => (fix all (l : list (str * json)) : Prop := match l with [] => True | (k, x) :: r => Forall scalar k /\ wfj x /\ all r end) l
  | _ => True
  end.
(* what may follow a value inside a text: nothing, or a separator / closing bracket *)
Definition sep (rest : str) : Prop := match rest with [] => True | c :: _ => c = 44 \/ c = 93 \/ c = 125 end.
Lemma sep_no_num : forall rest, sep rest -> no_num_char rest.
Proof. intros [|c r]; cbn; auto. intros H. destruct H as [H|[H|H]]; subst c; cbn; repeat split; congruence. Qed.

Definition print_elems (x : json) (r : list json) : str := print x ++ flat_map (fun y => 44 :: print y) r.
Definition print_member (p : str * json) : str := print_string (fst p) ++ 58 :: print (snd p).
Definition print_members (p : str * json) (r : list (str * json)) : str :=
  print_member p ++ flat_map (fun q => 44 :: print_member q) r.

Lemma skip_ws_head : forall c r, is_ws c = false -> skip_ws (c :: r) = c :: r.
Proof. intros c r H. cbn. rewrite H. reflexivity. Qed.

Lemma elems_ok : forall pv r x k rest,
  (forall y tail, In y (x :: r) -> sep tail -> pv (print y ++ tail) = Some (y, tail)) -> (length r < k)%nat ->
  parse_elems pv k (print_elems x r ++ 93 :: rest) = Some (x :: r, rest).
Proof.
  intros pv. induction r as [|y r IH]; intros x k rest Hpv Hk; (destruct k; [cbn in Hk; lia|]); unfold print_elems; cbn [flat_map parse_elems].
  - rewrite app_nil_r. rewrite (Hpv x (93 :: rest)); [|left; reflexivity|cbn; auto].
    rewrite skip_ws_head by reflexivity. change (93 =? 44) with false. change (93 =? 93) with true. reflexivity.
  - rewrite <- !app_assoc. rewrite <- app_comm_cons.
    rewrite (Hpv x (44 :: print y ++ flat_map (fun y0 => 44 :: print y0) r ++ 93 :: rest)); [|left; reflexivity|cbn; auto].
    rewrite skip_ws_head by reflexivity. change (44 =? 44) with true. cbn iota.
    replace (print y ++ flat_map (fun y0 => 44 :: print y0) r ++ 93 :: rest) with (print_elems y r ++ 93 :: rest)
      by (unfold print_elems; rewrite <- app_assoc; reflexivity).
    rewrite (IH y k rest); [reflexivity| |cbn in Hk; lia].
    intros z tail Hz Hs. apply Hpv; auto. right. exact Hz.
Qed.

Lemma members_ok : forall pv r p k rest,
  (forall q tail, In q (p :: r) -> sep tail -> pv (print (snd q) ++ tail) = Some (snd q, tail)) ->
  Forall (fun q => Forall scalar (fst q)) (p :: r) -> (length r < k)%nat ->
  parse_members pv k (print_members p r ++ 125 :: rest) = Some (p :: r, rest).
Proof.
  intros pv. induction r as [|q r IH]; intros p k rest Hpv Hkeys Hk; (destruct k; [cbn in Hk; lia|]);
    unfold print_members; cbn [flat_map parse_members]; inversion Hkeys as [|? ? Kp Kr]; subst; destruct p as [key v];
    unfold print_member at 1; cbn [fst snd] in *.
  - rewrite app_nil_r. rewrite <- !app_assoc.
    assert (Hd : skip_ws (print_string key ++ (58 :: print v) ++ 125 :: rest) = print_string key ++ (58 :: print v) ++ 125 :: rest)
      by (unfold print_string; rewrite <- app_comm_cons; apply skip_ws_head; reflexivity).
    rewrite Hd. rewrite (string_roundtrip key _ Kp). rewrite <- app_comm_cons. rewrite skip_ws_head by reflexivity.
    change (58 =? 58) with true. cbn iota.
    assert (Hv := Hpv (key, v) (125 :: rest) (or_introl eq_refl)). cbn [snd] in Hv. rewrite Hv by (cbn; auto).
    rewrite skip_ws_head by reflexivity. change (125 =? 44) with false. change (125 =? 125) with true. reflexivity.
  - rewrite <- !app_assoc.
    assert (Hd : forall t, skip_ws (print_string key ++ t) = print_string key ++ t)
      by (intros t; unfold print_string; rewrite <- app_comm_cons; apply skip_ws_head; reflexivity).
    rewrite Hd. rewrite (string_roundtrip key _ Kp). rewrite <- app_comm_cons. rewrite skip_ws_head by reflexivity.
    change (58 =? 58) with true. cbn iota. rewrite <- app_comm_cons.
    assert (Hv := Hpv (key, v) (44 :: print_member q ++ flat_map (fun q0 => 44 :: print_member q0) r ++ 125 :: rest) (or_introl eq_refl)).
    cbn [snd] in Hv. rewrite Hv by (cbn; auto).
    rewrite skip_ws_head by reflexivity. change (44 =? 44) with true. cbn iota.
    replace (print_member q ++ flat_map (fun q0 => 44 :: print_member q0) r ++ 125 :: rest) with (print_members q r ++ 125 :: rest)
      by (unfold print_members; rewrite <- app_assoc; reflexivity).
    rewrite (IH q k rest); [reflexivity| |exact Kr|cbn in Hk; lia].
    intros z tail Hz Hs. apply Hpv; auto. right. exact Hz.
Qed.

Lemma print_arr : forall l, print (JArr l) = 91 :: (match l with [] => [] | x :: r => print_elems x r end) ++ [93].
Proof. intros [|x r]; reflexivity. Qed.
Lemma print_obj : forall l, print (JObj l) = 123 :: (match l with [] => [] | p :: r => print_members p r end) ++ [125].
Proof.
  intros [|[k x] r]; [reflexivity|]. cbn [print]. unfold print_members, print_member. cbn [fst snd].
  f_equal. f_equal. rewrite <- app_assoc. rewrite <- app_comm_cons. reflexivity.
Qed.

Lemma height_in : forall l x, In x l -> (height x <= fold_right (fun x n => Nat.max (height x) n) O l)%nat.
Proof. induction l as [|y r IH]; intros x H; [destruct H|]. destruct H as [->|H]; cbn; [lia|]. specialize (IH x H). lia. Qed.
Lemma height_in_obj : forall (l : list (str * json)) p, In p l -> (height (snd p) <= fold_right (fun (p : str * json) n => Nat.max (height (snd p)) n) O l)%nat.
Proof. induction l as [|y r IH]; intros x H; [destruct H|]. destruct H as [->|H]; cbn; [lia|]. specialize (IH x H). lia. Qed.
Lemma wfj_arr_in : forall l x, wfj (JArr l) -> In x l -> wfj x.
Proof. induction l as [|y r IH]; intros x W H; [destruct H|]. destruct H as [->|H]; cbn in W; [tauto|]. apply IH; [cbn; tauto|exact H]. Qed.
Lemma wfj_obj_in : forall l p, wfj (JObj l) -> In p l -> wfj (snd p) /\ Forall scalar (fst p).
Proof.
  induction l as [|[k y] r IH]; intros p W H; [destruct H|]. destruct H as [<-|H]; cbn in W; [cbn; tauto|]. apply IH; [cbn; tauto|exact H].
Qed.
Lemma length_le_text_arr : forall x r rest, (length r < S (length (print_elems x r ++ 93%Z :: rest)))%nat.
Proof.
  intros x r rest. unfold print_elems. rewrite !app_length. cbn [length].
  assert (L : (length r <= length (flat_map (fun y => 44%Z :: print y) r))%nat).
  { induction r as [|y r IH]; cbn; [lia|]. rewrite app_length. lia. }
  lia.
Qed.
Lemma length_le_text_obj : forall p r rest, (length r < S (length (print_members p r ++ 125%Z :: rest)))%nat.
Proof.
  intros p r rest. unfold print_members. rewrite !app_length. cbn [length].
  assert (L : (length r <= length (flat_map (fun q => 44%Z :: print_member q) r))%nat).
  { induction r as [|y r IH]; [cbn; lia|]. cbn [flat_map length]. rewrite <- app_comm_cons. cbn [length]. rewrite app_length. lia. }
  lia.
Qed.

Theorem value_roundtrip : forall fuel v rest, (height v < fuel)%nat -> wfj v -> sep rest ->
  parse_value fuel (print v ++ rest) = Some (v, rest).
Proof.
  induction fuel as [|fuel IH]; intros v rest Hh W Hs; [lia|].
  destruct v as [|[|]|m e|s|l|l].
  - reflexivity.
  - reflexivity.
  - reflexivity.
  - (* number *)
    cbn [print parse_value]. assert (N := number_roundtrip m e rest (sep_no_num rest Hs)).
    destruct (print_int_cases m) as (u & Nu & Vu & Pu).
    destruct (uint_chars_nonempty u Nu) as (c & r & E & D).
    assert (Hd : exists c0 r0, print_num m e ++ rest = c0 :: r0 /\ (c0 = 45 \/ is_digit c0 = true)).
    { unfold print_num. rewrite Pu. destruct (m <? 0); rewrite <- !app_assoc.
      - rewrite <- app_comm_cons. eauto.
      - rewrite E. rewrite <- app_comm_cons. eauto. }
    destruct Hd as (c0 & r0 & E0 & Hc0). rewrite E0 in *.
    assert (Ws : is_ws c0 = false) by (destruct Hc0 as [->|Hc0]; [reflexivity|unfold is_digit, is_ws in *; lia]).
    rewrite skip_ws_head by exact Ws.
    assert (T : (c0 =? 110) = false /\ (c0 =? 116) = false /\ (c0 =? 102) = false /\ (c0 =? 34) = false /\ (c0 =? 91) = false /\ (c0 =? 123) = false)
      by (destruct Hc0 as [->|Hc0]; [repeat split; reflexivity|unfold is_digit in Hc0; repeat split; lia]).
    destruct T as (T1 & T2 & T3 & T4 & T5 & T6). rewrite T1, T2, T3, T4, T5, T6. exact N.
  - (* string *)
    cbn [print parse_value wfj] in *. unfold print_string at 1. rewrite <- app_comm_cons. rewrite skip_ws_head by reflexivity.
    change (34 =? 110) with false. change (34 =? 116) with false. change (34 =? 102) with false. change (34 =? 34) with true. cbn iota.
    change (34 :: (flat_map esc_char s ++ [34]) ++ rest) with (print_string s ++ rest).
    rewrite (string_roundtrip s rest W). reflexivity.
  - (* array *)
    rewrite print_arr. cbn [parse_value]. rewrite <- app_comm_cons. rewrite skip_ws_head by reflexivity.
    change (91 =? 110) with false. change (91 =? 116) with false. change (91 =? 102) with false. change (91 =? 34) with false.
    change (91 =? 91) with true. cbn iota. rewrite <- app_assoc. change ([93] ++ rest) with (93 :: rest).
    destruct l as [|x r].
    + rewrite app_nil_l. rewrite skip_ws_head by reflexivity. change (93 =? 93) with true. reflexivity.
    + assert (Hx : exists c0 r0, print x = c0 :: r0 /\ is_ws c0 = false /\ (c0 =? 93) = false).
      { destruct x as [|[|]|m e|s|l'|l']; cbn [print]; unfold print_string; try (eexists; eexists; split; [reflexivity|split; reflexivity]).
        - unfold print_num. destruct (print_int_cases m) as (u & Nu & Vu & Pu). rewrite Pu.
          destruct (uint_chars_nonempty u Nu) as (c & r1 & E & D).
          destruct (m <? 0); [rewrite <- app_comm_cons; eexists; eexists; split; [reflexivity|split; reflexivity]|].
          rewrite E. rewrite <- app_comm_cons. eexists; eexists; split; [reflexivity|]. unfold is_digit, is_ws in *. split; lia. }
      destruct Hx as (c0 & r0 & E0 & W0 & N93).
      assert (Hsk : skip_ws (print_elems x r ++ 93 :: rest) = c0 :: (r0 ++ flat_map (fun y => 44 :: print y) r) ++ 93 :: rest).
      { unfold print_elems. rewrite E0. rewrite <- !app_comm_cons. apply skip_ws_head. exact W0. }
      rewrite Hsk. rewrite N93.
      cbn [height] in Hh.
      rewrite (elems_ok (parse_value fuel) r x _ rest); [reflexivity| |apply length_le_text_arr].
      intros y tail Hy Ht. apply IH; auto.
      * assert (HH := height_in (x :: r) y Hy). cbn [height fold_right] in Hh. cbn [fold_right] in HH. lia.
      * apply (wfj_arr_in (x :: r)); auto.
  - (* object *)
    rewrite print_obj. cbn [parse_value]. rewrite <- app_comm_cons. rewrite skip_ws_head by reflexivity.
    change (123 =? 110) with false. change (123 =? 116) with false. change (123 =? 102) with false. change (123 =? 34) with false.
    change (123 =? 91) with false. change (123 =? 123) with true. cbn iota. rewrite <- app_assoc. change ([125] ++ rest) with (125 :: rest).
    destruct l as [|p r].
    + rewrite app_nil_l. rewrite skip_ws_head by reflexivity. change (125 =? 125) with true. reflexivity.
    + assert (Hsk : exists t, skip_ws (print_members p r ++ 125 :: rest) = 34 :: t).
      { unfold print_members, print_member, print_string. rewrite <- !app_assoc. rewrite <- !app_comm_cons. eexists. apply skip_ws_head. reflexivity. }
      destruct Hsk as (t & Hsk). rewrite Hsk. change (34 =? 125) with false.
      cbn [height] in Hh.
      rewrite (members_ok (parse_value fuel) r p _ rest); [reflexivity| | |apply length_le_text_obj].
      * intros q tail Hq Ht. apply IH; auto.
        -- assert (HH := height_in_obj (p :: r) q Hq). cbn [height fold_right] in Hh. cbn [fold_right] in HH.
           apply Nat.succ_lt_mono in Hh. eapply Nat.le_lt_trans; [exact HH|exact Hh].
        -- apply (wfj_obj_in (p :: r)); auto.
      * apply Forall_forall. intros q Hq. apply (wfj_obj_in (p :: r)); auto.
Qed.

Lemma json_ind2 : forall (P : json -> Prop), P JNull -> (forall b, P (JBool b)) -> (forall m e, P (JNum m e)) -> (forall s, P (JStr s)) ->
  (forall l, Forall P l -> P (JArr l)) -> (forall l, Forall (fun p : str * json => P (snd p)) l -> P (JObj l)) -> forall v, P v.
Proof.
  intros P H1 H2 H3 H4 H5 H6. fix IH 1. intros [|b|m e|s|l|l].
  - exact H1.
  - apply H2.
  - apply H3.
  - apply H4.
  - apply H5. exact ((fix F (l : list json) : Forall P l := match l with [] => Forall_nil P | x :: r => Forall_cons x (IH x) (F r) end) l).
  - apply H6. exact ((fix F (l : list (str * json)) : Forall (fun p => P (snd p)) l :=
                        match l with [] => Forall_nil _ | x :: r => Forall_cons x (IH (snd x)) (F r) end) l).
Qed.

Lemma height_le_length : forall v, (height v <= length (print v))%nat.
Proof.
  induction v as [|b|m e|s|l Hl|l Hl] using json_ind2.
  - cbn. lia.
  - destruct b; cbn; lia.
  - cbn [height print]. unfold print_num. destruct (print_int_cases m) as (u & Nu & Vu & Pu). rewrite Pu.
    destruct (uint_chars_nonempty u Nu) as (c & r & E & D). rewrite app_length.
    destruct (m <? 0); [cbn [length]; lia|]. rewrite E. cbn [length]. lia.
  - cbn [height print]. unfold print_string. cbn [length]. lia.
  - rewrite print_arr. cbn [height length]. rewrite app_length. cbn [length].
    assert (L : (fold_right (fun x n => Nat.max (height x) n) O l <= length (match l with [] => [] | x :: r => print_elems x r end))%nat).
    { destruct l as [|x r]; [cbn; lia|]. unfold print_elems. rewrite app_length. cbn [fold_right].
      inversion Hl as [|? ? Hx Hr']; subst.
      assert (Hr : (fold_right (fun x n => Nat.max (height x) n) O r <= length (flat_map (fun y => 44%Z :: print y) r))%nat).
      { clear Hl Hx. induction Hr' as [|y r Hy Hr' IHr]; [cbn; lia|]. cbn [fold_right flat_map]. rewrite <- app_comm_cons. cbn [length]. rewrite app_length. lia. }
      lia. }
    lia.
  - rewrite print_obj. cbn [height length]. rewrite app_length. cbn [length].
    assert (L : (fold_right (fun (p : str * json) n => Nat.max (height (snd p)) n) O l <= length (match l with [] => [] | p :: r => print_members p r end))%nat).
    { destruct l as [|p r]; [cbn; lia|]. unfold print_members. rewrite app_length. cbn [fold_right].
      inversion Hl as [|? ? Hx Hr']; subst.
      assert (Hp : (height (snd p) <= length (print_member p))%nat) by (unfold print_member; rewrite app_length; cbn [length]; lia).
      assert (Hr : (fold_right (fun (p : str * json) n => Nat.max (height (snd p)) n) O r <= length (flat_map (fun q => 44%Z :: print_member q) r))%nat).
      { clear Hl Hx Hp. induction Hr' as [|y r Hy Hr' IHr]; [cbn; lia|]. cbn [fold_right flat_map]. rewrite <- app_comm_cons. cbn [length]. rewrite app_length.
        assert (Hq : (height (snd y) <= length (print_member y))%nat) by (unfold print_member; rewrite app_length; cbn [length]; lia). lia. }
      lia. }
    lia.
Qed.

Theorem parse_print : forall v, wfj v -> parse (print v) = Some v.
Proof.
  intros v W. unfold parse.
  assert (H := value_roundtrip (S (length (print v))) v [] ). rewrite app_nil_r in H.
  rewrite H; [reflexivity| |exact W|exact I]. assert (G := height_le_length v). lia.
Qed.
