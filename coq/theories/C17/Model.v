(* C17 — JSON (RFC 8259) values, a serializer and a parser over code points: the independent JSON codec used as the
   oracle of the correspondence, with its round-trip theorem in Proofs.v. *)
From Coq Require Import ZArith List Bool Lia Decimal DecimalZ.
From EP Require Import C10.Model.
Import ListNotations.
Open Scope Z_scope.

Inductive json :=
| JNull
| JBool (b : bool)
| JNum (m e : Z)                        (* the number m * 10^e *)
| JStr (s : str)                        (* code points *)
| JArr (l : list json)
| JObj (l : list (str * json)).         (* members in document order, duplicates kept *)

(* ---- serializer ---- *)
Definition hex4 (n : Z) : str := [hexd (n / 4096); hexd ((n / 256) mod 16); hexd ((n / 16) mod 16); hexd (n mod 16)].
Definition esc_char (c : Z) : str :=
  if c =? 34 then [92; 34] else if c =? 92 then [92; 92]
  else if c <? 32 then 92 :: 117 :: hex4 c
  else [c].
Definition print_string (s : str) : str := 34 :: flat_map esc_char s ++ [34].
Definition print_num (m e : Z) : str := print_int m ++ (if e =? 0 then [] else 101 :: print_int e).
Fixpoint print (v : json) : str :=
  match v with
  | JNull => [110; 117; 108; 108]
  | JBool true => [116; 114; 117; 101]
  | JBool false => [102; 97; 108; 115; 101]
  | JNum m e => print_num m e
  | JStr s => print_string s
  | JArr l =>
      91 :: (match l with
             | [] => []
             | x :: r => print x ++ flat_map (fun y => 44 :: print y) r
             end) ++ [93]
  | JObj l =>
      123 :: (match l with
              | [] => []
              | (k, x) :: r => print_string k ++ 58 :: print x ++ flat_map (fun p => 44 :: print_string (fst p) ++ 58 :: print (snd p)) r
              end) ++ [125]
  end.

(* ---- parser ---- *)
Definition is_ws (c : Z) : bool := (c =? 32) || (c =? 9) || (c =? 10) || (c =? 13).
Fixpoint skip_ws (s : str) : str := match s with c :: r => if is_ws c then skip_ws r else s | [] => [] end.
Fixpoint take_digits (s : str) : str * str :=
  match s with
  | c :: r => if is_digit c then let '(d, rest) := take_digits r in (c :: d, rest) else ([], s)
  | [] => ([], [])
  end.
Definition uint_val (d : str) : option Z := option_map Z.of_uint (chars_uint d).
(* -? digits+ (. digits+)? ([eE] [+-]? digits+)? *)
Definition num_sign (s : str) : bool * str :=
  match s with c :: r => if c =? 45 then (true, r) else (false, s) | [] => (false, s) end.
(* optional fraction: Some (digits of the fraction, rest) | None = malformed *)
Definition num_frac (s : str) : option (str * str) :=
  match s with
  | c :: r => if c =? 46 then let '(f, r') := take_digits r in match f with [] => None | _ => Some (f, r') end else Some ([], s)
  | [] => Some ([], s)
  end.
(* optional exponent: Some (value, rest) | None = malformed *)
Definition num_exp (s : str) : option (Z * str) :=
  match s with
  | c :: r =>
      if (c =? 101) || (c =? 69) then
        let '(sg, r1) := match r with
                         | x :: r' => if x =? 45 then (-1, r') else if x =? 43 then (1, r') else (1, r)
                         | [] => (1, r)
                         end in
        let '(ed, r2) := take_digits r1 in
        match ed with [] => None | _ => match uint_val ed with Some x => Some (sg * x, r2) | None => None end end
      else Some (0, s)
  | [] => Some (0, s)
  end.
Definition parse_number (s : str) : option (json * str) :=
  let '(neg, s1) := num_sign s in
  let '(ip, s2) := take_digits s1 in
  match ip with
  | [] => None
  | _ =>
    match num_frac s2 with
    | None => None
    | Some (fd, s3) =>
      match num_exp s3, uint_val (ip ++ fd) with
      | Some (ex, rest), Some m => Some (JNum (if neg then - m else m) (ex - Z.of_nat (length fd)), rest)
      | _, _ => None
      end
    end
  end.
Definition hex4_val (a b c d : Z) : option Z :=
  match hexv a, hexv b, hexv c, hexv d with
  | Some w, Some x, Some y, Some z => Some (((w * 16 + x) * 16 + y) * 16 + z)
  | _, _, _, _ => None
  end.
(* after the opening quote: (decoded code points, rest after the closing quote); \uD800-\uDBFF \uDC00-\uDFFF pairs combine *)
Fixpoint parse_string_body (n : nat) (s : str) : option (str * str) :=
  match n with
  | O => None
  | S n =>
    match s with
    | [] => None
    | c :: r =>
      if c =? 34 then Some ([], r)
      else if c =? 92 then
        match r with
        | [] => None
        | e :: r =>
          let simple (x : Z) := match parse_string_body n r with Some (t, rest) => Some (x :: t, rest) | None => None end in
          if e =? 34 then simple 34 else if e =? 92 then simple 92 else if e =? 47 then simple 47
          else if e =? 98 then simple 8 else if e =? 102 then simple 12 else if e =? 110 then simple 10
          else if e =? 114 then simple 13 else if e =? 116 then simple 9
          else if e =? 117 then
            match r with
            | h1 :: h2 :: h3 :: h4 :: r' =>
                match hex4_val h1 h2 h3 h4 with
                | None => None
                | Some u =>
                    if (55296 <=? u) && (u <=? 56319) then
                      match r' with
                      | b1 :: b2 :: g1 :: g2 :: g3 :: g4 :: r'' =>
                          if (b1 =? 92) && (b2 =? 117) then
                            match hex4_val g1 g2 g3 g4 with
                            | Some lo => if (56320 <=? lo) && (lo <=? 57343)
                                         then match parse_string_body n r'' with
                                              | Some (t, rest) => Some (65536 + (u - 55296) * 1024 + (lo - 56320) :: t, rest)
                                              | None => None end
                                         else None
                            | None => None
                            end
                          else None
                      | _ => None
                      end
                    else match parse_string_body n r' with Some (t, rest) => Some (u :: t, rest) | None => None end
                end
            | _ => None
            end
          else None
        end
      else if c <? 32 then None
      else match parse_string_body n r with Some (t, rest) => Some (c :: t, rest) | None => None end
    end
  end.
Definition parse_string (s : str) : option (str * str) :=
  match s with c :: r => if c =? 34 then parse_string_body (S (length r)) r else None | [] => None end.

(* elements after '[' / members after '{', given the parser of a value *)
Fixpoint parse_elems (pv : str -> option (json * str)) (k : nat) (s : str) : option (list json * str) :=
  match k with
  | O => None
  | S k =>
    match pv s with
    | None => None
    | Some (v, r) =>
        match skip_ws r with
        | d :: r' => if d =? 44 then match parse_elems pv k r' with Some (l, rest) => Some (v :: l, rest) | None => None end
                     else if d =? 93 then Some ([v], r') else None
        | [] => None
        end
    end
  end.
Fixpoint parse_members (pv : str -> option (json * str)) (k : nat) (s : str) : option (list (str * json) * str) :=
  match k with
  | O => None
  | S k =>
    match parse_string (skip_ws s) with
    | None => None
    | Some (key, r0) =>
        match skip_ws r0 with
        | d0 :: r1 =>
            if d0 =? 58 then
              match pv r1 with
              | None => None
              | Some (v, r) =>
                  match skip_ws r with
                  | d :: r' => if d =? 44 then match parse_members pv k r' with Some (l, rest) => Some ((key, v) :: l, rest) | None => None end
                               else if d =? 125 then Some ([(key, v)], r') else None
                  | [] => None
                  end
              end
            else None
        | [] => None
        end
    end
  end.
Fixpoint parse_value (fuel : nat) (s : str) : option (json * str) :=
  match fuel with
  | O => None
  | S fuel =>
    let parse_elems := parse_elems (parse_value fuel) in
    let parse_members := parse_members (parse_value fuel) in
    match skip_ws s with
    | [] => None
    | c :: r =>
      if c =? 110 then match r with c1 :: c2 :: c3 :: r' => if (c1 =? 117) && (c2 =? 108) && (c3 =? 108) then Some (JNull, r') else None | _ => None end
      else if c =? 116 then match r with c1 :: c2 :: c3 :: r' => if (c1 =? 114) && (c2 =? 117) && (c3 =? 101) then Some (JBool true, r') else None | _ => None end
      else if c =? 102 then match r with c1 :: c2 :: c3 :: c4 :: r' => if (c1 =? 97) && (c2 =? 108) && (c3 =? 115) && (c4 =? 101) then Some (JBool false, r') else None | _ => None end
      else if c =? 34 then match parse_string (c :: r) with Some (t, rest) => Some (JStr t, rest) | None => None end
      else if c =? 91 then
        match skip_ws r with
        | [] => None
        | d :: r' => if d =? 93 then Some (JArr [], r')
                     else match parse_elems (S (length r)) r with Some (l, rest) => Some (JArr l, rest) | None => None end
        end
      else if c =? 123 then
        match skip_ws r with
        | [] => None
        | d :: r' => if d =? 125 then Some (JObj [], r')
                     else match parse_members (S (length r)) r with Some (l, rest) => Some (JObj l, rest) | None => None end
        end
      else parse_number (c :: r)
    end
  end.
Definition parse (s : str) : option json :=
  match parse_value (S (length s)) s with
  | Some (v, r) => match skip_ws r with [] => Some v | _ => None end
  | None => None
  end.
