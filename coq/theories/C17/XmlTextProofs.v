From Coq Require Import ZArith List Bool Lia.
From EP Require Import C17.XmlText.
Import ListNotations.
Open Scope Z_scope.

Lemma text_rt_fuel : forall s n, (length (esc_text true s) < n)%nat -> read_cdata false n (esc_text true s) = Some s.
Proof.
  induction s as [|c s IH]; intros n H.
  - destruct n; [inversion H|reflexivity].
  - destruct n as [|n]; [inversion H|].
    change (esc_text true (c :: s)) with (esc_text_char true c ++ esc_text true s) in *.
    unfold esc_text_char in *.
    destruct (c =? 38) eqn:E1; [apply Z.eqb_eq in E1; subst c; cbn in H |- *; rewrite IH by lia; reflexivity|].
    destruct (c =? 60) eqn:E2; [apply Z.eqb_eq in E2; subst c; cbn in H |- *; rewrite IH by lia; reflexivity|].
    destruct (c =? 62) eqn:E3; [apply Z.eqb_eq in E3; subst c; cbn in H |- *; rewrite IH by lia; reflexivity|].
    destruct (c =? 13) eqn:E4; cbn [andb] in *.
    + apply Z.eqb_eq in E4; subst c. cbn in H |- *. rewrite IH by lia. reflexivity.
    + cbn [app] in *. cbn [read_cdata]. rewrite E1, E2, E4. cbn [andb]. cbn [length] in H. rewrite IH by lia. reflexivity.
Qed.
Lemma text_rt : forall s, read_text (esc_text true s) = Some s.
Proof. intros s. unfold read_text. apply text_rt_fuel. lia. Qed.

(* without the reference for the carriage return (xml.etree) the text is read back with line feeds *)
Definition cr_to_lf (c : Z) : Z := if c =? 13 then 10 else c.
Lemma text_et_refuted : read_text (esc_text false [97; 13; 98]) = Some [97; 10; 98].
Proof. reflexivity. Qed.
Lemma text_et_no_cr_fuel : forall s n, ~ In 13 s -> (length (esc_text false s) < n)%nat -> read_cdata false n (esc_text false s) = Some s.
Proof.
  induction s as [|c s IH]; intros n N H.
  - destruct n; [inversion H|reflexivity].
  - destruct n as [|n]; [inversion H|].
    assert (Nc : c <> 13) by (intros ->; apply N; left; reflexivity).
    assert (Ns : ~ In 13 s) by (intros X; apply N; right; exact X).
    change (esc_text false (c :: s)) with (esc_text_char false c ++ esc_text false s) in *.
    unfold esc_text_char in *.
    destruct (c =? 38) eqn:E1; [apply Z.eqb_eq in E1; subst c; cbn in H |- *; rewrite IH by (auto; lia); reflexivity|].
    destruct (c =? 60) eqn:E2; [apply Z.eqb_eq in E2; subst c; cbn in H |- *; rewrite IH by (auto; lia); reflexivity|].
    destruct (c =? 62) eqn:E3; [apply Z.eqb_eq in E3; subst c; cbn in H |- *; rewrite IH by (auto; lia); reflexivity|].
    rewrite andb_false_r in *. cbn [app] in *. cbn [read_cdata]. rewrite E1, E2.
    destruct (c =? 13) eqn:E4; [apply Z.eqb_eq in E4; contradiction|].
    cbn [andb]. cbn [length] in H. rewrite IH by (auto; lia). reflexivity.
Qed.
Lemma text_et_no_cr : forall s, ~ In 13 s -> read_text (esc_text false s) = Some s.
Proof. intros s N. unfold read_text. apply text_et_no_cr_fuel; [exact N|lia]. Qed.

Lemma attr_rt_fuel : forall pad s n, (length (esc_attr pad s) < n)%nat -> read_cdata true n (esc_attr pad s) = Some s.
Proof.
  intros pad. induction s as [|c s IH]; intros n H.
  - destruct n; [inversion H|reflexivity].
  - destruct n as [|n]; [inversion H|].
    change (esc_attr pad (c :: s)) with (esc_attr_char pad c ++ esc_attr pad s) in *.
    unfold esc_attr_char in *.
    destruct (c =? 38) eqn:E1; [apply Z.eqb_eq in E1; subst c; cbn in H |- *; rewrite IH by lia; reflexivity|].
    destruct (c =? 60) eqn:E2; [apply Z.eqb_eq in E2; subst c; cbn in H |- *; rewrite IH by lia; reflexivity|].
    destruct (c =? 62) eqn:E3; [apply Z.eqb_eq in E3; subst c; cbn in H |- *; rewrite IH by lia; reflexivity|].
    destruct (c =? 34) eqn:E4; [apply Z.eqb_eq in E4; subst c; cbn in H |- *; rewrite IH by lia; reflexivity|].
    destruct (c =? 9) eqn:E5; [apply Z.eqb_eq in E5; subst c; destruct pad; cbn in H |- *; rewrite IH by lia; reflexivity|].
    destruct (c =? 10) eqn:E6; [apply Z.eqb_eq in E6; subst c; cbn in H |- *; rewrite IH by lia; reflexivity|].
    destruct (c =? 13) eqn:E7; [apply Z.eqb_eq in E7; subst c; cbn in H |- *; rewrite IH by lia; reflexivity|].
    cbn [app] in *. cbn [read_cdata]. rewrite E1, E2, E7, E5, E6, E4. cbn [andb orb]. cbn [length] in H. rewrite IH by lia. reflexivity.
Qed.
Lemma attr_rt : forall pad s, read_attr (esc_attr pad s) = Some s.
Proof. intros pad s. unfold read_attr. apply attr_rt_fuel. lia. Qed.

(* an attribute value written without the references for tab, line feed and carriage return is read with spaces *)
Lemma attr_unescaped_whitespace : read_attr [97; 9; 98; 10; 99; 13; 10; 100] = Some [97; 32; 98; 32; 99; 32; 100].
Proof. reflexivity. Qed.
