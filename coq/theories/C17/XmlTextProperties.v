(* C17 property theorems on the XML half: the character data written by the serializers behind fn:serialize is read back
   unchanged by an XML parser - the part of "parse-xml(serialize(node)) is deep-equal to the node" that concerns the content
   of text nodes and attribute values, for every string of code points. Statements only; proofs in XmlTextProofs.v. *)
From Coq Require Import ZArith List Bool.
From EP Require Import C17.XmlText C17.XmlTextProofs.
From EP Require Gen.C17Shape.
Import ListNotations.
Open Scope Z_scope.

(* text nodes, with the carriage return written as a character reference (lxml) *)
Theorem C17_xml_text_roundtrip : forall s, read_text (esc_text true s) = Some s.
Proof. exact text_rt. Qed.
Print Assumptions C17_xml_text_roundtrip.

(* attribute values, with either form of the tab reference (lxml, xml.etree) *)
Theorem C17_xml_attribute_roundtrip : forall pad s, read_attr (esc_attr pad s) = Some s.
Proof. exact attr_rt. Qed.
Print Assumptions C17_xml_attribute_roundtrip.

(* text nodes with the carriage return written as is (xml.etree): read back as a line feed - refuted; the round trip holds
   exactly for the strings without a carriage return (the region of the known finding C17-etree-carriage-return-in-text) *)
Theorem C17_xml_text_raw_carriage_return_refuted :
  read_text (esc_text false [97; 13; 98]) = Some [97; 10; 98] /\
  (forall s, ~ In 13 s -> read_text (esc_text false s) = Some s).
Proof. split; [exact text_et_refuted|exact text_et_no_cr]. Qed.
Print Assumptions C17_xml_text_raw_carriage_return_refuted.

(* why the references are needed in attribute values: literal tabs and line ends are normalised to spaces *)
Example C17_xml_attribute_normalisation :
  read_attr [97; 9; 98; 10; 99; 13; 10; 100] = Some [97; 32; 98; 32; 99; 32; 100] /\
  read_attr (esc_attr false [97; 9; 98; 10; 99; 13; 10; 100]) = Some [97; 9; 98; 10; 99; 13; 10; 100] /\
  read_text [38; 35; 120; 49; 70; 54; 48; 48; 59; 38; 97; 112; 111; 115; 59] = Some [128512; 39] /\
  read_text [38; 35; 48; 59] = None /\ read_text [97; 60] = None.
Proof. repeat split; reflexivity. Qed.

(* the statements of /repo behind the serialization checks (serialize_to_xml drops the tail on a copy, deep_equal compares the
   element and text children exactly, escape_json_string scans escaped strings) are present in the source as read on this run *)
Theorem C17_source_shape : Gen.C17Shape.shape_ok = true.
Proof. reflexivity. Qed.
Print Assumptions C17_source_shape.
