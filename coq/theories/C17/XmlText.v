(* C17 - XML character data: the escaping done by the serializers behind fn:serialize (lxml, xml.etree) and the reading of
   character data and attribute values by an XML 1.0 parser (predefined entities, decimal and hexadecimal character
   references, end-of-line normalisation 2.11, attribute value normalisation 3.3.3), over lists of code points.
   NO proofs here. *)
From Coq Require Import ZArith List Bool.
Import ListNotations.
Open Scope Z_scope.

(* ---- serializer: text nodes and attribute values ---- *)
(* cr_ref: a carriage return is written as the character reference &#13; (lxml) or as is (xml.etree) *)
Definition esc_text_char (cr_ref : bool) (c : Z) : list Z :=
  if c =? 38 then [38; 97; 109; 112; 59]             (* &amp; *)
  else if c =? 60 then [38; 108; 116; 59]            (* &lt; *)
  else if c =? 62 then [38; 103; 116; 59]            (* &gt; *)
  else if (c =? 13) && cr_ref then [38; 35; 49; 51; 59]   (* &#13; *)
  else [c].
Definition esc_text (cr_ref : bool) (s : list Z) : list Z := flat_map (esc_text_char cr_ref) s.
(* pad: the tab is written &#09; (xml.etree) or &#9; (lxml) *)
Definition esc_attr_char (pad : bool) (c : Z) : list Z :=
  if c =? 38 then [38; 97; 109; 112; 59]
  else if c =? 60 then [38; 108; 116; 59]
  else if c =? 62 then [38; 103; 116; 59]
  else if c =? 34 then [38; 113; 117; 111; 116; 59]  (* &quot; *)
  else if c =? 9 then (if pad then [38; 35; 48; 57; 59] else [38; 35; 57; 59])
  else if c =? 10 then [38; 35; 49; 48; 59]
  else if c =? 13 then [38; 35; 49; 51; 59]
  else [c].
Definition esc_attr (pad : bool) (s : list Z) : list Z := flat_map (esc_attr_char pad) s.

(* ---- parser ---- *)
Definition digit (base c : Z) : option Z :=
  if (48 <=? c) && (c <=? 57) then Some (c - 48)
  else if (base =? 16) && (97 <=? c) && (c <=? 102) then Some (c - 87)
  else if (base =? 16) && (65 <=? c) && (c <=? 70) then Some (c - 55)
  else None.
(* digits up to the semicolon: the number and the rest *)
Fixpoint read_num (base : Z) (l : list Z) (acc : Z) (some : bool) : option (Z * list Z) :=
  match l with
  | [] => None
  | c :: r => if c =? 59 then (if some then Some (acc, r) else None)
              else match digit base c with Some d => read_num base r (acc * base + d) true | None => None end
  end.
Definition xml_char (n : Z) : bool :=
  (n =? 9) || (n =? 10) || (n =? 13) || ((32 <=? n) && (n <=? 55295)) || ((57344 <=? n) && (n <=? 65533)) ||
  ((65536 <=? n) && (n <=? 1114111)).
Fixpoint strip_prefix (p l : list Z) : option (list Z) :=
  match p, l with
  | [], _ => Some l
  | a :: p', b :: l' => if a =? b then strip_prefix p' l' else None
  | _ :: _, [] => None
  end.
(* a reference after the ampersand: the character and the rest *)
Definition read_ref (r : list Z) : option (Z * list Z) :=
  match r with
  | 35 :: r1 =>
      match r1 with
      | 120 :: r2 => match read_num 16 r2 0 false with Some (n, rest) => if xml_char n then Some (n, rest) else None | None => None end
      | _ => match read_num 10 r1 0 false with Some (n, rest) => if xml_char n then Some (n, rest) else None | None => None end
      end
  | _ =>
      match strip_prefix [97; 109; 112; 59] r with Some rest => Some (38, rest) | None =>
      match strip_prefix [108; 116; 59] r with Some rest => Some (60, rest) | None =>
      match strip_prefix [103; 116; 59] r with Some rest => Some (62, rest) | None =>
      match strip_prefix [113; 117; 111; 116; 59] r with Some rest => Some (34, rest) | None =>
      match strip_prefix [97; 112; 111; 115; 59] r with Some rest => Some (39, rest) | None => None end end end end end
  end.
(* character data (attr = false) or a double-quoted attribute value (attr = true) up to the end of the list; None: not well
   formed. Literal CR LF and CR are read as one LF (a space in attribute values, like literal tabs and line feeds);
   characters given by references are kept as they are. *)
Fixpoint read_cdata (attr : bool) (fuel : nat) (l : list Z) : option (list Z) :=
  match fuel with
  | O => None
  | S f =>
    match l with
    | [] => Some []
    | c :: r =>
      if c =? 38 then match read_ref r with Some (n, rest) => option_map (cons n) (read_cdata attr f rest) | None => None end
      else if c =? 60 then None
      else if c =? 13 then
        match r with
        | 10 :: r' => option_map (cons (if attr then 32 else 10)) (read_cdata attr f r')
        | _ => option_map (cons (if attr then 32 else 10)) (read_cdata attr f r)
        end
      else if attr && ((c =? 9) || (c =? 10)) then option_map (cons 32) (read_cdata attr f r)
      else if attr && (c =? 34) then None
      else option_map (cons c) (read_cdata attr f r)
    end
  end.
Definition read_text (l : list Z) : option (list Z) := read_cdata false (S (length l)) l.
Definition read_attr (l : list Z) : option (list Z) := read_cdata true (S (length l)) l.
