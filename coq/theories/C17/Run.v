From Coq Require Import ZArith List Bool.
From EP Require Import C10.Model C17.Model.
Import ListNotations.
Open Scope Z_scope.
(* a JSON value as a flat token list for the harness:
   null [0] | bool [1; b] | num [2; m; e] | str [3; n; c1..cn] | arr [4; n] items | obj [5; n] (str key, value)* *)
Fixpoint flat (v : json) : list Z :=
  match v with
  | JNull => [0]
  | JBool b => [1; if b then 1 else 0]
  | JNum m e => [2; m; e]
  | JStr s => 3 :: Z.of_nat (length s) :: s
  | JArr l => 4 :: Z.of_nat (length l) :: flat_map flat l
  | JObj l => 5 :: Z.of_nat (length l) :: flat_map (fun p => (3 :: Z.of_nat (length (fst p)) :: fst p) ++ flat (snd p)) l
  end.
Definition run_parse (s : str) : list Z := match parse s with Some v => 1 :: flat v | None => [0] end.
Definition run_print (v : json) : str := print v.

(* ---- XML character data (XmlText.v) ---- *)
From EP Require Import C17.XmlText.
Definition oz (o : option (list Z)) : list Z := match o with Some l => 1 :: l | None => [0] end.
Definition run_xml_esc (cr_ref pad : bool) (s : list Z) : list Z * list Z := (esc_text cr_ref s, esc_attr pad s).
Definition run_xml_read (l : list Z) : list Z * list Z := (oz (read_text l), oz (read_attr l)).
