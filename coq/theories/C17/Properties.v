(* C17 property theorems (statements only; proofs are `exact`/short compositions of Proofs.v lemmas). *)
From Coq Require Import ZArith List Bool Lia.
From EP Require Import C10.Model C17.Model C17.Proofs.
Import ListNotations.
Open Scope Z_scope.

(* the JSON codec used as the independent parser / serializer: parsing the serialization of any JSON value (any
   nesting, any strings of Unicode scalar values - quotes, backslashes, control and astral characters -, any numbers
   m * 10^e, duplicate keys kept) gives back the value *)
Theorem C17_json_roundtrip : forall v, wfj v -> parse (print v) = Some v.
Proof. exact parse_print. Qed.
Print Assumptions C17_json_roundtrip.

(* inside any context (followed by a separator or a closing bracket), with enough fuel *)
Theorem C17_json_value_roundtrip : forall fuel v rest, (height v < fuel)%nat -> wfj v -> sep rest ->
  parse_value fuel (print v ++ rest) = Some (v, rest).
Proof. exact value_roundtrip. Qed.
Print Assumptions C17_json_value_roundtrip.

(* strings: escaping then unescaping is the identity on every string of scalar values *)
Theorem C17_string_escape_roundtrip : forall s rest, Forall scalar s -> parse_string (print_string s ++ rest) = Some (s, rest).
Proof. exact string_roundtrip. Qed.
Print Assumptions C17_string_escape_roundtrip.

(* numbers: every m * 10^e written as <m>e<e> reads back as (m, e) *)
Theorem C17_number_roundtrip : forall m e rest, no_num_char rest -> parse_number (print_num m e ++ rest) = Some (JNum m e, rest).
Proof. exact number_roundtrip. Qed.
Print Assumptions C17_number_roundtrip.

Example C17_nonvacuous :
  let v := JObj [([97], JArr [JNum 1 0; JNum (-25) (-1); JStr [120; 34; 10; 128512; 92]; JNull; JBool true]); ([97], JObj [])] in
  wfj v /\ parse (print v) = Some v /\
  (* "😀" (a surrogate pair escape) and 1.5e+300 *)
  parse [91; 32; 49; 46; 53; 101; 43; 51; 48; 48; 32; 44; 34; 92; 117; 100; 56; 51; 100; 92; 117; 100; 101; 48; 48; 34; 93; 32]
    = Some (JArr [JNum 15 299; JStr [128512]]) /\
  parse [91; 49; 44; 93] = None /\ parse [34; 10; 34] = None.
Proof.
  cbn zeta. split.
  - cbn. repeat split; repeat constructor; unfold scalar; lia.
  - vm_compute. repeat split; reflexivity.
Qed.
