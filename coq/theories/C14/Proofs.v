From Coq Require Import ZArith List Bool Arith Lia.
From EP Require Import C14.Model.
Import ListNotations.

Lemma same_test_refl : forall k, same_test k k = true.
Proof. destruct k; cbn; auto; apply Z.eqb_refl. Qed.

(* the child at index i, whose position among the matching siblings is count_matching (firstn (S i)), is the
   kth_match for exactly that count *)
Lemma kth_match_found : forall l k i c off, nth_error l i = Some c -> same_test k (kind_of c) = true ->
  kth_match k l (count_matching k (firstn (S i) l)) off = Some (off + i, c).
Proof.
  induction l as [|x r IH]; intros k i c off Hn Hm; [destruct i; discriminate|].
  destruct i as [|i].
  - cbn in Hn. injection Hn as ->. cbn [firstn count_matching kth_match]. rewrite Hm. cbn.
    f_equal. f_equal. lia.
  - cbn in Hn. rewrite firstn_cons. cbn [count_matching kth_match]. specialize (IH k i c (S off) Hn Hm).
    destruct (same_test k (kind_of x)) eqn:E.
    + (* count >= 1 in the tail since c matches *)
      assert (Hpos : 1 <= count_matching k (firstn (S i) r)).
      { clear IH. revert i Hn. induction r as [|y r' IHr]; intros i Hn; [destruct i; discriminate|].
        destruct i; cbn in Hn.
        - injection Hn as ->. cbn [firstn count_matching]. rewrite Hm. lia.
        - rewrite firstn_cons. cbn [count_matching]. specialize (IHr i Hn). destruct (same_test k (kind_of y)); lia. }
      destruct (count_matching k (firstn (S i) r)) as [|n] eqn:C; [lia|].
      cbn [Nat.add]. rewrite IH. f_equal. f_equal. lia.
    + cbn [Nat.add]. rewrite IH. f_equal. f_equal. lia.
Qed.

(* the path of a node selects exactly that node *)
Lemma path_selects_self : forall ip t p, path_of t ip = Some p -> eval t p = [ip].
Proof.
  induction ip as [|i rest IH]; intros t p H; cbn [path_of] in H.
  - injection H as <-. reflexivity.
  - destruct (nth_error (children_of t) i) as [c|] eqn:N; [|discriminate].
    destruct (path_of c rest) as [q|] eqn:Q; [|discriminate]. injection H as <-.
    cbn [eval]. unfold child_position.
    rewrite (kth_match_found (children_of t) (kind_of c) i c 0 N (same_test_refl _)). cbn [Nat.add].
    rewrite (IH c q Q). reflexivity.
Qed.

(* distinct nodes have distinct paths *)
Lemma path_injective : forall t ip1 ip2 p, path_of t ip1 = Some p -> path_of t ip2 = Some p -> ip1 = ip2.
Proof.
  intros t ip1 ip2 p H1 H2. apply path_selects_self in H1. apply path_selects_self in H2.
  rewrite H1 in H2. injection H2. auto.
Qed.

(* every valid index path has a path *)
Fixpoint valid (t : rtree) (ip : list nat) : Prop :=
  match ip with [] => True | i :: rest => match nth_error (children_of t) i with Some c => valid c rest | None => False end end.
Lemma path_total : forall ip t, valid t ip -> exists p, path_of t ip = Some p.
Proof.
  induction ip as [|i rest IH]; intros t H; cbn in *; [eauto|].
  destruct (nth_error (children_of t) i) as [c|]; [|tauto]. destruct (IH c H) as (q & ->). eauto.
Qed.
