(* C14 property theorems *)
From Coq Require Import ZArith List Bool Arith.
From EP Require Import C14.Model C14.Proofs.
Import ListNotations.

(* evaluating the path of a node selects exactly that one node: every tree, every node *)
Theorem C14_path_selects_self : forall t ip, valid t ip ->
  exists p, path_of t ip = Some p /\ eval t p = [ip].
Proof. intros t ip H. destruct (path_total ip t H) as (p & Hp). exists p. split; [exact Hp|exact (path_selects_self ip t p Hp)]. Qed.
Print Assumptions C14_path_selects_self.

(* distinct nodes have distinct paths *)
Theorem C14_path_injective : forall t ip1 ip2 p, path_of t ip1 = Some p -> path_of t ip2 = Some p -> ip1 = ip2.
Proof. exact path_injective. Qed.
Print Assumptions C14_path_injective.

(* the counting rule of the code BEFORE the fix (PIs counted by class, elements against any kind with that name) is
   not a path: witness <a><?x?><?y?></a>, second PI *)
Definition same_test_old (a b : nkind) : bool :=
  match a, b with
  | KElem n, KElem m => (n =? m)%Z | KElem n, KPI m => (n =? m)%Z
  | KText, KText => true | KComment, KComment => true | KPI _, KPI _ => true | _, _ => false end.
Theorem C14_old_counting_refuted :
  let t := RNode (KElem 1) [RNode (KPI 7) []; RNode (KPI 8) []] in
  eval t [(KPI 8, 2)] = [] /\ path_of t [1%nat] = Some [(KPI 8, 1%nat)].
Proof. vm_compute. split; reflexivity. Qed.
Print Assumptions C14_old_counting_refuted.

Example C14_nonvacuous :
  let t := RNode (KElem 1) [RNode (KPI 7) []; RNode (KElem 2) [RNode KText []]; RNode KText []; RNode (KElem 2) [RNode KComment []; RNode KText []]; RNode (KPI 7) []] in
  valid t [3; 1]%nat /\ path_of t [3; 1]%nat = Some [(KElem 2, 2%nat); (KText, 1%nat)] /\ path_of t [4]%nat = Some [(KPI 7, 2%nat)].
Proof. vm_compute. repeat split; auto. Qed.
