From Coq Require Import ZArith List Bool Arith.
From EP Require Import C14.Model.
Import ListNotations.
Definition enc_kind (k : nkind) : list Z := match k with KElem n => [1; n] | KText => [4; 0] | KComment => [5; 0] | KPI n => [6; n] end%Z.
(* all nodes in document order: (index path, path steps [kind; name; position], evaluates back to) *)
Fixpoint all_paths (fuel : nat) (t : rtree) (prefix : list nat) : list (list nat) :=
  match fuel with O => [] | S f =>
    rev prefix :: flat_map (fun ic => all_paths f (snd ic) (fst ic :: prefix)) (combine (seq 0 (length (children_of t))) (children_of t)) end.
Definition run (t : rtree) (depth : nat) : list (list Z * list (list Z) * list (list Z)) :=
  map (fun ip => (map Z.of_nat ip,
                  match path_of t ip with Some p => map (fun s => enc_kind (fst s) ++ [Z.of_nat (snd s)]) p | None => [[-1]%Z] end,
                  match path_of t ip with Some p => map (map Z.of_nat) (eval t p) | None => [] end)) (all_paths depth t []).
