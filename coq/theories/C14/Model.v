(* C14 model: node paths.  XPathNode.path / fn:path / etree_iter_paths build, for a child node, the step
   test[k] where test is the node's own name/kind test and k = get_child_position = the number of siblings up to
   and including the node that match that test (xpath_nodes.py 262-277 after the fix: elements by name among
   elements, PIs by target among PIs, text and comments by kind; etree.py 152-192 keeps one counter per tag / per
   PI target / for comments).  Nodes are identified by their index path from the root.  NO proofs here. *)
From Coq Require Import ZArith List Bool Arith.
Import ListNotations.

Inductive nkind := KElem (name : Z) | KText | KComment | KPI (target : Z).
Inductive rtree := RNode (k : nkind) (children : list rtree).
Definition kind_of (t : rtree) : nkind := match t with RNode k _ => k end.
Definition children_of (t : rtree) : list rtree := match t with RNode _ c => c end.

(* the node test a path step uses for a node of this kind: Q{ns}local | text() | comment() | processing-instruction(target) *)
Definition same_test (a b : nkind) : bool :=
  match a, b with
  | KElem n, KElem m => (n =? m)%Z
  | KText, KText => true
  | KComment, KComment => true
  | KPI n, KPI m => (n =? m)%Z
  | _, _ => false
  end.

(* get_child_position: siblings matching the child's own test, up to and including the child *)
Fixpoint count_matching (k : nkind) (l : list rtree) : nat :=
  match l with [] => 0 | c :: r => (if same_test k (kind_of c) then 1 else 0) + count_matching k r end.
Definition child_position (children : list rtree) (i : nat) (k : nkind) : nat :=
  count_matching k (firstn (S i) children).

(* the path of the node reached by the index path ip: list of (test, position) steps *)
Fixpoint path_of (t : rtree) (ip : list nat) : option (list (nkind * nat)) :=
  match ip with
  | [] => Some []
  | i :: rest =>
    match nth_error (children_of t) i with
    | None => None
    | Some c => match path_of c rest with
                | None => None
                | Some p => Some ((kind_of c, child_position (children_of t) i (kind_of c)) :: p)
                end
    end
  end.

(* XPath evaluation of child::test[k] steps: the k-th child matching the test, in document order *)
Fixpoint kth_match (k : nkind) (l : list rtree) (n : nat) (offset : nat) : option (nat * rtree) :=
  match l with
  | [] => None
  | c :: r => if same_test k (kind_of c)
              then (match n with 1 => Some (offset, c) | O => None | S n' => kth_match k r n' (S offset) end)
              else kth_match k r n (S offset)
  end.
Fixpoint eval (t : rtree) (steps : list (nkind * nat)) : list (list nat) :=
  match steps with
  | [] => [[]]
  | (k, n) :: rest => match kth_match k (children_of t) n 0 with
                      | Some (i, c) => map (cons i) (eval c rest)
                      | None => []
                      end
  end.
