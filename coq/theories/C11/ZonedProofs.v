From Coq Require Import ZArith List Bool Lia.
From EP Require Import Common.PyCalendar Gen.C11Helpers C11.Model C11.Zoned.
Import ListNotations.
Open Scope Z_scope.

Lemma instant_with_implicit : forall ctx v, utc (with_implicit ctx v) = instant (imp_of ctx) v.
Proof. intros [z|] [l [t|]]; reflexivity. Qed.

Lemma cmp_values_utc : forall a b, cmp_values a b = (utc a ?= utc b).
Proof.
  intros [la [ta|]] [lb [tb|]]; unfold cmp_values, utc; cbn [tz local]; try reflexivity.
  rewrite !Z.mul_0_r, !Z.sub_0_r. reflexivity.
Qed.

Lemma cmp_impl_spec : forall ctx a b, cmp_impl ctx a b = cmp_spec (imp_of ctx) a b.
Proof. intros. unfold cmp_impl, cmp_spec. rewrite cmp_values_utc, !instant_with_implicit. reflexivity. Qed.

Lemma sub_impl_spec : forall ctx a b, sub_impl ctx a b = sub_spec (imp_of ctx) a b.
Proof. intros. unfold sub_impl, sub_spec. rewrite !instant_with_implicit. reflexivity. Qed.

Lemma cmp_sub : forall imp a b, cmp_spec imp a b = (sub_spec imp a b ?= 0).
Proof. intros. unfold cmp_spec, sub_spec. rewrite (Z.compare_sub (instant imp a)). reflexivity. Qed.

Lemma cmp_antisym : forall imp a b, cmp_spec imp b a = CompOpp (cmp_spec imp a b).
Proof. intros. unfold cmp_spec. apply Z.compare_antisym. Qed.
Lemma cmp_trans_lt : forall imp a b c, cmp_spec imp a b = Lt -> cmp_spec imp b c = Lt -> cmp_spec imp a c = Lt.
Proof. unfold cmp_spec. intros imp a b c H1 H2. rewrite Z.compare_lt_iff in *. lia. Qed.
Lemma cmp_eq_instants : forall imp a b, cmp_spec imp a b = Eq <-> instant imp a = instant imp b.
Proof. intros. unfold cmp_spec. apply Z.compare_eq_iff. Qed.

(* the old comparison disagrees with the instants as soon as the implicit timezone is not UTC *)
Lemma cmp_old_refuted : exists ctx a b, cmp_old ctx a b <> cmp_spec (imp_of ctx) a b.
Proof.
  exists (Some (-300)), {| local := 43200000000; tz := None |}, {| local := 61200000000; tz := Some 0 |}.
  vm_compute. discriminate.
Qed.
Lemma cmp_old_utc : forall ctx a b, imp_of ctx = 0 -> cmp_old ctx a b = cmp_spec (imp_of ctx) a b.
Proof.
  intros ctx a b H. unfold cmp_old, cmp_spec. rewrite cmp_values_utc, H. destruct a as [la [ta|]], b as [lb [tb|]]; reflexivity.
Qed.

Lemma adjust_instant : forall imp v z0 z, tz v = Some z0 -> instant imp (adjust v (Some z)) = instant imp v.
Proof. intros imp [l t] z0 z H. cbn in H. subst t. unfold adjust, instant; cbn [tz local]. lia. Qed.
Lemma adjust_tz : forall v z, tz (adjust v (Some z)) = Some z.
Proof. intros [l [t|]] z; reflexivity. Qed.
Lemma adjust_naive : forall v z, tz v = None -> local (adjust v (Some z)) = local v.
Proof. intros [l t] z H. cbn in H. subst t. reflexivity. Qed.
Lemma adjust_remove : forall v, adjust v None = {| local := local v; tz := None |}.
Proof. reflexivity. Qed.
(* adjusting to the implicit timezone itself never moves the instant, with or without a timezone *)
Lemma adjust_implicit : forall imp v, instant imp (adjust v (Some imp)) = instant imp v.
Proof. intros imp [l [t|]]; unfold adjust, instant; cbn [tz local]; lia. Qed.

Lemma day_floor_spec : forall t, day_floor t <= t < day_floor t + US_PER_DAY /\ (day_floor t) mod US_PER_DAY = 0.
Proof.
  intros t. unfold day_floor, US_PER_DAY. split; [|apply Z.mod_mul; lia].
  pose proof (Z.div_mod t 86400000000 ltac:(lia)). pose proof (Z.mod_pos_bound t 86400000000 ltac:(lia)). lia.
Qed.

Lemma extreme_in : forall mx imp l best, In (extreme mx imp best l) (best :: l).
Proof.
  intros mx imp. induction l as [|x r IH]; intros best; cbn [extreme]; [left; reflexivity|].
  specialize (IH (if (if mx then instant imp best <? instant imp x else instant imp x <? instant imp best) then x else best)).
  destruct IH as [H|H]; [|right; right; exact H].
  destruct (if mx then instant imp best <? instant imp x else instant imp x <? instant imp best); [right; left|left]; exact H.
Qed.
Lemma extreme_max : forall imp l best x, In x (best :: l) -> instant imp x <= instant imp (extreme true imp best l).
Proof.
  intros imp. induction l as [|y r IH]; intros best x H; cbn [extreme].
  - destruct H as [<-|[]]. lia.
  - destruct (instant imp best <? instant imp y) eqn:E.
    + apply Z.ltb_lt in E. destruct H as [<-|[<-|H]].
      * specialize (IH y y (or_introl eq_refl)). lia.
      * apply IH. left. reflexivity.
      * apply IH. right. exact H.
    + apply Z.ltb_ge in E. destruct H as [<-|[<-|H]].
      * apply IH. left. reflexivity.
      * specialize (IH best best (or_introl eq_refl)). lia.
      * apply IH. right. exact H.
Qed.
Lemma extreme_min : forall imp l best x, In x (best :: l) -> instant imp (extreme false imp best l) <= instant imp x.
Proof.
  intros imp. induction l as [|y r IH]; intros best x H; cbn [extreme].
  - destruct H as [<-|[]]. lia.
  - destruct (instant imp y <? instant imp best) eqn:E.
    + apply Z.ltb_lt in E. destruct H as [<-|[<-|H]].
      * specialize (IH y y (or_introl eq_refl)). lia.
      * apply IH. left. reflexivity.
      * apply IH. right. exact H.
    + apply Z.ltb_ge in E. destruct H as [<-|[<-|H]].
      * apply IH. left. reflexivity.
      * specialize (IH best best (or_introl eq_refl)). lia.
      * apply IH. right. exact H.
Qed.
