(* C11 - date/time values with an optional timezone: comparison, subtraction, timezone adjustment and the implicit
   timezone of the dynamic context, over the timeline of C11.Model (local = to_micros of the value's own fields).
   The code side: XPathToken.with_implicit_timezone + AbstractDateTime._compare / _operation
   (datatypes/datetime.py), adjust_datetime_to_timezone (xpath_tokens/base.py).  NO proofs here. *)
From Coq Require Import ZArith List Bool.
From EP Require Import Common.PyCalendar Gen.C11Helpers C11.Model.
Import ListNotations.
Open Scope Z_scope.

Definition US_PER_MIN : Z := 60000000.
(* local: microseconds of the value's own fields on the proleptic timeline; tz: the offset in minutes, if any *)
Record zoned := { local : Z; tz : option Z }.

(* ---- specification: the instant of a value, given the implicit timezone (minutes) ---- *)
Definition instant (imp : Z) (v : zoned) : Z :=
  local v - US_PER_MIN * (match tz v with Some z => z | None => imp end).
(* op:dateTime-equal / -less-than ... : the order of the instants *)
Definition cmp_spec (imp : Z) (a b : zoned) : comparison := instant imp a ?= instant imp b.
(* op:subtract-dateTimes: the elapsed time *)
Definition sub_spec (imp : Z) (a b : zoned) : Z := instant imp a - instant imp b.

(* ---- the code ---- *)
(* the dynamic context has an implicit timezone or none (then values without timezone are taken as UTC) *)
Definition imp_of (ctx : option Z) : Z := match ctx with Some z => z | None => 0 end.
(* XPathToken.with_implicit_timezone: a copy of the value with the timezone of the context *)
Definition with_implicit (ctx : option Z) (v : zoned) : zoned :=
  match tz v, ctx with None, Some z => {| local := local v; tz := Some z |} | _, _ => v end.
(* AbstractDateTime._compare: same tzinfo (both absent): the fields are compared; one absent: it is replaced by UTC;
   years outside 1-9999: todelta() of both (the UTC offsets from 0001-01-01) *)
Definition utc (v : zoned) : Z := local v - US_PER_MIN * (match tz v with Some z => z | None => 0 end).
Definition cmp_values (a b : zoned) : comparison :=
  match tz a, tz b with
  | None, None => local a ?= local b
  | _, _ => utc a ?= utc b
  end.
Definition cmp_impl (ctx : option Z) (a b : zoned) : comparison := cmp_values (with_implicit ctx a) (with_implicit ctx b).
(* before the repair the operands of a comparison were not given the implicit timezone *)
Definition cmp_old (ctx : option Z) (a b : zoned) : comparison := cmp_values a b.
(* the minus operator: get_operands sets the implicit timezone, then the difference of the UTC offsets *)
Definition sub_impl (ctx : option Z) (a b : zoned) : Z := utc (with_implicit ctx a) - utc (with_implicit ctx b).

(* fn:adjust-dateTime-to-timezone($v, $tz): a value with timezone is moved to the new one (same instant), a value
   without timezone gets it (same fields); with the empty sequence the timezone is removed (same fields) *)
Definition adjust (v : zoned) (target : option Z) : zoned :=
  match target with
  | None => {| local := local v; tz := None |}
  | Some z => match tz v with
              | None => {| local := local v; tz := Some z |}
              | Some z0 => {| local := local v + US_PER_MIN * (z - z0); tz := Some z |}
              end
  end.
(* fn:adjust-date-to-timezone: the date (00:00:00) is adjusted as a dateTime and the time part is dropped *)
Definition day_floor (t : Z) : Z := (t / US_PER_DAY) * US_PER_DAY.
Definition adjust_date (v : zoned) (target : option Z) : zoned :=
  let r := adjust v target in {| local := day_floor (local r); tz := tz r |}.
(* xs:time values live on one day: the adjusted time of day *)
Definition adjust_time (v : zoned) (target : option Z) : zoned :=
  let r := adjust v target in {| local := (local r) mod US_PER_DAY; tz := tz r |}.

(* fn:min / fn:max over values of one type: the first item with the extreme instant *)
Fixpoint extreme (mx : bool) (imp : Z) (best : zoned) (l : list zoned) : zoned :=
  match l with
  | [] => best
  | x :: r =>
    let better := if mx then (instant imp best <? instant imp x) else (instant imp x <? instant imp best) in
    extreme mx imp (if better then x else best) r
  end.
